//! control: a correct client of the same API must be ACCEPTED (so that rejections mean something)
#![forbid(unsafe_code)]
use desert::DeserializationContext;

fn main() {
    let data = vec![1u8];
    let x = 5u32;
    let mut ctx = DeserializationContext::new(&data);
    ctx.state_mut().store_ref(&x);
    let r = ctx.try_read_ref().unwrap().unwrap();
    println!("{:?}", r.downcast_ref::<u32>());
}
