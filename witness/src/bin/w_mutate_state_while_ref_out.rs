//! must be REJECTED: the table cannot be mutated while a reference handed out by it is alive
#![forbid(unsafe_code)]
use desert::DeserializationContext;

fn main() {
    let data = vec![1u8];
    let x = 5u32;
    let y = 6u32;
    let mut ctx = DeserializationContext::new(&data);
    ctx.state_mut().store_ref(&x);
    let r = ctx.try_read_ref().unwrap().unwrap();
    ctx.state_mut().store_ref(&y);
    println!("{:?}", r.type_id());
}
