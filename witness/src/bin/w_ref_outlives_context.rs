//! must be REJECTED: the reference obtained from try_read_ref cannot outlive the context
#![forbid(unsafe_code)]
use desert::DeserializationContext;

fn main() {
    let kept: &dyn std::any::Any;
    let x = 5u32;
    {
        let data = vec![1u8];
        let mut ctx = DeserializationContext::new(&data);
        ctx.state_mut().store_ref(&x);
        kept = ctx.try_read_ref().unwrap().unwrap();
    }
    println!("{:?}", kept.type_id());
}
