//! must be REJECTED: bytes borrowed from a source cannot outlive the buffer
#![forbid(unsafe_code)]
use desert::{BinaryInput, SliceInput};

fn main() {
    let kept: &[u8];
    {
        let data = vec![1u8, 2, 3];
        let mut input = SliceInput::new(&data);
        kept = input.read_bytes(2).unwrap();
    }
    println!("{:?}", kept);
}
