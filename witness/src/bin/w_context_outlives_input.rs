//! must be REJECTED: a DeserializationContext cannot outlive the buffer it reads
#![forbid(unsafe_code)]
use desert::{BinaryInput, DeserializationContext};

fn main() {
    let mut ctx;
    {
        let data = vec![1u8, 2, 3];
        ctx = DeserializationContext::new(&data);
    }
    println!("{:?}", ctx.read_u8().is_ok());
}
