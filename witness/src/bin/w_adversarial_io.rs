//! run-time witness: a client that implements the public `BinaryInput` trait in safe Rust may return
//! fewer (or more) bytes from `read_bytes` than were asked for. Every provided method of the trait
//! must then answer with an error (or build its value from the returned bytes only): a value made of
//! more bytes than the client handed over was read from memory outside the buffers the library was
//! given. One line per probe: `<method> <asked> <given> <err|ok:<hex of value>>`.
#![forbid(unsafe_code)]
use desert::{BinaryInput, Error};

/// hands out `give` bytes whatever `count` says; the bytes sit in the middle of a canary-filled block
struct Odd {
    block: Vec<u8>,
    give: usize,
}

impl BinaryInput for Odd {
    fn read_u8(&mut self) -> Result<u8, Error> {
        Err(Error::InputEndedUnexpectedly)
    }
    fn read_bytes(&mut self, _count: usize) -> Result<&[u8], Error> {
        Ok(&self.block[64..64 + self.give])
    }
    fn skip(&mut self, _count: usize) -> Result<(), Error> {
        Ok(())
    }
}

fn show<T: std::fmt::Debug>(r: Result<T, Error>) -> String {
    match r {
        Ok(v) => format!("ok:{:?}", v),
        Err(_) => "err".to_string(),
    }
}

fn main() {
    for give in [0usize, 1, 2, 3, 5, 7, 9, 15, 17, 33] {
        let mk = || Odd { block: vec![0xA5; 192], give };
        let probes: Vec<(&str, usize, String)> = vec![
            ("read_u16", 2, show(mk().read_u16())),
            ("read_i16", 2, show(mk().read_i16())),
            ("read_u32", 4, show(mk().read_u32())),
            ("read_i32", 4, show(mk().read_i32())),
            ("read_u64", 8, show(mk().read_u64())),
            ("read_i64", 8, show(mk().read_i64())),
            ("read_u128", 16, show(mk().read_u128())),
            ("read_i128", 16, show(mk().read_i128())),
            ("read_f32", 4, show(mk().read_f32().map(|f| f.to_bits()))),
            ("read_f64", 8, show(mk().read_f64().map(|f| f.to_bits()))),
        ];
        for (name, asked, res) in probes {
            println!("{name} {asked} {give} {res}");
        }
    }
}
