//! KNOWN FINDING F15: this program contains no unsafe code, yet reads an object whose lifetime has
//! ended. It MUST be rejected by the compiler for C19 to hold; it is accepted.
#![forbid(unsafe_code)]
use desert::DeserializationContext;

fn main() {
    let data = [1u8];
    let mut ctx = DeserializationContext::new(&data);
    {
        let gone = String::from("this string is dropped at the end of this block");
        ctx.state_mut().store_ref(&gone);
    }
    let r = ctx.try_read_ref().unwrap().unwrap();
    let s: &String = r.downcast_ref().unwrap();
    println!("{}", s.len());
}
