//! the per-stream object table holds raw pointers to client objects (possibly `Rc`, `RefCell`): a context that
//! could be sent to another thread would let safe code race on them. Requiring `Send` must be REJECTED.
#![forbid(unsafe_code)]
use desert::{DeserializationContext, SerializationContext};

fn assert_send<T: Send>() {}

fn main() {
    assert_send::<DeserializationContext<'static>>();
    assert_send::<SerializationContext<Vec<u8>>>();
}
