(* driver.ml — runs the extracted Coq model on the same case files as the Rust harness and
   prints the same canonical observation lines.  Parsing/printing glue only: every
   computed value comes from functions of model.ml (extracted from coq/). *)
open Model

(* ---------- numbers ---------- *)
let rec pos_of_int i =
  if i = 1 then XH
  else if i land 1 = 0 then XO (pos_of_int (i lsr 1))
  else XI (pos_of_int (i lsr 1))
let n_of_int i = if i = 0 then N0 else Npos (pos_of_int i)
let rec int_of_pos = function XH -> 1 | XO p -> 2 * int_of_pos p | XI p -> 2 * int_of_pos p + 1
let int_of_n = function N0 -> 0 | Npos p -> int_of_pos p
let z_of_int i = if i = 0 then Z0 else if i > 0 then Zpos (pos_of_int i) else Zneg (pos_of_int (-i))
let int_of_z = function Z0 -> 0 | Zpos p -> int_of_pos p | Zneg p -> - (int_of_pos p)

let n10 = n_of_int 10
let n1e9 = n_of_int 1_000_000_000
(* decimal strings of any size *)
let n_of_string (s : string) : n =
  if String.length s <= 17 then n_of_int (int_of_string s)
  else begin
    let acc = ref N0 in
    String.iter (fun c -> acc := N.add (N.mul !acc n10) (n_of_int (Char.code c - 48))) s;
    !acc
  end
let rec n_fits_int = function
  | N0 -> true
  | Npos p -> let rec len = function XH -> 1 | XO q | XI q -> 1 + len q in len p <= 61
let rec string_of_n (v : n) : string =
  if n_fits_int v then string_of_int (int_of_n v)
  else
    let q = N.div v n1e9 and r = N.modulo v n1e9 in
    string_of_n q ^ Printf.sprintf "%09d" (int_of_n r)
let z_of_string (s : string) : z =
  if String.length s > 0 && s.[0] = '-' then
    (match n_of_string (String.sub s 1 (String.length s - 1)) with N0 -> Z0 | Npos p -> Zneg p)
  else (match n_of_string s with N0 -> Z0 | Npos p -> Zpos p)
let string_of_z = function
  | Z0 -> "0"
  | Zpos p -> string_of_n (Npos p)
  | Zneg p -> "-" ^ string_of_n (Npos p)

(* ---------- bytes ---------- *)
let hex (bs : n list) : string =
  if bs = [] then "-"
  else String.concat "" (List.map (fun b -> Printf.sprintf "%02x" (int_of_n b)) bs)
let unhex (s : string) : n list =
  if s = "-" then []
  else List.init (String.length s / 2) (fun i -> n_of_int (int_of_string ("0x" ^ String.sub s (2 * i) 2)))

let split_ws s = List.filter (fun x -> x <> "") (String.split_on_char ' ' (String.trim s))

let with_lines path (f : string -> unit) =
  let ic = open_in path in
  (try
     while true do
       let l = input_line ic in
       if String.trim l <> "" then f l
     done
   with End_of_file -> ());
  close_in ic

(* ---------- C11 ---------- *)
let opt_str to_s = function
  | Ok (v, _) -> "Some(" ^ to_s v ^ ")"
  | _ -> "None"

(* how many bytes a source still yields *)
let drain (r : 's reader) (s : 's) : int =
  let rec go s k = match r.r_u8 s with Ok (_, s') -> go s' (k + 1) | _ -> k in
  go s 0
let rest_of r = function Ok (_, s) -> drain r s | _ -> -1

let varint_line (t : string list) : string =
  match t with
  | ["u"; v; extra] ->
      let v = n_of_string v and extra = unhex extra in
      let b1 = run_oops vec_sink [OVarU32 v] [] in
      let b2 = run_oops bytesmut_sink [OVarU32 v] [] in
      let sz = run_oops size_sink [OVarU32 v] N0 in
      let data = b1 @ extra in
      let r1 = read_var_u32 slice_reader { si_data = data; si_pos = N0 } in
      let r2 = read_var_u32 owned_reader { oi_data = data; oi_pos = N0 } in
      let r3 = read_var_u32 ctx_reader (rctx_new data) in
      let rest1 = (match r1 with Ok (_, s) -> List.length data - int_of_n s.si_pos | _ -> List.length data) in
      Printf.sprintf "%s %s %s %s %d %s %d %s %d" (hex b1) (hex b2) (string_of_n sz)
        (opt_str string_of_n r1) rest1
        (opt_str string_of_n r2) (rest_of owned_reader r2)
        (opt_str string_of_n r3) (rest_of ctx_reader r3)
  | ["i"; v; extra] ->
      let v = z_of_string v and extra = unhex extra in
      let b1 = run_oops vec_sink [OVarI32 v] [] in
      let b2 = run_oops bytesmut_sink [OVarI32 v] [] in
      let sz = run_oops size_sink [OVarI32 v] N0 in
      let data = b1 @ extra in
      let r1 = read_var_i32 slice_reader { si_data = data; si_pos = N0 } in
      let r2 = read_var_i32 owned_reader { oi_data = data; oi_pos = N0 } in
      let r3 = read_var_i32 ctx_reader (rctx_new data) in
      let rest1 = (match r1 with Ok (_, s) -> List.length data - int_of_n s.si_pos | _ -> List.length data) in
      Printf.sprintf "%s %s %s %s %d %s %d %s %d" (hex b1) (hex b2) (string_of_n sz)
        (opt_str string_of_z r1) rest1
        (opt_str string_of_z r2) (rest_of owned_reader r2)
        (opt_str string_of_z r3) (rest_of ctx_reader r3)
  | ["r"; data] ->
      let data = unhex data in
      let len = List.length data in
      let rs f = function Ok (_, s) -> string_of_int (f s) | _ -> "x" in
      let part_u () =
        let r1 = read_var_u32 slice_reader { si_data = data; si_pos = N0 }
        and r2 = read_var_u32 owned_reader { oi_data = data; oi_pos = N0 }
        and r3 = read_var_u32 ctx_reader (rctx_new data) in
        Printf.sprintf "%s %s %s %s %s %s"
          (opt_str string_of_n r1) (rs (fun s -> len - int_of_n s.si_pos) r1)
          (opt_str string_of_n r2) (rs (drain owned_reader) r2)
          (opt_str string_of_n r3) (rs (drain ctx_reader) r3) in
      let part_i () =
        let r1 = read_var_i32 slice_reader { si_data = data; si_pos = N0 }
        and r2 = read_var_i32 owned_reader { oi_data = data; oi_pos = N0 }
        and r3 = read_var_i32 ctx_reader (rctx_new data) in
        Printf.sprintf "%s %s %s %s %s %s"
          (opt_str string_of_z r1) (rs (fun s -> len - int_of_n s.si_pos) r1)
          (opt_str string_of_z r2) (rs (drain owned_reader) r2)
          (opt_str string_of_z r3) (rs (drain ctx_reader) r3) in
      part_u () ^ " " ^ part_i ()
  | _ -> failwith "bad varint case"

let varint_cases path = with_lines path (fun l -> print_endline (varint_line (split_ws l)))


(* ---------- s-expressions ---------- *)
type sx = Atom of string | List of sx list

let parse_all (s : string) : sx list =
  let n = String.length s in
  let i = ref 0 in
  let is_ws c = c = ' ' || c = '\t' || c = '\n' || c = '\r' in
  let rec skip () = if !i < n && is_ws s.[!i] then (incr i; skip ()) in
  let rec one () : sx =
    skip ();
    if s.[!i] = '(' then begin
      incr i;
      let items = ref [] in
      let rec loop () =
        skip ();
        if !i >= n then failwith "unterminated list";
        if s.[!i] = ')' then incr i
        else (items := one () :: !items; loop ()) in
      loop ();
      List (List.rev !items)
    end else begin
      let st = !i in
      while !i < n && not (is_ws s.[!i]) && s.[!i] <> '(' && s.[!i] <> ')' do incr i done;
      Atom (String.sub s st (!i - st))
    end in
  let out = ref [] in
  let rec top () = skip (); if !i < n then (out := one () :: !out; top ()) in
  top ();
  List.rev !out

let atom = function Atom a -> a | List _ -> failwith "expected atom"
let lst = function List l -> l | Atom a -> failwith ("expected list, got " ^ a)

(* ---------- types, values, declarations ---------- *)
let prim_of_string = function
  | "u8" -> PU8 | "i8" -> PI8 | "u16" -> PU16 | "i16" -> PI16 | "u32" -> PU32 | "i32" -> PI32
  | "u64" -> PU64 | "i64" -> PI64 | "u128" -> PU128 | "i128" -> PI128 | "f32" -> PF32 | "f64" -> PF64
  | "bool" -> PBool | "unit" -> PUnit | "char" -> PChar | "str" -> PString | "dstr" -> PDedupString
  | "dur" -> PDuration | "bytes" -> PBytes | "uuid" -> PUuid | "bigint" -> PBigInt
  | "bigdec" -> PBigDecimal | "weekday" -> PWeekday | "month" -> PMonth | "fixedoffset" -> PFixedOffset
  | "tz" -> PTz | "dt_utc" -> PDateTimeUtc | "ndate" -> PNaiveDate | "ntime" -> PNaiveTime
  | "ndt" -> PNaiveDateTime | "dt_local" -> PDateTimeLocal | "dt_fixed" -> PDateTimeFixed | "dt_tz" -> PDateTimeTz
  | "varu32" -> PVarU32 | "vari32" -> PVarI32
  | p -> failwith ("bad prim " ^ p)

let rec ty_of_sx (s : sx) : ty =
  match s with
  | Atom "phantom" -> TPhantom
  | Atom a -> TPrim (prim_of_string a)
  | List (Atom h :: r) ->
      (match h, r with
       | "opt", [t] -> TOption (ty_of_sx t)
       | "res", [a; b] -> TResult (ty_of_sx a, ty_of_sx b)
       | "tup", ts -> TTuple (List.map ty_of_sx ts)
       | "vec", [t] -> TSeq (KVec, ty_of_sx t)
       | "slice", [t] -> TSeq (KSlice, ty_of_sx t)
       | "ll", [t] -> TSeq (KLinkedList, ty_of_sx t)
       | "hset", [t] -> TSeq (KHashSet, ty_of_sx t)
       | "bset", [t] -> TSeq (KBTreeSet, ty_of_sx t)
       | "arr", [Atom n; t] -> TSeq (KArray (n_of_string n), ty_of_sx t)
       | "hmap", [a; b] -> TMap (KHashMap, ty_of_sx a, ty_of_sx b)
       | "bmap", [a; b] -> TMap (KBTreeMap, ty_of_sx a, ty_of_sx b)
       | "box", [t] -> TWrap (KBox, ty_of_sx t)
       | "rc", [t] -> TWrap (KRc, ty_of_sx t)
       | "arc", [t] -> TWrap (KArc, ty_of_sx t)
       | "ref", [t] -> TWrap (KRef, ty_of_sx t)
       | "named", [Atom n] -> TNamed (n_of_string n)
       | _ -> failwith ("bad type " ^ h))
  | _ -> failwith "bad type"

let rec val_of_sx (s : sx) : val0 =
  match s with
  | Atom a ->
      let body = String.sub a 1 (String.length a - 1) in
      (match a.[0] with
       | 'n' -> VN (n_of_string body)
       | 'z' -> VZ (z_of_string body)
       | 'b' -> VB (unhex body)
       | _ -> failwith ("bad value " ^ a))
  | List (Atom t :: r) -> VNode (n_of_string t, List.map val_of_sx r)
  | _ -> failwith "bad value"

let name_of_hex h = unhex h

let rmeta_of_sx (fields : sx) (steps : sx) : rmeta =
  { r_fields = List.map (fun f ->
        match lst f with
        | [_; Atom nm; t; Atom o; tr] ->
            { f_name = name_of_hex nm; f_ty = ty_of_sx t; f_opt = (o = "1");
              f_transient = (if tr = Atom "-" then None else Some (val_of_sx tr)) }
        | _ -> failwith "bad field") (lst fields);
    r_steps = List.map (fun st ->
        match lst st with
        | [Atom "add"; Atom nm; d] -> SAdded (name_of_hex nm, val_of_sx d)
        | [Atom "opt"; Atom nm] -> SMadeOptional (name_of_hex nm)
        | [Atom "rem"; Atom nm] -> SRemoved (name_of_hex nm)
        | [Atom "tra"; Atom nm] -> SMadeTransient (name_of_hex nm)
        | _ -> failwith "bad step") (lst steps) }

let env_of_sx (s : sx) : env =
  match s with
  | Atom _ -> []
  | List (_ :: ds) ->
      List.map (fun d ->
          match lst d with
          | [Atom "rec"; Atom nm; fs; ss] -> { d_name = name_of_hex nm; d_body = DRecord (rmeta_of_sx fs ss) }
          | [Atom "enum"; Atom nm; Atom sorted; List vs] ->
              { d_name = name_of_hex nm;
                d_body = DEnum { e_sorted = (sorted = "1");
                                 e_variants = List.map (fun v ->
                                     match lst v with
                                     | [_; Atom vn; Atom tr; fs; ss] ->
                                         { v_name = name_of_hex vn; v_transient = (tr = "1"); v_rec = rmeta_of_sx fs ss }
                                     | _ -> failwith "bad variant") vs } }
          | _ -> failwith "bad decl") ds
  | List [] -> []

(* type-directed printer; `canonical` sorts the elements of sets and maps by their text *)
let rec print_val (e : env) (canonical : bool) (t : ty) (v : val0) : string =
  let join tag parts =
    if parts = [] then "(" ^ string_of_n tag ^ ")"
    else "(" ^ string_of_n tag ^ " " ^ String.concat " " parts ^ ")" in
  let sorted xs = if canonical then List.sort compare xs else xs in
  let raw v = print_raw v in
  match t, v with
  | _, VN n -> "n" ^ string_of_n n
  | _, VZ z -> "z" ^ string_of_z z
  | _, VB bs -> "b" ^ hex bs
  | TOption t', VNode (tag, [x]) -> join tag [print_val e canonical t' x]
  | TResult (r, er), VNode (tag, [x]) ->
      join tag [print_val e canonical (if tag = N0 then er else r) x]
  | TTuple ts, VNode (tag, vs) when List.length ts = List.length vs ->
      join tag (List.map2 (print_val e canonical) ts vs)
  | TSeq (k, t'), VNode (tag, vs) ->
      let parts = List.map (print_val e canonical t') vs in
      join tag (match k with KHashSet | KBTreeSet -> sorted parts | _ -> parts)
  | TMap (_, kt, vt), VNode (tag, vs) ->
      join tag (sorted (List.map (print_val e canonical (TTuple [kt; vt])) vs))
  | TWrap (_, t'), _ -> print_val e canonical t' v
  | TNamed n, VNode (tag, vs) ->
      (match lookup_decl e n with
       | Some { d_body = DRecord m; _ } when List.length m.r_fields = List.length vs ->
           join tag (List.map2 (fun f x -> print_val e canonical f.f_ty x) m.r_fields vs)
       | Some { d_body = DEnum m; _ } ->
           (match List.nth_opt m.e_variants (int_of_n tag) with
            | Some var when List.length var.v_rec.r_fields = List.length vs ->
                join tag (List.map2 (fun f x -> print_val e canonical f.f_ty x) var.v_rec.r_fields vs)
            | _ -> raw v)
       | _ -> raw v)
  | _, _ -> raw v
and print_raw (v : val0) : string =
  match v with
  | VN n -> "n" ^ string_of_n n
  | VZ z -> "z" ^ string_of_z z
  | VB bs -> "b" ^ hex bs
  | VNode (tag, []) -> "(" ^ string_of_n tag ^ ")"
  | VNode (tag, vs) -> "(" ^ string_of_n tag ^ " " ^ String.concat " " (List.map print_raw vs) ^ ")"

let rec nat_of_int i = if i <= 0 then O else S (nat_of_int (i - 1))

let rec val_size (v : val0) : int =
  match v with VNode (_, vs) -> List.fold_left (fun a x -> a + val_size x) 1 vs | _ -> 1

(* nesting of a type expression: wrappers (Box, Option, ...) cost fuel without adding to the value's size *)
let rec ty_depth (t : ty) : int =
  match t with
  | TPrim _ | TPhantom | TNamed _ -> 1
  | TOption t | TWrap (_, t) | TSeq (_, t) -> 1 + ty_depth t
  | TResult (a, b) | TMap (_, a, b) -> 2 + max (ty_depth a) (ty_depth b)
  | TTuple ts -> 1 + List.fold_left (fun a x -> max a (ty_depth x)) 0 ts

let err_class (e : err) : string =
  match e with
  | EUnsupportedCharacter -> "UnsupportedCharacter"
  | EFailedToDecodeCharacter -> "FailedToDecodeCharacter"
  | ELengthTooLarge -> "LengthTooLarge"
  | EInvalidTimeZone -> "InvalidTimeZone"
  | EInputEnded -> "InputEnded"
  | ECompressionFailure -> "CompressionFailure"
  | EDecompressionFailure -> "DecompressionFailure"
  | EFailedToDecodeString -> "FailedToDecodeString"
  | EInvalidStringId id -> "InvalidStringId(" ^ string_of_z id ^ ")"
  | EDeserializationFailure -> "DeserializationFailure"
  | EUnknownFieldRef n -> "UnknownFieldRef(" ^ hex n ^ ")"
  | EInvalidConstructorName -> "InvalidConstructorName"
  | ENonExistingChunk -> "NonExistingChunk"
  | EFieldRemoved n -> "FieldRemoved(" ^ hex n ^ ")"
  | EFieldMissing n -> "FieldMissing(" ^ hex n ^ ")"
  | ENonOptionalNone n -> "NonOptionalNone(" ^ hex n ^ ")"
  | EInvalidRefId id -> "InvalidRefId(" ^ string_of_n id ^ ")"
  | EInvalidConstructorId (id, t) -> "InvalidConstructorId(" ^ string_of_n id ^ "," ^ hex t ^ ")"
  | EDeTransientCtor (c, t) -> "DeTransientCtor(" ^ hex c ^ "," ^ hex t ^ ")"
  | ESerTransientCtor (c, t) -> "SerTransientCtor(" ^ hex c ^ "," ^ hex t ^ ")"
  | EIllTyped -> "IllTyped"

let pkind_str = function
  | POverflow -> "overflow" | PIndex -> "index" | PUnwrap -> "unwrap" | PUnreachable -> "unreachable"
  | PAssert -> "assert" | PLibrary -> "library"

let cur_env : env ref = ref []
let reader_env : env option ref = ref None

let enc_model (t : ty) (v : val0) : string * n list option =
  let fuel = nat_of_int (64 + 2 * val_size v + ty_depth t) in
  match enc fuel !cur_env t v [] with
  | Ok (b, _) -> ("ok " ^ hex b ^ " " ^ print_val !cur_env false t v, Some b)
  | Err e -> ("err " ^ err_class e, None)
  | Panic p -> ("panic " ^ pkind_str p, None)
  | Fuel -> ("fuel", None)

(* both layers on every case: A (lists) and B (cursor + region stack) must agree *)
let rec dec_model ?(extra = 0) ?(big = false) (t : ty) (bs : n list) : string =
  let len = List.length bs in
  (* sequences of zero-width elements need as much fuel as their count says (TermProofs): retry once with a
     fuel of 2^22 before reporting `fuel` *)
  let fuel = nat_of_int (if big then 4194304 else 64 + 2 * len + extra + ty_depth t) in
  let a = match decodeA fuel !cur_env t bs [] with
    | Ok ((v, rest), _) -> "ok " ^ print_val !cur_env true t v ^ " " ^ string_of_int (List.length rest)
    | Err e -> "err " ^ err_class e
    | Panic p -> "panic " ^ pkind_str p
    | Fuel -> "fuel" in
  if len > 4096 then (if a = "fuel" && not big then dec_model ~extra ~big:true t bs else a) else begin
    let b = match decodeB fuel !cur_env t bs [] with
      | Ok ((v, rest), _) -> "ok " ^ print_val !cur_env true t v ^ " " ^ string_of_n rest
      | Err e -> "err " ^ err_class e
      | Panic p -> "panic " ^ pkind_str p
      | Fuel -> "fuel" in
    if a = "fuel" && b = "fuel" && not big then dec_model ~extra ~big:true t bs
    else if a = b then a else "LAYERS-DISAGREE A: " ^ a ^ " B: " ^ b
  end

let codec_line (l : string) : string =
  let sp = try String.index l ' ' with Not_found -> String.length l in
  let cmd = String.sub l 0 sp in
  let rest = String.sub l sp (String.length l - sp) in
  let sx = parse_all rest in
  match cmd, sx with
  | "E", [e] -> cur_env := env_of_sx e; reader_env := None; "env"
  | "E2", [e] -> reader_env := Some (env_of_sx e); "env"
  | "xrt", [tw; v; tr; Atom sfx] ->
      (* encode with the writer's environment and type, decode with the reader's *)
      let tw = ty_of_sx tw and tr = ty_of_sx tr in
      let v = val_of_sx v in
      let wenv = !cur_env in
      let res =
        (match enc_model tw v with
         | (l, None) -> l ^ " ; -"
         | (l, Some b) ->
             (match !reader_env with Some e -> cur_env := e | None -> ());
             let d = dec_model ~extra:(2 * val_size v + 64) tr (b @ unhex sfx) in
             l ^ " ; " ^ d) in
      cur_env := wenv; res
  | "enc", [t; v] -> fst (enc_model (ty_of_sx t) (val_of_sx v))
  | ("encu" | "encit"), [t; v] ->
      (* every sequence / map in the unknown-length form *)
      let t = ty_of_sx t and v = val_of_sx v in
      (match enc_u (nat_of_int (64 + 2 * val_size v)) !cur_env t v [] with
       | Ok (b, _) -> "ok " ^ hex b
       | Err e -> "err " ^ err_class e
       | Panic p -> "panic " ^ pkind_str p
       | Fuel -> "fuel")
  | "urt", [t; v; Atom sfx] ->
      let t = ty_of_sx t and v = val_of_sx v in
      (match enc_u (nat_of_int (64 + 2 * val_size v)) !cur_env t v [] with
       | Ok (b, _) -> "ok " ^ hex b ^ " ; " ^ dec_model ~extra:(4 * val_size v + 64) t (b @ unhex sfx)
       | Err e -> "err " ^ err_class e ^ " ; -"
       | Panic p -> "panic " ^ pkind_str p ^ " ; -"
       | Fuel -> "fuel ; -")
  | "dec", [t; Atom h] -> dec_model (ty_of_sx t) (unhex h)
  | "reenc", [t; Atom h] ->
      (* decode (reference decoder), then encode the decoded value as it stands (sets and maps in the
         order of the input): `<dec result> ;; ok HEX` *)
      let t = ty_of_sx t and bs = unhex h in
      let fuel = nat_of_int (64 + 4 * List.length bs) in
      (match decodeA fuel !cur_env t bs [] with
       | Ok ((v, rest), _) ->
           let d = "ok " ^ print_val !cur_env true t v ^ " " ^ string_of_int (List.length rest) in
           (match enc fuel !cur_env t v [] with
            | Ok (b, _) -> d ^ " ;; ok " ^ hex b
            | Err e -> d ^ " ;; err " ^ err_class e
            | Panic p -> d ^ " ;; panic " ^ pkind_str p
            | Fuel -> d ^ " ;; fuel")
       | Err e -> "err " ^ err_class e ^ " ;; -"
       | Panic p -> "panic " ^ pkind_str p ^ " ;; -"
       | Fuel -> "fuel ;; -")
  | "rt", [t; v; Atom sfx] ->
      let t = ty_of_sx t in
      let v = val_of_sx v in
      (match enc_model t v with
       | (l, None) -> l ^ " ; -"
       | (l, Some b) -> l ^ " ; " ^ dec_model ~extra:(2 * val_size v) t (b @ unhex sfx))
  | _ -> failwith ("bad codec case: " ^ l)

let codec_cases path = with_lines path (fun l -> print_endline (codec_line (String.trim l)))


(* ---------- C15 / C05: primitive operation sequences ---------- *)
let split_op (op : string) : string * string =
  match String.index_opt op ':' with
  | Some i -> (String.sub op 0 i, String.sub op (i + 1) (String.length op - i - 1))
  | None -> (op, "")

let oop_of (op : string) : oop =
  let (k, a) = split_op op in
  match k with
  | "u8" -> OU8 (n_of_string a) | "i8" -> OI8 (z_of_string a)
  | "u16" -> OU16 (n_of_string a) | "i16" -> OI16 (z_of_string a)
  | "u32" -> OU32 (n_of_string a) | "i32" -> OI32 (z_of_string a)
  | "u64" -> OU64 (n_of_string a) | "i64" -> OI64 (z_of_string a)
  | "u128" -> OU128 (n_of_string a) | "i128" -> OI128 (z_of_string a)
  | "f32" -> OF32 (n_of_string a) | "f64" -> OF64 (n_of_string a)
  | "varu" -> OVarU32 (n_of_string a) | "vari" -> OVarI32 (z_of_string a)
  | "bytes" -> OBytes (unhex a)
  | _ -> failwith ("bad write op " ^ op)

exception Model_panic

let n2 = n_of_int 2 and n4 = n_of_int 4 and n8 = n_of_int 8 and n16 = n_of_int 16
let n32 = n_of_int 32 and n64 = n_of_int 64 and n128 = n_of_int 128

(* one read op on a reader; returns the printed result and the new state *)
let read_op (r : 's reader) (s : 's) (k : string) (a : string) : string * 's =
  let fin to_s = function
    | Ok (v, s') -> (to_s v, s')
    | Err _ -> ("E", s)
    | Panic _ | Fuel -> raise Model_panic in
  match k with
  | "u8" -> fin string_of_n (r.r_u8 s)
  | "i8" -> fin string_of_z (read_i8 r s)
  | "u16" -> fin string_of_n (read_be r n2 s)
  | "i16" -> fin string_of_z (read_signed r n2 n16 s)
  | "u32" -> fin string_of_n (read_be r n4 s)
  | "i32" -> fin string_of_z (read_signed r n4 n32 s)
  | "u64" -> fin string_of_n (read_be r n8 s)
  | "i64" -> fin string_of_z (read_signed r n8 n64 s)
  | "u128" -> fin string_of_n (read_be r n16 s)
  | "i128" -> fin string_of_z (read_signed r n16 n128 s)
  | "f32" -> fin string_of_n (read_be r n4 s)
  | "f64" -> fin string_of_n (read_be r n8 s)
  | "varu" -> fin string_of_n (read_var_u32 r s)
  | "vari" -> fin string_of_z (read_var_i32 r s)
  | "bytes" -> fin hex (r.r_bytes (n_of_string a) s)
  | "skip" -> fin (fun () -> "S") (r.r_skip (n_of_string a) s)
  | _ -> failwith ("bad read op " ^ k)

let run_reads (r : 's reader) (s0 : 's) (ops : string list) : string =
  let s = ref s0 in
  let out = List.filter_map (fun op ->
      let (k, a) = split_op op in
      if k = "push" || k = "pop" then None
      else begin let (x, s') = read_op r !s k a in s := s'; Some x end) ops in
  String.concat "," out

let run_ctx (data : n list) (ops : string list) : string =
  let c = ref (rctx_new data) in
  let out = List.map (fun op ->
      let (k, a) = split_op op in
      match k with
      | "push" ->
          let (st, ln) = split_op a in
          (match iregion_new (n_of_string st) (n_of_string ln) with
           | Ok rg -> (match push_region !c rg with Ok c' -> c := c'; "P" | _ -> raise Model_panic)
           | _ -> raise Model_panic)
      | "pop" ->
          (match pop_region !c with
           | Ok (rg, c') -> c := c';
               "R" ^ string_of_n rg.ir_start ^ "/" ^ string_of_n rg.ir_pos ^ "/" ^ string_of_n rg.ir_end
           | _ -> raise Model_panic)
      | _ -> let (x, c') = read_op ctx_reader !c k a in c := c'; x) ops in
  String.concat "," out

let ioops_line (l : string) : string =
  match split_ws l with
  | "w" :: ops ->
      let os = List.map oop_of ops in
      let v = run_oops vec_sink os [] and bm = run_oops bytesmut_sink os [] in
      let sz = run_oops size_sink os N0 in
      (* a lawful user sink: one write_u8 per byte *)
      let rec_sink = { k_u8 = (fun b o -> o @ [b]); k_bytes = (fun bs o -> List.fold_left (fun o b -> o @ [b]) o bs) } in
      let rc = run_oops rec_sink os [] in
      let c1 = run_oops (sctx_sink vec_sink) os { sc_out = []; sc_bufs = [] } in
      let c2 = run_oops (sctx_sink vec_sink) os { sc_out = []; sc_bufs = [[n_of_int 0xAA]] } in
      let top = match c2.sc_bufs with t :: _ -> t | [] -> [] in
      Printf.sprintf "%s %s %s %s %s %s %s" (hex v) (hex bm) (string_of_n sz) (hex rc) (hex c1.sc_out)
        (hex top) (hex c2.sc_out)
  | "r" :: data :: ops ->
      let data = unhex data in
      let regions = List.exists (fun o -> o = "pop" || (String.length o >= 4 && String.sub o 0 4 = "push")) ops in
      (try
         if regions then "- - " ^ run_ctx data ops
         else
           run_reads slice_reader { si_data = data; si_pos = N0 } ops ^ " " ^
           run_reads owned_reader { oi_data = data; oi_pos = N0 } ops ^ " " ^ run_ctx data ops
       with Model_panic -> "PANIC")
  | _ -> failwith "bad ioops line"

let ioops_cases path = with_lines path (fun l -> print_endline (ioops_line l))


(* ---------- C03: histories ---------- *)
let prim_name = function
  | PU8 -> "u8" | PI8 -> "i8" | PU16 -> "u16" | PI16 -> "i16" | PU32 -> "u32" | PI32 -> "i32"
  | PU64 -> "u64" | PI64 -> "i64" | PU128 -> "u128" | PI128 -> "i128" | PF32 -> "f32" | PF64 -> "f64"
  | PBool -> "bool" | PUnit -> "unit" | PChar -> "char" | PString -> "str" | PDedupString -> "dstr"
  | PDuration -> "dur" | PBytes -> "bytes" | PUuid -> "uuid" | PBigInt -> "bigint"
  | PBigDecimal -> "bigdec" | PWeekday -> "weekday" | PMonth -> "month" | PFixedOffset -> "fixedoffset"
  | PTz -> "tz" | PDateTimeUtc -> "dt_utc" | PNaiveDate -> "ndate" | PNaiveTime -> "ntime"
  | PNaiveDateTime -> "ndt" | PDateTimeLocal -> "dt_local" | PDateTimeFixed -> "dt_fixed" | PDateTimeTz -> "dt_tz"
  | PVarU32 -> "varu32" | PVarI32 -> "vari32"

let rec show_ty (t : ty) : string =
  match t with
  | TPrim p -> prim_name p
  | TOption t -> "(opt " ^ show_ty t ^ ")"
  | TResult (a, b) -> "(res " ^ show_ty a ^ " " ^ show_ty b ^ ")"
  | TTuple ts -> "(tup " ^ String.concat " " (List.map show_ty ts) ^ ")"
  | TSeq (k, e) ->
      (match k with
       | KVec -> "(vec " | KSlice -> "(slice " | KLinkedList -> "(ll " | KHashSet -> "(hset "
       | KBTreeSet -> "(bset " | KArray n -> "(arr " ^ string_of_n n ^ " ") ^ show_ty e ^ ")"
  | TMap (k, a, b) -> (match k with KHashMap -> "(hmap " | KBTreeMap -> "(bmap ") ^ show_ty a ^ " " ^ show_ty b ^ ")"
  | TWrap (w, t) -> (match w with KBox -> "(box " | KRc -> "(rc " | KArc -> "(arc " | KRef -> "(ref ") ^ show_ty t ^ ")"
  | TPhantom -> "phantom"
  | TNamed n -> "(named " ^ string_of_n n ^ ")"

let show_field (f : field) : string =
  Printf.sprintf "(f %s %s %s %s)" (hex f.f_name) (show_ty f.f_ty) (if f.f_opt then "1" else "0")
    (match f.f_transient with None -> "-" | Some d -> print_raw d)
let show_step = function
  | SAdded (n, d) -> "(add " ^ hex n ^ " " ^ print_raw d ^ ")"
  | SMadeOptional n -> "(opt " ^ hex n ^ ")"
  | SRemoved n -> "(rem " ^ hex n ^ ")"
  | SMadeTransient n -> "(tra " ^ hex n ^ ")"
let show_rmeta (m : rmeta) : string =
  "(" ^ String.concat " " (List.map show_field m.r_fields) ^ ") (" ^ String.concat " " (List.map show_step m.r_steps) ^ ")"
let show_rec_env (nm : string) (m : rmeta) : string = "(env (rec " ^ nm ^ " " ^ show_rmeta m ^ "))"

let field_of_sx (f : sx) : field =
  match lst f with
  | [_; Atom nm; t; Atom o; tr] ->
      { f_name = name_of_hex nm; f_ty = ty_of_sx t; f_opt = (o = "1");
        f_transient = (if tr = Atom "-" then None else Some (val_of_sx tr)) }
  | _ -> failwith "bad field"

let history_of_sx (s : sx) : history =
  match lst s with
  | [Atom "hist"; fs; hs] ->
      { h_init = List.map field_of_sx (lst fs);
        h_steps = List.map (fun h ->
            match lst h with
            | [Atom "add"; f; d] -> HAdd (field_of_sx f, val_of_sx d)
            | [Atom "opt"; Atom nm] -> HOpt (name_of_hex nm)
            | [Atom "rem"; Atom nm] -> HRem (name_of_hex nm)
            | [Atom "tra"; Atom nm; d] -> HTra (name_of_hex nm, val_of_sx d)
            | _ -> failwith "bad hstep") (lst hs) }
  | _ -> failwith "bad history"

type 'a res = Good of 'a | Bad of string

(* hist H w r WRAP VAL SFX : WRAP is a type with (named 0) standing for the record *)
let hist_line (l : string) : string =
  match parse_all l with
  | [Atom "hist"; h; Atom w; Atom r; wrap; v; Atom sfx] ->
      let hh = history_of_sx h in
      let w = int_of_string w and r = int_of_string r in
      let mw = decl_at hh (nat_of_int w) and mr = decl_at hh (nat_of_int r) in
      let ew = [{ d_name = [n_of_int 82]; d_body = DRecord mw }] in
      let er = [{ d_name = [n_of_int 82]; d_body = DRecord mr }] in
      let t = ty_of_sx wrap in
      let v = val_of_sx v in
      let fields_of = function VNode (_, vs) -> vs | _ -> [] in
      (* the record value sits at a known place inside the wrapper: we only support wrappers
         (named 0) | (tup u8 (named 0) str) | (vec (named 0)) and compute expected on records *)
      let exp_rec (rv : val0) : val0 res =
        match expected hh (nat_of_int w) (nat_of_int r) (fields_of rv) with
        | Ok vs -> Good (VNode (N0, vs))
        | Err e -> Bad ("err " ^ err_class e)
        | Panic p -> Bad ("panic " ^ pkind_str p)
        | Fuel -> Bad "fuel" in
      let rec map_result f = function
        | [] -> Good []
        | x :: r -> (match f x with Bad e -> Bad e | Good y -> (match map_result f r with Bad e -> Bad e | Good ys -> Good (y :: ys))) in
      let exp : val0 res =
        match t, v with
        | TNamed _, _ -> exp_rec v
        | TTuple [_; TNamed _; _], VNode (tg, [a; rv; c]) ->
            (match exp_rec rv with Good x -> Good (VNode (tg, [a; x; c])) | Bad e -> Bad e)
        | TTuple [_; TNamed _; _; _], VNode (tg, [a; rv; c; d]) ->
            (match exp_rec rv with Good x -> Good (VNode (tg, [a; x; c; d])) | Bad e -> Bad e)
        | TSeq (KVec, TNamed _), VNode (tg, rvs) ->
            (match map_result exp_rec rvs with Good xs -> Good (VNode (tg, xs)) | Bad e -> Bad e)
        | _ -> failwith "unsupported wrapper" in
      let fuel = nat_of_int (64 + 2 * val_size v) in
      let sfxb = unhex sfx in
      let enc_res = enc fuel ew t v [] in
      let model_dec, expected_str =
        match enc_res with
        | Ok (b, _) ->
            cur_env := er;
            let d = dec_model ~extra:(2 * val_size v + 64) t (b @ sfxb) in
            let e = (match exp with
                | Good x -> cur_env := er; "ok " ^ print_val er true t x
                | Bad e -> e) in
            (d, e)
        | Err e -> ("enc-err " ^ err_class e, "enc-err " ^ err_class e)
        | Panic p -> ("enc-panic " ^ pkind_str p, "enc-panic")
        | Fuel -> ("enc-fuel", "enc-fuel") in
      Printf.sprintf "%s ;; %s ;; %s ;; %s ;; legal=%b framed=%b" (show_rec_env "52" mw) (show_rec_env "52" mr)
        expected_str model_dec (legal hh) (framed hh (nat_of_int w) (nat_of_int r))
  | _ -> failwith "bad hist line"

let hist_cases path = with_lines path (fun l -> print_endline (hist_line l))


(* ---------- C10: graphs ---------- *)
let show_graph (g : (n * n list) list) : string =
  if g = [] then "-" else
  String.concat " " (List.map (fun (l, es) -> string_of_n l ^ ":" ^ String.concat "," (List.map string_of_n es)) g)

let graph_decode_str (fuel : nat) (bs : n list) : string =
  match decode_graph fuel bs with
  | Ok ((root, rest), g) -> Printf.sprintf "ok %s | %s | %d" (string_of_n root) (show_graph g) (List.length rest)
  | Err e -> "err " ^ err_class e
  | Panic p -> "panic " ^ pkind_str p
  | Fuel -> "fuel"

let graph_line (l : string) : string =
  match split_ws l with
  | "g" :: root :: rest ->
      let specs = List.rev (List.tl (List.rev rest)) and sfx = List.nth rest (List.length rest - 1) in
      let g = List.map (fun s ->
          let (lab, es) = split_op s in
          (n_of_string lab, List.map n_of_string (List.filter (fun x -> x <> "") (String.split_on_char ',' es)))) specs in
      let nn = List.length g in
      let deg = List.fold_left (fun a (_, es) -> max a (List.length es)) 0 g in
      (match encode_graph (nat_of_int (nn + 2)) g (n_of_string root) with
       | Ok (b, _) -> "ok " ^ hex b ^ " ; " ^ graph_decode_str (nat_of_int (nn + deg + 4)) (b @ unhex sfx)
       | Err e -> "err " ^ err_class e ^ " ; -"
       | Panic p -> "panic " ^ pkind_str p ^ " ; -"
       | Fuel -> "fuel ; -")
  | ["gdec"; h] -> let bs = unhex h in graph_decode_str (nat_of_int (List.length bs + 4)) bs
  | _ -> failwith "bad graph line"

let graph_cases path = with_lines path (fun l -> print_endline (graph_line l))

let () =
  match Array.to_list Sys.argv with
  | _ :: "varint-cases" :: path :: _ -> varint_cases path
  | _ :: "codec" :: path :: _ -> codec_cases path
  | _ :: "ioops" :: path :: _ -> ioops_cases path
  | _ :: "hist" :: path :: _ -> hist_cases path
  | _ :: "graph" :: path :: _ -> graph_cases path
  | _ -> prerr_endline "usage: driver <command> <file>"; exit 2
