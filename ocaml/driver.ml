(* driver.ml — runs the extracted Coq model on the same case files as the Rust harness and
   prints the same canonical observation lines.  Parsing/printing glue only: every
   computed value comes from functions of model.ml (extracted from coq/). *)
open Model

(* ---------- numbers ---------- *)
let rec pos_of_int i =
  if i = 1 then XH
  else if i land 1 = 0 then XO (pos_of_int (i lsr 1))
  else XI (pos_of_int (i lsr 1))
let n_of_int i = if i = 0 then N0 else Npos (pos_of_int i)
let rec int_of_pos = function XH -> 1 | XO p -> 2 * int_of_pos p | XI p -> 2 * int_of_pos p + 1
let int_of_n = function N0 -> 0 | Npos p -> int_of_pos p
let z_of_int i = if i = 0 then Z0 else if i > 0 then Zpos (pos_of_int i) else Zneg (pos_of_int (-i))
let int_of_z = function Z0 -> 0 | Zpos p -> int_of_pos p | Zneg p -> - (int_of_pos p)

let n10 = n_of_int 10
let n1e9 = n_of_int 1_000_000_000
(* decimal strings of any size *)
let n_of_string (s : string) : n =
  if String.length s <= 17 then n_of_int (int_of_string s)
  else begin
    let acc = ref N0 in
    String.iter (fun c -> acc := N.add (N.mul !acc n10) (n_of_int (Char.code c - 48))) s;
    !acc
  end
let rec n_fits_int = function
  | N0 -> true
  | Npos p -> let rec len = function XH -> 1 | XO q | XI q -> 1 + len q in len p <= 61
let rec string_of_n (v : n) : string =
  if n_fits_int v then string_of_int (int_of_n v)
  else
    let q = N.div v n1e9 and r = N.modulo v n1e9 in
    string_of_n q ^ Printf.sprintf "%09d" (int_of_n r)
let z_of_string (s : string) : z =
  if String.length s > 0 && s.[0] = '-' then
    (match n_of_string (String.sub s 1 (String.length s - 1)) with N0 -> Z0 | Npos p -> Zneg p)
  else (match n_of_string s with N0 -> Z0 | Npos p -> Zpos p)
let string_of_z = function
  | Z0 -> "0"
  | Zpos p -> string_of_n (Npos p)
  | Zneg p -> "-" ^ string_of_n (Npos p)

(* ---------- bytes ---------- *)
let hex (bs : n list) : string =
  if bs = [] then "-"
  else String.concat "" (List.map (fun b -> Printf.sprintf "%02x" (int_of_n b)) bs)
let unhex (s : string) : n list =
  if s = "-" then []
  else List.init (String.length s / 2) (fun i -> n_of_int (int_of_string ("0x" ^ String.sub s (2 * i) 2)))

let split_ws s = List.filter (fun x -> x <> "") (String.split_on_char ' ' (String.trim s))

let with_lines path (f : string -> unit) =
  let ic = open_in path in
  (try
     while true do
       let l = input_line ic in
       if String.trim l <> "" then f l
     done
   with End_of_file -> ());
  close_in ic

(* ---------- C11 ---------- *)
let opt_str to_s = function
  | Ok (v, _) -> "Some(" ^ to_s v ^ ")"
  | _ -> "None"

(* how many bytes a source still yields *)
let drain (r : 's reader) (s : 's) : int =
  let rec go s k = match r.r_u8 s with Ok (_, s') -> go s' (k + 1) | _ -> k in
  go s 0
let rest_of r = function Ok (_, s) -> drain r s | _ -> -1

let varint_line (t : string list) : string =
  match t with
  | ["u"; v; extra] ->
      let v = n_of_string v and extra = unhex extra in
      let b1 = run_oops vec_sink [OVarU32 v] [] in
      let b2 = run_oops bytesmut_sink [OVarU32 v] [] in
      let sz = run_oops size_sink [OVarU32 v] N0 in
      let data = b1 @ extra in
      let r1 = read_var_u32 slice_reader { si_data = data; si_pos = N0 } in
      let r2 = read_var_u32 owned_reader { oi_data = data; oi_pos = N0 } in
      let r3 = read_var_u32 ctx_reader (rctx_new data) in
      let rest1 = (match r1 with Ok (_, s) -> List.length data - int_of_n s.si_pos | _ -> List.length data) in
      Printf.sprintf "%s %s %s %s %d %s %d %s %d" (hex b1) (hex b2) (string_of_n sz)
        (opt_str string_of_n r1) rest1
        (opt_str string_of_n r2) (rest_of owned_reader r2)
        (opt_str string_of_n r3) (rest_of ctx_reader r3)
  | ["i"; v; extra] ->
      let v = z_of_string v and extra = unhex extra in
      let b1 = run_oops vec_sink [OVarI32 v] [] in
      let b2 = run_oops bytesmut_sink [OVarI32 v] [] in
      let sz = run_oops size_sink [OVarI32 v] N0 in
      let data = b1 @ extra in
      let r1 = read_var_i32 slice_reader { si_data = data; si_pos = N0 } in
      let r2 = read_var_i32 owned_reader { oi_data = data; oi_pos = N0 } in
      let r3 = read_var_i32 ctx_reader (rctx_new data) in
      let rest1 = (match r1 with Ok (_, s) -> List.length data - int_of_n s.si_pos | _ -> List.length data) in
      Printf.sprintf "%s %s %s %s %d %s %d %s %d" (hex b1) (hex b2) (string_of_n sz)
        (opt_str string_of_z r1) rest1
        (opt_str string_of_z r2) (rest_of owned_reader r2)
        (opt_str string_of_z r3) (rest_of ctx_reader r3)
  | ["r"; data] ->
      let data = unhex data in
      let len = List.length data in
      let rs f = function Ok (_, s) -> string_of_int (f s) | _ -> "x" in
      let part_u () =
        let r1 = read_var_u32 slice_reader { si_data = data; si_pos = N0 }
        and r2 = read_var_u32 owned_reader { oi_data = data; oi_pos = N0 }
        and r3 = read_var_u32 ctx_reader (rctx_new data) in
        Printf.sprintf "%s %s %s %s %s %s"
          (opt_str string_of_n r1) (rs (fun s -> len - int_of_n s.si_pos) r1)
          (opt_str string_of_n r2) (rs (drain owned_reader) r2)
          (opt_str string_of_n r3) (rs (drain ctx_reader) r3) in
      let part_i () =
        let r1 = read_var_i32 slice_reader { si_data = data; si_pos = N0 }
        and r2 = read_var_i32 owned_reader { oi_data = data; oi_pos = N0 }
        and r3 = read_var_i32 ctx_reader (rctx_new data) in
        Printf.sprintf "%s %s %s %s %s %s"
          (opt_str string_of_z r1) (rs (fun s -> len - int_of_n s.si_pos) r1)
          (opt_str string_of_z r2) (rs (drain owned_reader) r2)
          (opt_str string_of_z r3) (rs (drain ctx_reader) r3) in
      part_u () ^ " " ^ part_i ()
  | _ -> failwith "bad varint case"

let varint_cases path = with_lines path (fun l -> print_endline (varint_line (split_ws l)))

let () =
  match Array.to_list Sys.argv with
  | _ :: "varint-cases" :: path :: _ -> varint_cases path
  | _ -> prerr_endline "usage: driver <command> <file>"; exit 2
