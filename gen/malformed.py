"""Generators of hostile inputs: exhaustive short strings, structure-aware mutants of valid
encodings, random bytes (C05, C06)."""
from . import gencases as G

BOUNDARY = [0x00, 0x01, 0x02, 0x03, 0x05, 0x7f, 0x80, 0x81, 0xfe, 0xff, 0x0f, 0x10]


def zero_width(t, env=None, depth=0):
    """can a value of this type have an empty encoding?"""
    k = t[0]
    if k == "prim":
        return t[1] == "unit"
    if k == "phantom":
        return True
    if k == "wrap":
        return zero_width(t[2], env, depth)
    if k == "seq" and t[1] == "arr" and t[2] == 0 and t[3] != ("prim", "u8"):
        return False     # count byte
    return False


def has_zero_width_seq(t, env=None, seen=None):
    """a sequence whose elements may be zero-width somewhere inside (known finding F14)"""
    k = t[0]
    seen = seen or set()
    if k == "seq":
        return zero_width(t[3], env) or has_zero_width_seq(t[3], env, seen)
    if k == "map":
        return has_zero_width_seq(t[2], env, seen) or has_zero_width_seq(t[3], env, seen)
    if k in ("opt", "wrap"):
        return has_zero_width_seq(t[-1], env, seen)
    if k == "res":
        return has_zero_width_seq(t[1], env, seen) or has_zero_width_seq(t[2], env, seen)
    if k == "tup":
        return any(has_zero_width_seq(x, env, seen) for x in t[1])
    if k == "named" and env is not None:
        if t[1] in seen:
            return False
        seen = seen | {t[1]}
        d = env[t[1]]
        recs = [d] if d["kind"] == "rec" else d["variants"]
        return any(has_zero_width_seq(f["ty"], env, seen) for r in recs for f in r["fields"])
    return False


def mutants(rng, b, n):
    """n structure-aware mutants of the valid encoding b"""
    out = []
    L = len(b)
    for _ in range(n):
        c = rng.random()
        m = bytearray(b)
        if L == 0 or c < 0.08:
            m = bytearray(rng.getrandbits(8) for _ in range(rng.randrange(0, 6)))
        elif c < 0.50:
            # rewrite one byte (a count, size, tag, position, version, var-int group) to a boundary value
            i = rng.randrange(min(L, 12)) if rng.random() < 0.6 else rng.randrange(L)
            m[i] = rng.choice(BOUNDARY)
        elif c < 0.60:
            i = rng.randrange(L)
            m[i] ^= 1 << rng.randrange(8)
        elif c < 0.70:
            # replace a byte by a 5-byte var-int of a boundary count
            i = rng.randrange(L)
            v = rng.choice([0xffffffff, 0x7fffffff, 0x80000000, 0xfffffffe, 0x100, 0x3fff])
            enc = []
            for _k in range(4):
                enc.append((v & 0x7f) | 0x80)
                v >>= 7
            enc.append(v & 0x0f)
            m[i:i + 1] = bytes(enc)
        elif c < 0.78:
            i = rng.randrange(L + 1)
            m[i:i] = bytes(rng.choice(BOUNDARY) for _ in range(rng.randrange(1, 4)))
        elif c < 0.86:
            i = rng.randrange(L)
            del m[i:i + rng.randrange(1, 4)]
        elif c < 0.92:
            i = rng.randrange(L)
            j = rng.randrange(i, L)
            m[j:j] = m[i:j + 1]                       # duplicate a slice
        elif c < 0.96:
            i, j = sorted((rng.randrange(L), rng.randrange(L)))
            m[i], m[j] = m[j], m[i]
        else:
            m = m[:rng.randrange(L)] + bytearray(rng.getrandbits(8) for _ in range(rng.randrange(0, 4)))
        out.append(bytes(m))
    return out
