"""Shared machinery of the round-trip family of checks (C01 C02 C04 C07 C08 C09 C14): builds
structured codec cases, runs implementation and model, judges the property on the
implementation alone."""
from . import common as C
from . import gencases as G
from . import sx

SUFFIXES = ["-", "00", "ff01", "8080808001", "02080803027a"]


def mk(env, t, val, sfx="-", cmd="rt"):
    return {"env": G.show_env(env) if env else "-", "cmd": cmd, "ty": G.show_ty(t), "val": val, "sfx": sfx,
            "unordered": G.has_unordered(t), "_t": t, "_env": env}


def builtin_cases(rng, tier, per_type=4):
    cases = []
    for t in G.all_types_depth1():
        for _ in range(per_type):
            cases.append(mk(None, t, G.gen_value(rng, t), rng.choice(SUFFIXES)))
    n = 6000 if tier == "quick" else 150000
    for _ in range(n):
        t = G.gen_type(rng, rng.choice([1, 2, 2, 3, 3, 4, 5]))
        cases.append(mk(None, t, G.gen_value(rng, t), rng.choice(SUFFIXES)))
    return cases


def derived_cases(rng, tier):
    cases = []
    nenv = 1500 if tier == "quick" else 40000
    for _ in range(nenv):
        env = G.gen_env(rng)
        for _ in range(4):
            i = rng.randrange(len(env))
            t = ("named", i)
            if rng.random() < 0.3:
                t = rng.choice([("seq", "vec", 0, t), ("opt", t), ("tup", [G.P("u8"), t, G.P("str")]),
                                ("map", "bmap", G.P("u16"), t)])
            cases.append(mk(env, t, G.gen_value_d(rng, t, env, 1.0, 0), rng.choice(SUFFIXES)))
    return cases


def record_as_tuple_cases(rng, n):
    """Evolved-record bytes read by a TUPLE of the record's initial-version fields (tuples accept the evolved-record
    form: DESIGN 4.5 item 7): `xrt (named i) value (tup t1 .. tk) suffix`. A tuple reader is the oldest possible reader
    of the record: header entries (made-optional positions, removed names), later chunks and their sizes must all be
    honoured. The reference decoder gives the documented answer (value, bytes left, or the error)."""
    cases = []
    tries = 0
    while len(cases) < n and tries < 40 * n:
        tries += 1
        env = G.gen_env(rng)
        recs = [i for i, d in enumerate(env) if d["kind"] == "rec" and d["steps"]]
        if not recs:
            continue
        i = rng.choice(recs)
        d = env[i]
        added = {s[1] for s in d["steps"] if s[0] == "add"}
        made_opt = {s[1] for s in d["steps"] if s[0] == "opt"}
        chunk0 = [f for f in d["fields"] if f["transient"] is None and f["name"] not in added]
        if not 1 <= len(chunk0) <= 8:
            continue
        comps = []
        for f in chunk0:
            t = f["ty"]
            if f["name"] in made_opt and t[0] == "opt" and rng.random() < 0.6:
                t = t[1]                    # the type the field had before it was made optional
            comps.append(t)
        if rng.random() < 0.15 and len(comps) > 1:
            comps = comps[:-1]              # a reader that knows fewer fields
        tr = ("tup", comps)
        val = G.gen_value_d(rng, ("named", i), env, 0.8, 0)
        if "dstr" in G.show_env(env) and rng.random() < 0.7:
            # de-duplicated strings over a tiny alphabet that contains the names the record's header carries: the
            # tuple reader must assign ids exactly as the record reader does
            from .props import c09
            names = [bytes.fromhex(G.hexname(s[1])).decode("utf-8", "replace") for dd in env if dd["kind"] == "rec"
                     for s in dd["steps"] if s[0] in ("rem", "tra")]
            saved = list(c09.ALPHA)
            c09.ALPHA[:] = (names or ["z"]) + ["a", "q"]
            try:
                val = c09.dedup_value(rng, ("named", i), env)
            finally:
                c09.ALPHA[:] = saved
        c = mk(env, ("named", i), val, rng.choice(SUFFIXES), "xrt")
        c["ty2"] = G.show_ty(tr)
        c["env2"] = c["env"]                # the reader knows the same declarations (for nested named types)
        cases.append(c)
    return cases


def split_rt(line):
    """'ok HEX VAL ; ok DEC REST' -> (enc_status, hex, dec_status, dec_val, rest)"""
    enc_part, _, dec_part = line.partition(" ; ")
    e = enc_part.split(" ", 2)
    enc_status = e[0]
    hexs = e[1] if enc_status == "ok" and len(e) > 1 else None
    if dec_part.startswith("ok "):
        val, _, rest = dec_part[3:].rpartition(" ")
        return enc_status, hexs, "ok", val, int(rest)
    d = dec_part.split(" ", 1)
    return enc_status, hexs, d[0] if d[0] else "-", (d[1] if len(d) > 1 else ""), None


def judge_rt(c, line):
    """The round-trip property on the implementation alone. Returns (ok, why)."""
    if line.startswith("panic") or " ; panic" in line:
        return False, "panic"
    if line == "hang":
        return False, "no result within the per-case time limit"
    enc_status, hexs, dec_status, val, rest = split_rt(line)
    if enc_status == "err":
        # legitimate only for values the format cannot carry (char >= 0x10000)
        if sx.contains_unencodable_char(c["_t"], sx.parse(c["val"]), c["_env"]):
            return True, "unencodable"
        if line.startswith("err SerTransientCtor"):
            return True, "transient-ctor"
        return False, "encode failed: " + line.split(" ; ")[0]
    if dec_status != "ok":
        return False, "decode failed: " + dec_status + " " + str(val)
    want = sx.expect_decoded(c["_t"], c["val"], c["_env"])
    if val != want:
        return False, "decoded value differs"
    nsfx = 0 if c["sfx"] == "-" else len(c["sfx"]) // 2
    if rest != nsfx:
        return False, f"left {rest} bytes unread, suffix had {nsfx}"
    return True, "ok"


def run_and_judge(rep, prop, prop_file, cases, tier, seed, judge=judge_rt, extra_trusted=None, stream="codec",
                  profile="release"):
    ob = C.coq_obligations(prop_file)
    harness = C.build_harness(profile)
    model = C.build_model()
    wd = C.workdir(prop)
    impl, mod = C.run_codec(harness, model, cases, wd, "s")
    dis = [(C.codec_line(c), a, b) for c, a, b in zip(cases, impl, mod) if a != b]
    bad = []
    why_hist = {}
    for c, a in zip(cases, impl):
        ok, why = judge(c, a)
        why_hist[why] = why_hist.get(why, 0) + 1
        if not ok:
            bad.append((c, a, why))
    C.proof_coverage(rep, ob, prop_file, extra_trusted)
    lines = [C.codec_line(c) for c in cases]
    shapes = {}
    for c in cases:
        k = c["_t"][0] if c["_t"][0] != "prim" else "prim:" + c["_t"][1]
        shapes[k] = shapes.get(k, 0) + 1
    rep.coverage.update({
        "evaluations": len(cases), "distinct_nontrivial": len(set(lines)),
        "samples": [l[:300] for l in lines[:2] + lines[len(lines) // 2:len(lines) // 2 + 2] + lines[-1:]],
        "disagreements_checked": len(cases), "disagreements": len(dis),
        "outcome_classes": why_hist, "top_level_type_constructors": shapes,
        "encoded_bytes_total": sum(len(a.split()[1]) // 2 for a in impl if a.startswith("ok ")),
    })
    if bad:
        c, a, why = bad[0]
        rep.violation(f"{why}: {C.codec_line(c)[:200]}",
                      {"kind": "case", "env": c["env"], "case": C.codec_line(c), "implementation": a, "why": why,
                       "n_failing": len(bad),
                       "rerun": "printf 'E <env>\\n<case>\\n' > f && .cache/target/release/dharness codec f"})
    C.report_broken(rep, ob, dis, stream, bool(bad))
    return ob, impl, mod, bad, dis


# ------------------------------------------------------------------------------------------
# static route blocks (the real derive macro)

def static_block(harness, model, wd, cases, env, tag, judge):
    """runs static cases, returns (bad, dis, lines) where bad = property failures on the implementation,
    dis = model/implementation disagreements"""
    from . import catalogue as K
    impl, mod, hl = K.run_static(harness, model, env, cases, wd, tag)
    dis = [(l, a, b) for l, a, b in zip(hl, impl, mod) if a != b]
    bad = []
    for c, l, a in zip(cases, hl, impl):
        ok, why = judge(c, a)
        if not ok:
            bad.append((l, a, why))
    return bad, dis, hl, impl


def judge_static_rt(env):
    def j(c, line):
        if "panic" in line.split(" ")[0] or " ; panic" in line:
            return False, "panic"
        if line == "hang":
            return False, "no result within the per-case time limit"
        enc_part, _, dec_part = line.partition(" ; ")
        t = ("named", c["w"])
        if enc_part.startswith("err"):
            if sx.contains_unencodable_char(t, sx.parse(c["val"]), env) or enc_part.startswith("err SerTransientCtor"):
                return True, "unencodable"
            return False, "encode failed: " + enc_part
        if not dec_part.startswith("ok "):
            return False, "decode failed: " + dec_part
        val, _, rest = dec_part[3:].rpartition(" ")
        if val != sx.expect_decoded(t, c["val"], env):
            return False, "decoded value differs"
        if int(rest) != (0 if c["sfx"] == "-" else len(c["sfx"]) // 2):
            return False, "bytes left differ from the suffix"
        return True, "ok"
    return j
