"""S-expression helpers on the Python side: parse/print case-file values, canonicalise
(sort sets and maps by text), normalise (transient fields -> declared defaults)."""


def parse(s):
    toks = s.replace("(", " ( ").replace(")", " ) ").split()
    pos = [0]

    def one():
        t = toks[pos[0]]
        pos[0] += 1
        if t == "(":
            out = []
            while toks[pos[0]] != ")":
                out.append(one())
            pos[0] += 1
            return out
        return t
    return one()


def show(x):
    if isinstance(x, str):
        return x
    return "(" + " ".join(show(y) for y in x) + ")"


def canon(t, v, env=None):
    """type-directed: sort the children of sets and maps by their text; v is a parsed sexp"""
    k = t[0]
    if isinstance(v, str):
        return v
    if k == "opt":
        return [v[0]] + [canon(t[1], x, env) for x in v[1:]]
    if k == "res":
        inner = t[2] if v[0] == "0" else t[1]
        return [v[0]] + [canon(inner, x, env) for x in v[1:]]
    if k == "tup":
        return [v[0]] + [canon(tt, x, env) for tt, x in zip(t[1], v[1:])]
    if k == "wrap":
        return canon(t[2], v, env)
    if k == "seq":
        items = [canon(t[3], x, env) for x in v[1:]]
        if t[1] in ("hset", "bset"):
            items = sorted(items, key=show)
        return [v[0]] + items
    if k == "map":
        items = [["0", canon(t[2], x[1], env), canon(t[3], x[2], env)] for x in v[1:]]
        return [v[0]] + sorted(items, key=show)
    if k == "named" and env is not None:
        d = env[t[1]]
        fields = d["fields"] if d["kind"] == "rec" else d["variants"][int(v[0])]["fields"]
        return [v[0]] + [canon(f["ty"], x, env) for f, x in zip(fields, v[1:])]
    return v


def norm(t, v, env=None):
    """transient fields take their declared defaults (what a decode of the encoding returns); a BigDecimal comes
    back as the representative its decimal text determines (BigDec.bd_norm)"""
    k = t[0]
    if isinstance(v, str):
        return v
    if k == "prim" and t[1] == "bigdec" and len(v) == 3:
        i, sc = int(v[1][1:]), int(v[2][1:])
        if -15 <= sc < 0:
            return ["0", "z" + str(i * 10 ** (-sc)), "z0"]
        return v
    if k == "opt":
        return [v[0]] + [norm(t[1], x, env) for x in v[1:]]
    if k == "res":
        inner = t[2] if v[0] == "0" else t[1]
        return [v[0]] + [norm(inner, x, env) for x in v[1:]]
    if k == "tup":
        return [v[0]] + [norm(tt, x, env) for tt, x in zip(t[1], v[1:])]
    if k == "wrap":
        return norm(t[2], v, env)
    if k == "seq":
        return [v[0]] + [norm(t[3], x, env) for x in v[1:]]
    if k == "map":
        return [v[0]] + [["0", norm(t[2], x[1], env), norm(t[3], x[2], env)] for x in v[1:]]
    if k == "named" and env is not None:
        d = env[t[1]]
        fields = d["fields"] if d["kind"] == "rec" else d["variants"][int(v[0])]["fields"]
        out = [v[0]]
        for f, x in zip(fields, v[1:]):
            if f["transient"] is not None:
                out.append(parse(f["transient"]))
            else:
                out.append(norm(f["ty"], x, env))
        return out
    return v


def expect_decoded(t, val_str, env=None):
    """the canonical text a correct decode of encode(val) prints"""
    return show(canon(t, norm(t, parse(val_str), env), env))


def contains_unencodable_char(t, v, env=None):
    """a char >= 0x10000 anywhere in the value (UnsupportedCharacter is then the right answer)"""
    k = t[0]
    if k == "prim":
        return t[1] == "char" and isinstance(v, str) and int(v[1:]) >= 0x10000
    if k == "wrap":
        return contains_unencodable_char(t[2], v, env)
    if isinstance(v, str):
        return False
    if k == "opt":
        return any(contains_unencodable_char(t[1], x, env) for x in v[1:])
    if k == "res":
        inner = t[2] if v[0] == "0" else t[1]
        return any(contains_unencodable_char(inner, x, env) for x in v[1:])
    if k == "tup":
        return any(contains_unencodable_char(tt, x, env) for tt, x in zip(t[1], v[1:]))
    if k == "wrap":
        return contains_unencodable_char(t[2], v, env)
    if k == "seq":
        return any(contains_unencodable_char(t[3], x, env) for x in v[1:])
    if k == "map":
        return any(contains_unencodable_char(t[2], x[1], env) or contains_unencodable_char(t[3], x[2], env)
                   for x in v[1:])
    if k == "named" and env is not None:
        d = env[t[1]]
        fields = d["fields"] if d["kind"] == "rec" else d["variants"][int(v[0])]["fields"]
        return any(f["transient"] is None and contains_unencodable_char(f["ty"], x, env)
                   for f, x in zip(fields, v[1:]))
    return False
