"""Generators for type expressions, values, declarations and malformed inputs (one PRNG)."""
import struct

ARRAY_LENS = [0, 1, 2, 3, 4, 5, 7, 8, 16, 17, 32, 33, 64, 65]
INT_PRIMS = {"u8": (0, 8), "i8": (1, 8), "u16": (0, 16), "i16": (1, 16), "u32": (0, 32), "i32": (1, 32),
             "u64": (0, 64), "i64": (1, 64), "u128": (0, 128), "i128": (1, 128)}
CHRONO_PRIMS = ["weekday", "month", "fixedoffset", "tz", "dt_utc", "ndate", "ntime", "ndt", "dt_local", "dt_fixed", "dt_tz"]
PRIMS = (list(INT_PRIMS) + ["f32", "f64", "bool", "unit", "char", "str", "dstr", "dur", "bytes", "uuid", "bigint", "bigdec"]
         + CHRONO_PRIMS + ["varu32", "vari32"])
MIN_YEAR, MAX_YEAR = -262143, 262142
MIN_TS, MAX_TS = -8334601228800, 8210266876799
_TZ = []


def tz_names():
    """the zone names of coq/TzNames.v (c01 checks that list against the linked chrono-tz on every run)"""
    if not _TZ:
        import os, re
        path = os.path.join(os.path.dirname(os.path.dirname(os.path.abspath(__file__))), "coq", "TzNames.v")
        for m in re.finditer(r"^  \[([0-9; ]+)\]", open(path).read(), re.M):
            _TZ.append(bytes(int(x) for x in m.group(1).split(";")).decode())
    return _TZ


def is_leap(y):
    return (y % 4 == 0 and y % 100 != 0) or y % 400 == 0


def days_in_month(y, m):
    return [31, 29 if is_leap(y) else 28, 31, 30, 31, 30, 31, 31, 30, 31, 30, 31][m - 1]


def days_from_civil(y, m, d):
    y -= m <= 2
    era = y // 400
    yoe = y - era * 400
    doy = (153 * (m + (-3 if m > 2 else 9)) + 2) // 5 + d - 1
    doe = yoe * 365 + yoe // 4 - yoe // 100 + doy
    return era * 146097 + doe - 719468


# the last days of February in years of every leap-year class, on both sides of year 0 (the wire carries the year as
# a two's-complement u32, so a rule applied to the raw number goes wrong for negative years)
LEAP_YEARS = [-2000, -1600, -800, -400, -396, -300, -296, -200, -196, -100, -96, -8, -4, -1, 0, 1, 4, 96, 100, 196, 200, 396,
              400, 1600, 1700, 1800, 1900, 1996, 2000, 2096, 2100, 2400]


def gen_ymd(rng):
    c = rng.random()
    if c < 0.12:
        y = rng.choice(LEAP_YEARS + [MIN_YEAR + 3, MAX_YEAR - 2])
        dim = days_in_month(y, 2)
        return y, 2, rng.choice([dim, dim, 28])
    if c < 0.25:
        y = rng.choice([MIN_YEAR, MAX_YEAR, MIN_YEAR + 1, MAX_YEAR - 1, -1, 0, 1, 1970, 1969, 2000, 1900, 2100, 2024, 63, 64,
                        127, 128, 16383, 16384, -64, -65])
    elif c < 0.75:
        y = rng.randrange(1800, 2200)
    else:
        y = rng.randrange(MIN_YEAR, MAX_YEAR + 1)
    m = rng.choice([1, 2, 2, 12, rng.randrange(1, 13)])
    dim = days_in_month(y, m)
    d = rng.choice([1, dim, dim, rng.randrange(1, dim + 1)])
    return y, m, d


def gen_hmsn(rng):
    h = rng.choice([0, 23, rng.randrange(24)])
    mi = rng.choice([0, 59, rng.randrange(60)])
    sec = rng.choice([0, 59, 59, rng.randrange(60)])
    ns = rng.choice([0, 1, 127, 128, 16383, 16384, 2097151, 2097152, 268435455, 268435456, 999_999_999,
                     rng.randrange(1_000_000_000)])
    if sec == 59 and rng.random() < 0.3:
        ns = rng.choice([1_000_000_000, 1_999_999_999, rng.randrange(1_000_000_000, 2_000_000_000)])   # leap second
    return h, mi, sec, ns


def show_ndt(ymd, hmsn):
    return f"(0 (0 z{ymd[0]} n{ymd[1]} n{ymd[2]}) (0 n{hmsn[0]} n{hmsn[1]} n{hmsn[2]} n{hmsn[3]}))"


def ndt_secs(ymd, hmsn):
    return days_from_civil(*ymd) * 86400 + hmsn[0] * 3600 + hmsn[1] * 60 + hmsn[2]


def gen_offset(rng):
    return rng.choice([0, 1, -1, 63, 64, -64, -65, 3600, -3600, 19800, 86399, -86399, 8191, 8192, -8192, -8193,
                       rng.randrange(-86399, 86400)])


def gen_tz(rng):
    n = tz_names()
    return rng.choice(["UTC", "Europe/Budapest", "America/Argentina/ComodRivadavia", "GMT+0", "Etc/GMT-14", rng.choice(n), rng.choice(n)])


DST_EDGES = [
    ((2021, 10, 31), (0, 30, 0), "Europe/London"), ((2021, 10, 31), (1, 30, 0), "Europe/London"),      # 01:30 BST, 01:30 GMT
    ((2021, 3, 28), (0, 59, 59), "Europe/London"), ((2021, 3, 28), (1, 0, 0), "Europe/London"),
    ((2021, 11, 7), (5, 30, 0), "America/New_York"), ((2021, 11, 7), (6, 30, 0), "America/New_York"),  # 01:30 EDT, 01:30 EST
    ((2021, 3, 14), (6, 59, 59), "America/New_York"), ((2021, 3, 14), (7, 0, 0), "America/New_York"),
    ((2021, 10, 31), (0, 30, 0), "Europe/Budapest"), ((2021, 10, 31), (1, 30, 0), "Europe/Budapest"),
    ((2011, 12, 30), (9, 59, 59), "Pacific/Apia"), ((2011, 12, 30), (10, 0, 0), "Pacific/Apia"),        # a skipped day
    ((1883, 11, 18), (17, 0, 0), "America/New_York"),                                                     # end of local mean time
]


def gen_chrono_value(rng, p):
    if p == "weekday":
        return "n" + str(rng.randrange(1, 8))
    if p == "month":
        return "n" + str(rng.randrange(1, 13))
    if p == "fixedoffset":
        return "z" + str(gen_offset(rng))
    if p == "tz":
        return "b" + gen_tz(rng).encode().hex()
    if p == "dt_utc":
        secs = rng.choice([MIN_TS, MAX_TS, MIN_TS + 1, MAX_TS - 1, 0, -1, 1, 59, -1 - 60 * rng.randrange(1000), 1 << 31, -(1 << 31),
                           1 << 32, rng.randrange(MIN_TS, MAX_TS + 1), rng.randrange(0, 1 << 32)])
        ns = rng.choice([0, 1, 999_999_999, rng.randrange(1_000_000_000)])
        if secs % 60 == 59 and rng.random() < 0.4:
            ns = rng.choice([1_000_000_000, 1_999_999_999])
        return f"(0 z{secs} n{ns})"
    if p == "ndate":
        y, m, d = gen_ymd(rng)
        return f"(0 z{y} n{m} n{d})"
    if p == "ntime":
        return "(0 n%d n%d n%d n%d)" % gen_hmsn(rng)
    if p in ("ndt", "dt_local"):
        return show_ndt(gen_ymd(rng), gen_hmsn(rng))
    if p == "dt_fixed":
        while True:
            ymd, hmsn, off = gen_ymd(rng), gen_hmsn(rng), gen_offset(rng)
            if MIN_TS <= ndt_secs(ymd, hmsn) - off <= MAX_TS:
                return f"(0 {show_ndt(ymd, hmsn)} z{off})"
    if p == "dt_tz":
        if rng.random() < 0.25:
            # instants inside the repeated / skipped local hour of a zone (the value is the UTC instant + the zone)
            ymd, hms, z = rng.choice(DST_EDGES)
            return f"(0 {show_ndt(ymd, hms + (rng.choice([0, 1, 999_999_999]),))} b{z.encode().hex()})"
        return f"(0 {show_ndt(gen_ymd(rng), gen_hmsn(rng))} b{gen_tz(rng).encode().hex()})"
    raise ValueError(p)

SEQ_KINDS = ["vec", "ll", "hset", "bset", "arr"]
STR_POOL = ["", "a", "z", "hello", "héllo", "€", "\U0001F600", "x" * 63, "y" * 64, "w" * 65,
            "q" * 300, "\u0000", "퟿", "", "tab\tnl\n"]


# ---------------------------------------------------------------- types
def P(p):
    return ("prim", p)


def show_ty(t):
    k = t[0]
    if k == "prim":
        return t[1]
    if k == "phantom":
        return "phantom"
    if k == "opt":
        return f"(opt {show_ty(t[1])})"
    if k == "res":
        return f"(res {show_ty(t[1])} {show_ty(t[2])})"
    if k == "tup":
        return "(tup " + " ".join(show_ty(x) for x in t[1]) + ")"
    if k == "seq":
        if t[1] == "arr":
            return f"(arr {t[2]} {show_ty(t[3])})"
        return f"({t[1]} {show_ty(t[3])})"
    if k == "map":
        return f"({t[1]} {show_ty(t[2])} {show_ty(t[3])})"
    if k == "wrap":
        return f"({t[1]} {show_ty(t[2])})"
    if k == "named":
        return f"(named {t[1]})"
    raise ValueError(t)


def ty_of_text(text):
    """inverse of show_ty"""
    from . import sx as SX

    def conv(x):
        if isinstance(x, str):
            return ("phantom",) if x == "phantom" else P(x)
        h = x[0]
        if h == "opt":
            return ("opt", conv(x[1]))
        if h == "res":
            return ("res", conv(x[1]), conv(x[2]))
        if h == "tup":
            return ("tup", [conv(y) for y in x[1:]])
        if h == "arr":
            return ("seq", "arr", int(x[1]), conv(x[2]))
        if h in ("vec", "ll", "hset", "bset", "slice"):
            return ("seq", h, 0, conv(x[1]))
        if h in ("hmap", "bmap"):
            return ("map", h, conv(x[1]), conv(x[2]))
        if h in ("box", "rc", "arc", "ref"):
            return ("wrap", h, conv(x[1]))
        if h == "named":
            return ("named", int(x[1]))
        raise ValueError(x)
    return conv(SX.parse(text))


def has_unordered(t):
    k = t[0]
    if k == "seq":
        return t[1] in ("hset", "bset") or has_unordered(t[3])
    if k == "map":
        return True
    if k in ("opt", "wrap"):
        return has_unordered(t[-1])
    if k == "res":
        return has_unordered(t[1]) or has_unordered(t[2])
    if k == "tup":
        return any(has_unordered(x) for x in t[1])
    if k == "named":
        return True   # conservatively: declarations may contain sets
    return False


def gen_type(rng, depth, key=False, decodable=True, named=0):
    """key=True: usable as set element / map key (no unordered containers inside)."""
    if depth <= 0 or rng.random() < 0.3:
        if named and rng.random() < 0.2 and not key:
            return ("named", rng.randrange(named))
        if rng.random() < 0.03:
            return ("phantom",)
        return P(rng.choice(PRIMS))
    c = rng.random()
    d = depth - 1
    if c < 0.15:
        return ("opt", gen_type(rng, d, key, decodable, named))
    if c < 0.22:
        return ("res", gen_type(rng, d, key, decodable, named), gen_type(rng, d, key, decodable, named))
    if c < 0.42:
        n = rng.choice([1, 2, 2, 3, 3, 4, 5, 6, 7, 8])
        return ("tup", [gen_type(rng, d if n <= 3 else min(d, 1), key, decodable, named) for _ in range(n)])
    if c < 0.75:
        kinds = ["vec", "vec", "ll", "arr", "arr"] + ([] if key else ["hset", "bset"]) + ([] if decodable else ["slice"])
        kind = rng.choice(kinds)
        e = gen_type(rng, d, key or kind in ("hset", "bset"), decodable, named)
        if rng.random() < 0.15:
            e = P("u8")
        n = rng.choice(ARRAY_LENS[:8] if e != P("u8") else ARRAY_LENS) if kind == "arr" else 0
        return ("seq", kind, n, e)
    if c < 0.87 and not key:
        return ("map", rng.choice(["hmap", "bmap"]), gen_type(rng, d, True, decodable, named),
                gen_type(rng, d, key, decodable, named))
    ws = ["box", "rc", "arc"] + ([] if decodable else ["ref"])
    return ("wrap", rng.choice(ws), gen_type(rng, d, key, decodable, named))


def all_types_depth1():
    """every type constructor applied to every primitive (the exhaustive shallow layer)."""
    out = [P(p) for p in PRIMS] + [("phantom",)]
    base = [P(p) for p in PRIMS]
    for b in base:
        out.append(("opt", b))
        out.append(("res", b, P("str")))
        out.append(("res", P("u8"), b))
        for kind in SEQ_KINDS:
            if kind in ("hset", "bset") and b[1] in ("f32", "f64"):
                continue
            out.append(("seq", kind, 3 if kind == "arr" else 0, b))
        for w in ("box", "rc", "arc"):
            out.append(("wrap", w, b))
        out.append(("map", "hmap", P("str"), b))
        out.append(("map", "bmap", P("u32"), b))
        out.append(("tup", [b]))
        out.append(("tup", [P("u8"), b]))
    for n in range(1, 9):
        out.append(("tup", [base[(i * 5 + n) % len(base)] for i in range(n)]))
    for n in ARRAY_LENS:
        out.append(("seq", "arr", n, P("u8")))
        if n <= 8:
            out.append(("seq", "arr", n, P("u16")))
    out.append(("seq", "vec", 0, P("u8")))
    return out


# ---------------------------------------------------------------- values
def hexs(b):
    return b.hex() or "-"


def int_boundaries(signed, bits):
    lo = -(1 << (bits - 1)) if signed else 0
    hi = (1 << (bits - 1)) - 1 if signed else (1 << bits) - 1
    vals = {lo, hi, 0, 1, lo + 1, hi - 1}
    if signed:
        vals |= {-1, -2}
    for k in (7, 8, 14, 15, 16, 21, 28, 31, 32, 63, 64):
        for d in (-1, 0, 1):
            for s in ((1, -1) if signed else (1,)):
                v = s * ((1 << k) + d)
                if lo <= v <= hi:
                    vals.add(v)
    return sorted(vals)


def gen_prim_value(rng, p, boundary=0.5):
    if p in CHRONO_PRIMS:
        return gen_chrono_value(rng, p)
    if p == "varu32":
        return gen_prim_value(rng, "u32", boundary)
    if p == "vari32":
        return gen_prim_value(rng, "i32", boundary)
    if p in INT_PRIMS:
        signed, bits = INT_PRIMS[p]
        if rng.random() < boundary:
            v = rng.choice(int_boundaries(signed, bits))
        else:
            w = rng.randrange(1, bits + 1)
            v = rng.getrandbits(w)
            if signed:
                v = v >> 1 if not (v & 1) else -(v >> 1) - 1
                lo = -(1 << (bits - 1))
                v = max(lo, min(v, -lo - 1))
        return ("z" if signed else "n") + str(v)
    if p == "f32":
        c = rng.random()
        if c < 0.3:
            bits = rng.choice([0, 0x80000000, 0x7f800000, 0xff800000, 0x7fc00000, 0x7fc0dead, 0xffc00001,
                               0x00000001, 0x7f7fffff, 0x3f800000])
        else:
            bits = rng.getrandbits(32)
        return "n" + str(bits)
    if p == "f64":
        c = rng.random()
        if c < 0.3:
            bits = rng.choice([0, 1 << 63, 0x7ff0000000000000, 0xfff0000000000000, 0x7ff8000000000000,
                               0x7ff8dead00000001, 0xfff0000000000001, 1, 0x7fefffffffffffff, 0x3ff0000000000000])
        else:
            bits = rng.getrandbits(64)
        return "n" + str(bits)
    if p == "bool":
        return "n" + str(rng.randrange(2))
    if p == "unit":
        return "(0)"
    if p == "char":
        c = rng.random()
        if c < 0.5:
            v = rng.choice([0, 0x41, 0x7f, 0x80, 0x7ff, 0x800, 0xd7ff, 0xe000, 0xfffd, 0xffff])
        elif c < 0.9:
            v = rng.randrange(0, 0xd800) if rng.random() < 0.8 else rng.randrange(0xe000, 0x10000)
        else:
            v = rng.choice([0x10000, 0x1f600, 0x10ffff])    # not encodable: UnsupportedCharacter
        return "n" + str(v)
    if p in ("str", "dstr"):
        if rng.random() < 0.7:
            s = rng.choice(STR_POOL)
        else:
            s = "".join(rng.choice("abcXYZ09 _é€") for _ in range(rng.randrange(0, 12)))
        return "b" + hexs(s.encode("utf-8"))
    if p == "dur":
        secs = rng.choice([0, 1, (1 << 64) - 1, 1 << 32, rng.getrandbits(40)])
        nanos = rng.choice([0, 1, 999_999_999, rng.randrange(0, 1_000_000_000)])
        return f"(0 n{secs} n{nanos})"
    if p == "bytes":
        n = rng.choice([0, 1, 2, 5, 127, 128, 129, rng.randrange(0, 40)])
        return "b" + hexs(bytes(rng.getrandbits(8) for _ in range(n)))
    if p == "uuid":
        c = rng.random()
        if c < 0.35:
            # nil, max, one half zero, one half all ones, a single bit, the RFC 4122 example
            hi = rng.choice([0, (1 << 64) - 1, 1, 1 << 63, rng.getrandbits(64), 0x123456789abcdef0])
            lo = rng.choice([0, (1 << 64) - 1, 1, 1 << 63, rng.getrandbits(64), 0])
            return "b" + hexs(hi.to_bytes(8, "big") + lo.to_bytes(8, "big"))
        if c < 0.45:
            k = rng.randrange(16)
            return "b" + hexs(bytes(rng.choice([0, 0xff]) if j != k else rng.getrandbits(8) for j in range(16)))
        return "b" + hexs(bytes(rng.getrandbits(8) for _ in range(16)))
    if p == "bigint":
        c = rng.random()
        if c < 0.5:
            k = rng.choice([7, 8, 15, 16, 23, 24, 31, 32, 63, 64, 127, 128, 255, 256])
            v = rng.choice([1, -1]) * ((1 << k) + rng.choice([-1, 0, 1]))
        elif c < 0.6:
            v = rng.choice([0, 1, -1, 127, 128, -128, -129, 255, 256, -256, -257])
        else:
            v = rng.getrandbits(rng.randrange(1, 200)) * rng.choice([1, -1])
        return "z" + str(v)
    if p == "bigdec":
        return gen_bigdec_value(rng)
    raise ValueError(p)


BD_SCALES = [0, 1, 2, 5, 6, 7, 8, 15, 16, 17, 20, 21, 22, 100, -16, -17, -20, -21, -22, -100, -1000, 1000,
             (1 << 63) - 1, (1 << 63) - 2, -(1 << 63), -(1 << 63) + 1, 1 << 40, -(1 << 40)]


def bd_norm(i, s):
    """the representative the decimal text determines (BigDec.bd_norm)"""
    return (i * 10 ** (-s), 0) if -15 <= s < 0 else (i, s)


def gen_bigdec_pair(rng, normal=True):
    """(unscaled, scale) of a BigDecimal; every branch of the crate's formatter: plain integer, padded integer,
    fraction with and without integer digits, exponent forms on both sides, the ends of the i64 scale"""
    c = rng.random()
    if c < 0.15:
        i = rng.choice([0, 1, -1, 9, 10, -10, 100, 99, 12345, -12345, 10 ** 15, 10 ** 16, -(10 ** 20)])
    elif c < 0.5:
        i = rng.getrandbits(rng.randrange(1, 130)) * rng.choice([1, 1, -1])
    else:
        i = rng.getrandbits(rng.randrange(1, 40)) * 10 ** rng.choice([0, 0, 1, 3]) * rng.choice([1, 1, -1])
    n = len(str(abs(i)))
    c = rng.random()
    if c < 0.3:
        s = rng.choice(BD_SCALES)
    elif c < 0.6:
        s = n + rng.randrange(-3, 9)            # around the exponent threshold (more than 5 leading zeros)
    elif c < 0.9:
        s = rng.randrange(-25, 40)
    else:
        s = rng.randrange(-(1 << 63), 1 << 63)
    if normal and -15 <= s < 0:
        i, s = bd_norm(i, s)
    return i, s


def gen_bigdec_value(rng, normal=True):
    i, s = gen_bigdec_pair(rng, normal)
    return f"(0 z{i} z{s})"


def seq_len(rng):
    return rng.choice([0, 0, 1, 1, 2, 2, 3, 4, 5]) if rng.random() < 0.9 else rng.choice([63, 64, 65, 130])


def gen_value(rng, t, env=None, size=1.0):
    k = t[0]
    if k == "prim":
        return gen_prim_value(rng, t[1])
    if k == "phantom":
        return "(0)"
    if k == "opt":
        return "(0)" if rng.random() < 0.3 else f"(1 {gen_value(rng, t[1], env, size)})"
    if k == "res":
        if rng.random() < 0.5:
            return f"(1 {gen_value(rng, t[1], env, size)})"
        return f"(0 {gen_value(rng, t[2], env, size)})"
    if k == "tup":
        return "(0 " + " ".join(gen_value(rng, x, env, size) for x in t[1]) + ")"
    if k == "wrap":
        return gen_value(rng, t[2], env, size)
    if k == "seq":
        kind, n, e = t[1], t[2], t[3]
        byte_path = e == ("prim", "u8") and kind in ("vec", "slice", "arr")
        if kind == "arr":
            ln = n
        else:
            ln = seq_len(rng) if size >= 1.0 else rng.choice([0, 1, 2])
        if byte_path:
            return "b" + hexs(bytes(rng.getrandbits(8) for _ in range(ln)))
        items = []
        seen = set()
        tries = 0
        while len(items) < ln and tries < ln * 4 + 8:
            tries += 1
            v = gen_value(rng, e, env, size * 0.5)
            if kind in ("hset", "bset"):
                if v in seen:
                    continue
                seen.add(v)
            items.append(v)
        if kind == "arr" and len(items) < ln:
            items += [items[-1] if items else gen_value(rng, e, env, 0.1)] * (ln - len(items))
        return "(0" + "".join(" " + x for x in items) + ")"
    if k == "map":
        ln = seq_len(rng) if size >= 1.0 else rng.choice([0, 1, 2])
        items = []
        seen = set()
        tries = 0
        while len(items) < ln and tries < ln * 4 + 8:
            tries += 1
            kv = gen_value(rng, t[2], env, size * 0.5)
            if kv in seen:
                continue
            seen.add(kv)
            items.append(f"(0 {kv} {gen_value(rng, t[3], env, size * 0.5)})")
        return "(0" + "".join(" " + x for x in items) + ")"
    if k == "named":
        return gen_named_value(rng, env, t[1], size)
    raise ValueError(t)


# ---------------------------------------------------------------- declarations
def hexname(s):
    return s.encode().hex()


def show_field(f):
    tr = f["transient"] if f["transient"] is not None else "-"
    return f"(f {hexname(f['name'])} {show_ty(f['ty'])} {1 if f['opt'] else 0} {tr})"


def show_step(s):
    if s[0] == "add":
        return f"(add {hexname(s[1])} {s[2]})"
    return f"({s[0]} {hexname(s[1])})"


def show_rmeta(m):
    return "(" + " ".join(show_field(f) for f in m["fields"]) + ") (" + " ".join(show_step(s) for s in m["steps"]) + ")"


def show_env(env):
    if not env:
        return "-"
    out = []
    for d in env:
        if d["kind"] == "rec":
            out.append(f"(rec {hexname(d['name'])} {show_rmeta(d)})")
        else:
            vs = " ".join(f"(v {hexname(v['name'])} {1 if v['transient'] else 0} {show_rmeta(v)})" for v in d["variants"])
            out.append(f"(enum {hexname(d['name'])} {1 if d['sorted'] else 0} ({vs}))")
    return "(env " + " ".join(out) + ")"


def gen_named_value(rng, env, i, size=1.0, depth=0):
    d = env[i]
    if d["kind"] == "rec":
        return "(0" + "".join(" " + gen_field_value(rng, env, f, size, depth) for f in d["fields"]) + ")"
    vs = d["variants"]
    cands = [j for j, v in enumerate(vs) if not v["transient"]] or list(range(len(vs)))
    # prefer non-recursive variants when deep
    j = rng.choice(cands)
    if depth > 2:
        flat = [c for c in cands if not any(mentions_named(f["ty"]) for f in vs[c]["fields"])]
        if flat:
            j = rng.choice(flat)
    return f"({j}" + "".join(" " + gen_field_value(rng, env, f, size, depth) for f in vs[j]["fields"]) + ")"


def mentions_named(t):
    k = t[0]
    if k == "named":
        return True
    if k in ("opt", "wrap"):
        return mentions_named(t[-1])
    if k == "seq":
        return mentions_named(t[3])
    if k == "map":
        return mentions_named(t[2]) or mentions_named(t[3])
    if k == "res":
        return mentions_named(t[1]) or mentions_named(t[2])
    if k == "tup":
        return any(mentions_named(x) for x in t[1])
    return False


def gen_field_value(rng, env, f, size, depth):
    return gen_value_d(rng, f["ty"], env, size, depth + 1)


def gen_value_d(rng, t, env, size, depth):
    """gen_value with recursion control for recursive declarations."""
    k = t[0]
    if k == "named":
        return gen_named_value(rng, env, t[1], size * 0.6, depth)
    if depth > 3 and mentions_named(t):
        # cut recursion: None / empty where the type allows it
        if k == "opt":
            return "(0)"
        if k == "seq" and t[1] != "arr":
            return "(0)"
        if k == "map":
            return "(0)"
    if k == "opt":
        return "(0)" if rng.random() < 0.4 else f"(1 {gen_value_d(rng, t[1], env, size, depth)})"
    if k == "wrap":
        return gen_value_d(rng, t[2], env, size, depth)
    if k == "tup":
        return "(0 " + " ".join(gen_value_d(rng, x, env, size, depth) for x in t[1]) + ")"
    if k == "res":
        if rng.random() < 0.5:
            return f"(1 {gen_value_d(rng, t[1], env, size, depth)})"
        return f"(0 {gen_value_d(rng, t[2], env, size, depth)})"
    if k == "seq" and mentions_named(t):
        ln = t[2] if t[1] == "arr" else rng.choice([0, 1, 2])
        return "(0" + "".join(" " + gen_value_d(rng, t[3], env, size * 0.5, depth + 1) for _ in range(ln)) + ")"
    if k == "map" and mentions_named(t):
        ln = rng.choice([0, 1, 2])
        seen, items = set(), []
        for _ in range(ln):
            kv = gen_value(rng, t[2], env, 0.3)
            if kv in seen:
                continue
            seen.add(kv)
            items.append(f"(0 {kv} {gen_value_d(rng, t[3], env, size * 0.5, depth + 1)})")
        return "(0" + "".join(" " + x for x in items) + ")"
    return gen_value(rng, t, env, size)


# ---------------------------------------------------------------- random declarations
FIELD_NAMES = ["a", "b", "c", "d", "e", "f", "g", "h", "x", "y", "z", "name", "value", "id", "élan",
               # names whose length sits on a width boundary of the header's string length prefix (63 / 64 / 65 bytes)
               "n" * 63, "m" * 64, "k" * 65]
VARIANT_NAMES = ["A", "B", "C", "D", "Zed", "Alpha", "beta", "Gamma", "Aa", "AB", "Z"]


def default_for(rng, t, env):
    """a default expression for FieldAdded / #[transient(..)]: small value of the type"""
    return gen_value_d(rng, t, env, 0.3, 3)


def gen_rmeta(rng, env, nfields=None, evolve=True, allow_named=True, depth=2):
    """A record declaration (fields + evolution steps) that is legal in the sense of C03:
    built by simulating a history, so chunk-0 order never changes and removed fields were last."""
    n = rng.choice([0, 1, 2, 2, 3, 3, 4, 5]) if nfields is None else nfields
    names = rng.sample(FIELD_NAMES, k=min(len(FIELD_NAMES), n + 4))
    named = len(env) if allow_named else 0
    fields = []
    for i in range(n):
        t = gen_type(rng, rng.choice([0, 1, 1, 2]) if depth > 1 else 0, named=named)
        opt = False
        if rng.random() < 0.25:
            t = ("opt", t)
            opt = rng.random() < 0.9       # 10%: Option behind an alias (not spelled Option)
        fields.append({"name": names[i], "ty": t, "opt": opt, "transient": None})
    steps = []
    extra = names[n:]
    if evolve and rng.random() < 0.6:
        for _ in range(rng.choice([1, 1, 2, 3, 4])):
            c = rng.random()
            if c < 0.4 and extra:
                # FieldAdded: a new field at the end, own chunk
                nm = extra.pop()
                t = gen_type(rng, rng.choice([0, 1]), named=named)
                opt = False
                if rng.random() < 0.3:
                    t = ("opt", t)
                    opt = True
                f = {"name": nm, "ty": t, "opt": opt, "transient": None}
                # the declaration order is free: an added field may sit anywhere in the struct
                fields.insert(rng.randrange(len(fields) + 1) if rng.random() < 0.7 else len(fields), f)
                steps.append(("add", nm, default_for(rng, t, env)))
            elif c < 0.6:
                # FieldMadeOptional on a present, non-optional, non-transient field
                cands = [f for f in fields if not f["opt"] and f["ty"][0] != "opt" and f["transient"] is None
                         and not any(s[0] == "opt" and s[1] == f["name"] for s in steps)]
                if cands:
                    f = rng.choice(cands)
                    f["ty"] = ("opt", f["ty"])
                    f["opt"] = True
                    steps.append(("opt", f["name"]))
                    for s in list(steps):
                        if s[0] == "add" and s[1] == f["name"]:
                            # the macro's default expression must now have the Option type
                            steps[steps.index(s)] = ("add", s[1], f"(1 {s[2]})")
            elif c < 0.8:
                # FieldRemoved: a name that is no longer a field (either never shown, or dropped)
                gen_added = [f for f in fields if any(s[0] == "add" and s[1] == f["name"] for s in steps)]
                chunk0 = [f for f in fields if f not in gen_added and f["transient"] is None]
                cands = ([chunk0[-1]] if chunk0 else []) + gen_added
                if cands and rng.random() < 0.7:
                    f = rng.choice(cands)
                    fields.remove(f)
                    steps.append(("rem", f["name"]))
                elif extra:
                    steps.append(("rem", extra.pop()))
            else:
                # FieldMadeTransient: the field stays in the struct with a default
                gen_added = [f for f in fields if any(s[0] == "add" and s[1] == f["name"] for s in steps)
                             and f["transient"] is None]
                chunk0 = [f for f in fields if not any(s[0] == "add" and s[1] == f["name"] for s in steps)
                          and f["transient"] is None]
                cands = ([chunk0[-1]] if chunk0 else []) + gen_added
                if cands:
                    f = rng.choice(cands)
                    f["transient"] = default_for(rng, f["ty"], env)
                    steps.append(("tra", f["name"]))
    # plain transient fields (no evolution step), at any position
    if rng.random() < 0.3:
        t = gen_type(rng, 1, named=0)
        f = {"name": "cache_" + str(rng.randrange(100)), "ty": t, "opt": t[0] == "opt",
             "transient": default_for(rng, t, env)}
        fields.insert(rng.randrange(len(fields) + 1), f)
    return {"fields": fields, "steps": steps}


def gen_env(rng, ndecls=None):
    """A declaration environment: records and enums, later ones may mention earlier ones, and
    the first may be recursive through Option<Box<_>> / Vec<_>."""
    env = []
    n = rng.choice([1, 2, 3, 4]) if ndecls is None else ndecls
    for i in range(n):
        if rng.random() < 0.6:
            m = gen_rmeta(rng, env)
            d = {"kind": "rec", "name": f"R{i}", **m}
            if rng.random() < 0.2:
                # recursion through Option<Box<Self>> or Vec<Self>
                t = rng.choice([("opt", ("wrap", "box", ("named", i))), ("seq", "vec", 0, ("named", i))])
                d["fields"].append({"name": "next", "ty": t, "opt": t[0] == "opt", "transient": None})
            env.append(d)
        else:
            nv = rng.choice([1, 2, 3, 4, 5])
            vnames = rng.sample(VARIANT_NAMES, k=nv)
            variants = []
            for vn in vnames:
                shape = rng.random()
                if shape < 0.3:
                    m = {"fields": [], "steps": []}
                elif shape < 0.6:
                    # tuple variant: fields named field0.. ; evolution allowed
                    m = gen_rmeta(rng, env, evolve=rng.random() < 0.3)
                    ren = {}
                    for k, f in enumerate(m["fields"]):
                        ren[f["name"]] = f"field{k}"
                        f["name"] = f"field{k}"
                    m["steps"] = [(s[0], ren.get(s[1], s[1])) + tuple(s[2:]) for s in m["steps"]]
                else:
                    m = gen_rmeta(rng, env)
                variants.append({"name": vn, "transient": rng.random() < 0.15, **m})
            if all(v["transient"] for v in variants):
                variants[0]["transient"] = False
            d = {"kind": "enum", "name": f"E{i}", "sorted": rng.random() < 0.4, "variants": variants}
            if rng.random() < 0.2:
                d["variants"].append({"name": "Rec", "transient": False,
                                      "fields": [{"name": "field0", "ty": ("wrap", "box", ("named", i)),
                                                  "opt": False, "transient": None}], "steps": []})
            env.append(d)
    return env
