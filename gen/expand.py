"""Translation validation of the derive macro (C02): the catalogue crate is macro-expanded by rustc
(`cargo +nightly rustc -- -Zunpretty=expanded`, offline), the expansion of every catalogue type is
TRANSLATED into the procedure it performs - evolution steps of its metadata, v0/evolved constructor
of the serializer, the ordered write_field / read_field / read_optional_field calls with the presence
of a default, constructor indices, transient constructors - and compared with the procedure the model
executes for the declaration of gen/catalogue.json (fields in declaration order, transient ones
skipped, Option-spelled fields through the optional reader, a default exactly for added fields,
constructor index = position in declaration or byte-wise name order). Regenerated from /repo's
current macro on every run."""
import json
import os
import re
from . import common as C


def expand():
    tdir = os.path.join(C.TBASE, "target-expand")
    p = C.run(["cargo", "+nightly", "rustc", "--offline", "--release", "--", "-Zunpretty=expanded"], cwd=C.HARNESS,
              timeout=3000, check=False, capture=True,
              env={"CARGO_TARGET_DIR": tdir, "RUSTFLAGS": f"--cfg {C.GUARD}"})
    if p.returncode != 0 or "impl desert::BinarySerializer for" not in (p.stdout or ""):
        raise C.Undecided("macro expansion (cargo +nightly rustc -Zunpretty=expanded) failed:\n" + (p.stdout or "")[-3000:])
    return p.stdout


def block(text, start):
    """the brace-balanced block that starts at the first '{' at or after `start`"""
    i = text.index("{", start)
    depth, j = 0, i
    in_str = False
    while j < len(text):
        ch = text[j]
        if in_str:
            if ch == "\\":
                j += 1
            elif ch == '"':
                in_str = False
        elif ch == '"':
            in_str = True
        elif ch == "{":
            depth += 1
        elif ch == "}":
            depth -= 1
            if depth == 0:
                return text[i:j + 1]
        j += 1
    raise ValueError("unbalanced")


def impl_block(text, trait, name):
    m = re.search(r"impl desert::%s for %s \{" % (trait, re.escape(name)), text)
    if not m:
        return None
    return block(text, m.start())


def metadata_steps(text, static_name):
    m = re.search(r"impl ::lazy_static::__Deref for %s \{" % re.escape(static_name), text)
    if not m:
        return None
    b = block(text, m.start())
    steps = []
    for mm in re.finditer(r"desert::Evolution::(\w+)(?:\s*\{\s*name:\s*\"((?:[^\"\\]|\\.)*)\"\.to_string\(\),?\s*\})?", b):
        steps.append((mm.group(1), mm.group(2)))
    return steps


KIND = {"add": "FieldAdded", "opt": "FieldMadeOptional", "rem": "FieldRemoved", "tra": "FieldMadeTransient"}
# the names of the generated local variables are not part of the procedure
READ = re.compile(r"\b\w+\.(read_field|read_optional_field)\(\"([^\"]+)\",\s*(Some|None)")
WRITE = re.compile(r"\b\w+\.write_field\(\"([^\"]+)\"")
READ_CTOR = re.compile(r"\b\w+\.read_constructor\(")


def branches(found, want):
    """A list of calls as the expansion has it: once (one body shared by the two stored-version branches) or once per
    branch. Returns (first, second-or-None): second is set only when there are two halves that differ."""
    found = [tuple(x) if isinstance(x, (list, tuple)) else x for x in found]
    want = [tuple(x) if isinstance(x, (list, tuple)) else x for x in want]
    if found == want:
        return found, None
    h = len(found) // 2
    if len(found) % 2 == 0 and found[:h] == found[h:]:
        return found[:h], None
    if len(found) % 2 == 0 and found:
        return found[:h], found[h:]
    return found, None


def expected_record(rec):
    """the procedure the model executes for a record / variant body"""
    steps = [("InitialVersion", None)] + [(KIND[s[0]], s[1]) for s in rec["steps"]]
    added = {s[1] for s in rec["steps"] if s[0] == "add"}
    written = [f for f in rec["fields"] if f["transient"] is None]
    writes = [f["name"] for f in written]
    reads = [("read_optional_field" if f["opt"] else "read_field", f["name"], "Some" if f["name"] in added else "None")
             for f in written]
    return {"steps": steps, "v0": not rec["steps"], "writes": writes, "reads": reads}


def actual_record(text, ser_blk, de_blk, static_name, want_reads):
    steps = metadata_steps(text, static_name)
    first, second = branches(READ.findall(de_blk), want_reads)
    return {"steps": steps, "v0": ("AdtSerializer::new_v0(&" + static_name) in ser_blk,
            "writes": WRITE.findall(ser_blk),
            "reads": first, "reads_second_branch": second}


def case_order(d):
    idx = list(range(len(d["variants"])))
    if d["sorted"]:
        idx.sort(key=lambda j: d["variants"][j]["name"].encode())
    return idx


def validate():
    """returns (n_types_checked, mismatches: list of str)"""
    text = expand()
    cat = json.load(open(os.path.join(C.VERIF, "gen", "catalogue.json")))
    mism = []
    n = 0
    for d in cat:
        name = d["name"]
        ser = impl_block(text, "BinarySerializer", name)
        de = impl_block(text, "BinaryDeserializer", name)
        if ser is None or de is None:
            mism.append(f"{name}: no expanded impl found")
            continue
        n += 1
        if d["kind"] == "rec":
            exp = expected_record(d)
            act = actual_record(text, ser, de, name.upper() + "_METADATA", exp["reads"])
            for k in ("steps", "v0", "writes", "reads"):
                if [tuple(x) if isinstance(x, (list, tuple)) else x for x in (act[k] if isinstance(act[k], list) else [act[k]])] != \
                   [tuple(x) if isinstance(x, (list, tuple)) else x for x in (exp[k] if isinstance(exp[k], list) else [exp[k]])]:
                    mism.append(f"{name}: {k}: expansion {act[k]} / declaration {exp[k]}")
            sn = name.upper() + "_METADATA"
            if ("AdtDeserializer::new_v0(&" + sn) not in de.replace("\n", " ").replace("  ", " ") and \
               not re.search(r"AdtDeserializer::new_v0\(&\s*" + re.escape(sn), de):
                mism.append(f"{name}: the stored-version-0 branch does not read with the type's own metadata {sn}")
            if not re.search(r"AdtDeserializer::new\(&\s*" + re.escape(sn), de):
                mism.append(f"{name}: the evolved branch does not read with the type's own metadata {sn}")
            if act["reads_second_branch"] is not None:
                mism.append(f"{name}: the stored-version-0 branch and the evolved branch read different fields: "
                            f"{act['reads']} / {act['reads_second_branch']}")
            continue
        # enums
        order = case_order(d)
        # serializer arms
        for j, v in enumerate(d["variants"]):
            m = re.search(r"%s::%s\b[^=]*=>\s*\{" % (re.escape(name), re.escape(v["name"])), ser)
            if not m:
                mism.append(f"{name}::{v['name']}: no serializer arm")
                continue
            arm = block(ser, m.end() - 1)
            cidx = order.index(j)
            if v["transient"]:
                if "SerializingTransientConstructor" not in arm or "write_constructor" in arm:
                    mism.append(f"{name}::{v['name']}: transient constructor is written")
                continue
            mi = re.search(r"write_constructor\((\d+)usize", arm)
            if not mi or int(mi.group(1)) != cidx:
                mism.append(f"{name}::{v['name']}: constructor index {mi.group(1) if mi else None}, declaration says {cidx}")
            exp = expected_record(v)
            sname = f"{name.upper()}_{v['name'].upper()}_METADATA"
            if WRITE.findall(arm) != exp["writes"]:
                mism.append(f"{name}::{v['name']}: writes {WRITE.findall(arm)} / declaration {exp['writes']}")
            if (("AdtSerializer::new_v0(&" + sname) in arm) != exp["v0"]:
                mism.append(f"{name}::{v['name']}: v0 / evolved serializer does not match the presence of steps")
            st = metadata_steps(text, sname)
            if st != exp["steps"]:
                mism.append(f"{name}::{v['name']}: steps {st} / declaration {exp['steps']}")
        # deserializer: the sequence of read_constructor calls (it appears once per stored-version branch)
        chunks = READ_CTOR.split(de)[1:]
        seq = []
        for ch in chunks:
            mi = re.match(r"(\d+)usize", ch)
            tr = "DeserializingTransientConstructor" in re.split(r"\b\w+\.unknown_constructor", ch)[0][:600] and \
                 "Ok(%s::" % name not in ch.split("})?")[0]
            mv = re.search(r"Ok\(%s::(\w+)" % re.escape(name), ch)
            mt = re.search(r"constructor_name:\s*\"([^\"]+)\"", ch)
            vname = mt.group(1) if tr and mt else (mv.group(1) if mv else None)
            body = READ_CTOR.split(ch)[0]
            rd = READ.findall(body)
            if not tr and vname:
                sn = f"{name.upper()}_{vname.upper()}_METADATA"
                for ctor in ("new_v0", "new"):
                    if not re.search(r"AdtDeserializer::%s\(&\s*%s\b" % (ctor, re.escape(sn)), body):
                        mism.append(f"{name}::{vname}: the {'stored-version-0' if ctor == 'new_v0' else 'evolved'} branch of the "
                                    f"constructor's reader does not use the constructor's own metadata {sn}")
            vdecl = [v for v in d["variants"] if v["name"] == vname]
            rfirst, rsecond = branches(rd, expected_record(vdecl[0])["reads"] if vdecl and not vdecl[0]["transient"] else [])
            if rsecond is not None:
                mism.append(f"{name}::{vname}: the two stored-version branches of the constructor's reader read different "
                            f"fields: {rfirst} / {rsecond}")
            seq.append((int(mi.group(1)) if mi else None, vname, tr, rfirst))
        want = []
        for cidx, j in enumerate(order):
            v = d["variants"][j]
            want.append((cidx, v["name"], bool(v["transient"]), [] if v["transient"] else expected_record(v)["reads"]))
        sfirst, ssecond = branches(seq, want)
        if sfirst != want:
            mism.append(f"{name}: constructors read as {sfirst} / declaration {want}")
        if ssecond is not None:
            mism.append(f"{name}: the two stored-version branches of the enum reader differ")
    return n, mism
