#!/usr/bin/env python3
"""Rewrites the table of DESIGN.md section 12 from seeded/*/meta.json."""
import glob
import json
import os

V = os.path.dirname(os.path.dirname(os.path.abspath(__file__)))
rows = []
for d in sorted(glob.glob(os.path.join(V, "seeded", "*", "meta.json"))):
    m = json.load(open(d))
    name = os.path.basename(os.path.dirname(d))
    c = m["checks_run_against_it"]
    summ = (m.get("summary") or "").replace("|", "/").replace("\n", " ")
    if len(summ) > 240:
        summ = summ[:237] + "..."
    h = m.get("history", "")
    note = ""
    if "Strengthened:" in h:
        note = "yes: " + h.split("Strengthened:")[1].strip()
    elif h:
        note = h
    if len(note) > 260:
        note = note[:257] + "..."
    rows.append(f"| `{name}` | {summ} | {', '.join(c['caught_by'])} | {note} |")
p = os.path.join(V, "DESIGN.md")
s = open(p).read()
head = "| seeded change | what it does | caught by | check strengthened because of it |\n|---|---|---|---|\n"
i = s.index(head) + len(head)
j = s.index("\n\n", i)
s = s[:i] + "\n".join(rows) + s[j:]
open(p, "w").write(s)
print(len(rows), "rows")
