"""C04 — wire format conforms to the desert binary format."""
from .. import common as C
from .. import gencases as G
from .. import rtfamily as R
from .. import catalogue as K
from .. import sx

POINT = "02080803027afffffff600000001"


def check(rep, tier, seed):
    rng = C.rng_for(seed, "C04")
    ob = C.coq_obligations("C04")
    harness = C.build_harness("release")
    model = C.build_model()
    wd = C.workdir("C04")
    bad = []
    # (1) bytes of every value = reference encoder, built-in and derived, dynamic route
    cases = R.builtin_cases(rng, tier, per_type=3) + R.derived_cases(rng, tier)
    for c in cases:
        c["cmd"] = "enc"
    impl, mod = C.run_codec(harness, model, cases, wd, "enc")
    dis = [(C.codec_line(c), a, b) for c, a, b in zip(cases, impl, mod) if a != b]
    for c, a, b in zip(cases, impl, mod):
        if a.startswith("ok ") and b.startswith("ok ") and a.split(" ")[1] != b.split(" ")[1]:
            bad.append((C.codec_line(c), a.split(" ")[1] + " (reference: " + b.split(" ")[1] + ")",
                        "the bytes produced differ from the reference encoding of the format"))
    # (2) static route: the derive macro's bytes = reference encoder; the pinned Point vector
    env = K.load()
    sc = []
    per = 6 if tier == "quick" else 150
    for i in range(len(env)):
        for v in K.gen_values(rng, env, i, per):
            sc.append({"cmd": "srt", "w": i, "val": v, "sfx": "-"})
    pi = K.index_of(env, "Point")
    sc.append({"cmd": "srt", "w": pi, "val": "(0 z1 z-10 (0))", "sfx": "-"})
    simpl, smod, hl = K.run_static(harness, model, env, sc, wd, "st")
    sdis = [(l, a, b) for l, a, b in zip(hl, simpl, smod) if a != b]
    for l, a, b in zip(hl, simpl, smod):
        ea, eb = a.split(" ; ")[0], b.split(" ; ")[0]
        if ea.startswith("ok ") and eb.startswith("ok ") and ea != eb:
            bad.append((l, ea + " (reference: " + eb + ")", "the derived codec's bytes differ from the reference encoding"))
    if not simpl[-1].startswith("ok " + POINT):
        bad.append((hl[-1], simpl[-1], "the 14-byte Point vector pinned by the suite is not reproduced"))
    # (3) converse: encodings this writer never emits - every sequence and map in the unknown-length form,
    # at every nesting level, inside records and enums - produced by the reference, read by the implementation
    ucases = [c for c in cases if c["_t"][0] in ("seq", "map", "tup", "opt", "named", "res", "wrap")][: (4000 if tier == "quick" else 10 ** 9)]
    for c in ucases:
        c["cmd"] = "encu"
    ulines = [C.codec_line(c) for c in ucases]
    uenc = C._run_codec_side(model, ucases, ulines, wd, "uenc", 16, 3000)
    dcases, dexp = [], []
    nunk = 0
    for c, a in zip(ucases, uenc):
        if not a.startswith("ok "):
            continue
        hx = a.split(" ")[1]
        dcases.append({"env": c["env"], "cmd": "dec", "ty": c["ty"], "hex": (hx if hx != "-" else "") + "a5"})
        dexp.append(sx.expect_decoded(c["_t"], c["val"], c["_env"]))
        nunk += 1
    dimpl, dmod = C.run_codec(harness, model, dcases, wd, "udec")
    dis += [(C.codec_line(c), a, b) for c, a, b in zip(dcases, dimpl, dmod) if a != b]
    for c, a, e in zip(dcases, dimpl, dexp):
        if a != f"ok {e} 1":
            bad.append((C.codec_line(c), a, "a well-formed encoding in the unknown-length form does not decode to the value it denotes"))
    C.proof_coverage(rep, ob, "C04", ["the golden file dataset1.bin (written by Scala desert) is decoded only by the repository's own "
                                      "test: its model needs a hand-written StackTraceElement codec (var_u32 field) that is outside "
                                      "the embedded type language; the external anchors of the reference are the 14-byte Point vector "
                                      "and the layout theorems"])
    lines = [C.codec_line(c) for c in cases] + hl + [C.codec_line(c) for c in dcases]
    rep.coverage.update({
        "evaluations": len(lines), "distinct_nontrivial": len(set(lines)),
        "rule": "exact output bytes of every value of the C01 stream (built-in types to depth 5) and the C02 stream (random "
                "declarations) through the dynamic route, and of every catalogue type through the static route (real derive "
                "macro), compared byte for byte with the reference encoder Codec.enc whose layouts are pinned by the C04 "
                "theorems; hash containers under the iteration order the implementation reports; converse: the reference "
                "writes the same values with every sequence/map in the unknown-length form and the implementation must "
                "decode them to the value and stop exactly at the end",
        "samples": [l[:300] for l in lines[:2] + hl[:1] + [C.codec_line(c) for c in dcases[:2]]],
        "programs": len(env), "unknown_form_encodings_decoded": nunk,
        "disagreements_checked": len(lines), "disagreements": len(dis) + len(sdis),
    })
    if bad:
        l, a, why = bad[0]
        rep.violation(f"{why}: {l[:200]}", {"kind": "case", "case": l, "implementation": a, "why": why, "n_failing": len(bad)})
    C.report_broken(rep, ob, dis + sdis, "enc bytes / unknown-form decode", bool(bad))
