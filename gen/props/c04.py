"""C04 — wire format conforms to the desert binary format."""
from .. import common as C
from .. import gencases as G
from .. import rtfamily as R
from .. import catalogue as K
from .. import sx

POINT = "02080803027afffffff600000001"


def check(rep, tier, seed):
    rng = C.rng_for(seed, "C04")
    ob = C.coq_obligations("C04")
    harness = C.build_harness("release")
    model = C.build_model()
    wd = C.workdir("C04")
    bad = []
    # (1) bytes of every value = reference encoder, built-in and derived, dynamic route
    cases = R.builtin_cases(rng, tier, per_type=3) + R.derived_cases(rng, tier)
    for c in cases:
        c["cmd"] = "enc"
    impl, mod = C.run_codec(harness, model, cases, wd, "enc")
    dis = [(C.codec_line(c), a, b) for c, a, b in zip(cases, impl, mod) if a != b]
    for c, a, b in zip(cases, impl, mod):
        if a.startswith("ok ") and b.startswith("ok ") and a.split(" ")[1] != b.split(" ")[1]:
            bad.append((C.codec_line(c), a.split(" ")[1] + " (reference: " + b.split(" ")[1] + ")",
                        "the bytes produced differ from the reference encoding of the format"))
    # (2) static route: the derive macro's bytes = reference encoder; the pinned Point vector
    env = K.load()
    sc = []
    per = 6 if tier == "quick" else 150
    for i in range(len(env)):
        for v in K.gen_values(rng, env, i, per):
            sc.append({"cmd": "srt", "w": i, "val": v, "sfx": "-"})
    pi = K.index_of(env, "Point")
    sc.append({"cmd": "srt", "w": pi, "val": "(0 z1 z-10 (0))", "sfx": "-"})
    simpl, smod, hl = K.run_static(harness, model, env, sc, wd, "st")
    sdis = [(l, a, b) for l, a, b in zip(hl, simpl, smod) if a != b]
    for l, a, b in zip(hl, simpl, smod):
        ea, eb = a.split(" ; ")[0], b.split(" ; ")[0]
        if ea.startswith("ok ") and eb.startswith("ok ") and ea != eb:
            bad.append((l, ea + " (reference: " + eb + ")", "the derived codec's bytes differ from the reference encoding"))
    if not simpl[-1].startswith("ok " + POINT):
        bad.append((hl[-1], simpl[-1], "the 14-byte Point vector pinned by the suite is not reproduced"))
    # (3) converse: encodings this writer never emits - every sequence and map in the unknown-length form,
    # at every nesting level, inside records and enums - produced by the reference, read by the implementation
    ucases = [c for c in cases if c["_t"][0] in ("seq", "map", "tup", "opt", "named", "res", "wrap")][: (4000 if tier == "quick" else 10 ** 9)]
    for c in ucases:
        c["cmd"] = "encu"
    ulines = [C.codec_line(c) for c in ucases]
    uenc = C._run_codec_side(model, ucases, ulines, wd, "uenc", 16, 3000)
    dcases, dexp = [], []
    nunk = 0
    for c, a in zip(ucases, uenc):
        if not a.startswith("ok "):
            continue
        hx = a.split(" ")[1]
        dcases.append({"env": c["env"], "cmd": "dec", "ty": c["ty"], "hex": (hx if hx != "-" else "") + "a5"})
        dexp.append(sx.expect_decoded(c["_t"], c["val"], c["_env"]))
        nunk += 1
    dimpl, dmod = C.run_codec(harness, model, dcases, wd, "udec")
    dis += [(C.codec_line(c), a, b) for c, a, b in zip(dcases, dimpl, dmod) if a != b]
    for c, a, e in zip(dcases, dimpl, dexp):
        if a != f"ok {e} 1":
            bad.append((C.codec_line(c), a, "a well-formed encoding in the unknown-length form does not decode to the value it denotes"))
    # (3b) BigDecimal is not modelled, but its layout is stated by the format: the decimal text as a plain String
    from . import c01 as C1
    bcases, bwant = [], []
    for _ in range(400 if tier == "quick" else 20000):
        txt = C1.gen_bigdec(rng)
        if rng.random() < 0.3:
            txt = txt.rstrip("0") + "0" * rng.choice([1, 2, 5]) if "." in txt else txt + ".0"    # trailing zeros are data (the scale)
        bcases.append(R.mk(None, G.P("bigdec"), "b" + txt.encode().hex(), "-", "enc"))
        n = len(txt.encode())
        zz, pre = n << 1, bytearray()
        while True:
            if zz < 128:
                pre.append(zz)
                break
            pre.append((zz & 0x7f) | 0x80)
            zz >>= 7
        bwant.append((bytes(pre) + txt.encode()).hex())
    bimpl = C._run_codec_side(harness, bcases, [C.codec_line(c) for c in bcases], wd, "bigdec", 8, 3000)
    for c, a, w in zip(bcases, bimpl, bwant):
        if not a.startswith("ok " + w + " "):
            bad.append((C.codec_line(c), a[:120] + " (format: " + w + ")",
                        "BigDecimal is not written as the String of its decimal text"))
    rep.coverage["bigdecimal_layout_cases"] = len(bcases)
    # (3c) well-formed encodings with four-byte chunk sizes (chunks beyond 16 MiB) must be read back
    C1.big_stream(rep, harness, C.workdir("C04big"), C1.size_boundary_cases(rng)[1][-3:])
    # (4) the golden file written by Scala desert (desert_macro/golden/dataset1.bin): the declarations of
    # desert_macro/tests/golden.rs in the case language; the reference decoder and the implementation must read the
    # same value from it, and the reference ENCODER must reproduce the Scala bytes exactly from that value
    from .. import golden as GD
    genv = GD.env()
    ghex = GD.golden_hex()
    gcase = [{"env": G.show_env(genv), "cmd": "dec", "ty": "(named 0)", "hex": ghex}]
    gimpl = C._run_codec_side(harness, gcase, [C.codec_line(gcase[0])], wd, "golden.impl", 1, 3000)
    # one pass of the model over the 242 KB (its list-based reader is quadratic): decode, then re-encode what it decoded
    path = C.os.path.join(wd, "golden.reenc.cases")
    C.write_lines(path, [f"E {G.show_env(genv)}", f"reenc (named 0) {ghex}"])
    mline = C.run([model, "codec", path], timeout=1800).stdout.splitlines()[-1]
    gmod_dec, _, gmod_enc = mline.partition(" ;; ")
    golden = {"bytes": len(ghex) // 2, "implementation": gimpl[0][:60] + " ... " + gimpl[0][-12:], "agree": gimpl[0] == gmod_dec}
    if gimpl[0] != gmod_dec:
        dis.append(("dec (named 0) <dataset1.bin>", gimpl[0][:200], gmod_dec[:200]))
    if not (gimpl[0].startswith("ok ") and gimpl[0].endswith(" 0")):
        bad.append(("dec TestModel1 <desert_macro/golden/dataset1.bin>", gimpl[0][:200],
                    "the Scala-written golden file is not decoded completely"))
    # the reference encoder's own bytes for that value (sets and maps in the file's order), read by the implementation:
    # Scala wrote `list` (a Scala List) in the unknown-length form and repeated the header name "cached" in full where
    # this writer emits the known-length form and a back-reference - two freedoms of the format (C12, section 4.5), so
    # the two byte strings differ there and nowhere else; both must denote the same value
    if gmod_enc.startswith("ok "):
        rhex = gmod_enc.split(" ")[1]
        golden["reference_reencoding"] = {"bytes": len(rhex) // 2, "golden_bytes": len(ghex) // 2}
        xcase = [{"env": G.show_env(genv), "cmd": "dec", "ty": "(named 0)", "hex": rhex}]
        ximpl = C._run_codec_side(harness, xcase, [C.codec_line(xcase[0])], wd, "goldenx.impl", 1, 3000)
        golden["reference_reencoding"]["implementation_reads_the_same_value"] = (ximpl[0] == gimpl[0])
        if ximpl[0] != gimpl[0]:
            bad.append(("dec TestModel1 <reference re-encoding of dataset1.bin>", ximpl[0][:200],
                        "the reference encoder's bytes for the golden value are not read back as that value"))
    else:
        dis.append(("reenc (named 0) <dataset1.bin>", "ok <hex>", gmod_enc[:120]))
    # and the implementation round-trips the value it read (what the repository's own test asserts)
    if gimpl[0].startswith("ok "):
        val = gimpl[0][3:].rpartition(" ")[0]
        rt = [R.mk(genv, ("named", 0), val, "-")]
        rimpl = C._run_codec_side(harness, rt, [C.codec_line(rt[0])], wd, "goldenrt.impl", 1, 3000)
        ok, why = R.judge_rt(rt[0], rimpl[0])
        golden["implementation_round_trips_it"] = ok
        if not ok:
            bad.append(("rt TestModel1 <value of dataset1.bin>", rimpl[0][:200], why))
    C.proof_coverage(rep, ob, "C04", ["external anchors of the reference format: the golden file dataset1.bin written by Scala desert "
                                      "(the reference decoder reads it to the value the implementation reads; the reference encoder's "
                                      "bytes for that value differ from Scala's only by the size form of one list and one repeated header "
                                      "name, and are read back as the same value), the 14-byte Point vector, the layout theorems; "
                                      "StackTraceElement's hand-written codec is described as a version-0 record whose last field is "
                                      "the var-int primitive PVarU32"])
    rep.coverage["golden_file"] = golden
    lines = [C.codec_line(c) for c in cases] + hl + [C.codec_line(c) for c in dcases]
    rep.coverage.update({
        "evaluations": len(lines), "distinct_nontrivial": len(set(lines)),
        "rule": "exact output bytes of every value of the C01 stream (built-in types to depth 5) and the C02 stream (random "
                "declarations) through the dynamic route, and of every catalogue type through the static route (real derive "
                "macro), compared byte for byte with the reference encoder Codec.enc whose layouts are pinned by the C04 "
                "theorems; hash containers under the iteration order the implementation reports; converse: the reference "
                "writes the same values with every sequence/map in the unknown-length form and the implementation must "
                "decode them to the value and stop exactly at the end",
        "samples": [l[:300] for l in lines[:2] + hl[:1] + [C.codec_line(c) for c in dcases[:2]]],
        "programs": len(env), "unknown_form_encodings_decoded": nunk,
        "disagreements_checked": len(lines), "disagreements": len(dis) + len(sdis),
    })
    if bad:
        l, a, why = bad[0]
        rep.violation(f"{why}: {l[:200]}", {"kind": "case", "case": l, "implementation": a, "why": why, "n_failing": len(bad)})
    C.report_broken(rep, ob, dis + sdis, "enc bytes / unknown-form decode", bool(bad))
