"""C16 — compressed blocks round-trip and are correctly framed (partial: deflate is an oracle)."""
from .. import common as C


def contents(rng, tier):
    out = [b"", b"\x00", b"a", bytes(range(256))]
    sizes = [1, 2, 10, 100, 1000, 4096, 65535, 65536, 65537] + ([200000, 1 << 20] if tier == "thorough" else [100000])
    for n in sizes:
        out.append(bytes(rng.getrandbits(8) for _ in range(n)))                 # incompressible
        out.append(bytes([7]) * n)                                              # highly repetitive
        out.append((b"desert-" * (n // 7 + 1))[:n])
        out.append(bytes((i * i) & 0xff for i in range(n)))
    return out


def check(rep, tier, seed):
    rng = C.rng_for(seed, "C16")
    ob = C.coq_obligations("C16")
    harness = C.build_harness("release")
    hdebug = C.build_harness("debug")
    wd = C.workdir("C16")
    lines = []
    data = contents(rng, tier)
    for d in data:
        hx = d.hex() or "-"
        for level in (range(10) if len(d) <= 70000 else (0, 1, 6, 9)):
            lines.append(f"rt {level} {hx} {rng.choice(['-', '00', 'ff01', '8080808001'])}")
    small = [d for d in data if len(d) <= 1000][: (12 if tier == "quick" else 40)]
    for d in small:
        for level in (0, 6, 9):
            lines.append(f"trunc {level} {d.hex() or '-'}")
            lines.append(f"flip {level} {d.hex() or '-'}")
    for raw in ("ffffffff0f0100", "ffffffff0f", "00", "-", "0000", "0500", "ffffffff0fffffffff0f", "0a03030000"):
        lines.append(f"raw {raw}")
    # large blocks that deflate to almost nothing (a few KiB for several MiB): the reader must not bound its output by
    # the compressed size
    for n in ((1 << 22) + 3, 6000000) if tier == "quick" else ((1 << 22) + 3, 6000000, 1 << 25):
        for byte in (0, 171):
            for level in (1, 6, 9):
                lines.append(f"rtc {level} {byte} {n} 8080808001")
    # incompressible blocks whose COMPRESSED length crosses a width boundary of its var-int (2^14, 2^21): stored deflate
    # blocks add 5 bytes per 65535, so the block sizes sweep a window below each boundary
    for n in list(range(16360, 16392, 4)) + list(range(2096700, 2097200, 35 if tier == "quick" else 7)):
        for level in (0, 1, 9):
            lines.append(f"rtr {level} {rng.getrandbits(40)} {n} ff01")
    lines.append("huge 5")
    lines.append("huge 0")
    res = {}
    for prof, exe in (("release", harness), ("debug", hdebug)):
        res[prof] = C.run_sharded(exe, "compress", lines if prof == "release" else lines[::4], wd, prof, shards=16)
    bad = []
    nflip = 0
    worst = 0
    for prof in res:
        ls = lines if prof == "release" else lines[::4]
        for l, a in zip(ls, res[prof]):
            why = None
            if a.startswith("panic"):
                why = "panic"
            elif l.startswith("rt ") or l.startswith("rtc ") or l.startswith("rtr "):
                kv = dict(x.split("=") for x in a.split()[1:])
                n = int(kv["len"])
                if kv["sinks"] != "true":
                    why = "the sinks (Vec, BytesMut, size calculator, SerializationContext, a fresh thread) disagree on the frame"
                elif kv["layout"] != "true":
                    why = "the frame does not record the true uncompressed / compressed lengths"
                elif kv["decoded"] != "true":
                    why = "a compressed block is not read back identical"
                elif kv["rest"] != "true":
                    why = "data after the frame was disturbed"
                elif int(kv["alloc"]) > max(65536, 2 * n) + 64:
                    why = f"allocation request {kv['alloc']} for {n} bytes"
            elif l.startswith("trunc "):
                if not a.endswith("accepted=0"):
                    why = "a truncated frame was accepted"
            elif l.startswith("flip "):
                kv = dict(x.split("=") for x in a.split()[1:])
                nflip += int(kv["variants"])
                worst = max(worst, int(kv["worst_alloc"]))
                if kv["over_bound"] != "0":
                    why = "a damaged frame caused an allocation request above max(64 KiB, 2 x produced)"
            elif l.startswith("huge "):
                if a != "huge err LengthTooLarge written=0":
                    why = ("a block of 2^32 + %s bytes is not reported as LengthTooLarge with nothing written (the frame "
                           "cannot record its true length)" % l.split()[1])
            elif l.startswith("raw "):
                alloc = int(a.rsplit("alloc=", 1)[1])
                if alloc > 65536 + 64:
                    why = f"a hostile frame made the reader reserve {alloc} bytes"
            if why:
                bad.append((f"{l[:120]} ({prof})", a, why))
    C.proof_coverage(rep, ob, "C16", ["oracle: flate2/miniz_oxide deflate with the single assumed law inflate(deflate l d) = Some d "
                                      "(sampled here at levels 0-9); that miniz_oxide never panics on damaged data and that "
                                      "Vec growth stays within 2x are MEASURED by this check (catch_unwind, counting allocator), "
                                      "not proved"])
    rep.coverage.update({
        "evaluations": sum(len(v) for v in res.values()) + nflip, "distinct_nontrivial": len(set(lines)),
        "rule": "contents: empty, single byte, all byte values, random (incompressible), constant and periodic (highly "
                "repetitive), sizes 1 B .. 100 KiB (1 MiB thorough) incl. 65535/65536/65537, x compression levels 0-9, "
                "written to Vec/BytesMut/SizeCalculator, read through SliceInput/OwnedInput/DeserializationContext with data "
                "after the frame; every truncation and every single-bit flip of small frames, both header lengths rewritten "
                "to boundary values; hostile raw frames (ff ff ff ff 0f 01 00 ...); blocks of 2^32 and 2^32 + 5 bytes (must be "
                "LengthTooLarge, nothing written); largest single allocation per read "
                "measured by a counting allocator; release and (a quarter of the cases) debug",
        "samples": [l[:120] for l in lines[:3] + lines[-3:]], "damaged_frames": nflip, "worst_allocation_on_damage": worst,
    })
    if bad:
        l, a, why = bad[0]
        rep.violation(f"{why}: {l}", {"kind": "case", "case": l, "implementation": a, "why": why, "n_failing": len(bad)})
    C.report_broken(rep, ob, [], "compress", bool(bad))
