"""C03 — schema evolution: every writer/reader version pair gives the documented outcome."""
import os
import subprocess
from .. import common as C
from .. import gencases as G

NEUTRAL_PRIMS = ["u8", "i8", "u16", "i32", "u64", "i128", "f64", "bool", "unit", "char", "str", "dur", "bytes", "uuid"]


def neutral_type(rng, depth=1):
    """field types that do not touch the string table (DESIGN 9.4)"""
    if depth <= 0 or rng.random() < 0.5:
        return G.P(rng.choice(NEUTRAL_PRIMS))
    c = rng.random()
    if c < 0.3:
        e = neutral_type(rng, depth - 1)
        while e in (G.P("unit"), ("wrap", "box", G.P("unit"))):
            # sequences of zero-width elements: when an illegal or unframed pair makes the reader see a garbage
            # count they spin (known finding F14); kept out of this stream as they are out of C05's
            e = neutral_type(rng, depth - 1)
        return ("seq", rng.choice(["vec", "ll"]), 0, e)
    if c < 0.5:
        return ("tup", [neutral_type(rng, 0) for _ in range(rng.choice([1, 2, 3]))])
    if c < 0.65:
        return ("res", neutral_type(rng, 0), neutral_type(rng, 0))
    if c < 0.8:
        return ("map", "bmap", G.P(rng.choice(["u8", "str", "i32"])), neutral_type(rng, 0))
    return ("wrap", "box", neutral_type(rng, depth - 1))


def show_hfield(f):
    tr = f["transient"] if f["transient"] is not None else "-"
    return f"(f {G.hexname(f['name'])} {G.show_ty(f['ty'])} {1 if f['opt'] else 0} {tr})"


def gen_history(rng, illegal=False, wide=False):
    """wide: 60-127 initial fields of one-byte types (the position byte of a FieldMadeOptional entry is a signed byte:
    positions up to 127 in the initial chunk), steps that make late fields optional"""
    names = rng.sample(G.FIELD_NAMES, k=len(G.FIELD_NAMES))
    if wide:
        names = [f"w{k}" for k in range(140, 0, -1)] + names
    n0 = rng.choice([0, 1, 2, 3, 4, 5]) if not wide else rng.choice([60, 64, 65, 66, 100, 126, 127])
    fields = []
    for _ in range(n0):
        t = neutral_type(rng) if not wide else G.P(rng.choice(["u8", "i8", "bool"]))
        opt = rng.random() < 0.2
        if opt:
            t = ("opt", t)
        fields.append({"name": names.pop(), "ty": t, "opt": opt, "transient": None, "gen": 0})
    if rng.random() < 0.15:
        t = neutral_type(rng, 0)
        fields.insert(rng.randrange(len(fields) + 1),
                      {"name": "tmp", "ty": t, "opt": False, "transient": G.gen_value(rng, t, None, 0.3), "gen": 0})
    init = [dict(f) for f in fields]
    versions = [[dict(f) for f in fields]]
    hsteps = []
    for i in range(1, rng.choice([1, 2, 3, 4, 5, 6, 8]) + 1):
        c = rng.random()
        written = [f for f in fields if f["transient"] is None]
        c0 = [f for f in written if f["gen"] == 0]
        removable = [f for f in written if f["gen"] > 0] + ([c0[-1]] if c0 else [])
        if illegal and rng.random() < 0.3 and written:
            removable = written          # also non-trailing chunk-0 fields: outside the property
        if c < 0.4 and names:
            t = neutral_type(rng)
            opt = rng.random() < 0.25
            if opt:
                t = ("opt", t)
            f = {"name": names.pop(), "ty": t, "opt": opt, "transient": None, "gen": i}
            d = G.gen_value(rng, t, None, 0.4)
            fields.append(f)
            hsteps.append(f"(add {show_hfield(f)} {d})")
        elif c < (0.6 if not wide else 0.9) and [f for f in written if not f["opt"] and f["ty"][0] != "opt"]:
            cands = [f for f in written if not f["opt"] and f["ty"][0] != "opt"]
            f = rng.choice(cands if not wide else cands[len(cands) // 2:])
            f["ty"] = ("opt", f["ty"])
            f["opt"] = True
            hsteps.append(f"(opt {G.hexname(f['name'])})")
        elif c < 0.8 and removable:
            f = rng.choice(removable)
            fields.remove(f)
            hsteps.append(f"(rem {G.hexname(f['name'])})")
        elif removable:
            f = rng.choice(removable)
            f["transient"] = G.gen_value(rng, f["ty"], None, 0.3)
            hsteps.append(f"(tra {G.hexname(f['name'])} {f['transient']})")
        else:
            continue
        versions.append([dict(f) for f in fields])
    H = "(hist (" + " ".join(show_hfield(f) for f in init) + ") (" + " ".join(hsteps) + "))"
    return H, versions


def rec_value(rng, fields):
    return "(0" + "".join(" " + G.gen_value(rng, f["ty"], None, 0.6) for f in fields) + ")"


def gen_cases(seed, tier, p_illegal=0.1, nh=None):
    rng = C.rng_for(seed, "C03")
    nh = nh or (500 if tier == "quick" else 12000)
    out = []
    for h in range(nh):
        illegal = rng.random() < p_illegal
        H, versions = gen_history(rng, illegal, wide=(h % 25 == 7))
        n = len(versions) - 1
        pairs = [(w, r) for w in range(n + 1) for r in range(n + 1)]
        if len(pairs) > 16:
            pairs = rng.sample(pairs, 16)
        for (w, r) in pairs:
            for _ in range(2):
                wrap = rng.choice(["(named 0)", "(named 0)", "(tup u8 (named 0) str)", "(vec (named 0))"])
                if wrap == "(named 0)":
                    v = rec_value(rng, versions[w])
                elif wrap.startswith("(tup"):
                    v = f"(0 n{rng.randrange(256)} {rec_value(rng, versions[w])} b{'746c'})"
                else:
                    v = "(0" + "".join(" " + rec_value(rng, versions[w]) for _ in range(rng.choice([0, 1, 2, 3]))) + ")"
                sfx = rng.choice(["-", "00", "0102ff", "02080803"])
                out.append({"H": H, "w": w, "r": r, "wrap": wrap, "val": v, "sfx": sfx, "illegal": illegal})
            if w == r and not illegal:
                # same definition on both sides: deduplicated strings around the record, repeating each other and the
                # names the record's header carries - the data that follows the record must not be disturbed
                import re
                names = [bytes.fromhex(x).decode() for x in re.findall(r"\((?:rem|tra) ([0-9a-f]+)", H)]
                pool = (names or ["z"]) + ["q", "hello"]
                a, c2 = rng.choice(pool), rng.choice(pool)
                hx = lambda t: "b" + (t.encode().hex() or "-")
                last = rng.choice([a, c2, c2])       # a repeat of a string first seen before, or after, the record
                v = f"(0 {hx(a)} {rec_value(rng, versions[w])} {hx(c2)} {hx(last)})"
                out.append({"H": H, "w": w, "r": r, "wrap": "(tup dstr (named 0) dstr dstr)", "val": v, "sfx": "-",
                            "illegal": illegal})
    return out


def run_stream(harness, model, cases, wd):
    lines = [f"hist {c['H']} {c['w']} {c['r']} {c['wrap']} {c['val']} {c['sfx']}" for c in cases]
    mod = C.run_sharded(model, "hist", lines, wd, "model")
    # implementation: writer env / reader env from the model's decl_at
    hl = []
    for c, m in zip(cases, mod):
        parts = m.split(" ;; ")
        c["envW"], c["envR"], c["expected"], c["model_dec"], flags = parts
        c["legal"] = "legal=true" in flags
        c["framed"] = "framed=true" in flags
        hl += [f"E {c['envW']}", f"E2 {c['envR']}", f"xrt {c['wrap']} {c['val']} {c['wrap']} {c['sfx']}"]
    # keep triples together in shards
    n = len(cases)
    shards = max(1, min(16, (n + 99) // 100))
    size = (n + shards - 1) // shards
    procs = []
    for i in range(shards):
        part = hl[3 * i * size: 3 * (i + 1) * size]
        if not part:
            continue
        path = os.path.join(wd, f"impl.{i}.cases")
        outp = os.path.join(wd, f"impl.{i}.out")
        C.write_lines(path, part)
        argv = [harness, "codec", path]
        procs.append((subprocess.Popen(argv, stdout=open(outp, "w"), stderr=subprocess.PIPE,
                                       text=True, env=dict(os.environ, TZ="UTC")), argv, path, outp))
    impl = []
    for p, argv, path, outp in procs:
        _, e = p.communicate(timeout=3000)
        # a case cut short by the watchdog is a result (`hang`), not a tooling failure
        rc, e = C._retry_hangs(argv, path, outp, p.returncode, e, dict(os.environ, TZ="UTC"), 3000)
        if rc != 0:
            raise C.Undecided("harness codec (C03) failed: " + (e or "")[-1000:])
        impl += [l for l in open(outp).read().splitlines() if l != "env"]
    if len(impl) != n:
        raise C.Undecided(f"C03: {len(impl)} results for {n} cases")
    # strict correspondence of the two decoders on THE SAME BYTES: the implementation's own encoding (maps and sets
    # in its iteration order) plus the suffix is given to the model's reader-version decoder
    dcases, idx = [], []
    for i, (c, il) in enumerate(zip(cases, impl)):
        enc_part = il.partition(" ; ")[0]
        if enc_part.startswith("ok "):
            hx = enc_part.split(" ")[1]
            hx = ("" if hx == "-" else hx) + ("" if c["sfx"] == "-" else c["sfx"])
            dcases.append({"env": c["envR"], "cmd": "dec", "ty": c["wrap"], "hex": hx or "-"})
            idx.append(i)
    dm = C._run_codec_side(model, dcases, [C.codec_line(d) for d in dcases], wd, "model.dec", 16, 3000)
    for i, m in zip(idx, dm):
        cases[i]["model_dec"] = m
    return impl


def judge(c, impl_line):
    """(agrees_with_expected, agrees_with_model_decoder)"""
    enc_part, _, dec_part = impl_line.partition(" ; ")
    exp = c["expected"]
    if exp.startswith("enc-"):
        ok_e = enc_part.startswith("err") or enc_part.startswith("panic")
        return (ok_e and not enc_part.startswith("panic")), True
    if dec_part.startswith("ok "):
        body = dec_part[3:]
        val, _, rest = body.rpartition(" ")
    else:
        val, rest = None, None
    if exp.startswith("ok "):
        want = exp[3:]
        nsfx = 0 if c["sfx"] == "-" else len(c["sfx"]) // 2
        good = val == want and (not c["framed"] or int(rest) == nsfx)
    else:
        good = dec_part == exp
    # the model's own decoder (strict correspondence, also outside the property's hypotheses)
    md = c["model_dec"]
    same = (dec_part == md)
    return good, same


def check(rep, tier, seed):
    ob = C.coq_obligations("C03")
    harness = C.build_harness("release")
    model = C.build_model()
    wd = C.workdir("C03")
    cases = gen_cases(seed, tier)
    impl = run_stream(harness, model, cases, wd)
    bad, dis = [], []
    stats = {"legal": 0, "illegal": 0, "unframed": 0, "expected_ok": 0, "expected_err": 0, "w<r": 0, "w>r": 0, "w=r": 0,
             "embedded": 0}
    errs = {}
    for c, il in zip(cases, impl):
        good, same = judge(c, il)
        in_scope = c["legal"] and (c["framed"] or c["wrap"] == "(named 0)")
        stats["legal" if c["legal"] else "illegal"] += 1
        stats["unframed"] += 0 if c["framed"] else 1
        stats["expected_ok" if c["expected"].startswith("ok") else "expected_err"] += 1
        stats["w<r" if c["w"] < c["r"] else "w>r" if c["w"] > c["r"] else "w=r"] += 1
        stats["embedded"] += 0 if c["wrap"] == "(named 0)" else 1
        if c["expected"].startswith("err"):
            k = c["expected"].split("(")[0]
            errs[k] = errs.get(k, 0) + 1
        line = f"hist {c['H']} {c['w']} {c['r']} {c['wrap']} {c['val']} {c['sfx']}"
        if not same and (c["framed"] or c["wrap"] == "(named 0)"):
            dis.append((line, il, c["model_dec"]))
        if in_scope and not good:
            bad.append((c, line, il))
    # static route: one history compiled version by version with the real derive macro (H1v0..H1v4)
    from .. import catalogue as K
    env = K.load()
    rng = C.rng_for(seed, "C03s")
    sc = []
    per = 8 if tier == "quick" else 200
    for fam, nv in (("H1v", 5), ("H2v", 5), ("HEv", 4), ("H3v", 3), ("HUv", 3)):   # HUv: constructors that start as unit constructors; H2: added fields declared in the middle; HEv: steps on an enum variant
        ids = [K.index_of(env, f"{fam}{i}") for i in range(nv)]
        for w in range(nv):
            for r in range(nv):
                for v in K.gen_values(rng, env, ids[w], per):
                    sc.append({"cmd": "sx", "w": ids[w], "r": ids[r], "val": v, "sfx": rng.choice(["-", "00", "0102ff"])})
    simpl, smod, hl = K.run_static(harness, model, env, sc, wd, "st")
    sdis = [(l, a, b) for l, a, b in zip(hl, simpl, smod) if a != b]
    C.proof_coverage(rep, ob, "C03")
    lines = [f"hist {c['H']} {c['w']} {c['r']} {c['wrap']} {c['val']} {c['sfx']}" for c in cases]
    rep.coverage.update({
        "evaluations": len(cases) + len(sc), "distinct_nontrivial": len(set(lines)) + len(set(hl)),
        "rule": "random histories (0-5 initial fields incl. optional and plain transient ones, up to 8 steps: FieldAdded "
                "with default, FieldMadeOptional, FieldRemoved, FieldMadeTransient; 10% deliberately illegal), for up to 16 "
                "(writer, reader) version pairs each and 2 values per pair, at top level, between sibling data "
                "(u8, R, String) and in Vec<R>; the model computes decl_at for both versions and `expected` (layer V, no "
                "bytes); the implementation encodes with the writer's declaration and decodes with the reader's (dynamic "
                "route); its result must equal `expected` (value or error variant with field name) and, when framed, leave "
                "exactly the suffix; plus 25 version pairs of a history compiled with the real derive macro (static route) "
                "against the model's decoder; distinct = case lines",
        "samples": [l[:400] for l in lines[:2] + lines[-1:]] + hl[:1],
        "case_classes": stats, "expected_error_classes": errs,
        "disagreements_checked": len(cases) + len(sc), "disagreements": len(dis) + len(sdis),
    })
    if bad:
        c, line, il = bad[0]
        rep.violation(f"version {c['w']} data read by version {c['r']}: expected {c['expected'][:80]}, got {il.split(' ; ')[-1][:80]}",
                      {"kind": "case", "case": line, "writer_env": c["envW"], "reader_env": c["envR"],
                       "expected": c["expected"], "implementation": il, "framed": c["framed"], "n_failing": len(bad)})
    if sdis and not bad:
        # a compiled history family (real macro): the reference decoder's answer is the documented outcome (theorem
        # C03_pairs / C03_pairs_variant), so an implementation that answers differently on these bytes fails the property
        l, a, b = sdis[0]
        rep.violation(f"data written by one compiled version and read by another: {l[:120]}: got {a.split(' ; ')[-1][:80]}, "
                      f"the documented outcome is {b.split(' ; ')[-1][:80]}",
                      {"kind": "case", "case": l, "implementation": a, "documented_outcome": b, "n_failing": len(sdis),
                       "rerun": "printf '<case>\\n' > f && .cache/target/release/dharness static f"})
    C.report_broken(rep, ob, dis, "hist (dynamic)", bool(bad) or bool(sdis))
