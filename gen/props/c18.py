"""C18 — calls are isolated and deterministic, also across threads (partial: real schedules are sampled)."""
import os
import subprocess
from .. import common as C
from .. import gencases as G
from .. import rtfamily as R
from .. import catalogue as K


def check(rep, tier, seed):
    rng = C.rng_for(seed, "C18")
    ob = C.coq_obligations("C18")
    harness = C.build_harness("release")
    model = C.build_model()
    wd = C.workdir("C18")
    env = K.load()
    bad = []
    # (i) call histories in ONE process: every call appears twice, far apart, among calls on other types
    # (dedup strings and evolved headers included: a State or context surviving a call would change the second answer)
    base = []
    for i in range(len(env)):
        for v in K.gen_values(rng, env, i, 3 if tier == "quick" else 40):
            base.append({"cmd": "srt", "w": i, "val": v, "sfx": rng.choice(R.SUFFIXES)})
    hist = base + base
    rng.shuffle(hist)
    impl, mod, hl = K.run_static_single(harness, model, env, hist, wd, "hist")
    dis = [(l, a, b) for l, a, b in zip(hl, impl, mod) if a != b]
    seen = {}
    for l, a in zip(hl, impl):
        if l in seen and seen[l] != a:
            bad.append((l, f"{seen[l]}  THEN  {a}", "the same call gave two different results in one process"))
        seen[l] = a
    # dynamic route, same idea, with dedup-heavy values
    from . import c09
    dcs = []
    for _ in range(300 if tier == "quick" else 5000):
        t = ("tup", [G.P("dstr"), G.P("str"), ("seq", "vec", 0, G.P("dstr"))])
        dcs.append(R.mk(None, t, c09.dedup_value(rng, t), "-"))
    dh = dcs + dcs
    rng.shuffle(dh)
    dlines = [C.codec_line(c) for c in dh]
    p1 = os.path.join(wd, "dyn.cases")
    C.write_lines(p1, dlines)
    dimpl = C.run_lines(harness, "codec", p1)
    dmod = C.run_lines(model, "codec", p1)
    dis += [(l, a, b) for l, a, b in zip(dlines, dimpl, dmod) if a != b]
    seen = {}
    for l, a in zip(dlines, dimpl):
        if l in seen and seen[l] != a:
            bad.append((l, f"{seen[l]}  THEN  {a}", "the same call gave two different results in one process"))
        seen[l] = a
    # the process-wide time zone: DateTime<Local> values from both sides of daylight-saving changes, under a zone that
    # has them (everything else in this framework runs under TZ=UTC), in two different orders in two processes: a call's
    # result must not depend on which season an earlier call on the thread happened to see
    lts = []
    for y in (1999, 2024, 2031):
        for (mo, d) in ((1, 15), (3, 30), (4, 2), (7, 15), (10, 24), (10, 28), (12, 31)):
            for (h, mi) in ((0, 30), (12, 0), (23, 59)):
                lts.append(f"rt dt_local (0 (0 z{y} n{mo} n{d}) (0 n{h} n{mi} n7 n{rng.randrange(10**9)})) -")
    order1 = lts + lts
    rng.shuffle(order1)
    order2 = sorted(lts, key=lambda l: (int(l.split(" n")[1]) + 6) % 12) + lts[::-1]      # summer first
    outs = []
    for k, order in enumerate((order1, order2)):
        pth = os.path.join(wd, f"tz{k}.cases")
        C.write_lines(pth, order)
        outs.append(dict())
        for l, a in zip(order, C.run_lines(harness, "codec", pth, env={"TZ": "Europe/Budapest"})):
            if l in outs[k] and outs[k][l] != a:
                bad.append((l + "  (TZ=Europe/Budapest)", f"{outs[k][l]}  THEN  {a}", "the same call gave two different results in one process"))
            outs[k][l] = a
            val = l[len("rt dt_local "):-2]
            if not a.endswith(f"; ok {val} 0"):
                bad.append((l + "  (TZ=Europe/Budapest)", a, "a DateTime<Local> does not come back as the local time that was written"))
    for l in lts:
        if outs[0][l] != outs[1][l]:
            bad.append((l + "  (TZ=Europe/Budapest)", f"{outs[0][l]}  /  {outs[1][l]}",
                        "a call's result depends on the calls made before it in the process"))
    # ... and the decoded value must be the same INSTANT with the same offset as the value written (the codec stream
    # prints local date-times only): winter first in one process, summer first in another
    inst = [f"{y} {mo} {d} {h} {mi} 7" for y in (1999, 2024) for (mo, d) in ((1, 15), (7, 15), (12, 1), (6, 1), (3, 30), (10, 28))
            for (h, mi) in ((1, 30), (12, 0))]
    for k, order in enumerate((inst, sorted(inst, key=lambda l: (int(l.split()[1]) + 6) % 12))):
        pth = os.path.join(wd, f"tzi{k}.cases")
        C.write_lines(pth, order)
        for l, a in zip(order, C.run([harness, "localtz", pth], env={"TZ": "Europe/Budapest"}, timeout=120).stdout.splitlines()):
            if a == "skip":
                continue
            o, _, d = a.partition(" ; ")
            if not a.startswith("ok ") or o[3:] != d:
                bad.append((f"localtz {l}  (TZ=Europe/Budapest, order {k})", a,
                            "a DateTime<Local> is decoded to another instant or offset than the one written"))
    rep.coverage["local_time_zone_history"] = {"calls": len(order1) + len(order2) + 2 * len(inst), "zone": "Europe/Budapest"}
    # compressed blocks: a history of writes at alternating levels in ONE process; each frame must be the frame a fresh
    # thread writes for the same block and level (the harness compares them: `sinks`)
    clines = []
    for k in range(60 if tier == "quick" else 600):
        blk = bytes(rng.getrandbits(8) for _ in range(rng.choice([0, 1, 50, 300]))) + bytes(rng.choice([0, 500, 20000]))
        clines.append(f"rt {rng.choice([0, 9, 1, 6, 0, 9])} {blk.hex() or '-'} 00")
    cpth = os.path.join(wd, "compress.cases")
    C.write_lines(cpth, clines)
    for l, a in zip(clines, C.run_lines(harness, "compress", cpth)):
        if "sinks=true" not in a or "decoded=true" not in a:
            bad.append((l[:200], a, "a compressed frame depends on what the thread compressed before"))
    rep.coverage["compressed_write_history"] = len(clines)
    # reference tracking: "string and reference numbering always restarts with each call" - graph encodes and decodes
    # (harness/src/graph.rs: store_ref_or_object / try_read_ref) issued twice, shuffled, in ONE process, where freed
    # objects' addresses are reused by later calls; every answer must equal the answer of the same call alone
    from . import c10
    _, glines = c10.gen(seed + 18, "quick")
    gsel = [glines[i] for i in sorted(rng.sample(range(len(glines)), 400 if tier == "quick" else 3000))]
    alone = C.run_sharded(harness, "graph", gsel, wd, "galone", shards=16)      # small batches: the reference answers
    gh = gsel + gsel
    rng.shuffle(gh)
    gp = os.path.join(wd, "ghist.cases")
    C.write_lines(gp, gh)
    gout = C.run_lines(harness, "graph", gp)
    gmod = C.run_sharded(model, "graph", gsel, wd, "gmodel", shards=16)
    ref = dict(zip(gsel, gmod))
    dis += [(l, a, b) for l, a, b in zip(gsel, alone, gmod) if a != b]
    for l, a in zip(gh, gout):
        if a != ref[l]:
            bad.append((l, a, "a reference-tracking call in a process that made other calls before differs from the same call alone"))
    rep.coverage["reference_tracking_history"] = {"calls": len(gh), "distinct": len(gsel)}
    # (ii) contention: fresh processes in which 16 threads released by a barrier make the first use of the
    # same derived types (lazy metadata initialised under contention), each in its own order
    jobs = []
    for i in range(len(env)):
        for v in K.gen_values(rng, env, i, 1):
            jobs.append({"cmd": "srt", "w": i, "val": v, "sfx": "00"})
    ref_impl, ref_mod, jl = K.run_static_single(harness, model, env, jobs, wd, "ref")
    dis += [(l, a, b) for l, a, b in zip(jl, ref_impl, ref_mod) if a != b]
    jp = os.path.join(wd, "jobs.cases")
    C.write_lines(jp, jl)
    nproc = 100 if tier == "quick" else 3000
    procs = []
    results = []

    def drain(block):
        for p, k in block:
            o, e = p.communicate(timeout=600)
            if p.returncode != 0:
                raise C.Undecided("contend failed: " + e[-800:])
            results.append((k, o.splitlines()))
    for k in range(nproc):
        procs.append((subprocess.Popen([harness, "contend", jp, "16", str(seed * 100003 + k)], stdout=subprocess.PIPE,
                                       stderr=subprocess.PIPE, text=True), k))
        if len(procs) >= 4:
            drain(procs)
            procs = []
    drain(procs)
    ncmp = 0
    for k, out in results:
        if len(out) != len(jl):
            bad.append((f"contend process {k}", f"{len(out)} lines", "missing results"))
            continue
        for l, a, r in zip(jl, out, ref_mod):
            ncmp += 16
            if a != r:
                bad.append((f"contend process {k} (16 threads, first use): {l[:120]}", a[:300],
                            "a call's result under contention differs from the same call alone"))
    # (iii) two derived types with the same name in one module (declared in function bodies) with different
    # histories: whichever is used first, each must produce the bytes of its own declaration
    F = lambda n, t: {"name": n, "ty": t, "opt": False, "transient": None}
    job = [F("id", G.P("u32")), F("name", G.P("str")), F("priority", G.P("u8"))]
    envA = [{"kind": "rec", "name": "Job", "fields": job, "steps": [("add", "priority", "n3")]}]
    envB = [{"kind": "rec", "name": "Job", "fields": job, "steps": [("add", "name", "b78")]}]
    val = "(0 n7 b" + b"build".hex() + " n3)"
    mA, mB = [C._run_codec_side(model, [R.mk(e, ("named", 0), val, "-", "enc")], [f"enc (named 0) {val}"], wd, "same" + t, 1, 600)[0]
              for e, t in ((envA, "A"), (envB, "B"))]
    want = {"a": mA.split(" ")[1], "b": mB.split(" ")[1]}
    for order in ("ab", "ba", "aabb", "bbaa", "abab"):
        out = C.run([harness, "samename", order], timeout=120).stdout.strip().splitlines()
        for ch, l in zip(order, out):
            if l != f"{ch} ok {want[ch]} ; ok 7 build 3":
                bad.append((f"samename {order}: Job declared in fn job_{ch}", l,
                            "a type's bytes depend on a same-named type used earlier in the process"))
    rep.coverage["same_named_types"] = {"orders": 5, "expected": want}
    C.proof_coverage(rep, ob, "C18", ["what the model cannot exhibit: std::sync::Once, memory ordering, data races inside "
                                      "hashbrown reads - real schedules are sampled (16 threads x barrier x fresh processes), "
                                      "not enumerated"])
    rep.coverage.update({
        "evaluations": len(hist) + len(dh) + ncmp, "distinct_nontrivial": len(set(hl)) + len(set(dlines)),
        "rule": "(i) one process: every call on every catalogue type (real derive macro; dedup strings, evolved headers) and "
                "dedup-heavy dynamic values issued twice, shuffled among all other calls: both answers must be equal and equal "
                "to the model's pure answer (fresh State per call); (ii) %d fresh processes x 16 threads released by a barrier, "
                "each thread making first use of all %d derived types in its own order: every thread's result for every job "
                "must equal the single-threaded model answer" % (nproc, len(env)),
        "samples": hl[:2] + dlines[:1] + [f"contend {jp} 16 <seed>"], "processes": nproc, "threads_per_process": 16,
        "disagreements_checked": len(hist) + len(dh) + len(jobs), "disagreements": len(dis),
    })
    if bad:
        l, a, why = bad[0]
        rep.violation(f"{why}: {l[:200]}", {"kind": "case", "case": l, "implementation": a, "why": why, "n_failing": len(bad)})
    C.report_broken(rep, ob, dis, "static/codec call histories", bool(bad))
