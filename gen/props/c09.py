"""C09 — string de-duplication round-trips; repeats become short back-references."""
from .. import common as C
from .. import gencases as G
from .. import rtfamily as R
from .. import catalogue as K
from .. import sx

ALPHA = ["a", "b", "u", "z", "é", "", "x" * 70, "gone", "zz",
         # strings that differ only in trailing NUL characters, and strings of 15 / 16 / 17 bytes (small-string tables)
         "\u0000", "a\u0000", "a\u0000\u0000", "q" * 15, "q" * 16, "q" * 17, "q" * 15 + "\u0000"]


def zz(v):
    u = 2 * v if v >= 0 else -2 * v - 1
    out = bytearray()
    while True:
        if u < 128:
            out.append(u)
            return bytes(out)
        out.append((u & 0x7f) | 0x80)
        u >>= 7


def dedup_value(rng, t, env=None, depth=0):
    """values in which every string (plain or deduplicated) comes from a tiny alphabet"""
    k = t[0]
    if k == "prim" and t[1] in ("str", "dstr"):
        return "b" + G.hexs(rng.choice(ALPHA).encode())
    if k == "prim":
        return G.gen_prim_value(rng, t[1])
    if k == "opt":
        return "(0)" if rng.random() < 0.25 else f"(1 {dedup_value(rng, t[1], env, depth)})"
    if k == "tup":
        return "(0 " + " ".join(dedup_value(rng, x, env, depth) for x in t[1]) + ")"
    if k == "wrap":
        return dedup_value(rng, t[2], env, depth)
    if k == "seq" and t[3] == ("prim", "u8") and t[1] in ("vec", "slice", "arr"):
        return G.gen_value(rng, t, env, 0.5)         # byte containers are written as one byte string
    if k == "seq":
        n = t[2] if t[1] == "arr" else rng.choice([0, 1, 2, 3, 5, 8])
        if depth > 2:
            n = min(n, 1)
        return "(0" + "".join(" " + dedup_value(rng, t[3], env, depth + 1) for _ in range(n)) + ")"
    if k == "named":
        d = env[t[1]]
        if d["kind"] == "rec":
            return "(0" + "".join(" " + dedup_value(rng, f["ty"], env, depth + 1) for f in d["fields"]) + ")"
        js = [j for j, v in enumerate(d["variants"]) if not v["transient"]]
        j = rng.choice(js)
        return f"({j}" + "".join(" " + dedup_value(rng, f["ty"], env, depth + 1) for f in d["variants"][j]["fields"]) + ")"
    return G.gen_value(rng, t, env, 0.5)


def plain_twin(t):
    k = t[0]
    if k == "prim":
        return G.P("str") if t[1] == "dstr" else t
    if k == "opt":
        return ("opt", plain_twin(t[1]))
    if k == "tup":
        return ("tup", [plain_twin(x) for x in t[1]])
    if k == "seq":
        return ("seq", t[1], t[2], plain_twin(t[3]))
    if k == "wrap":
        return ("wrap", t[1], plain_twin(t[2]))
    return t


def dstrings(t, v, out):
    """all dedup strings of a flat (declaration-free) value, in encoding order"""
    k = t[0]
    if k == "prim":
        if t[1] == "dstr":
            out.append(v)
        return
    if isinstance(v, str):
        return
    if k == "opt":
        for x in v[1:]:
            dstrings(t[1], x, out)
    elif k == "tup":
        for tt, x in zip(t[1], v[1:]):
            dstrings(tt, x, out)
    elif k == "seq":
        for x in v[1:]:
            dstrings(t[3], x, out)
    elif k == "wrap":
        dstrings(t[2], v, out)


def check(rep, tier, seed):
    rng = C.rng_for(seed, "C09")
    ob = C.coq_obligations("C09")
    harness = C.build_harness("release")
    model = C.build_model()
    wd = C.workdir("C09")
    D, S, U8 = G.P("dstr"), G.P("str"), G.P("u8")
    flat = [("seq", "vec", 0, D), ("tup", [D, S, D, D]), ("seq", "vec", 0, ("tup", [D, U8])), ("seq", "ll", 0, ("opt", D)),
            ("tup", [("seq", "vec", 0, D), D, ("seq", "arr", 3, D)]), ("seq", "vec", 0, ("tup", [S, D, S])),
            ("tup", [D, D, D, D, D, D, D, D]), ("opt", ("wrap", "box", D))]
    n = 1500 if tier == "quick" else 60000
    cases = []
    for _ in range(n):
        t = rng.choice(flat)
        cases.append(R.mk(None, t, dedup_value(rng, t), rng.choice(R.SUFFIXES)))
    # many distinct strings first (ids beyond every var-int width boundary of the back-reference: 64, 8192), then
    # repeats of the shortest strings - a repeat is a back-reference however short the string is
    for nd in ([70, 130, 200] if tier == "quick" else [70, 130, 200, 8200, 8300]):
        for _ in range(6 if nd < 1000 else 1):
            distinct = [f"s{i}" for i in range(nd)]
            rng.shuffle(distinct)
            tiny = ["", "a", "é", distinct[0], distinct[-1]]
            tail = [rng.choice(tiny + ["new" + str(k)]) for k in range(40)] + ["", "", "a", "fresh", "fresh", ""]
            items = [("" if rng.random() < 0.02 else x) for x in distinct[: nd // 2]] + ["", "a"] + distinct[nd // 2:] + tail
            val = "(0" + "".join(" b" + G.hexs(x.encode()) for x in items) + ")"
            cases.append(R.mk(None, ("seq", "vec", 0, D), val, "-"))
    # records: v0, evolved with removed / transient names in the header (names from the same alphabet), nested
    def rec_env():
        inner_steps = rng.choice([[], [("rem", "z")], [("rem", "gone")], [("add", "n", "b7a"), ("rem", "zz")]])
        inner_fields = [{"name": "a", "ty": rng.choice([D, S]), "opt": False, "transient": None}]
        if inner_steps and inner_steps[0][0] == "add":
            inner_fields.append({"name": "n", "ty": D, "opt": False, "transient": None})
        inner = {"kind": "rec", "name": "I", "fields": inner_fields, "steps": inner_steps}
        outer_steps = rng.choice([[], [("rem", "z")], [("rem", "z"), ("rem", "gone")], [("opt", "o"), ("rem", "zz")]])
        ofields = [{"name": "i", "ty": ("named", 0), "opt": False, "transient": None},
                   {"name": "b", "ty": D, "opt": False, "transient": None},
                   {"name": "j", "ty": ("seq", "vec", 0, ("named", 0)), "opt": False, "transient": None}]
        if outer_steps and outer_steps[0][0] == "opt":
            ofields.append({"name": "o", "ty": ("opt", D), "opt": True, "transient": None})
        outer = {"kind": "rec", "name": "O", "fields": ofields, "steps": outer_steps}
        top = {"kind": "rec", "name": "T", "fields": [{"name": "x", "ty": D, "opt": False, "transient": None},
                                                      {"name": "o", "ty": ("named", 1), "opt": False, "transient": None},
                                                      {"name": "y", "ty": D, "opt": False, "transient": None}],
               "steps": rng.choice([[], [("rem", "u")]])}
        return [inner, outer, top]
    for _ in range(n):
        env = rec_env()
        t = ("named", rng.choice([0, 1, 2, 2]))
        if rng.random() < 0.3:
            t = ("seq", "vec", 0, t)
        cases.append(R.mk(env, t, dedup_value(rng, t, env), rng.choice(R.SUFFIXES)))
    ob2, impl, mod, bad, dis = R.run_and_judge(rep, "C09", "C09", cases, tier, seed)
    # the same through the real derive macro: every catalogue declaration that reaches a de-duplicated string, values
    # over the small alphabet (the ORDER in which the generated writer and reader meet the strings is the macro's)
    cenv = K.load()

    def reaches_dstr(t, seen):
        k = t[0]
        if k == "prim":
            return t[1] == "dstr"
        if k in ("opt",):
            return reaches_dstr(t[1], seen)
        if k == "tup":
            return any(reaches_dstr(x, seen) for x in t[1])
        if k == "seq":
            return reaches_dstr(t[3], seen)
        if k == "wrap":
            return reaches_dstr(t[2], seen)
        if k == "res":
            return reaches_dstr(t[1], seen) or reaches_dstr(t[2], seen)
        if k == "map":
            return reaches_dstr(t[2], seen) or reaches_dstr(t[3], seen)
        if k == "named":
            if t[1] in seen:
                return False
            d = cenv[t[1]]
            fs = d["fields"] if d["kind"] == "rec" else [f for v in d["variants"] for f in v["fields"]]
            return any(reaches_dstr(f["ty"], seen | {t[1]}) for f in fs)
        return False
    sc = []
    ids = [i for i in range(len(cenv)) if reaches_dstr(("named", i), set())]
    for i in ids:
        for _ in range(12 if tier == "quick" else 300):
            sc.append({"cmd": "srt", "w": i, "val": dedup_value(rng, ("named", i), cenv), "sfx": rng.choice(R.SUFFIXES)})
    sbad, sdis, shl, simpl = R.static_block(harness, model, C.workdir("C09s"), sc, cenv, "st", R.judge_static_rt(cenv))
    rep.coverage["static_declarations_with_dedup_strings"] = {"declarations": len(ids), "cases": len(sc), "failing": len(sbad),
                                                              "disagreements": len(sdis)}
    rep.coverage["evaluations"] += len(sc)
    if sbad and not rep.violations:
        l, a, why = sbad[0]
        rep.violation(f"derived codec with de-duplicated strings (static catalogue): {why}: {l[:200]}",
                      {"kind": "case", "case": l, "implementation": a, "why": why, "n_failing": len(sbad)})
    elif sdis and not rep.violations:
        l, a, b = sdis[0]
        rep.violation(f"derived codec with de-duplicated strings: implementation and model disagree on {l[:160]}",
                      {"kind": "correspondence", "stream": "static/dedup", "case": l, "implementation": a, "model": b,
                       "n_disagreements": len(sdis)}, no_input=True)
    # first occurrence is byte-for-byte a plain string: a flat stream without repeats equals its plain twin
    twins, which = [], []
    for c, a in zip(cases, impl):
        if c["_env"] is not None or not a.startswith("ok "):
            continue
        ds = []
        dstrings(c["_t"], sx.parse(c["val"]), ds)
        if len(set(ds)) == len(ds):
            twins.append(R.mk(None, plain_twin(c["_t"]), c["val"], "-", "enc"))
            which.append(a.split(" ")[1])
    timpl, tmod = C.run_codec(harness, model, twins, wd, "twin")
    nbad = []
    for c, a, hx in zip(twins, timpl, which):
        if not a.startswith("ok ") or a.split(" ")[1] != hx:
            nbad.append((C.codec_line(c), a, "a dedup stream without repeats is not byte-identical to the plain-string stream"))
    # ids never introduced decode to Err(InvalidStringId)
    ucases, uexp = [], []
    for k in (1, 2, 3, 63, 64, 1000, (1 << 31) - 3, (1 << 31) - 1):
        for pre in ("", "a", "ab"):
            if len(pre) + k > (1 << 31):
                continue
            b = b"".join(zz(len(s.encode())) + s.encode() for s in pre) + zz(-(len(pre) + k))
            t = ("tup", [D] * (len(pre) + 1))
            ucases.append({"env": "-", "cmd": "dec", "ty": G.show_ty(t), "hex": (b"\x00" + b).hex()})
            ident = len(pre) + k
            # the id i32::MIN cannot be negated: reported with the raw value
            uexp.append(f"err InvalidStringId({ident if ident < (1 << 31) else -ident})")
    uimpl, umod = C.run_codec(harness, model, ucases, wd, "unk")
    for c, a, e in zip(ucases, uimpl, uexp):
        if a != e:
            nbad.append((C.codec_line(c), a, f"unknown string id: expected {e}"))
    # 70 000 distinct strings, then repeats of the strings whose ids sit on both sides of every table-size a reader or
    # writer might treat specially (128, 16384, 65536): judged on the implementation alone (the model's table is a list)
    nd = 70000
    distinct = [f"k{i:x}" for i in range(nd)]
    picks = [1, 2, 127, 128, 129, 255, 256, 257, 16383, 16384, 16385, 32767, 32768, 65535, 65536, 65537, 65538, 69999, 70000]
    items = distinct + [distinct[i - 1] for i in picks] + ["fresh", distinct[65536], "fresh"]
    bigc = R.mk(None, ("seq", "vec", 0, D), "(0" + "".join(" b" + G.hexs(x.encode()) for x in items) + ")", "00")
    bimpl = C._run_codec_side(harness, [bigc], [C.codec_line(bigc)], C.workdir("C09big"), "big", 1, 3000)[0]
    okb, whyb = R.judge_rt(bigc, bimpl)
    enc_len = len(bimpl.split(" ")[1]) // 2 if bimpl.startswith("ok ") else 0
    want_len = (len(zz(len(items))) + sum(len(zz(len(x))) + len(x) for x in distinct) + sum(len(zz(-i)) for i in picks)
                + len(zz(5)) + 5 + len(zz(-65537)) + len(zz(-(nd + 1))))
    if okb and enc_len != want_len:
        okb, whyb = False, f"the encoding has {enc_len} bytes; with every repeat a back-reference it has {want_len}"
    rep.coverage["many_distinct_strings"] = {"distinct": nd, "repeats_at_ids": picks, "ok": okb}
    if not okb:
        nbad.append((C.codec_line(bigc)[:200] + " ...", bimpl[:200], "70 000 distinct de-duplicated strings followed by repeats: " + whyb))
    rep.coverage["rule"] = (
        "sequences of deduplicated and plain strings over a 9-string alphabet (heavy repetition; includes the names "
        "that record headers carry) in flat streams, tuples, Vec, LinkedList, arrays, Option<Box<_>>, version-0 records, "
        "evolved records with FieldRemoved/FieldMadeOptional/FieldAdded headers, nested two deep and in Vec of records; "
        "round trip with suffix; bytes compared with the model (every repeat = zig-zag var-int of minus its id); flat "
        "streams without repeats compared byte-for-byte with their plain-string twin; ids never introduced must give "
        "InvalidStringId")
    rep.coverage["evaluations"] += len(twins) + len(ucases)
    rep.coverage["twin_streams_without_repeats"] = len(twins)
    rep.coverage["unknown_id_cases"] = len(ucases)
    if nbad and not rep.violations:
        l, a, why = nbad[0]
        rep.violation(f"{why}: {l[:200]}", {"kind": "case", "case": l, "implementation": a, "why": why, "n_failing": len(nbad)})
