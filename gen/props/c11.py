"""C11 — variable-length integers: total bijection with minimal length."""
from .. import common as C

BOUNDS_U = [0, 1 << 7, 1 << 14, 1 << 21, 1 << 28, 1 << 31, (1 << 32) - 1]
BOUNDS_I = [0, 64, -64, 1 << 13, -(1 << 13), 1 << 20, -(1 << 20), 1 << 27, -(1 << 27),
            (1 << 31) - 1, -(1 << 31)]


def gen_cases(seed, tier):
    rng = C.rng_for(seed, "C11")
    cases = []
    sfx = ["-", "00", "80", "ff01", "8080808001"]
    seen = set()

    def add(kind, v):
        if (kind, v) in seen:
            return
        seen.add((kind, v))
        cases.append(f"{kind} {v} {sfx[len(cases) % len(sfx)]}")
    for b in BOUNDS_U:
        for d in range(-64, 65):
            if 0 <= b + d < (1 << 32):
                add("u", b + d)
    for b in BOUNDS_I:
        for d in range(-64, 65):
            if -(1 << 31) <= b + d < (1 << 31):
                add("i", b + d)
    small = 1 << 16 if tier == "quick" else 1 << 18
    for v in range(small):
        add("u", v)
        add("i", v - small // 2)
    nrand = 100_000 if tier == "quick" else 4_000_000
    for _ in range(nrand):
        # random magnitude first, so that every width is hit equally often
        bits = rng.randrange(1, 33)
        add("u", rng.getrandbits(bits))
        z = rng.getrandbits(bits - 1) if bits > 1 else 0
        add("i", z if rng.random() < 0.5 else -z - 1)
    # reader on arbitrary bytes (over-long forms, 5th-byte leniency, truncation)
    rcases = []
    for a in range(256):
        rcases.append(f"r {a:02x}")
    for a in (0x00, 0x01, 0x7f, 0x80, 0x81, 0xff):
        for b in range(256):
            rcases.append(f"r {a:02x}{b:02x}")
    for _ in range(20_000 if tier == "quick" else 400_000):
        n = rng.randrange(0, 8)
        bs = bytes((rng.getrandbits(8) | (0x80 if rng.random() < 0.7 else 0)) & 0xff for _ in range(n))
        rcases.append("r " + (bs.hex() or "-"))
    return cases, rcases


def check(rep, tier, seed):
    ob = C.coq_obligations("C11")
    harness = C.build_harness("release")
    model = C.build_model()
    wd = C.workdir("C11")
    cases, rcases = gen_cases(seed, tier)
    allc = cases + rcases
    impl = C.run_sharded(harness, "varint-cases", allc, wd, "impl")
    mod = C.run_sharded(model, "varint-cases", allc, wd, "model")
    disagreements = [(c, a, b) for c, a, b in zip(allc, impl, mod) if a != b]
    # property-directed search on the implementation alone: exhaustive over both 2^32 spaces,
    # three sinks x three sources, against the transcribed reference formula
    # quick: every 17th value of both 2^32 spaces plus exhaustive windows of +-65536 around every place where the
    # encoding changes shape (0, the 7-bit group boundaries and their zig-zag pre-images, 2^31, 2^32); thorough: all
    stride = "17" if tier == "quick" else "1"
    sweep = C.run([harness, "varint-sweep", "16", stride], timeout=6000).stdout.strip().splitlines()[-1]
    sweep_ok = sweep.startswith("SWEEP ok")
    widths = {}
    for c, a in zip(cases, impl):
        w = len(a.split()[0]) // 2 if not a.startswith("PANIC") else 0
        widths[w] = widths.get(w, 0) + 1
    rep.coverage.update({
        "obligations": ob["obligations"], "discharged": ob["discharged"],
        "checker_cmd": "make -C coq Props/C11.vo && coqc -Q coq Desert coq/Props/C11.v (Print Assumptions per theorem)",
        "trusted_base": C.TRUSTED_COMMON + ["axioms: none (every theorem: Closed under the global context)"
                                            if all(not v for v in ob["axioms"].values()) else
                                            "axioms: " + str(ob["axioms"])],
        "theorems": ob["theorems"],
        "evaluations": len(allc) + (int(sweep.split()[2]) if sweep_ok else 0),
        "distinct_nontrivial": len(set(cases)) + len(set(rcases)),
        "rule": "model-vs-implementation cases: every u32/i32 within 64 of each width boundary, all small values, "
                "random values with uniformly chosen bit width, each with a suffix, through 3 sinks and 3 sources; "
                "arbitrary byte strings through the three readers; all distinct by construction (set). "
                "Plus the sweep of the 2^32 u32 and 2^32 i32 values on the implementation against the transcribed "
                "LEB128/zig-zag reference (whose agreement with the extracted model is part of the sampled stream): "
                "thorough tier exhaustive; quick tier every 17th value plus exhaustive windows of +-65536 around 0, every "
                "7-bit group boundary and its zig-zag pre-image, 2^31 and 2^32.",
        "samples": allc[:3] + cases[-2:] + rcases[-2:],
        "exhaustive": bool(sweep_ok) and stride == "1",
        "encoded_width_histogram": widths,
        "disagreements_checked": len(allc),
        "disagreements": len(disagreements),
        "sweep": sweep,
    })
    rep.assumptions += ["usize is 64 bits; input shorter than 2^64 bytes"]
    if not sweep_ok:
        rep.violation("sweep: " + sweep, {"kind": "sweep", "result": sweep,
                      "rerun": f"{harness} varint-sweep 16 {stride}"})
    elif disagreements or ob["broken"]:
        # a broken proof obligation or correspondence without a failing input
        first = disagreements[0] if disagreements else None
        # does the disagreeing case itself violate the property on the implementation?
        bad = None
        for c, a, b in disagreements[:2000]:
            t = c.split()
            if a.startswith("CONTEXT-SINK-DIFFERS"):
                bad = (c, a, b)
                break
            if t[0] in "ui" and not a.startswith("PANIC"):
                f = a.split()
                ok = f[0] == f[1] and int(f[2]) == len(f[0]) // 2 and f[3] == f[5] == f[7] == f"Some({t[1]})"
                if not ok:
                    bad = (c, a, b)
                    break
            elif a.startswith("PANIC"):
                bad = (c, a, b)
                break
        if bad:
            rep.violation(f"var-int round trip / sink agreement fails on case {bad[0]}",
                          {"kind": "case", "case": bad[0], "implementation": bad[1], "model": bad[2]})
        else:
            rep.violation("C11 obligations or model/implementation correspondence no longer check: "
                          + "; ".join(ob["broken"] + ([f"first disagreement {first[0]}"] if first else [])),
                          {"kind": "correspondence", "broken_obligations": ob["broken"],
                           "stream": "varint-cases", "first_disagreement": first,
                           "n_disagreements": len(disagreements), "coq_log": ob.get("log", "")},
                          no_input=True)
