"""C14 — transient fields and constructors never reach the wire."""
from .. import common as C
from .. import gencases as G
from .. import rtfamily as R
from .. import catalogue as K
from .. import sx


def perturb_transients(rng, env, t, v):
    """the same value with every transient field replaced by another value of its type"""
    k = t[0]
    if isinstance(v, str):
        return v
    if k == "named":
        d = env[t[1]]
        fields = d["fields"] if d["kind"] == "rec" else d["variants"][int(v[0])]["fields"]
        out = [v[0]]
        for f, x in zip(fields, v[1:]):
            if f["transient"] is not None:
                out.append(sx.parse(G.gen_value_d(rng, f["ty"], env, 0.5, 2)))
            else:
                out.append(perturb_transients(rng, env, f["ty"], x))
        return out
    if k == "opt":
        return [v[0]] + [perturb_transients(rng, env, t[1], x) for x in v[1:]]
    if k == "wrap":
        return perturb_transients(rng, env, t[2], v)
    if k == "tup":
        return [v[0]] + [perturb_transients(rng, env, tt, x) for tt, x in zip(t[1], v[1:])]
    if k == "seq" and t[1] not in ("hset", "bset"):
        return [v[0]] + [perturb_transients(rng, env, t[3], x) for x in v[1:]]
    if k == "res":
        inner = t[2] if v[0] == "0" else t[1]
        return [v[0]] + [perturb_transients(rng, env, inner, x) for x in v[1:]]
    return v


def has_transient(env, i, seen=None):
    seen = seen or set()
    if i in seen:
        return False
    seen = seen | {i}
    d = env[i]
    recs = [d] if d["kind"] == "rec" else d["variants"]
    for r in recs:
        for f in r["fields"]:
            if f["transient"] is not None:
                return True
            for j in named_in(f["ty"]):
                if has_transient(env, j, seen):
                    return True
    return False


def named_in(t):
    k = t[0]
    if k == "named":
        return [t[1]]
    if k in ("opt", "wrap"):
        return named_in(t[-1])
    if k == "seq":
        return named_in(t[3])
    if k == "map":
        return named_in(t[2]) + named_in(t[3])
    if k == "res":
        return named_in(t[1]) + named_in(t[2])
    if k == "tup":
        return [j for x in t[1] for j in named_in(x)]
    return []


def check(rep, tier, seed):
    rng = C.rng_for(seed, "C14")
    ob = C.coq_obligations("C14")
    harness = C.build_harness("release")
    model = C.build_model()
    wd = C.workdir("C14")
    env = K.load()
    bad = []
    # (a) static route: pairs differing only in transient fields
    per = 12 if tier == "quick" else 300
    sc, pair_of = [], []
    for i, d in enumerate(env):
        if not has_transient(env, i):
            continue
        for _ in range(per):
            v = G.gen_value_d(rng, ("named", i), env, 1.0, 0)
            v2 = sx.show(perturb_transients(rng, env, ("named", i), sx.parse(v)))
            sfx = rng.choice(R.SUFFIXES)
            sc.append({"cmd": "srt", "w": i, "val": v, "sfx": sfx})
            sc.append({"cmd": "srt", "w": i, "val": v2, "sfx": sfx})
    sbad, sdis, hl, simpl = R.static_block(harness, model, wd, sc, env, "st", R.judge_static_rt(env))
    bad += sbad
    ndiff = 0
    for k in range(0, len(sc), 2):
        if sc[k]["val"] != sc[k + 1]["val"]:
            ndiff += 1
        if simpl[k].split(" ; ")[0] != simpl[k + 1].split(" ; ")[0]:
            bad.append((hl[k] + "  vs  " + hl[k + 1], simpl[k] + "  vs  " + simpl[k + 1],
                        "values differing only in transient fields encode differently"))
    # (b) dynamic route: random declarations with transient fields anywhere
    dc = []
    nd = 600 if tier == "quick" else 20000
    tries = 0
    while len(dc) < 2 * nd and tries < nd * 30:
        tries += 1
        e = G.gen_env(rng)
        i = rng.randrange(len(e))
        if not has_transient(e, i):
            continue
        t = ("named", i)
        v = G.gen_value_d(rng, t, e, 1.0, 0)
        v2 = sx.show(perturb_transients(rng, e, t, sx.parse(v)))
        dc.append(R.mk(e, t, v, "00"))
        dc.append(R.mk(e, t, v2, "00"))
    dimpl, dmod = C.run_codec(harness, model, dc, wd, "dyn")
    ddis = [(C.codec_line(c), a, b) for c, a, b in zip(dc, dimpl, dmod) if a != b]
    for k in range(0, len(dc), 2):
        for q in (k, k + 1):
            ok, why = R.judge_rt(dc[q], dimpl[q])
            if not ok:
                bad.append((C.codec_line(dc[q]), dimpl[q], why))
        h1 = dimpl[k].split(" ")[1] if dimpl[k].startswith("ok ") else dimpl[k].split(" ; ")[0]
        h2 = dimpl[k + 1].split(" ")[1] if dimpl[k + 1].startswith("ok ") else dimpl[k + 1].split(" ; ")[0]
        if h1 != h2 and not G.has_unordered(dc[k]["_t"]) is False:
            pass
        if h1 != h2 and "hset" not in dc[k]["env"] and "hmap" not in dc[k]["env"]:
            bad.append((C.codec_line(dc[k]) + "  vs  " + C.codec_line(dc[k + 1]), h1 + " vs " + h2,
                        "values differing only in transient fields encode differently"))
    # (c) histories that end in FieldMadeTransient(f) whatever earlier steps touched f: encoding succeeds
    from . import c03
    hc = []
    nh = 200 if tier == "quick" else 5000
    tries = 0
    while len(hc) < nh and tries < nh * 40:
        tries += 1
        H, versions = c03.gen_history(rng)
        if "(tra " not in H.rsplit("(", 2)[-2] and not H.rstrip(")").endswith(")") :
            pass
        last = H[H.rfind("(hist"):]
        steps_txt = H.split(") (", 1)[1] if ") (" in H else ""
        if "(tra " not in steps_txt:
            continue
        n = len(versions) - 1
        # the last version in which the last step is a tra
        hc.append({"H": H, "w": n, "r": n, "wrap": "(named 0)", "val": c03.rec_value(rng, versions[n]), "sfx": "-",
                   "illegal": False})
    himpl = c03.run_stream(harness, model, hc, wd) if hc else []
    for c, a in zip(hc, himpl):
        if a.startswith("err UnknownFieldRef") or a.startswith("panic"):
            bad.append((f"hist {c['H']}", a, "a record with a field made optional/added and later made transient is not encodable"))
    # (d) transient constructors (static route, real macro): encoding one is the dedicated error naming type and
    # constructor; encoding any other constructor of the same enum is not
    from . import c13
    tcs, texp = [], []
    for i, d in enumerate(env):
        if d["kind"] != "enum" or not any(v["transient"] for v in d["variants"]):
            continue
        for j, v in enumerate(d["variants"]):
            for _ in range(3 if tier == "quick" else 30):
                tcs.append({"cmd": "srt", "w": i, "val": c13.variant_value(rng, env, i, j), "sfx": "-"})
                texp.append((d["name"], v["name"], bool(v["transient"])))
    tbad, tdis, tl, timpl = R.static_block(harness, model, wd, tcs, env, "tc", lambda c, a: (True, ""))
    sdis += tdis
    for (tn, vn, tr), l, a in zip(texp, tl, timpl):
        enc_part = a.split(" ; ")[0]
        want = f"err SerTransientCtor({vn.encode().hex()},{tn.encode().hex()})"
        if tr and enc_part != want:
            bad.append((l, a, f"a transient constructor is not refused with {want}"))
        if not tr and not enc_part.startswith("ok ") and enc_part != "err UnsupportedCharacter":
            bad.append((l, a, "a persisted constructor is refused"))
    rep.coverage["transient_constructor_cases"] = len(tcs)
    C.proof_coverage(rep, ob, "C14")
    rep.coverage.update({
        "evaluations": len(sc) + len(dc) + len(hc), "distinct_nontrivial": len(set(hl)) + len(set(C.codec_line(c) for c in dc)),
        "rule": "pairs of values that differ only in transient fields (non-default contents, transient fields first / "
                "middle / last / several, inside nested records, variants and containers): static route on the compiled "
                "catalogue and dynamic route on random declarations; both members must encode to identical bytes and "
                "decode to the value with transient fields at their declared defaults; random legal histories containing "
                "FieldMadeTransient (after FieldAdded / FieldMadeOptional of the same field) must stay encodable",
        "samples": hl[:2] + [C.codec_line(c)[:300] for c in dc[:2]] + [f"hist {c['H']}"[:300] for c in hc[:1]],
        "pairs_actually_different": ndiff, "programs": len([1 for i in range(len(env)) if has_transient(env, i)]),
        "disagreements_checked": len(sc) + len(dc), "disagreements": len(sdis) + len(ddis),
    })
    if bad:
        l, a, why = bad[0]
        rep.violation(f"{why}: {l[:200]}", {"kind": "case", "case": l, "implementation": a, "why": why, "n_failing": len(bad)})
    C.report_broken(rep, ob, sdis + ddis, "static+dynamic transient streams", bool(bad))
