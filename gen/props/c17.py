"""C17 — encoding never panics: unsupported values are reported as errors."""
from .. import common as C
from .. import gencases as G
from .. import rtfamily as R
from .. import sx

EXPECT_LEN = {
    "LEN vec_unit 2147483647": "ok feffffff0f",
    "LEN vec_unit 2147483648": "err LengthTooLarge",
    "LEN vec_unit 2147483649": "err LengthTooLarge",
    "LEN vec_unit 4294967296": "err LengthTooLarge",
    "LEN vec_unit 9223372036854775807": "err LengthTooLarge",
    "LEN str 2147483647": "ok size=2147483652",
    "LEN str 2147483648": "err LengthTooLarge",
    "LEN str 2147483653": "err LengthTooLarge",
    "LEN str 4294967295": "err LengthTooLarge",
    "LEN arr_unit 2147483648": "err LengthTooLarge",
    "LEN arr_unit 2147483649": "err LengthTooLarge",
    "LEN arr_unit 4294967296": "err LengthTooLarge",
    "LEN arr_unit 9223372036854775807": "err LengthTooLarge",
    "LEN hint 2147483647": "ok feffffff0f070707",
    "LEN hint 2147483648": "err LengthTooLarge",
    "LEN hint 4294967296": "err LengthTooLarge",
    "LEN hint 18446744073709551615": "err LengthTooLarge",
}


def check(rep, tier, seed):
    rng = C.rng_for(seed, "C17")
    ob = C.coq_obligations("C17")
    harness = C.build_harness("release")
    hdebug = C.build_harness("debug")
    model = C.build_model()
    wd = C.workdir("C17")
    bad = []
    # exhaustive / extreme probes inside the harness, release and debug (overflow checks)
    probes = {}
    # the process's own time zone is an input of the DateTime<Local> writer: UTC, and zones east and west of it
    for tzname in ("Asia/Tokyo", "America/Los_Angeles", "Europe/Budapest"):
        for l in C.run([harness, "c17", "datetimes-only"], timeout=600, env={"TZ": tzname}).stdout.strip().splitlines():
            f = l.split(" ")
            if len(f) >= 5 and f[0] == "DT" and f[1] == "local":
                local = int(f[2]) + int(f[3])
                want = "ok" if -8334601228800 <= local <= 8210266876799 else "err"
                if f[4] != want:
                    bad.append((f"c17 (TZ={tzname})", l, f"DateTime<Local>: expected {want}: the stored local time is "
                                + ("representable" if want == "ok" else "not representable")))
    for prof, exe in (("release", harness), ("debug", hdebug)):
        out = C.run([exe, "c17"], timeout=1200).stdout.strip().splitlines()
        probes[prof] = out
        if out[0] != "CHARS ok 63488 1048576":
            bad.append((f"c17 ({prof})", out[0], "some Unicode scalar value is neither encoded as 2 bytes nor reported as UnsupportedCharacter"))
        dts = [l for l in out[1:] if l.startswith("DT ")]
        out = [out[0]] + [l for l in out[1:] if not l.startswith("DT ")]
        for l in dts:
            # DT <kind> <utc seconds> <offset|zone> <ok HEX | err CLASS | panic>
            f = l.split(" ")
            if f[4] == "panic":
                bad.append((f"c17 ({prof})", l, "encoding a date-time at the end of chrono's range unwinds"))
            elif f[1] == "tz" and f[4] != "ok":
                bad.append((f"c17 ({prof})", l, "a DateTime<Tz> inside chrono's range (its UTC date-time is what is stored) is not encoded"))
            elif f[1] in ("fixed", "local"):
                local = int(f[2]) + int(f[3])
                want = "ok" if -8334601228800 <= local <= 8210266876799 else "err"
                if f[4] != want:
                    bad.append((f"c17 ({prof})", l, f"expected {want}: the stored local time is "
                                + ("representable" if want == "ok" else "not representable")))
        probes[prof + "_datetimes"] = len(dts)
        for l in out[1:]:
            key, _, res = l.rpartition(" ok ") if " ok " in l else l.rpartition(" err ")
            k2 = " ".join(l.split(" ")[:3])
            if EXPECT_LEN.get(k2) != " ".join(l.split(" ")[3:]):
                bad.append((f"c17 ({prof})", l, "length beyond the 31-bit count is not reported as LengthTooLarge (or panics)"))
    # unsupported values through the codec stream: first unsupported char wins, transient constructors,
    # dangling evolution steps, the 254-step record
    cases = []
    n = 2500 if tier == "quick" else 60000
    for _ in range(n):
        t = G.gen_type(rng, rng.choice([1, 2, 3]))
        cases.append(R.mk(None, t, G.gen_value(rng, t), "-", "enc"))
    for _ in range(n // 2):
        env = G.gen_env(rng)
        i = rng.randrange(len(env))
        d = env[i]
        t = ("named", i)
        if d["kind"] == "enum":
            j = rng.randrange(len(d["variants"]))      # also the transient ones
            v = f"({j}" + "".join(" " + G.gen_value_d(rng, f["ty"], env, 0.5, 1) for f in d["variants"][j]["fields"]) + ")"
        else:
            if rng.random() < 0.4:
                # a FieldMadeOptional step naming a field that is never written (misspelt, or transient): anywhere in
                # the history - before and after removal steps - and possibly more than one
                for _k in range(rng.choice([1, 1, 2])):
                    d["steps"].insert(rng.randrange(len(d["steps"]) + 1), ("opt", "nosuch" + str(rng.randrange(3))))
                if rng.random() < 0.5:
                    d["steps"].append((rng.choice(["rem", "rem", "tra"]), "gone" + str(rng.randrange(2))) if rng.random() < 0.7
                                      else ("rem", "nosuch0"))
            v = G.gen_value_d(rng, t, env, 0.8, 0)
        cases.append(R.mk(env, t, v, "-", "enc"))
    big = {"kind": "rec", "name": "Big", "fields": [{"name": "a", "ty": G.P("u8"), "opt": False, "transient": None}],
           "steps": [("rem", f"r{k}") for k in range(254)]}
    cases.append(R.mk([big], ("named", 0), "(0 n7)", "-", "rt"))
    # beyond the limit (255, 256, 257, 300 declared steps: the version byte cannot hold them) the declaration itself is
    # refused when its metadata is built - by an assertion, in the model `Panic PAssert` - and never encodes anything
    over = []
    for k in (255, 256, 257, 300, 510, 511):
        bigk = dict(big, steps=[("rem", f"r{j}") for j in range(k)])
        over.append(R.mk([bigk], ("named", 0), "(0 n7)", "-", "rt"))
    oimpl, omod = C.run_codec(harness, model, over, wd, "over")
    for c, a, m in zip(over, oimpl, omod):
        if not (a.startswith("panic Too many evolution steps") and m.startswith("panic assert")):
            bad.append((f"a record declared with {len(c['_env'][0]['steps'])} evolution steps: rt (named 0) (0 n7) -", a,
                        "a declaration with more evolution steps than the version byte can hold is not refused"))
    impl, mod = C.run_codec(harness, model, cases, wd, "e")
    impl_d, mod_d = C.run_codec(hdebug, model, cases[:2000], wd, "ed")
    dis = [(C.codec_line(c), a, b) for c, a, b in zip(cases, impl, mod) if a != b]
    dis += [(C.codec_line(c), a, b) for c, a, b in zip(cases[:2000], impl_d, mod_d) if a != b]
    classes = {}
    for c, a in list(zip(cases, impl)) + list(zip(cases[:2000], impl_d)):
        k = a.split(" ")[0] + ("" if a.startswith("ok") else " " + a.split(" ")[1].split("(")[0])
        classes[k] = classes.get(k, 0) + 1
        if a.startswith("panic"):
            bad.append((C.codec_line(c), a, "encoding panicked"))
        elif a.startswith("entry-points-differ"):
            bad.append((C.codec_line(c), a, "the entry points (Vec<u8>, Bytes, size calculator) disagree on an encoding issued among failing encodings"))
        elif a.startswith("err ") and len(a.split(" ; ")[0].split(" ")) > 2:
            bad.append((C.codec_line(c), a, "a failed encoding handed back bytes"))
    # transient constructors through the real derive macro (static route): every constructor of every catalogue enum
    # that has a transient one - the transient ones are reported with the dedicated error naming type and constructor
    # (never written, never a panic), the others encode
    from .. import catalogue as K
    from . import c13
    cenv = K.load()
    tcs, texp = [], []
    for i, d in enumerate(cenv):
        if d["kind"] != "enum" or not any(v["transient"] for v in d["variants"]):
            continue
        for j, v in enumerate(d["variants"]):
            for _ in range(3 if tier == "quick" else 30):
                tcs.append({"cmd": "srt", "w": i, "val": c13.variant_value(rng, cenv, i, j), "sfx": "-"})
                texp.append((d["name"], v["name"], bool(v["transient"])))
    tbad, tdis, tl, timpl = R.static_block(harness, model, C.workdir("C17s"), tcs, cenv, "tc", lambda c, a: (True, ""))
    dis += tdis
    for (tn, vn, tr), l, a in zip(texp, tl, timpl):
        enc_part = a.split(" ; ")[0]
        want = f"err SerTransientCtor({vn.encode().hex()},{tn.encode().hex()})"
        if tr and enc_part != want:
            bad.append((l, a, f"a transient constructor is not reported as {want}"))
        if not tr and not enc_part.startswith("ok ") and enc_part != "err UnsupportedCharacter":
            bad.append((l, a, "a constructor that is not transient is refused"))
    rep.coverage["transient_constructor_cases_static"] = len(tcs)
    # concrete container types (byte arrays of 127-1025 bytes, arrays of 63-127 elements, ...): encoding returns bytes, never a panic
    names = [x for x in C.run([harness, "monotypes"], timeout=120).stdout.split("\n") if x.strip()]
    ml = []
    for nm in names:
        t = G.ty_of_text(nm)
        for _ in range(3 if tier == "quick" else 60):
            ml.append(f"mrt {nm} {G.gen_value(rng, t)} -")
    for l, a in zip(ml, C.run_sharded(harness, "static", ml, C.workdir("C17m"), "mono", shards=8)):
        if a.startswith("panic") or a.startswith("abort"):
            bad.append((l[:300], a[:300], "encoding a value of a concrete container type panics"))
    rep.coverage["concrete_types_encoded"] = len(ml)
    # the stream is a HISTORY per process (failing encodings interleaved with succeeding ones): bytes that differ from
    # the reference encoding of the value are bytes handed over from another call
    for c, a, m in zip(cases, impl, mod):
        if a.startswith("ok ") and m.startswith("ok ") and a.split(" ")[1] != m.split(" ")[1]:
            bad.append((C.codec_line(c), a.split(" ; ")[0][:200] + "  (reference: " + m.split(" ")[1][:120] + ")",
                        "an encoding issued after failed encodings is not the encoding of its value"))
    C.proof_coverage(rep, ob, "C17")
    lines = [C.codec_line(c) for c in cases]
    rep.coverage.update({
        "evaluations": len(cases) + 2000 + 2 * (1112064 + 9), "distinct_nontrivial": len(set(lines)) + 1112064,
        "rule": "EVERY Unicode scalar value (1 112 064 chars: Ok(2 bytes BE) iff < 0x10000, else UnsupportedCharacter), "
                "Vec<()> of 2^31-1 / 2^31 / 2^31+1 / 2^32 / 2^63-1 elements, iterators whose exact size hint is around "
                "2^31 / 2^32 / usize::MAX - in release and debug builds; random values with unsupported chars nested "
                "anywhere (first error wins), transient constructors at any position, evolution steps naming unknown "
                "fields, a record with 254 evolution steps; error variant and payload compared with the model; date-times within "
                "200000 s of both ends of chrono's range seen through 7 fixed offsets, 3 named zones and Local (no "
                "unwind; an error exactly when the stored local time is not representable)",
        "datetime_probes": {k: v for k, v in probes.items() if k.endswith("_datetimes")},
        "samples": lines[:2] + lines[n:n + 2] + probes["release"][:3], "exhaustive": True,
        "error_classes": classes, "disagreements_checked": len(cases) + 2000, "disagreements": len(dis),
    })
    if bad:
        l, a, why = bad[0]
        rep.violation(f"{why}: {l[:200]}", {"kind": "case", "case": l, "implementation": a, "why": why, "n_failing": len(bad)})
    C.report_broken(rep, ob, dis, "codec/enc-errors", bool(bad))
