"""C01 — round-trip fidelity of every built-in codec, at any nesting."""
import os
from .. import common as C
from .. import gencases as G
from .. import rtfamily as R


def gen_bigdec(rng):
    """canonical plain-notation decimal text (what BigDecimal::to_string prints for it)"""
    ip = rng.choice(["0", str(rng.randrange(1, 10)), str(rng.getrandbits(rng.randrange(1, 130)) or 7)])
    if rng.random() < 0.5:
        return ("-" if rng.random() < 0.3 and ip != "0" else "") + ip
    fr = "".join(rng.choice("0123456789") for _ in range(rng.randrange(1, 31)))
    if ip == "0" and fr.lstrip("0") != fr and len(fr) - len(fr.lstrip("0")) >= 5:
        fr = "1" + fr          # tiny values print in exponent notation: keep to plain notation
    neg = rng.random() < 0.3 and (ip != "0" or fr.strip("0") != "")
    return ("-" if neg else "") + ip + "." + fr


BD_TEXTS = ["0", "-0", "+0", "1", "-1", "+1", "1.", ".5", "-.5", "+.5", ".", "", "-", "+", "e", "e5", "1e", "1e+", "1e-",
            "1e5", "1E5", "1e+5", "1e-5", "1.5e3", "1.5E-3", "15e-1", "1_000", "1_000.5", "1._5", "_1", "1_", "-_1",
            "1__2", "1.5_", "1.5_e2", "1e1_0", "1e_1", "--1", "-+1", "+-1", "++1", "+1e+1", "1e++1", "1e+-1", "1..2",
            "1.2.3", "1e2e3", "1e2.5", "0x10", "1a", "a", "NaN", "inf", "Infinity", "1 ", " 1", "1\n", "١", "1é",
            "0.000000", "0.0000001", "0E-7", "000", "0000.000", "00012", "1e15", "1e16", "1e-15", "100e-2",
            "1e9223372036854775807", "1e9223372036854775808", "1e-9223372036854775807", "1e-9223372036854775808",
            "1e9223372036854775809", "1.5e9223372036854775808", "1.55e9223372036854775809", "1.5e-9223372036854775807",
            "1e170141183460469231731687303715884105727", "1e170141183460469231731687303715884105728",
            "1e-170141183460469231731687303715884105728", "1e-170141183460469231731687303715884105729",
            "1e+00000000000000000000000000000000000000000005", "0e99999999999999999999999999999999999999999",
            "123456789012345678901234567890.123456789012345678901234567890", "1" + "0" * 400, "0." + "0" * 300 + "1"]


def bd_text_case(txt_bytes):
    """the encoding of a String holding txt, as input to the BigDecimal decoder"""
    n = len(txt_bytes)
    zz, pre = n << 1, bytearray()
    while True:
        if zz < 128:
            pre.append(zz)
            break
        pre.append((zz & 0x7f) | 0x80)
        zz >>= 7
    return {"env": "-", "cmd": "dec", "ty": "bigdec", "hex": (bytes(pre) + txt_bytes).hex(), "unordered": False}


def bigdecimal_stream(rep, tier, seed, harness, model, wd):
    """BigDecimal is written as the decimal text the bigdecimal crate renders and read by that crate's parser; both are
    transcribed in coq/BigDec.v. (a) values: every formatter branch, both ends of the i64 scale, values that are not
    their own representative (scales -15..-1); implementation = model, and the round trip on the implementation alone.
    (b) texts: what the parser accepts - signs, underscores, dots, exponents at the i64 and i128 limits, garbage -
    implementation = model (value or error class)."""
    rng = C.rng_for(seed, "C01bd")
    n = 1500 if tier == "quick" else 40000
    cases = []
    for i in range(n):
        shape = rng.choice(["p", "p", "p", "vec", "opt", "tup", "map"])
        mk = lambda: G.gen_bigdec_value(rng, normal=rng.random() < 0.7)
        if shape == "p":
            t, v = G.P("bigdec"), mk()
        elif shape == "vec":
            t = ("seq", "vec", 0, G.P("bigdec"))
            v = "(0" + "".join(" " + mk() for _ in range(rng.randrange(0, 5))) + ")"
        elif shape == "opt":
            t, v = ("opt", G.P("bigdec")), f"(1 {mk()})"
        elif shape == "tup":
            t, v = ("tup", [G.P("u8"), G.P("bigdec"), G.P("str")]), f"(0 n{rng.randrange(256)} {mk()} b6162)"
        else:
            t, v = ("map", "bmap", G.P("u16"), G.P("bigdec")), f"(0 (0 n1 {mk()}) (0 n2 {mk()}))"
        cases.append(R.mk(None, t, v, rng.choice(R.SUFFIXES)))
    impl, mod = C.run_codec(harness, model, cases, wd, "bigdec")
    dis = [(C.codec_line(c), a, b) for c, a, b in zip(cases, impl, mod) if a != b]
    bad = []
    for c, a in zip(cases, impl):
        ok, why = R.judge_rt(c, a)
        if not ok:
            bad.append((C.codec_line(c), a, why))
    # (b) texts
    texts = [t.encode() for t in BD_TEXTS]
    alphabet = "0123456789" * 3 + "..eE+-__ "
    for _ in range(1500 if tier == "quick" else 60000):
        c = rng.random()
        if c < 0.5:
            # grammar-shaped: [sign] digits [. digits] [e [sign] digits], with underscores and defects sprinkled in
            t = rng.choice(["", "", "-", "+"]) + "".join(rng.choice("0123456789_") if rng.random() < 0.15 else rng.choice("0123456789")
                                                         for _ in range(rng.randrange(0, 12)))
            if rng.random() < 0.6:
                t += "." + "".join(rng.choice("0123456789") for _ in range(rng.randrange(0, 12)))
            if rng.random() < 0.5:
                t += rng.choice("eE") + rng.choice(["", "", "-", "+"]) + str(rng.choice(
                    [0, 1, 5, 15, 16, 20, 21, 300, (1 << 63) - 1, 1 << 63, (1 << 63) + 1, (1 << 127) - 1, 1 << 127, rng.getrandbits(70)]))
            if rng.random() < 0.2 and t:
                k = rng.randrange(len(t))
                t = t[:k] + rng.choice(alphabet) + t[k + rng.randrange(2):]
        elif c < 0.8:
            t = "".join(rng.choice(alphabet) for _ in range(rng.randrange(0, 10)))
        else:
            i, sc = G.gen_bigdec_pair(rng, normal=False)
            t = str(i) + "e" + str(-sc)
        texts.append(t.encode())
    tcases = [bd_text_case(t) for t in texts]
    timpl, tmod = C.run_codec(harness, model, tcases, wd, "bigdec.text")
    dis += [(C.codec_line(c), a, b) for c, a, b in zip(tcases, timpl, tmod) if a != b]
    for c, a in zip(tcases, timpl):
        if a.startswith("panic") or a in ("hang", "abort"):
            bad.append((C.codec_line(c), a, "decoding a BigDecimal text does not return"))
    accepted = sum(1 for a in timpl if a.startswith("ok "))
    rep.coverage["bigdecimal_stream"] = {"values": len(cases), "texts": len(tcases), "texts_accepted": accepted,
                                         "failing": len(bad), "disagreements": len(dis),
                                         "judged": "implementation = model (coq/BigDec.v) and the round trip on the implementation alone",
                                         "sample": C.codec_line(cases[0])[:120]}
    rep.coverage["evaluations"] = rep.coverage.get("evaluations", 0) + len(cases) + len(tcases)
    if bad:
        line, a, why = bad[0]
        rep.violation(f"BigDecimal: {why}: {line[:160]}",
                      {"kind": "case", "case": line, "implementation": a, "why": why, "n_failing": len(bad)})
    elif dis:
        line, a, b = dis[0]
        rep.violation(f"BigDecimal: implementation and model (coq/BigDec.v) disagree on {line[:160]}",
                      {"kind": "correspondence", "stream": "bigdec", "case": line, "implementation": a, "model": b,
                       "n_disagreements": len(dis)}, no_input=True)


def mono_stream(rep, tier, seed, harness, model, wd):
    """concrete Rust types at the boundaries of the library's type-directed special cases (u8 test in Vec<T> /
    [T; N], transmute layouts): one-byte element types that are not u8, nested byte arrays, LinkedList<u8>, ...
    The dynamic route cannot reach these because its element type is always the harness's own value type."""
    rng = C.rng_for(seed, "C01mono")
    names = C.run([harness, "monotypes"], timeout=120).stdout.split("\n")
    names = [n for n in names if n.strip()]
    per = 12 if tier == "quick" else 400
    cases = []
    for n in names:
        t = G.ty_of_text(n)
        for _ in range(per):
            cases.append(R.mk(None, t, G.gen_value(rng, t), rng.choice(R.SUFFIXES)))
    hl = [f"mrt {C.codec_line(c)[3:]}" for c in cases]
    impl = C.run_sharded(harness, "static", hl, wd, "mono.impl", shards=8)
    mod = C._run_codec_side(model, cases, [C.codec_line(c) for c in cases], wd, "mono.model", 8, 3000)
    norm = lambda l: " ; ".join(" ".join(p.split(" ")[:2]) if i == 0 and p.startswith("ok ") else p
                                for i, p in enumerate(l.split(" ; ")))
    dis = [(h, a, b) for h, a, b in zip(hl, impl, mod) if norm(a) != norm(b)]
    bad = []
    for c, a in zip(cases, impl):
        ok, why = R.judge_rt(c, a)
        if not ok:
            bad.append((c, a, why))
    # long values of the concrete sequence types (on both sides of 1024 elements), judged on the implementation alone
    # (the extracted model reads lists quadratically)
    longc = []
    for n in names:
        t = G.ty_of_text(n)
        if t[0] == "seq" and t[1] in ("vec", "ll", "slice") and t[3][0] == "prim" and t[3][1] != "unit":
            for k in (1023, 1024, 1025, 3000):
                items = [G.gen_prim_value(rng, t[3][1]) for _ in range(k)]
                val = "b" + "".join("%02x" % int(x[1:]) for x in items) if (t[3][1] == "u8" and t[1] != "ll") else "(0 " + " ".join(items) + ")"
                longc.append(R.mk(None, t, val, "00"))
    limpl = C.run_sharded(harness, "static", [f"mrt {C.codec_line(c)[3:]}" for c in longc], wd, "mono.long", shards=8)
    for c, a in zip(longc, limpl):
        ok, why = R.judge_rt(c, a)
        if not ok:
            bad.append((c, a[:300], why))
    rep.coverage["monomorphic_types"] = {"types": len(names), "cases": len(cases), "long_values": len(longc), "failing": len(bad),
                                         "disagreements": len(dis), "sample": hl[0][:100]}
    rep.coverage["evaluations"] = rep.coverage.get("evaluations", 0) + len(cases)
    if bad:
        c, a, why = bad[0]
        rep.violation(f"{why}: mrt {C.codec_line(c)[3:160]}",
                      {"kind": "case", "case": "mrt " + C.codec_line(c)[3:5000], "implementation": a, "why": why,
                       "n_failing": len(bad), "rerun": "printf '<case>\\n' > f && .cache/target/release/dharness static f"})
    elif dis:
        rep.violation("model/implementation correspondence no longer checks on the monomorphic catalogue: " + dis[0][0][:120],
                      {"kind": "correspondence", "stream": "static/mono", "first_disagreement": dis[0],
                       "n_disagreements": len(dis)}, no_input=True)


def deep_cases(rng):
    """'at any nesting depth': type expressions nested far beyond the random generator's depth 5 - 150 and 400 levels
    of 1-tuples, pairs, options, boxes, results and vectors (each level one more constructor)"""
    out = []
    for depth in (150, 400):
        for shape in ("tup1", "pair", "opt", "box", "res", "vec", "mix"):
            t, v = G.P("u16"), "n7"         # (not u8: Vec<u8> has the byte layout)
            for i in range(depth):
                k = shape if shape != "mix" else ["tup1", "opt", "pair", "vec", "box", "res"][i % 6]
                if k == "tup1":
                    t, v = ("tup", [t]), f"(0 {v})"
                elif k == "pair":
                    t, v = ("tup", [G.P("u8"), t]), f"(0 n{i % 256} {v})"
                elif k == "opt":
                    t, v = ("opt", t), f"(1 {v})"
                elif k == "box":
                    t, v = ("wrap", "box", t), v
                elif k == "res":
                    t, v = (("res", t, G.P("u8")), f"(1 {v})") if i % 2 else (("res", G.P("u8"), t), f"(0 {v})")
                else:
                    t, v = ("seq", "vec", 0, t), f"(0 {v})"
            out.append(R.mk(None, t, v, rng.choice(["-", "00"])))
    return out


def size_boundary_cases(rng):
    """lengths and counts at every width boundary of their var-int prefix (zig-zag counts: 63/64, 8191/8192,
    1048575/1048576; unsigned byte lengths: 127/128, 16383/16384, 2097151/2097152). Returns (modelled, implementation
    only): the extracted model reads lists quadratically, so inputs beyond a few hundred elements are judged on the implementation alone."""
    small, big = [], []
    for n in (63, 64, 65, 8191, 8192, 8193, 1048575, 1048576, 1048577):
        tgt = small if n < 200 else big
        tgt.append(R.mk(None, G.P("str"), "b" + ("61" * n), "00"))
        if n < 20000:
            tgt.append(R.mk(None, ("seq", "vec", 0, G.P("u16")), "(0" + " n513" * n + ")", "-"))
            tgt.append(R.mk(None, ("seq", "ll", 0, G.P("bool")), "(0" + " n1" * n + ")", "-"))
            tgt.append(R.mk(None, ("map", "bmap", G.P("u32"), G.P("u8")),
                            "(0" + "".join(f" (0 n{i} n{i % 256})" for i in range(n)) + ")", "-"))
    for n in (127, 128, 129, 16383, 16384, 16385, 2097151, 2097152, 2097153):
        tgt = small if n < 200 else big
        tgt.append(R.mk(None, ("seq", "vec", 0, G.P("u8")), "b" + ("ab" * n), "00"))
        tgt.append(R.mk(None, G.P("bytes"), "b" + ("cd" * n), "-"))
        if n < 20000:
            big.append(R.mk(None, G.P("bigint"), "z" + str((1 << (8 * n - 2)) + 12345), "-"))   # (the model's be_bytes is cubic)
    # chunks of an evolved record beyond 16 MiB (chunk sizes are four-byte var-ints there): the initial chunk and an added one
    F = lambda n, t: {"name": n, "ty": t, "opt": False, "transient": None}
    big_env = [{"kind": "rec", "name": "BigRec", "fields": [F("a", G.P("u8")), F("payload", G.P("bytes")), F("tail", G.P("str"))],
                "steps": [("add", "payload", "b-")]}]
    n = (1 << 24) + 5
    big.append(R.mk(big_env, ("named", 0), "(0 n7 b" + "ab" * n + " b7a)", "00"))            # the added chunk is large
    big.append(R.mk(big_env, ("named", 0), "(0 n7 b01 b" + "71" * n + ")", "-"))             # the initial chunk is large
    big.append(R.mk(None, ("tup", [G.P("u8"), G.P("bytes")]), "(0 n1 b" + "cd" * n + ")", "-"))
    return small, big


def big_stream(rep, harness, wd, big):
    lines = [C.codec_line(c) for c in big]
    impl = C._run_codec_side(harness, big, lines, wd, "big", 8, 3000)
    bad = [(c, a, R.judge_rt(c, a)[1]) for c, a in zip(big, impl) if not R.judge_rt(c, a)[0]]
    rep.coverage["size_boundary_cases_implementation_only"] = len(big)
    rep.coverage["evaluations"] = rep.coverage.get("evaluations", 0) + len(big)
    if bad:
        c, a, why = bad[0]
        rep.violation(f"{why}: {C.codec_line(c)[:120]} ... ({len(c['val']) // 2} bytes)",
                      {"kind": "case", "case": C.codec_line(c)[:2000] + "...", "implementation": a[:300], "why": why,
                       "n_failing": len(bad)})


def tz_list_check(rep, harness):
    """coq/TzNames.v (the model's oracle for Tz::from_str) against the chrono-tz linked into the implementation"""
    have = C.run([harness, "tznames"], timeout=120).stdout.split()
    want = G.tz_names()
    rep.coverage["tz_names"] = {"model": len(want), "implementation": len(have), "equal": have == want}
    if have != want:
        diff = sorted(set(have) ^ set(want))[:5]
        rep.violation("the zone names the implementation's chrono-tz accepts differ from coq/TzNames.v: " + ", ".join(diff),
                      {"kind": "correspondence", "stream": "tznames", "first_differences": diff,
                       "regenerate": "see the header of coq/TzNames.v"}, no_input=True)


def check(rep, tier, seed):
    rng = C.rng_for(seed, "C01")
    small, big = size_boundary_cases(rng)
    cases = R.builtin_cases(rng, tier) + deep_cases(rng) + small
    rep.coverage["rule"] = (
        "every type constructor applied to every modelled primitive (exhaustive shallow layer, every tuple arity "
        "1-8, every compiled array length), random type expressions to depth 5; values from per-primitive boundary "
        "sets (MIN/MAX/var-int width boundaries, NaN payloads, BMP edges, 63/64/65-byte strings, 0/1/63/64/65/130-"
        "element containers; chrono: both ends of the year and timestamp ranges, leap days and leap seconds, every "
        "var-int width of year / nanosecond / offset, all 596 zone names); each encoded and decoded with a suffix "
        "through the public entry points (dynamic route: the library's generic impls instantiated at a run-time "
        "typed value); 14 type expressions nested 150 and 400 levels deep; strings, vectors, lists, maps, byte arrays and big "
        "integers at every width boundary of their length prefix up to 2^21; non-trivial = distinct case lines; BigDecimal: "
        "values in every formatter branch and at both ends of the i64 scale, and a text stream for its parser")
    R.run_and_judge(rep, "C01", "C01", cases, tier, seed,
                    extra_trusted=["chrono's calendar (valid dates/times/offsets/timestamps) and chrono-tz's name table are "
                                   "oracles written out in coq/Calendar.v and coq/TzNames.v; their agreement with the crates is "
                                   "sampled by this stream (boundaries of every predicate) and the name list is compared on "
                                   "every run; DateTime<Local> under TZ=UTC",
                                   "the decimal text of BigDecimal (bigdecimal 0.4.6 Display and FromStr, num-bigint's integer "
                                   "parser, i128::from_str) is an oracle written out in coq/BigDec.v; its agreement with the "
                                   "crates is sampled by the BigDecimal value and text streams; BigDecimal values are observed "
                                   "through the representative their text determines (bd_norm: Rust's equality on BigDecimal "
                                   "is numeric)"])
    harness = C.build_harness("release")
    big_stream(rep, harness, C.workdir("C01big"), big)
    bigdecimal_stream(rep, tier, seed, harness, C.build_model(), C.workdir("C01bd"))
    mono_stream(rep, tier, seed, harness, C.build_model(), C.workdir("C01mono"))
    tz_list_check(rep, harness)
