"""C01 — round-trip fidelity of every built-in codec, at any nesting."""
from .. import common as C
from .. import rtfamily as R


def check(rep, tier, seed):
    rng = C.rng_for(seed, "C01")
    cases = R.builtin_cases(rng, tier)
    rep.coverage["rule"] = (
        "every type constructor applied to every modelled primitive (exhaustive shallow layer, every tuple arity "
        "1-8, every compiled array length), random type expressions to depth 5; values from per-primitive boundary "
        "sets (MIN/MAX/var-int width boundaries, NaN payloads, BMP edges, 63/64/65-byte strings, 0/1/63/64/65/130-"
        "element containers); each encoded and decoded with a suffix through the public entry points "
        "(dynamic route: the library's generic impls instantiated at a run-time typed value); non-trivial = "
        "distinct case lines")
    R.run_and_judge(rep, "C01", "C01", cases, tier, seed,
                    extra_trusted=["not yet modelled (outside the theorem and the stream): chrono, chrono-tz and "
                                   "BigDecimal codecs"])
