"""C07 — encodings are self-delimiting."""
from .. import common as C
from .. import rtfamily as R


def check(rep, tier, seed):
    rng = C.rng_for(seed, "C07")
    cases = R.builtin_cases(rng, tier, per_type=2)[: (6000 if tier == "quick" else 10 ** 9)] + R.derived_cases(rng, tier)
    # suffixes that look like another header, a count, a tag
    for i, c in enumerate(cases):
        c["sfx"] = R.SUFFIXES[i % len(R.SUFFIXES)] if i % 7 else "0102030405060708090a0b0c0d0e0f"
    rep.coverage["rule"] = (
        "the C01 and C02 streams with adversarial suffixes (empty, one byte, var-int-like, record-header-like, 15 "
        "bytes); after T::deserialize the public DeserializationContext is drained byte by byte: the number of "
        "bytes left must be exactly the suffix length and the value the original")
    R.run_and_judge(rep, "C07", "C07", cases, tier, seed)
    unknown_form(rep, tier, seed, cases)
    cross_version(rep, tier, seed)
    record_as_tuple(rep, tier, seed)


def record_as_tuple(rep, tier, seed):
    """evolved-record bytes followed by a suffix, read by a tuple of the record's initial fields: whenever the
    reference reader returns a value, exactly the suffix must be left (later chunks are skipped in full)"""
    rng = C.rng_for(seed, "C07t")
    harness = C.build_harness("release")
    model = C.build_model()
    cases = R.record_as_tuple_cases(rng, 1200 if tier == "quick" else 30000)
    impl, mod = C.run_codec(harness, model, cases, C.workdir("C07t"), "rtup")
    bad, dis, nok = [], [], 0
    for c, a, m in zip(cases, impl, mod):
        da, dm = a.partition(" ; ")[2], m.partition(" ; ")[2]
        if dm.startswith("ok "):
            nok += 1
            nsfx = 0 if c["sfx"] == "-" else len(c["sfx"]) // 2
            if not (da.startswith("ok ") and da.rsplit(" ", 1)[1] == str(nsfx)):
                bad.append((c, a, m))
        elif da != dm:
            dis.append((C.codec_line(c), a, m))
    rep.coverage["record_bytes_read_as_tuples"] = {"cases": len(cases), "reference_returns_a_value": nok, "failing": len(bad)}
    rep.coverage["evaluations"] = rep.coverage.get("evaluations", 0) + len(cases)
    if bad:
        c, a, m = bad[0]
        rep.violation(f"record bytes read by a tuple of the record's initial fields: not exactly the suffix is left: "
                      f"{C.codec_line(c)[:140]} -> {a.partition(' ; ')[2][:80]}",
                      {"kind": "case", "env": c["env"], "case": C.codec_line(c), "implementation": a, "reference": m,
                       "n_failing": len(bad)})
    elif dis:
        l, a, b = dis[0]
        rep.violation(f"implementation and model disagree on record bytes read as a tuple: {l[:160]}",
                      {"kind": "correspondence", "stream": "codec/record-as-tuple", "case": l, "implementation": a, "model": b,
                       "n_disagreements": len(dis)}, no_input=True)


def unknown_form(rep, tier, seed, cases):
    """encodings other writers produce (Scala's lists, serialize_iterator without an exact size hint): every
    sequence and map in the unknown-length form, at every nesting level, followed by a suffix - the decoder must
    stop exactly behind the terminator of the outermost value"""
    from .. import sx
    rng = C.rng_for(seed, "C07u")
    harness = C.build_harness("release")
    model = C.build_model()
    wd = C.workdir("C07u")
    uc = [dict(c) for c in cases if c["_t"][0] in ("seq", "map", "tup", "opt", "named", "res", "wrap")][: (3000 if tier == "quick" else 10 ** 9)]
    for c in uc:
        c["cmd"] = "encu"
    uenc = C._run_codec_side(model, uc, [C.codec_line(c) for c in uc], wd, "uenc", 16, 3000)
    dcases, want = [], []
    for c, a in zip(uc, uenc):
        if not a.startswith("ok "):
            continue
        hx = a.split(" ")[1]
        sfx = rng.choice(["", "00", "01", "0100", "ff01", "8080808001", "0102030405060708090a0b0c0d0e0f"])
        dcases.append({"env": c["env"], "cmd": "dec", "ty": c["ty"], "hex": ((hx if hx != "-" else "") + sfx) or "-",
                       "_env": c["_env"], "_t": c["_t"]})
        want.append(f"ok {sx.expect_decoded(c['_t'], c['val'], c['_env'])} {len(sfx) // 2}")
    dimpl, dmod = C.run_codec(harness, model, dcases, wd, "udec")
    dis = [(C.codec_line(c), a, b) for c, a, b in zip(dcases, dimpl, dmod) if a != b]
    bad = [(c, a, w) for c, a, w in zip(dcases, dimpl, want) if a != w]
    rep.coverage["unknown_form_with_suffix"] = {"encodings": len(dcases), "failing": len(bad), "disagreements": len(dis)}
    rep.coverage["evaluations"] = rep.coverage.get("evaluations", 0) + len(dcases)
    if bad:
        c, a, w = bad[0]
        rep.violation(f"an encoding in the unknown-length form followed by a suffix is not consumed exactly: {C.codec_line(c)[:140]} -> {a[:100]}",
                      {"kind": "case", "env": c["env"], "case": C.codec_line(c), "implementation": a, "expected": w,
                       "n_failing": len(bad)})
    elif dis:
        l, a, b = dis[0]
        rep.violation(f"implementation and model disagree on an unknown-length-form encoding: {l[:160]}",
                      {"kind": "correspondence", "stream": "codec/unknown-form+suffix", "case": l, "implementation": a, "model": b,
                       "n_disagreements": len(dis)}, no_input=True)


def cross_version(rep, tier, seed):
    """writer/reader version pairs (the last clause of the property): the C03 history stream, judged on what is
    left unread after the reader's decode, between sibling data and inside Vec<R>"""
    from . import c03 as H3
    harness = C.build_harness("release")
    model = C.build_model()
    wd = C.workdir("C07x")
    cases = [c for c in H3.gen_cases(seed + 7, tier) if not c["illegal"]]
    impl = H3.run_stream(harness, model, cases, wd)
    bad, n_scope, pairs = [], 0, {"w<r": 0, "w>r": 0, "w=r": 0}
    for c, il in zip(cases, impl):
        if not (c["legal"] and c["framed"] and c["expected"].startswith("ok ")):
            continue
        n_scope += 1
        pairs["w<r" if c["w"] < c["r"] else "w>r" if c["w"] > c["r"] else "w=r"] += 1
        dec_part = il.partition(" ; ")[2]
        nsfx = 0 if c["sfx"] == "-" else len(c["sfx"]) // 2
        ok = False
        if dec_part.startswith("ok "):
            val, _, rest = dec_part[3:].rpartition(" ")
            ok = val == c["expected"][3:] and int(rest) == nsfx
        if not ok:
            bad.append((c, il, nsfx))
    rep.coverage["cross_version"] = {"cases_in_scope": n_scope, "pairs": pairs, "failing": len(bad),
                                     "rule": "legal histories, framed (writer, reader) pairs whose expected outcome "
                                             "is a value: the reader must return it and leave exactly the suffix"}
    rep.coverage["evaluations"] = rep.coverage.get("evaluations", 0) + n_scope
    if bad:
        c, il, nsfx = bad[0]
        rep.violation(f"version {c['w']} data read by version {c['r']} does not leave exactly the {nsfx} suffix bytes: "
                      f"{il.split(' ; ')[-1][:100]}",
                      {"kind": "case", "writer_env": c["envW"], "reader_env": c["envR"],
                       "case": f"xrt {c['wrap']} {c['val']} {c['wrap']} {c['sfx']}", "implementation": il,
                       "expected": c["expected"], "n_failing": len(bad)})
