"""C07 — encodings are self-delimiting."""
from .. import common as C
from .. import rtfamily as R


def check(rep, tier, seed):
    rng = C.rng_for(seed, "C07")
    cases = R.builtin_cases(rng, tier, per_type=2)[: (6000 if tier == "quick" else 10 ** 9)] + R.derived_cases(rng, tier)
    # suffixes that look like another header, a count, a tag
    for i, c in enumerate(cases):
        c["sfx"] = R.SUFFIXES[i % len(R.SUFFIXES)] if i % 7 else "0102030405060708090a0b0c0d0e0f"
    rep.coverage["rule"] = (
        "the C01 and C02 streams with adversarial suffixes (empty, one byte, var-int-like, record-header-like, 15 "
        "bytes); after T::deserialize the public DeserializationContext is drained byte by byte: the number of "
        "bytes left must be exactly the suffix length and the value the original")
    R.run_and_judge(rep, "C07", "C07", cases, tier, seed)
