"""C19 — memory safety of the safe public API (partial)."""
import os
import shutil
from .. import common as C
from .. import gencases as G
from .. import rtfamily as R

WITNESS = C.WITNESS
F15 = ("State::store_ref(&impl Any) erases the borrow: the safe program witness/src/bin/w_dangling_ref.rs "
       "(store_ref(&s); drop s; try_read_ref()) compiles under #![forbid(unsafe_code)] and reads a dropped object")
MUST_REJECT = ["w_ref_outlives_context", "w_mutate_state_while_ref_out", "w_bytes_outlive_input",
               "w_context_outlives_input", "w_context_is_send"]


def cargo_check(bin_name):
    lock = os.path.join(WITNESS, "Cargo.lock")
    if not os.path.exists(lock):
        shutil.copy(os.path.join(C.REPO, "Cargo.lock"), lock)
    p = C.run(["cargo", "check", "--offline", "--bin", bin_name], cwd=WITNESS, timeout=1200, check=False,
              env={"CARGO_TARGET_DIR": os.path.join(C.TBASE, "target-w")})
    errs = [l for l in p.stdout.splitlines() if l.startswith("error")]
    return p.returncode == 0, errs, p.stdout


def check(rep, tier, seed):
    rng = C.rng_for(seed, "C19")
    ob = C.coq_obligations("C19")
    harness = C.build_harness("release")
    hdebug = C.build_harness("debug")
    model = C.build_model()
    wd = C.workdir("C19")
    bad = []
    bad_inventory = []
    # (1) the compiler's verdict on safe-only witness programs
    verdicts = {}
    ok, errs, out = cargo_check("w_control_ok")
    verdicts["w_control_ok"] = "accepted" if ok else "rejected"
    if not ok:
        raise C.Undecided("the control witness does not compile: the witness crate cannot be built against /repo\n" + out[-2000:])
    for w in MUST_REJECT:
        ok, errs, out = cargo_check(w)
        verdicts[w] = "accepted" if ok else "rejected: " + (errs[0][:90] if errs else "?")
        borrow = any(e.startswith(("error[E0597]", "error[E0499]", "error[E0502]", "error[E0505]", "error[E0716]", "error: lifetime"))
                     for e in errs) or (w == "w_context_is_send" and any(e.startswith("error[E0277]") for e in errs))
        if ok:
            bad.append((f"witness/src/bin/{w}.rs", "compiles", "a lifetime-escape witness written without unsafe code is accepted by the compiler"))
        elif not borrow:
            raise C.Undecided(f"witness {w} fails to compile for a reason other than the borrow checker:\n" + out[-1500:])
    ok, errs, out = cargo_check("w_dangling_ref")
    verdicts["w_dangling_ref"] = "accepted" if ok else "rejected"
    known = C.load_known()
    if ok:
        if any(k.get("id") == "F15" for k in known.get("findings", [])):
            rep.known(F15)
        else:
            bad.append(("witness/src/bin/w_dangling_ref.rs", "compiles", F15))
    # (1b) a client implementing the public BinaryInput trait with short / long reads: no provided method may build
    # a value out of more bytes than the client handed over
    p = C.run(["cargo", "run", "--offline", "--release", "--quiet", "--bin", "w_adversarial_io"], cwd=WITNESS, timeout=1200,
              check=False, env={"CARGO_TARGET_DIR": os.path.join(C.TBASE, "target-w")})
    probes = [l.split(" ") for l in p.stdout.splitlines() if l.startswith("read_")]
    if p.returncode != 0 or len(probes) < 100:
        raise C.Undecided("w_adversarial_io did not run: " + p.stdout[-1500:])
    for name, asked, given, res in probes:
        if asked != given and res != "err":
            bad.append((f"witness/src/bin/w_adversarial_io.rs: {name} on a client input whose read_bytes({asked}) returns "
                        f"{given} bytes", res, "a value was built from more bytes than the client's BinaryInput handed over "
                        "(memory outside the given buffer was read)"))
    verdicts["w_adversarial_io"] = f"{len(probes)} probes run"
    # (1c) inventory of `unsafe` in the library: the streams below and the model's C19 theorems cover exactly these sites
    inv, unknown = unsafe_inventory()
    for site in unknown:
        bad_inventory.append(site)
    # (2) the decoding paths implemented with unsafe code: arrays, byte vectors - every count / length mismatch
    cases = []
    for e in ("u8", "u32", "str", "i128"):
        for n in G.ARRAY_LENS[:9]:
            t = ("seq", "arr", n, G.P(e))
            for m in set([0, 1, max(0, n - 1), n, n + 1, n + 2, 2 * n + 1]):
                if e == "u8":
                    body = bytes(rng.getrandbits(8) for _ in range(m))
                    enc = _vu(m) + body
                else:
                    src = R.mk(None, ("seq", "vec", 0, G.P(e)), "(0" + "".join(" " + G.gen_value(rng, G.P(e)) for _ in range(m)) + ")", "-", "enc")
                    cases.append(("src", src, t))
                    continue
                cases.append(("dec", {"env": "-", "cmd": "dec", "ty": G.show_ty(t), "hex": (enc + b"\xee").hex()}, t))
    srcs = [c for k, c, t in cases if k == "src"]
    simpl, smod = C.run_codec(harness, model, srcs, wd, "src")
    decs = [c for k, c, t in cases if k == "dec"]
    tys = [t for k, c, t in cases if k == "src"]
    for c, a, t in zip(srcs, simpl, tys):
        if a.startswith("ok "):
            decs.append({"env": "-", "cmd": "dec", "ty": G.show_ty(t), "hex": a.split(" ")[1] + "ee"})
    # byte vectors: announced length vs available bytes
    for m in (0, 1, 5, 127, 128, 300):
        for avail in set([0, max(0, m - 1), m, m + 3]):
            decs.append({"env": "-", "cmd": "dec", "ty": "(vec u8)", "hex": (_vu(m) + bytes(rng.getrandbits(8) for _ in range(avail))).hex()})
            decs.append({"env": "-", "cmd": "dec", "ty": "bytes", "hex": (_vu(m) + bytes(rng.getrandbits(8) for _ in range(avail))).hex()})
    dis = []
    for prof, exe in (("release", harness), ("debug", hdebug)):
        dimpl, dmod = C.run_codec(exe, model, decs, wd, "dec_" + prof)
        dis += [(C.codec_line(c), f"{prof}: {a}", b) for c, a, b in zip(decs, dimpl, dmod) if a != b]
        for c, a in zip(decs, dimpl):
            if a.startswith("panic"):
                bad.append((C.codec_line(c), a, "panic in an unsafe decoding path"))
    # (2b) the same paths at CONCRETE element types (monomorphic catalogue: the u8 test and the transmutes are type-directed,
    # the dynamic route only ever instantiates them at the harness's own value type)
    mono = []
    for ty, n in (("(arr 1 bool)", 1), ("(arr 3 bool)", 3), ("(arr 2 i8)", 2), ("(arr 17 i8)", 17), ("(arr 2 (arr 1 u8))", 2),
                  ("(arr 3 u16)", 3), ("(arr 0 u8)", 0), ("(arr 1 u8)", 1), ("(arr 33 u8)", 33), ("(box (arr 4 u8))", 4),
                  ("(vec i8)", 3), ("(vec bool)", 3), ("(vec u8)", 3), ("(ll u8)", 3), ("(vec (arr 1 u8))", 2),
                  ("(arc (arr 2 i8))", 2), ("(opt (arr 2 bool))", 2)):
        for m in sorted(set([0, 1, max(0, n - 1), n, n + 1, 2 * n, 2 * n + 1])):
            body = bytes(rng.choice([0, 1, 2, 127, 128, 255]) for _ in range(m))
            for prefix in (_vu(m), _vu(2 * m), _vu(2 * m + 1), b""):       # unsigned length, zig-zag count, odd count, none
                pre = b"\x01" if ty.startswith("(opt") else b""
                mono.append((ty, (pre + prefix + body + b"\xee").hex()))
    # ... and the unknown-length form (marker, flagged items, terminator) with too few, exactly enough and too many items
    for ty, n, w in (("(arr 1 bool)", 1, 1), ("(arr 3 bool)", 3, 1), ("(arr 2 i8)", 2, 1), ("(arr 17 i8)", 17, 1), ("(arr 3 u16)", 3, 2),
                     ("(arr 3 i64)", 3, 8), ("(vec i8)", 3, 1), ("(vec bool)", 3, 1), ("(arc (arr 2 i8))", 2, 1), ("(opt (arr 2 bool))", 2, 1)):
        for m in sorted(set([0, 1, max(0, n - 1), n, n + 1, 2 * n + 1])):
            items = b"".join(b"\x01" + bytes(rng.choice([0, 1]) for _ in range(w)) for _ in range(m))
            pre = b"\x01" if ty.startswith("(opt") else b""
            mono.append((ty, (pre + b"\x01" + items + b"\x00" + b"\xee").hex()))
            mono.append((ty, (pre + b"\x01" + items).hex()))                 # the terminator is missing
    hl = [f"mdec {t} {h}" for t, h in mono]
    mcases = [{"env": "-", "cmd": "dec", "ty": t, "hex": h} for t, h in mono]
    mmod = C._run_codec_side(model, mcases, [C.codec_line(c) for c in mcases], wd, "mono.model", 8, 3000)
    for prof, exe in (("release", harness), ("debug", hdebug)):
        mimpl = C.run_sharded(exe, "static", hl, wd, "mono_" + prof, shards=8)
        dis += [(l, f"{prof}: {a}", b) for l, a, b in zip(hl, mimpl, mmod) if a != b]
        for l, a, b in zip(hl, mimpl, mmod):
            if a.startswith("panic"):
                bad.append((l, a, "panic in an unsafe decoding path"))
            elif a.startswith("ok ") and b.startswith("err "):
                bad.append((l, a + "  (the format rejects this input: " + b + ")",
                            "a value was built from input that does not hold all of its elements (uninitialised or foreign memory)"))
    # (3) thorough: the same paths and the dangling witness under Miri
    miri = "not run (quick tier)"
    if tier == "thorough":
        p = C.run("cargo +nightly miri run --offline --bin w_dangling_ref", cwd=WITNESS, timeout=3000, check=False,
                  env={"CARGO_TARGET_DIR": os.path.join(C.TBASE, "target-miri"), "MIRIFLAGS": "-Zmiri-disable-isolation"})
        miri = "w_dangling_ref: " + ("undefined behaviour reported (dangling reference)" if "Undefined Behavior" in p.stdout else "no report")
        p2 = C.run("cargo +nightly miri run --offline --bin w_control_ok", cwd=WITNESS, timeout=3000, check=False,
                   env={"CARGO_TARGET_DIR": os.path.join(C.TBASE, "target-miri")})
        miri += "; w_control_ok: " + ("undefined behaviour reported" if "Undefined Behavior" in p2.stdout else "clean")
        if "Undefined Behavior" in p2.stdout:
            bad.append(("witness/src/bin/w_control_ok.rs under Miri", p2.stdout[-400:], "undefined behaviour in a correct client"))
    C.proof_coverage(rep, ob, "C19", ["the borrow checker's verdict on the witness programs (rustc) is observed, not modelled; "
                                      "the layout assumption behind transmute::<Vec<u8>, Vec<T>> for T = u8 is trusted; the "
                                      "property as stated is refuted in the model (C19_refs_refuted) and by w_dangling_ref: known finding F15"])
    lines = [C.codec_line(c) for c in decs]
    rep.coverage.update({
        "evaluations": len(verdicts) + 2 * len(decs) + 2 * len(mono), "monomorphic_decode_cases": len(mono), "distinct_nontrivial": len(set(lines)) + len(verdicts),
        "rule": "a catalogue of client programs written under #![forbid(unsafe_code)]: a control (must compile), four "
                "lifetime-escape witnesses (reference from try_read_ref outliving the context; table mutated while such a "
                "reference is alive; bytes from read_bytes outliving the buffer; context outliving its input) that must be "
                "rejected by the borrow checker, a witness requiring the contexts to be Send (must be rejected: the object "
                "table holds raw pointers to possibly thread-bound client objects), and the dangling-reference witness of F15; plus the unsafe decoding paths "
                "([u8;N], [T;N], Vec<u8>, Bytes) on every count/length mismatch in release and debug, compared with the model",
        "samples": list(verdicts.items())[:3] + lines[:3], "programs": len(verdicts), "compiler_verdicts": verdicts, "miri": miri,
        "disagreements_checked": 2 * len(decs), "disagreements": len(dis),
    })
    rep.coverage["unsafe_sites_in_library"] = inv
    if bad:
        l, a, why = bad[0]
        rep.violation(f"{why}: {l[:200]}", {"kind": "case", "case": l, "implementation": a, "why": why, "n_failing": len(bad)})
    elif bad_inventory:
        rep.violation("the library contains an `unsafe` site that neither the model nor the decoding streams cover: "
                      + "; ".join(bad_inventory),
                      {"kind": "correspondence", "stream": "unsafe inventory (gen/props/c19.py: COVERED_UNSAFE)",
                       "uncovered_sites": bad_inventory, "covered": COVERED_UNSAFE}, no_input=True)
    C.report_broken(rep, ob, dis, "codec/unsafe-paths", bool(bad) or bool(bad_inventory))


# (file, enclosing fn, what) of every `unsafe` in the library sources that this check exercises
COVERED_UNSAFE = [
    ["desert_core/src/state.rs", "get_ref_by_id", "ptr.as_ref()"],
    ["desert_core/src/deserializer/mod.rs", "deserialize", "transmute_copy::<[u8; L], [T; L]>"],
    ["desert_core/src/deserializer/mod.rs", "deserialize", "transmute(bytes.to_vec())"],
]


def unsafe_inventory():
    """every `unsafe` token in the library crates (comments and the macro's expression printer aside) as
    (file, enclosing fn, line text); returns (inventory, sites not in COVERED_UNSAFE)"""
    import re
    inv, unknown = [], []
    for crate in ("desert_core/src", "desert_macro/src", "desert/src"):
        root = os.path.join(C.REPO, crate)
        for dp, _, fs in os.walk(root):
            for fn in sorted(fs):
                if not fn.endswith(".rs"):
                    continue
                path = os.path.join(dp, fn)
                rel = os.path.relpath(path, C.REPO)
                lines = open(path, encoding="utf-8").read().splitlines()
                cur_fn = "-"
                for i, l in enumerate(lines):
                    m = re.search(r"\bfn\s+([A-Za-z0-9_]+)", l)
                    if m:
                        cur_fn = m.group(1)
                    code = l.split("//")[0]
                    if re.search(r"\bunsafe\b", code) and "Expr::Unsafe" not in code:
                        text = " ".join(code.split())
                        inv.append([rel, cur_fn, text])
                        if not any(rel == f and cur_fn == g and w in text for f, g, w in COVERED_UNSAFE):
                            unknown.append(f"{rel}:{i + 1} in fn {cur_fn}: {text[:120]}")
    return inv, unknown


def _vu(v):
    out = bytearray()
    while True:
        if v < 128:
            out.append(v)
            return bytes(out)
        out.append((v & 0x7f) | 0x80)
        v >>= 7
