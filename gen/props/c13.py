"""C13 — enum constructors keep their identity; unknown ones are errors."""
from .. import common as C
from .. import gencases as G
from .. import rtfamily as R
from .. import catalogue as K
from .. import sx


def vu(v):
    out = bytearray()
    while True:
        if v < 128:
            out.append(v)
            return bytes(out)
        out.append((v & 0x7f) | 0x80)
        v >>= 7


def variant_value(rng, env, i, j):
    v = env[i]["variants"][j]
    return f"({j}" + "".join(" " + G.gen_value_d(rng, f["ty"], env, 0.6, 1) for f in v["fields"]) + ")"


def case_order(d):
    idx = list(range(len(d["variants"])))
    if d["sorted"]:
        idx.sort(key=lambda k: d["variants"][k]["name"].encode())
    return idx


def check(rep, tier, seed):
    rng = C.rng_for(seed, "C13")
    ob = C.coq_obligations("C13")
    harness = C.build_harness("release")
    model = C.build_model()
    wd = C.workdir("C13")
    env = K.load()
    enums = [i for i, d in enumerate(env) if d["kind"] == "enum"]
    cases, expect = [], []
    per = 4 if tier == "quick" else 60
    # (a) every variant of every catalogue enum, round trip; leading bytes = 00, var_u32(case index)
    for i in enums:
        d = env[i]
        order = case_order(d)
        for j, v in enumerate(d["variants"]):
            for _ in range(per):
                val = variant_value(rng, env, i, j)
                cases.append({"cmd": "srt", "w": i, "val": val, "sfx": rng.choice(R.SUFFIXES)})
                expect.append(("rt", i, j, order.index(j)))
    # (b) families: old data under extended definitions and new data under old definitions
    fams = [["Fam2", "Fam3", "Fam4"], ["FamS2", "FamS3"], ["FamC2", "FamC3", "FamC4"]]
    for fam in fams:
        ids = [K.index_of(env, n) for n in fam]
        for wi in ids:
            for ri in ids:
                if wi == ri:
                    continue
                for j in range(len(env[wi]["variants"])):
                    for _ in range(per):
                        val = variant_value(rng, env, wi, j)
                        cases.append({"cmd": "sx", "w": wi, "r": ri, "val": val, "sfx": rng.choice(R.SUFFIXES)})
                        expect.append(("x", wi, ri, j))
    # (c) indices the reading definition does not know
    for i in enums:
        n = len(env[i]["variants"])
        for idx in [n, n + 1, 127, 128, 300, 1 << 14, 1 << 21, 1 << 28, (1 << 31), (1 << 32) - 1]:
            if idx < n:
                continue
            for tail in ("", "00", "0000ff"):
                cases.append({"cmd": "sdec", "w": i, "hex": (b"\x00" + vu(idx)).hex() + tail})
                expect.append(("oor", i, idx))
    sbad, sdis, hl, impl = R.static_block(harness, model, wd, cases, env, "st", lambda c, a: (True, ""))
    bad = []
    for c, e, l, a in zip(cases, expect, hl, impl):
        why = None
        if a.startswith("panic") or " ; panic" in a:
            why = "panic"
        elif e[0] == "rt":
            _, i, j, cidx = e
            d = env[i]
            enc_part, _, dec_part = a.partition(" ; ")
            if d["variants"][j]["transient"]:
                want = f"err SerTransientCtor({d['variants'][j]['name'].encode().hex()},{d['name'].encode().hex()})"
                if enc_part != want:
                    why = f"transient constructor: expected {want}"
            else:
                hx = enc_part.split(" ")[1] if enc_part.startswith("ok ") else ""
                lead = (b"\x00" + vu(cidx)).hex()
                if enc_part == "err UnsupportedCharacter" and sx.contains_unencodable_char(("named", i), sx.parse(c["val"]), env):
                    pass        # a char beyond the 16-bit range inside the value: the documented error
                elif not hx.startswith(lead):
                    why = f"encoding does not start with 00 ++ var_u32({cidx})"
                else:
                    ok, w2 = R.judge_static_rt(env)(c, a)
                    if not ok:
                        why = w2
        elif e[0] == "x":
            _, wi, ri, j = e
            wd_, rd_ = env[wi], env[ri]
            enc_part, _, dec_part = a.partition(" ; ")
            if enc_part == "err UnsupportedCharacter" and sx.contains_unencodable_char(("named", wi), sx.parse(c["val"]), env):
                pass
            elif not enc_part.startswith("ok "):
                why = "encode failed"
            else:
                name = wd_["variants"][j]["name"]
                rj = [k for k, v in enumerate(rd_["variants"]) if v["name"] == name]
                if rj:
                    want = sx.expect_decoded(("named", ri), c["val"], env)
                    nsfx = 0 if c["sfx"] == "-" else len(c["sfx"]) // 2
                    if dec_part != f"ok {want} {nsfx}":
                        why = "old data changes meaning under the extended definition"
                else:
                    cidx = case_order(wd_).index(j)
                    want = f"err InvalidConstructorId({cidx},{rd_['name'].encode().hex()})"
                    if dec_part != want:
                        why = f"unknown constructor: expected {want}"
        else:
            _, i, idx = e
            want = f"err InvalidConstructorId({idx},{env[i]['name'].encode().hex()})"
            if a != want:
                why = f"index {idx} out of range: expected {want}"
        if why:
            bad.append((l, a, why))
    # (d) dynamic route: random enum declarations and their extensions by appended variants
    dcases = []
    nd = 300 if tier == "quick" else 8000
    for _ in range(nd):
        base = G.gen_env(rng, 1)
        if base[0]["kind"] != "enum":
            continue
        if any(G.mentions_named(f["ty"]) for v in base[0]["variants"] for f in v["fields"]):
            continue        # recursive enums: nested values would carry the new constructors
        e1 = base
        extra = G.gen_env(rng, 1)
        while extra[0]["kind"] != "enum" or any(G.mentions_named(f["ty"]) for v in extra[0]["variants"] for f in v["fields"]):
            extra = G.gen_env(rng, 1)
        newv = [dict(v, name="X" + v["name"]) for v in extra[0]["variants"][:2]]
        e2 = [dict(e1[0], variants=e1[0]["variants"] + newv, sorted=False)]
        e1 = [dict(e1[0], sorted=False)]
        for j in range(len(e2[0]["variants"])):
            if e2[0]["variants"][j]["transient"]:
                continue
            val = variant_value(rng, e2, 0, j)
            # new definition writes, old definition reads - and the other way round for old variants
            dcases.append({"env": G.show_env(e2), "env2": G.show_env(e1), "cmd": "xrt", "ty": "(named 0)", "val": val,
                           "sfx": "-", "_known": j < len(e1[0]["variants"]), "_j": j, "_e1": e1, "_e2": e2})
            if j < len(e1[0]["variants"]):
                dcases.append({"env": G.show_env(e1), "env2": G.show_env(e2), "cmd": "xrt", "ty": "(named 0)", "val": val,
                               "sfx": "-", "_known": True, "_j": j, "_e1": e2, "_e2": e1})
    # more constructors than one var-int byte holds: 200 variants (declaration order and name order), indices on
    # both sides of 127/128, extended by 100 more
    def big_enum(nv, sorted_):
        vs = [{"name": f"V{(k * 37) % 1000:03d}", "transient": False, "steps": [],
               "fields": ([] if k % 3 else [{"name": "field0", "ty": G.P("u16"), "opt": False, "transient": None}])}
              for k in range(nv)]
        return [{"kind": "enum", "name": "Big", "sorted": sorted_, "variants": vs}]
    for sorted_ in (False, True):
        e1, e2 = big_enum(200, sorted_), big_enum(300, sorted_)
        if sorted_:
            continue_ok = True      # (sorted: appended names interleave, so only the same-definition round trip is stated)
        for j in (0, 1, 126, 127, 128, 129, 199):
            val = variant_value(rng, e1, 0, j)
            dcases.append({"env": G.show_env(e1), "env2": G.show_env(e1), "cmd": "xrt", "ty": "(named 0)", "val": val,
                           "sfx": "-", "_known": True, "_j": j, "_e1": e1, "_e2": e1})
            if not sorted_:
                dcases.append({"env": G.show_env(e1), "env2": G.show_env(e2), "cmd": "xrt", "ty": "(named 0)", "val": val,
                               "sfx": "-", "_known": True, "_j": j, "_e1": e2, "_e2": e1})
        if not sorted_:
            for j in (200, 255, 256, 299):
                val = variant_value(rng, e2, 0, j)
                dcases.append({"env": G.show_env(e2), "env2": G.show_env(e1), "cmd": "xrt", "ty": "(named 0)", "val": val,
                               "sfx": "-", "_known": False, "_j": j, "_e1": e1, "_e2": e2})
    for c in dcases:
        c["unordered"] = True
    dimpl, dmod = C.run_codec(harness, model, dcases, wd, "dyn")
    ddis = [(f"xrt {c['val']}", a, b) for c, a, b in zip(dcases, dimpl, dmod) if a != b]
    for c, a in zip(dcases, dimpl):
        enc_part, _, dec_part = a.partition(" ; ")
        if not enc_part.startswith("ok "):
            continue
        if c["_known"]:
            want = sx.expect_decoded(("named", 0), c["val"], c["_e1"])
            if dec_part != f"ok {want} 0":
                bad.append((f"E {c['env']} / E2 {c['env2']} / xrt {c['val']}", a, "old/new data changes meaning across an appended-variant extension"))
        elif not dec_part.startswith("err InvalidConstructorId("):
            bad.append((f"E {c['env']} / E2 {c['env2']} / xrt {c['val']}", a, "unknown constructor is not reported as InvalidConstructorId"))
    C.proof_coverage(rep, ob, "C13")
    rep.coverage.update({
        "evaluations": len(cases) + len(dcases), "distinct_nontrivial": len(set(hl)) + len(set(c["val"] + c["env"] for c in dcases)),
        "rule": "static route (real derive macro): every variant of every catalogue enum (unit/tuple/struct variants, "
                "transient in each position, sorted or not, evolved variants) round-tripped with the leading bytes checked "
                "against 00 ++ var_u32(case index); enum families E, E+1, E+2 (and sorted) cross-decoded in both directions; "
                "indices n, n+1, 127, 128, 2^14, 2^21, 2^28, 2^31, 2^32-1 injected with and without trailing bytes; dynamic "
                "route: random enum declarations extended by appended variants, written by one and read by the other",
        "samples": hl[:2] + hl[len(hl) // 2:len(hl) // 2 + 2] + hl[-2:], "programs": len(enums),
        "disagreements_checked": len(cases) + len(dcases), "disagreements": len(sdis) + len(ddis),
    })
    if bad:
        l, a, why = bad[0]
        rep.violation(f"{why}: {l[:160]}", {"kind": "case", "case": l, "implementation": a, "why": why, "n_failing": len(bad)})
    C.report_broken(rep, ob, sdis + ddis, "static+dynamic enum streams", bool(bad))


def _write(wd, name, lines):
    import os
    p = os.path.join(wd, name)
    C.write_lines(p, lines)
    return p
