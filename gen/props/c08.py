"""C08 — truncated data is always detected."""
from .. import common as C
from .. import gencases as G
from .. import rtfamily as R


def check(rep, tier, seed):
    rng = C.rng_for(seed, "C08")
    base = R.builtin_cases(rng, tier, per_type=1)[: (1500 if tier == "quick" else 40000)]
    d = R.derived_cases(rng, tier)
    base += d[: (1500 if tier == "quick" else 40000)]
    for c in base:
        c["cmd"] = "enc"
    ob = C.coq_obligations("C08")
    harness = C.build_harness("release")
    model = C.build_model()
    wd = C.workdir("C08")
    impl_enc, _ = C.run_codec(harness, model, base, wd, "enc")
    cuts = []
    maxcuts = 40 if tier == "quick" else 200
    for c, a in zip(base, impl_enc):
        if not a.startswith("ok "):
            continue
        hx = a.split(" ", 2)[1]
        if hx == "-":
            continue
        n = len(hx) // 2
        ks = list(range(n)) if n <= maxcuts else sorted(set([0, 1, 2, n - 1, n - 2] + rng.sample(range(n), maxcuts - 5)))
        for k in ks:
            cuts.append({"env": c["env"], "cmd": "dec", "ty": c["ty"], "hex": hx[:2 * k] or "-", "_full": n, "_k": k})
    impl, mod = C.run_codec(harness, model, cuts, wd, "cut")
    from .. import malformed as M
    # a cut can turn later bytes into the count of a sequence of zero-width elements (F14): the model then needs as
    # much fuel as the count says; such cases are judged on the implementation alone (it must still answer Err)
    zw_fuel = sum(1 for c, b in zip(cuts, mod) if b == "fuel")
    dis = [(C.codec_line(c), a, b) for c, a, b in zip(cuts, impl, mod) if a != b and b != "fuel"]
    rep.coverage["model_fuel_on_zero_width_counts"] = zw_fuel
    bad = [(c, a) for c, a in zip(cuts, impl) if not a.startswith("err ")]
    # encodings this writer never produces but must read: every sequence and map in the unknown-length form (what
    # Scala writes for lists, what serialize_iterator writes without an exact size hint), cut at every position
    ub = [dict(c) for c in base[:: (3 if tier == "quick" else 1)] if c["_t"][0] in ("seq", "map", "tup", "opt", "named", "res", "wrap")]
    for c in ub:
        c["cmd"] = "encu"
    uenc = C._run_codec_side(model, ub, [C.codec_line(c) for c in ub], wd, "uenc", 16, 3000)
    ucuts = []
    for c, a in zip(ub, uenc):
        if not a.startswith("ok "):
            continue
        hx = a.split(" ")[1]
        if hx == "-":
            continue
        n = len(hx) // 2
        ks = list(range(n)) if n <= maxcuts else sorted(set([0, 1, 2, n - 1, n - 2] + rng.sample(range(n), maxcuts - 5)))
        for k in ks:
            ucuts.append({"env": c["env"], "cmd": "dec", "ty": c["ty"], "hex": hx[:2 * k] or "-", "_full": n, "_k": k})
    uimpl, umod = C.run_codec(harness, model, ucuts, wd, "ucut")
    dis += [(C.codec_line(c), a, b) for c, a, b in zip(ucuts, uimpl, umod) if a != b and b != "fuel"]
    ubad = [(c, a) for c, a in zip(ucuts, uimpl) if not a.startswith("err ")]
    rep.coverage["unknown_form_cuts"] = {"prefixes": len(ucuts), "accepted": len(ubad)}
    # other definitions (the last clause of the property): data of version w >= 1 of a legal history cut at every
    # position and read by version r != w - older readers that do not know the last chunks, newer readers that
    # dropped fields. Theorem side: C08_any_accepted_input (+ C07_cross_version: the whole encoding is consumed).
    from . import c03 as H3
    hc = [c for c in H3.gen_cases(seed + 8, tier) if not c["illegal"] and c["w"] >= 1 and c["w"] != c["r"]]
    himpl = H3.run_stream(harness, model, hc, C.workdir("C08x"))
    xcuts = []
    for c, il in zip(hc, himpl):
        enc_part, _, dec_part = il.partition(" ; ")
        if not (c["legal"] and c["expected"].startswith("ok ") and enc_part.startswith("ok ") and dec_part.startswith("ok ")):
            continue
        hx = enc_part.split(" ")[1]
        n = len(hx) // 2
        ks = list(range(n)) if n <= maxcuts else sorted(set([0, 1, 2, n - 1, n - 2] + rng.sample(range(n), maxcuts - 5)))
        for k in ks:
            xcuts.append({"env": c["envR"], "cmd": "dec", "ty": c["wrap"], "hex": hx[:2 * k] or "-", "_full": n, "_k": k,
                          "_w": c["w"], "_r": c["r"]})
    ximpl, xmod = C.run_codec(harness, model, xcuts, wd, "xcut")
    dis += [(C.codec_line(c), a, b) for c, a, b in zip(xcuts, ximpl, xmod) if a != b]
    xbad = [(c, a) for c, a in zip(xcuts, ximpl) if not a.startswith("err ")]
    rep.coverage["cross_version_cuts"] = {"prefixes": len(xcuts), "accepted": len(xbad),
                                          "older_reader": sum(1 for c in xcuts if c["_r"] < c["_w"]),
                                          "newer_reader": sum(1 for c in xcuts if c["_r"] > c["_w"])}
    # the same through the real derive macro: every compiled history family of the catalogue (records, an enum
    # constructor, constructors that start as unit constructors), data of version w cut at every position and read
    # by every other compiled version
    from .. import catalogue as K
    cenv = K.load()
    rngs = C.rng_for(seed, "C08s")
    sc = []
    for fam, nv in (("H1v", 5), ("H2v", 5), ("HEv", 4), ("H3v", 3), ("HUv", 3)):
        ids = [K.index_of(cenv, f"{fam}{i}") for i in range(nv)]
        for w in range(1, nv):
            for r in range(nv):
                if r != w:
                    for v in K.gen_values(rngs, cenv, ids[w], 3 if tier == "quick" else 40):
                        sc.append({"cmd": "sx", "w": ids[w], "r": ids[r], "val": v, "sfx": "-"})
    swd = C.workdir("C08s")
    simpl, smod, shl = K.run_static(harness, model, cenv, sc, swd, "full")
    scuts = []
    for c, a, m in zip(sc, simpl, smod):
        enc_part, _, dec_part = m.partition(" ; ")
        if not (enc_part.startswith("ok ") and dec_part.startswith("ok ") and dec_part.endswith(" 0")):
            continue            # pairs the format does not frame (the reader dropped a written field) are out of scope
        hx = enc_part.split(" ")[1]
        for k in range(len(hx) // 2):
            scuts.append({"cmd": "sdec", "w": c["r"], "hex": hx[:2 * k] or "-", "_full": len(hx) // 2, "_k": k,
                          "_wn": cenv[c["w"]]["name"], "_rn": cenv[c["r"]]["name"]})
    cimpl, cmod, chl = K.run_static(harness, model, cenv, scuts, swd, "cut")
    dis += [(l, a, b) for l, a, b in zip(chl, cimpl, cmod) if a != b]
    sbad = [(c, l, a) for c, l, a, b in zip(scuts, chl, cimpl, cmod) if not a.startswith("err ") and b.startswith("err ")]
    rep.coverage["cross_version_cuts_static"] = {"pairs": len(sc), "prefixes": len(scuts), "accepted": len(sbad)}
    # concrete element types (the dynamic route's element type is the harness's own value type): long vectors and lists
    # of numbers - lengths on both sides of 1024 - cut at sampled positions
    mrng = C.rng_for(seed, "C08m")
    ml, mmeta = [], []
    for ty, p in (("(vec i64)", "i64"), ("(vec u32)", "u32"), ("(vec i128)", "i128"), ("(vec u16)", "u16"), ("(vec i8)", "i8"),
                  ("(vec bool)", "bool"), ("(ll i64)", "i64"), ("(vec u8)", "u8")):
        for n in (0, 1, 3, 1023, 1024, 1025, 1500) if tier == "quick" else (0, 1, 3, 100, 1023, 1024, 1025, 1500, 4096, 5000):
            items = [G.gen_prim_value(mrng, p) for _ in range(n)]
            val = ("b" + ("".join("%02x" % int(x[1:]) for x in items) or "-")) if ty == "(vec u8)" else "(0" + "".join(" " + x for x in items) + ")"
            ml.append(f"mrt {ty} {val} -")
            mmeta.append(ty)
    menc = C.run_sharded(harness, "static", ml, swd, "mono.enc", shards=8)
    mcl, mcm = [], []
    for ty, l, a in zip(mmeta, ml, menc):
        if not a.startswith("ok ") or not a.endswith(" 0"):
            bad.append(({"env": "-", "cmd": "mrt", "ty": ty, "hex": "-", "_k": 0, "_full": 0}, a))
            continue
        hx = a.split(" ")[1]
        if hx == "-":
            continue
        nb = len(hx) // 2
        ks = sorted(set(list(range(min(nb, 10))) + list(range(max(0, nb - 10), nb)) + [mrng.randrange(nb) for _ in range(30)]))
        for k in ks:
            mcl.append(f"mdec {ty} {hx[:2 * k] or '-'}")
            mcm.append((ty, k, nb))
    mdec = C.run_sharded(harness, "static", mcl, swd, "mono.cut", shards=8)
    mbad = [(m, l, a) for m, l, a in zip(mcm, mcl, mdec) if not a.startswith("err ")]
    rep.coverage["concrete_long_vector_cuts"] = {"encodings": len(ml), "prefixes": len(mcl), "accepted": len(mbad)}
    if mbad and not bad:
        (ty, k, nb), l, a = mbad[0]
        rep.violation(f"a strict prefix ({k} of {nb} bytes) of a {ty} is accepted: {l[:100]}... -> {a[:80]}",
                      {"kind": "case", "case": l[:4000], "implementation": a[:400], "cut": k, "of": nb, "n_failing": len(mbad)})
    C.proof_coverage(rep, ob, "C08")
    lines = [C.codec_line(c) for c in cuts]
    errs = {}
    for a in impl:
        k = a.split("(")[0]
        errs[k] = errs.get(k, 0) + 1
    rep.coverage.update({
        "evaluations": len(cuts) + len(xcuts) + len(ucuts) + len(scuts), "distinct_nontrivial": len(set(lines)),
        "rule": "encodings of the C01/C02 streams (built-in types to depth 5, derived and evolved records and enums, "
                "nested) cut at every position (all cuts up to 40 bytes, 40 sampled cuts incl. the first and last two "
                "beyond); every strict prefix must decode to Err (not Ok, not a panic) with the writing definition; "
                "distinct = (type, prefix) pairs",
        "samples": lines[:3] + lines[-2:], "encodings_cut": len([a for a in impl_enc if a.startswith("ok ")]),
        "disagreements_checked": len(cuts), "disagreements": len(dis), "error_classes": errs,
    })
    if ubad and not bad:
        c, a = ubad[0]
        rep.violation(f"a strict prefix ({c['_k']} of {c['_full']} bytes) of an unknown-length-form encoding is accepted: "
                      f"{C.codec_line(c)[:140]} -> {a[:80]}",
                      {"kind": "case", "env": c["env"], "case": C.codec_line(c), "implementation": a,
                       "cut": c["_k"], "of": c["_full"], "n_failing": len(ubad)})
    if sbad and not bad:
        c, l, a = sbad[0]
        rep.violation(f"a strict prefix ({c['_k']} of {c['_full']} bytes) of data written by {c['_wn']} is accepted by {c['_rn']} "
                      f"(derive macro): {l[:140]} -> {a[:80]}",
                      {"kind": "case", "case": l, "implementation": a, "cut": c["_k"], "of": c["_full"],
                       "writer": c["_wn"], "reader": c["_rn"], "n_failing": len(sbad)})
    if xbad and not bad:
        c, a = xbad[0]
        rep.violation(f"a strict prefix ({c['_k']} of {c['_full']} bytes) of version-{c['_w']} data is accepted by version {c['_r']}: "
                      f"{C.codec_line(c)[:140]} -> {a[:80]}",
                      {"kind": "case", "env": c["env"], "case": C.codec_line(c), "implementation": a,
                       "cut": c["_k"], "of": c["_full"], "writer_version": c["_w"], "reader_version": c["_r"],
                       "n_failing": len(xbad)})
    if bad:
        c, a = bad[0]
        rep.violation(f"a strict prefix ({c['_k']} of {c['_full']} bytes) is not rejected: {C.codec_line(c)[:160]} -> {a[:80]}",
                      {"kind": "case", "env": c["env"], "case": C.codec_line(c), "implementation": a,
                       "cut": c["_k"], "of": c["_full"], "n_failing": len(bad)})
    C.report_broken(rep, ob, dis, "codec/dec-prefix", bool(bad) or bool(xbad) or bool(ubad) or bool(sbad) or bool(mbad))
