"""C06 — the decoder never invents content: accepted input means what the format says."""
from .. import common as C
from .. import gencases as G
from .. import malformed as M
from .. import rtfamily as R
from . import c05


def framing_types(rng, tier):
    """types whose encodings are rich in framing: evolved records (chunk sizes, position bytes), nested
    two deep, arrays (exact counts), maps and sets (counts), strings (lengths)"""
    pool = []
    n = 400 if tier == "quick" else 8000
    tries = 0
    while len(pool) < n and tries < n * 20:
        tries += 1
        env = G.gen_env(rng)
        evolved = [i for i, d in enumerate(env)
                   if (d["kind"] == "rec" and d["steps"]) or
                   (d["kind"] == "enum" and any(v["steps"] for v in d["variants"]))]
        if not evolved:
            continue
        i = rng.choice(evolved)
        t = ("named", i)
        c = rng.random()
        if c < 0.3:
            t = ("tup", [G.P("u8"), t, G.P("str")])          # sibling data after the record
        elif c < 0.45:
            t = ("seq", "vec", 0, t)
        elif c < 0.55:
            t = ("seq", "arr", 2, t)
        if not M.has_zero_width_seq(t, env):
            pool.append((env, t))
    for kind, e in (("arr", "u32"), ("arr", "u8"), ("arr", "str"), ("vec", "u16"), ("hset", "u8"), ("bset", "str")):
        for ln in (0, 1, 2, 3, 4):
            if kind == "arr":
                pool.append((None, ("seq", "arr", ln, G.P(e))))
        if kind != "arr":
            pool.append((None, ("seq", kind, 0, G.P(e))))
    pool.append((None, ("map", "bmap", G.P("u8"), G.P("str"))))
    pool.append((None, ("map", "hmap", G.P("str"), ("seq", "arr", 2, G.P("u16")))))
    return pool


def check(rep, tier, seed):
    rng = C.rng_for(seed, "C06")
    ob = C.coq_obligations("C06")
    harness = C.build_harness("release")
    model = C.build_model()
    wd = C.workdir("C06")
    pool = framing_types(rng, tier)
    valid = []
    for env, t in pool:
        for _ in range(2 if env else 4):
            v = G.gen_value_d(rng, t, env, 0.8, 0) if env else G.gen_value(rng, t, None, 0.8)
            valid.append(R.mk(env, t, v, "-", "enc"))
    venc, _ = C.run_codec(harness, model, valid, wd, "valid")
    cases = []
    per = 40 if tier == "quick" else 120
    for c, a in zip(valid, venc):
        if not a.startswith("ok "):
            continue
        hx = a.split(" ", 2)[1]
        b = bytes.fromhex(hx) if hx != "-" else b""
        ms = M.mutants(rng, b, per)
        # exhaustive single-byte rewrite of the first 12 bytes (version, header entries, sizes) to every boundary value
        for i in range(min(len(b), 12)):
            for x in M.BOUNDARY:
                if b[i] != x:
                    ms.append(b[:i] + bytes([x]) + b[i + 1:])
            for d in (1, 2, 255, 254):
                ms.append(b[:i] + bytes([(b[i] + d) & 0xff]) + b[i + 1:])
        for m in ms:
            cases.append({"env": c["env"], "cmd": "dec", "ty": c["ty"], "hex": (m + b"\x07\x09").hex(), "_t": c["_t"],
                          "_env": c["_env"], "_len": len(m) + 2})
    lines = [C.codec_line(c) for c in cases]
    mod = C._run_codec_side(model, cases, lines, wd, "model", 16, 3000)
    keep = [i for i, m in enumerate(mod) if m != "fuel"]
    kc = [cases[i] for i in keep]
    km = [mod[i] for i in keep]
    impl = c05.run_side_with_hangs(harness, kc, wd, "impl", ["--limit-ms=8000"], "release")
    bad, dis = [], []
    cls = {"both ok": 0, "both err": 0}
    for c, m, a in zip(kc, km, impl):
        if a is None or a.startswith("panic") or a == "hang" or a.startswith("abort"):
            bad.append((c, a, m, "decoder did not return"))
        elif a.startswith("ok ") and a != m:
            bad.append((c, a, m, "accepted input decodes to something else than the format assigns"))
        elif a != m:
            dis.append((C.codec_line(c), a, m))
        else:
            cls["both ok" if a.startswith("ok ") else "both err"] += 1
    # "a fixed-size array is produced only from exactly that many elements": sequences of m elements in BOTH size forms
    # (the unknown-length form is what other writers produce) read as arrays of every small length n
    acs = []
    for e in (G.P("u16"), G.P("str"), ("opt", G.P("u8")), ("tup", [G.P("i8")])):
        for m in (0, 1, 2, 3, 4, 5, 8):
            items = [G.gen_value(rng, e, None, 0.4) for _ in range(m)]
            val = "(0" + "".join(" " + x for x in items) + ")"
            for form in ("enc", "encu"):
                acs.append((R.mk(None, ("seq", "vec", 0, e), val, "-", form), e, m))
    aenc = C._run_codec_side(model, [c for c, _, _ in acs], [C.codec_line(c) for c, _, _ in acs], C.workdir("C06a"), "aenc", 8, 3000)
    adec = []
    for (c, e, m), a in zip(acs, aenc):
        if a.startswith("ok "):
            hx = a.split(" ")[1]
            for n in [x for x in G.ARRAY_LENS if x <= 9]:
                adec.append({"env": "-", "cmd": "dec", "ty": G.show_ty(("seq", "arr", n, e)), "hex": ("" if hx == "-" else hx) + "0709", "_m": m, "_n": n})
    aimpl, amod = C.run_codec(harness, model, adec, C.workdir("C06a"), "adec")
    for c, a, m in zip(adec, aimpl, amod):
        if a.startswith("ok ") and a != m:
            bad.append((c, a, m, f"an array of {c['_n']} elements was produced from a sequence of {c['_m']}"))
        elif a != m:
            dis.append((C.codec_line(c), a, m))
    rep.coverage["arrays_from_sequences_of_other_lengths"] = len(adec)
    # evolved-record bytes read by a tuple of the record's initial fields (the oldest reader there is)
    tcs = R.record_as_tuple_cases(rng, 1200 if tier == "quick" else 30000)
    timpl, tmod = C.run_codec(harness, model, tcs, C.workdir("C06t"), "rtup")
    for c, a, m in zip(tcs, timpl, tmod):
        da, dm = a.partition(" ; ")[2], m.partition(" ; ")[2]
        if da.startswith("ok ") and da != dm:
            bad.append(({"env": c["env"], "cmd": "xrt", "ty": c["ty"], "ty2": c["ty2"], "val": c["val"], "sfx": c["sfx"]}, da, dm,
                        "record bytes accepted by a tuple reader as something else than the format assigns"))
        elif da != dm:
            dis.append((C.codec_line(c), a, m))
    rep.coverage["record_bytes_read_as_tuples"] = len(tcs)
    # bytes written by ANOTHER version of the declaration (legal histories and, half of the time, histories that drop or
    # hide fields anywhere): whatever the reader accepts must be what the reference decoder assigns to those bytes
    from . import c03 as H3
    from .. import catalogue as K
    hc = H3.gen_cases(seed + 6, tier, p_illegal=0.5, nh=(300 if tier == "quick" else 8000))
    himpl = H3.run_stream(harness, model, hc, C.workdir("C06x"))
    nx = 0
    for c, il in zip(hc, himpl):
        dec_part = il.partition(" ; ")[2]
        if dec_part.startswith("ok ") and "model_dec" in c:
            nx += 1
            if dec_part != c["model_dec"]:
                bad.append(({"env": c["envR"], "cmd": "dec", "ty": c["wrap"], "hex": il.split(" ")[1] if il.startswith("ok ") else "-"},
                            dec_part, c["model_dec"],
                            f"version-{c['w']} data accepted by version {c['r']} decodes to something else than the format assigns"))
    # the same on the compiled history families of the catalogue (real macro)
    env = K.load()
    rngx = C.rng_for(seed, "C06s")
    sc = []
    for fam, nv in (("H1v", 5), ("H2v", 5), ("HEv", 4), ("H3v", 3), ("HUv", 3)):
        ids = [K.index_of(env, f"{fam}{i}") for i in range(nv)]
        for w in range(nv):
            for r in range(nv):
                for v in K.gen_values(rngx, env, ids[w], 4 if tier == "quick" else 60):
                    sc.append({"cmd": "sx", "w": ids[w], "r": ids[r], "val": v, "sfx": "0709"})
    simpl, smod, shl = K.run_static(harness, model, env, sc, C.workdir("C06s"), "st")
    for l, a, m in zip(shl, simpl, smod):
        da, dm = a.partition(" ; ")[2], m.partition(" ; ")[2]
        if da.startswith("ok ") and da != dm:
            bad.append(({"env": "(catalogue)", "cmd": "dec", "ty": l, "hex": "-"}, da, dm,
                        "data of another compiled version is accepted as something else than the format assigns"))
        elif da != dm:
            dis.append((l, a, m))
    rep.coverage["cross_version_accepted_inputs"] = {"dynamic": nx, "static": len(sc)}
    C.proof_coverage(rep, ob, "C06")
    rep.coverage.update({
        "evaluations": len(cases), "distinct_nontrivial": len(set(lines)),
        "rule": "valid encodings of %d framing-rich types (evolved records and enum variants at top level, between "
                "sibling data, in Vec and arrays, nested two deep; arrays of every small length; sets; maps) tampered: "
                "every one of the first 12 bytes (version, header entries, chunk sizes, position bytes, counts) rewritten "
                "to each of 12 boundary values and +-1/+-2, plus structure-aware mutants (var-int counts, insert, delete, "
                "duplicate slice, swap, truncate+junk), each followed by two sibling bytes; the implementation may return "
                "Ok(v) only where the reference decoder (layer A/B of the model) returns Ok(v) with the same bytes left; "
                "distinct = (type, bytes) pairs" % len(pool),
        "samples": lines[:2] + lines[len(lines) // 2: len(lines) // 2 + 2] + lines[-1:],
        "disagreements_checked": len(kc), "disagreements": len(dis), "agreement_classes": cls,
        "model_fuel_exhausted_cases": len(cases) - len(keep),
    })
    if bad:
        c, a, m, why = bad[0]
        rep.violation(f"{why}: {C.codec_line(c)[:160]}",
                      {"kind": "case", "env": c["env"], "case": C.codec_line(c), "implementation": a, "reference": m,
                       "why": why, "n_failing": len(bad)})
    C.report_broken(rep, ob, dis, "codec/tamper", bool(bad))
