"""C12 — sequence encodings are container-independent and size-form-independent."""
from .. import common as C
from .. import gencases as G
from .. import rtfamily as R
from .. import sx

ELEMS = ["u16", "i8", "u64", "i128", "bool", "char", "str", "dur", "bytes", "uuid", "bigint", "bigdec", "i32"]
SRC = ["vec", "slice", "ll", "hset", "bset", "arr"]
DST = ["vec", "ll", "hset", "bset", "arr"]


def elem_types(rng):
    out = [G.P(p) for p in ELEMS]
    out += [("opt", G.P("u16")), ("tup", [G.P("u8"), G.P("str")]), ("res", G.P("u8"), G.P("str")),
            ("wrap", "box", G.P("i32")), ("seq", "vec", 0, G.P("u16")), ("tup", [G.P("i8")]),
            # elements with an EMPTY encoding: the count is then not bounded by the bytes that follow
            G.P("unit"), ("phantom",), ("wrap", "box", G.P("unit"))]
    return out


def collect_expected(kind, n, items):
    """what the target container holds, canonically printed; None = must be an error"""
    if kind in ("vec", "ll"):
        return "(0" + "".join(" " + x for x in items) + ")"
    if kind in ("hset", "bset"):
        return "(0" + "".join(" " + x for x in sorted(set(items))) + ")"
    if kind == "arr":
        return "(0" + "".join(" " + x for x in items) + ")" if len(items) == n else None


def check(rep, tier, seed):
    rng = C.rng_for(seed, "C12")
    ob = C.coq_obligations("C12")
    harness = C.build_harness("release")
    model = C.build_model()
    wd = C.workdir("C12")
    cases = []
    reps = 2 if tier == "quick" else 40
    for e in elem_types(rng):
        canon_e = lambda v: sx.show(sx.canon(e, sx.parse(v)))
        for s in SRC:
            for d in DST:
                for _ in range(reps):
                    n = rng.choice([0, 1, 2, 3, 4, 5])
                    items = [G.gen_value(rng, e, None, 0.4) for _ in range(n)]
                    if rng.random() < 0.3 and items:
                        items.append(items[0])            # a repeated element (sets collapse it)
                    if s in ("hset", "bset"):
                        items = list(dict.fromkeys(items))
                    if len(items) not in G.ARRAY_LENS and (s == "arr" or d == "arr"):
                        items = items[:5]
                    sn = len(items) if s == "arr" else 0
                    dn = len(items) if (d == "arr" and rng.random() < 0.7) else rng.choice([0, 1, 2, 3])
                    ts = ("seq", s, sn, e)
                    td = ("seq", d, dn if d == "arr" else 0, e)
                    val = "(0" + "".join(" " + x for x in items) + ")"
                    cases.append({"env": "-", "cmd": "xrt", "ty": G.show_ty(ts), "ty2": G.show_ty(td), "val": val,
                                  "sfx": rng.choice(["-", "00"]), "unordered": True, "_d": d, "_dn": dn, "_e": e,
                                  "_kind": "cross"})
    # lists of pairs as maps
    for kt, vt in [(G.P("u8"), G.P("str")), (G.P("str"), G.P("u16")), (G.P("i32"), ("opt", G.P("u8")))]:
        for mk in ("hmap", "bmap"):
            for _ in range(10 * reps):
                n = rng.choice([0, 1, 2, 3, 4])
                pairs = [(G.gen_value(rng, kt, None, 0.3), G.gen_value(rng, vt, None, 0.3)) for _ in range(n)]
                if pairs and rng.random() < 0.4:
                    pairs.append((pairs[0][0], G.gen_value(rng, vt, None, 0.3)))      # duplicate key: last wins
                val = "(0" + "".join(f" (0 {k} {v})" for k, v in pairs) + ")"
                cases.append({"env": "-", "cmd": "xrt", "ty": G.show_ty(("seq", "vec", 0, ("tup", [kt, vt]))),
                              "ty2": G.show_ty(("map", mk, kt, vt)), "val": val, "sfx": "-", "unordered": False,
                              "_kind": "map", "_pairs": pairs})
    # byte containers among themselves
    for _ in range(30 * reps):
        n = rng.choice([0, 1, 2, 3, 4, 5, 16, 17])
        hx = bytes(rng.getrandbits(8) for _ in range(n)).hex() or "-"
        kinds = [("seq", "vec", 0, G.P("u8")), ("seq", "slice", 0, G.P("u8")), ("seq", "arr", n, G.P("u8")), G.P("bytes")]
        ts = rng.choice(kinds)
        td = rng.choice([k for k in kinds if k[:2] != ("seq", "slice")])
        if rng.random() < 0.2:
            td = ("seq", "arr", rng.choice([m for m in G.ARRAY_LENS if m != n]), G.P("u8"))
        cases.append({"env": "-", "cmd": "xrt", "ty": G.show_ty(ts), "ty2": G.show_ty(td), "val": "b" + hx, "sfx": "-",
                      "unordered": False, "_kind": "bytes", "_n": n, "_td": td})
    impl, mod = C.run_codec(harness, model, cases, wd, "x")
    dis = [(C.codec_line(c), a, b) for c, a, b in zip(cases, impl, mod) if a != b]
    bad = []
    for c, a in zip(cases, impl):
        enc_part, _, dec_part = a.partition(" ; ")
        if "panic" in a.split(" ")[0] or dec_part.startswith("panic"):
            bad.append((C.codec_line(c), a, "panic"))
            continue
        if not enc_part.startswith("ok "):
            continue
        if c["_kind"] == "cross":
            ordered = sx.parse(enc_part.split(" ", 2)[2])          # the elements in the writer's iteration order
            items = [sx.show(sx.canon(c["_e"], x)) for x in ordered[1:]]
            want = collect_expected(c["_d"], c["_dn"], items)
            nsfx = 0 if c["sfx"] == "-" else 1
            if want is None:
                if not dec_part.startswith("err "):
                    bad.append((C.codec_line(c), a, "an array was produced from a different number of elements"))
            elif dec_part != f"ok {want} {nsfx}":
                bad.append((C.codec_line(c), a, "elements written by one container are not read back by another"))
        elif c["_kind"] == "map":
            m = {}
            for k, v in c["_pairs"]:
                m[k] = v
            want = "(0" + "".join(" " + x for x in sorted(f"(0 {k} {v})" for k, v in m.items())) + ")"
            if dec_part != f"ok {want} 0":
                bad.append((C.codec_line(c), a, "a list of pairs is not read back as the map it denotes"))
        else:
            td = c["_td"]
            if td[0] == "seq" and td[1] == "arr" and td[2] != c["_n"]:
                if not dec_part.startswith("err "):
                    bad.append((C.codec_line(c), a, "a byte array was produced from a different number of bytes"))
            elif dec_part != f"ok {c['val']} 0":
                bad.append((C.codec_line(c), a, "byte containers are not interchangeable"))
    # size forms: (1) the model writes the unknown-length form (all nested sequences too), the implementation reads it
    ucases = []
    for e in elem_types(rng):
        for d in DST:
            for _ in range(2 * reps):
                n = rng.choice([0, 1, 2, 3, 5])
                items = [G.gen_value(rng, e, None, 0.4) for _ in range(n)]
                if d in ("hset", "bset"):
                    items = list(dict.fromkeys(items))
                dn = len(items)
                if d == "arr" and dn not in G.ARRAY_LENS:
                    items, dn = items[:5], 5
                td = ("seq", d, dn if d == "arr" else 0, e)
                ucases.append({"env": "-", "cmd": "encu", "ty": G.show_ty(td), "val": "(0" + "".join(" " + x for x in items) + ")",
                               "_td": td, "_e": e, "_items": items})
    lines = [C.codec_line(c) for c in ucases]
    uenc = C._run_codec_side(model, ucases, lines, wd, "uenc", 16, 3000)
    dcases = []
    for c, a in zip(ucases, uenc):
        if a.startswith("ok "):
            dcases.append({"env": "-", "cmd": "dec", "ty": c["ty"], "hex": a.split(" ")[1] + "07", "_c": c})
    dimpl, dmod = C.run_codec(harness, model, dcases, wd, "udec")
    dis += [(C.codec_line(c), a, b) for c, a, b in zip(dcases, dimpl, dmod) if a != b]
    for c, a in zip(dcases, dimpl):
        u = c["_c"]
        items = [sx.show(sx.canon(u["_e"], sx.parse(x))) for x in u["_items"]]
        want = collect_expected(u["_td"][1], u["_td"][2], items)
        if a != f"ok {want} 1":
            bad.append((C.codec_line(c), a, "the unknown-length form does not decode to the same elements"))
    # (2) the implementation writes the unknown-length form itself (serialize_iterator without an exact size hint)
    icases = []
    for e in [G.P(p) for p in ELEMS] + [("opt", G.P("u16")), ("tup", [G.P("u8"), G.P("str")])]:
        for _ in range(4 * reps):
            n = rng.choice([0, 1, 2, 3, 5, 64])
            items = [G.gen_value(rng, e, None, 0.4) for _ in range(n)]
            icases.append({"env": "-", "cmd": "encit", "ty": G.show_ty(("seq", "vec", 0, e)),
                           "val": "(0" + "".join(" " + x for x in items) + ")", "unordered": False})
    iimpl, imod = C.run_codec(harness, model, icases, wd, "it")
    dis += [(C.codec_line(c), a, b) for c, a, b in zip(icases, iimpl, imod) if a != b]
    # (3) concrete Rust element types at the u8 special case (the dynamic route's element type is the harness's own
    # value type): what the unsized slice [T] writes - reached through &[T] and Rc<[T]> - read as Vec<T>, LinkedList<T>
    # and [T; N]; what Vec<T> and [T; N] write read as each other
    mono = []
    mtypes = {"i8": (["(slice i8)", "(vec i8)", "(ll i8)", "(arr 2 i8)", "(arr 17 i8)"], G.P("i8")),
              "bool": (["(slice bool)", "(vec bool)", "(arr 0 bool)", "(arr 1 bool)", "(arr 3 bool)"], G.P("bool")),
              "u8": (["(slice u8)", "(vec u8)", "(ll u8)", "(arr 0 u8)", "(arr 1 u8)", "(arr 33 u8)"], G.P("u8")),
              "u16": (["(slice u16)", "(vec u16)", "(arr 3 u16)"], G.P("u16")),
              "i64": (["(slice i64)", "(vec i64)", "(ll i64)", "(arr 3 i64)"], G.P("i64")),
              # an element type of size zero whose encoding is NOT empty ([u8; 0] is written as the length 0)
              "zst": (["(slice (arr 0 u8))", "(vec (arr 0 u8))", "(ll (arr 0 u8))", "(arr 3 (arr 0 u8))"], ("seq", "arr", 0, G.P("u8")))}
    arrlen = lambda t: int(t.split(" ")[1]) if t.startswith("(arr ") else None
    for ename, (tys, e) in mtypes.items():
        for src in tys:
            for dst in tys:
                if dst.startswith("(slice"):
                    continue                       # slices are write-only
                for _ in range(reps):
                    n = arrlen(src) if arrlen(src) is not None else (arrlen(dst) if arrlen(dst) is not None and rng.random() < 0.7 else rng.choice([0, 1, 2, 3, 17, 33]))
                    items = [G.gen_value(rng, e, None, 0.4) for _ in range(n)]
                    if ename == "u8":
                        val = "b" + "".join("%02x" % int(x[1:]) for x in items) if not src.startswith("(ll") else "(0" + "".join(" " + x for x in items) + ")"
                    else:
                        val = "(0" + "".join(" " + x for x in items) + ")"
                    mono.append({"src": src, "dst": dst, "val": val, "items": items, "ename": ename})
    ml = [f"mrt {m['src']} {m['val']} -" for m in mono]
    menc = C.run_sharded(harness, "static", ml, wd, "mono.enc", shards=8)
    dl, dm = [], []
    for m, a in zip(mono, menc):
        if a.startswith("ok "):
            hx = a.split(" ")[1]
            dl.append(f"mdec {m['dst']} {'' if hx == '-' else hx}0e" )
            dm.append(m)
        else:
            bad.append((f"mrt {m['src']} {m['val'][:60]}", a, "a concrete container does not encode"))
    mdec = C.run_sharded(harness, "static", dl, wd, "mono.dec", shards=8)
    for m, l, a in zip(dm, dl, mdec):
        n = arrlen(m["dst"])
        if n is not None and n != len(m["items"]):
            ok = a.startswith("err ")
        elif m["ename"] == "u8" and not m["dst"].startswith("(ll"):
            ok = a == "ok b" + ("".join("%02x" % int(x[1:]) for x in m["items"]) or "-") + " 1"
        else:
            ok = a == "ok (0" + "".join(" " + x for x in m["items"]) + ") 1"
        # u8 lists against the byte family are different formats (count-prefixed items vs length-prefixed bytes): not comparable
        if m["ename"] == "u8" and (m["src"].startswith("(ll") != m["dst"].startswith("(ll")):
            continue
        if not ok:
            bad.append((f"{m['src']} written, read as {m['dst']}: {l[:120]}", a, "a concrete container's encoding is not read back as the same elements by another container"))
    # the unknown-length form (marker -1, then 01 item ... 00) into concrete arrays and vectors: exactly N items or an error
    def item_bytes(ename, x):
        if ename == "zst":
            return b"\x00"
        v = int(x[1:])
        return {"i8": lambda: bytes([v & 0xff]), "bool": lambda: bytes([v]), "u8": lambda: bytes([v]),
                "u16": lambda: v.to_bytes(2, "big"), "i64": lambda: (v & (2 ** 64 - 1)).to_bytes(8, "big")}[ename]()
    ul, um = [], []
    for ename, (tys, e) in mtypes.items():
        for dst in tys:
            if dst.startswith("(slice") or (ename == "u8" and not dst.startswith("(ll")):
                continue                      # byte containers have no unknown-length form
            for n in sorted({0, 1, 2, 3, 4, 16, 17, 18, (arrlen(dst) or 0), (arrlen(dst) or 0) + 1, max(0, (arrlen(dst) or 1) - 1)}):
                items = [G.gen_value(rng, e, None, 0.4) for _ in range(n)]
                body = b"\x01" + b"".join(b"\x01" + item_bytes(ename, x) for x in items) + b"\x00"
                ul.append(f"mdec {dst} {body.hex()}0e")
                um.append((dst, items))
    udec = C.run_sharded(harness, "static", ul, wd, "mono.udec", shards=8)
    for (dst, items), l, a in zip(um, ul, udec):
        n = arrlen(dst)
        if n is not None and n != len(items):
            ok = a.startswith("err ")
        else:
            ok = a == "ok (0" + "".join(" " + x for x in items) + ") 1"
        if not ok:
            bad.append((l, a, "the unknown-length form read into a concrete container: not exactly its items (or an error when the array length differs)"))
    rep.coverage["concrete_cross_container_cases"] = len(dl) + len(ul)
    C.proof_coverage(rep, ob, "C12")
    alll = [C.codec_line(c) for c in cases + dcases + icases]
    rep.coverage.update({
        "evaluations": len(alll), "distinct_nontrivial": len(set(alll)),
        "rule": "full source x target container matrix (Vec, slice, LinkedList, HashSet, BTreeSet, [T;N] -> Vec, LinkedList, "
                "HashSet, BTreeSet, [T;M]) over 18 element types with repeated elements and matching / non-matching array "
                "lengths; lists of pairs read as HashMap / BTreeMap with duplicate keys; byte family (Vec<u8>, [u8], [u8;N], "
                "Bytes) incl. wrong N; unknown-length form produced by the model (all nested sequences too) and read by the "
                "implementation into every container; unknown-length form produced by the implementation's serialize_iterator "
                "with an inexact size_hint and compared with the model; expected contents computed independently in Python "
                "from the writer's reported iteration order",
        "samples": alll[:2] + alll[len(cases):len(cases) + 2] + alll[-2:],
        "disagreements_checked": len(alll), "disagreements": len(dis),
        "cross_container_cases": len(cases), "unknown_form_decodes": len(dcases), "unknown_form_writes": len(icases),
    })
    if bad:
        l, a, why = bad[0]
        rep.violation(f"{why}: {l[:200]}", {"kind": "case", "case": l, "implementation": a, "why": why, "n_failing": len(bad)})
    C.report_broken(rep, ob, dis, "cross-container / unknown-form", bool(bad))
