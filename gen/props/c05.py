"""C05 — decoding untrusted bytes is total: Ok or Err, never panic, hang or unsafety."""
import itertools
import os
import subprocess
import time
from .. import common as C
from .. import gencases as G
from .. import malformed as M
from .. import rtfamily as R

SMALL_TYPES = ["u8", "i8", "u16", "bool", "char", "str", "dstr", "bytes", "dur", "bigint", "bigdec", "uuid", "i32"]
F14 = "sequence of zero-width elements loops `count` times without consuming input (Vec<()> / LinkedList<PhantomData>): 5 input bytes, 2^31-1 iterations"
F27 = ("decoding a recursive derived type recurses once per nesting level with ~700 bytes of stack each: an 18 KB input "
       "nested 3000 deep aborts the process (stack overflow) on a default-stack thread")
F14_WITNESS = {"env": "-", "cmd": "dec", "ty": "(ll unit)", "hex": "feffffff0f"}
F30 = ("every back-reference to a de-duplicated string is expanded to an owned copy of the string: a Vec<DeduplicatedString> "
       "of one 8000-byte string followed by 8000 one-byte back-references (16 KB of input) decodes to 64 MB of live strings - "
       "memory quadratic in the input length")


def zz(n):
    z, out = ((n << 1) ^ (n >> 31)) & 0xffffffff, bytearray()
    while True:
        if z < 128:
            out.append(z)
            return bytes(out)
        out.append((z & 0x7f) | 0x80)
        z >>= 7


def f30_witness(length=8000, count=8000):
    b = zz(count + 1) + zz(length) + b"a" * length + zz(-1) * count
    return {"env": "-", "cmd": "decq", "ty": "(vec dstr)", "hex": b.hex(), "_len": len(b)}


def dedup_backrefs(c):
    """the class of known finding F30: the type reads de-duplicated strings (back-references are expanded)"""
    return "dstr" in c["ty"] or (c.get("env") or "-") != "-" and "dstr" in c["env"]



def type_pool(rng, n_env):
    pool = []
    for t in G.all_types_depth1():
        if not M.has_zero_width_seq(t):
            pool.append((None, t))
    for _ in range(200):
        t = G.gen_type(rng, rng.choice([2, 3, 4]))
        if not M.has_zero_width_seq(t):
            pool.append((None, t))
    for _ in range(n_env):
        env = G.gen_env(rng)
        for i in range(len(env)):
            t = ("named", i)
            if not M.has_zero_width_seq(t, env):
                pool.append((env, t))
    return pool


def gen_cases(seed, tier):
    rng = C.rng_for(seed, "C05")
    pool = type_pool(rng, 150 if tier == "quick" else 3000)
    cases = []

    def dec(env, t, b):
        return {"env": G.show_env(env) if env else "-", "cmd": "dec", "ty": G.show_ty(t), "hex": b.hex() or "-",
                "_t": t, "_env": env, "_len": len(b)}
    # (i) exhaustive: every byte string up to length 2 for the small primitive types and a few composites
    ex_types = [(None, G.P(p)) for p in SMALL_TYPES] + [
        (None, ("opt", G.P("u8"))), (None, ("seq", "vec", 0, G.P("u16"))), (None, ("tup", [G.P("u8")])),
        (None, ("seq", "arr", 2, G.P("u8"))), (None, ("map", "bmap", G.P("u8"), G.P("u8"))),
        (None, ("res", G.P("u8"), G.P("str")))]
    upto = 2
    for env, t in ex_types:
        for n in range(upto + 1):
            for tup in itertools.product(range(256), repeat=n):
                if n == 2 and tier == "quick" and (tup[0] not in M.BOUNDARY and tup[1] not in M.BOUNDARY):
                    continue
                cases.append(dec(env, t, bytes(tup)))
    # every string up to length 4 (5 thorough) over the boundary alphabet for record-like types
    deep = [(None, ("tup", [G.P("u8"), G.P("str")])), (None, ("seq", "vec", 0, ("opt", G.P("u8"))))]
    rec_envs = [G.gen_env(rng, 1) for _ in range(6)]
    deep += [(e, ("named", 0)) for e in rec_envs if not M.has_zero_width_seq(("named", 0), e)]
    alpha_len = 4 if tier == "quick" else 5
    for env, t in deep:
        for n in range(alpha_len + 1):
            for tup in itertools.product(M.BOUNDARY, repeat=n):
                if tier == "quick" and n == 4 and rng.random() < 0.6:
                    continue
                cases.append(dec(env, t, bytes(tup)))
    cases += [dec(None, t, b) for t, b in calendar_grid(rng, tier)]
    return cases, pool, rng


def _vu(v):
    out = bytearray()
    while True:
        if v < 128:
            out.append(v)
            return bytes(out)
        out.append((v & 0x7f) | 0x80)
        v >>= 7


def _vi(v):
    return _vu(((v << 1) ^ (v >> 31)) & 0xffffffff)


def calendar_grid(rng, tier):
    """the boundary of every predicate of coq/Calendar.v (chrono's acceptance conditions written out as oracles):
    each side of each bound is decoded by chrono itself and by the model"""
    out = []
    P = G.P
    years = [G.MIN_YEAR - 1, G.MIN_YEAR, G.MAX_YEAR, G.MAX_YEAR + 1, -1, 0, 1, 4, 100, 400, 1900, 2000, 2023, 2024, 2100,
             (1 << 31) - 1, -(1 << 31)]
    for y in years:
        for m in (0, 1, 2, 3, 4, 6, 9, 11, 12, 13, 255):
            for d in (0, 1, 28, 29, 30, 31, 32, 255):
                out.append((P("ndate"), _vu(y & 0xffffffff) + bytes([m, d])))
    for y in G.LEAP_YEARS:                       # the end of February in years of every leap-year class, both sides of 0
        for d in (28, 29, 30):
            out.append((P("ndate"), _vu(y & 0xffffffff) + bytes([2, d])))
            out.append((P("ndt"), _vu(y & 0xffffffff) + bytes([2, d, 12, 0, 0]) + _vu(0)))
    nss = [0, 999_999_999, 1_000_000_000, 1_999_999_999, 2_000_000_000, (1 << 32) - 1]
    for h in (0, 23, 24, 255):
        for mi in (0, 59, 60):
            for sec in (0, 58, 59, 60):
                for ns in nss:
                    out.append((P("ntime"), bytes([h, mi, sec]) + _vu(ns)))
    for secs in (G.MIN_TS - 1, G.MIN_TS, G.MIN_TS + 59, G.MAX_TS, G.MAX_TS + 1, -1, 0, 59, 60, -61, (1 << 63) - 1, -(1 << 63)):
        for ns in nss:
            out.append((P("dt_utc"), (secs & ((1 << 64) - 1)).to_bytes(8, "big") + ns.to_bytes(4, "big")))
    for ty in (0, 1, 2, 255):
        for off in (0, 86399, 86400, -86399, -86400, (1 << 31) - 1, -(1 << 31)):
            out.append((P("fixedoffset"), bytes([ty]) + _vi(off)))
        for name in ("UTC", "utc", "Europe/Budapest", "Europe/Budapes", "", "Etc/GMT+12", "GMT0", "\u00e9"):
            nb = name.encode()
            out.append((P("tz"), bytes([ty]) + _vi(len(nb)) + nb))
    # unknown zone names of every length up to 70 with a multi-byte character at every offset (error paths that
    # quote or cut the rejected name)
    for pad in range(0, 70):
        for ch in ("\u00e9", "\u20ac", "\U0001F600"):
            nb = ("a" * pad + ch + "zz").encode()
            out.append((P("tz"), bytes([1]) + _vi(len(nb)) + nb))
            if pad % 8 == 0:
                out.append((P("dt_tz"), _vu(2024) + bytes([2, 29, 1, 2, 3]) + _vu(5) + bytes([1]) + _vi(len(nb)) + nb))
    # invalid UTF-8 behind a long valid prefix with a multi-byte character at every offset, in every string-carrying
    # codec (error paths that quote or cut the text decoded so far; the cut may fall inside a character)
    for total in (66, 70, 130, 140, 258):
        for ch in ("\u00e9", "\u20ac", "\U0001F600"):
            for end in range(max(1, total - 70), total + 1):
                cb = ch.encode()
                if end < len(cb):
                    continue
                good = ("a" * (end - len(cb)) + ch + "z" * (total - end)).encode()
                for tail in (b"\xff", b"\xc3", b"\xe2\x82", b"\xed\xa0\x80"):
                    nb = good + tail
                    if (end + total) % 3 == 0:
                        out.append((P("str"), _vi(len(nb)) + nb))
                    elif (end + total) % 3 == 1:
                        out.append((P("dstr"), _vi(len(nb)) + nb))
                    else:
                        out.append((P("tz"), bytes([1]) + _vi(len(nb)) + nb))
                    if end % 16 == 0:
                        out.append((P("bigdec"), _vi(len(nb)) + nb))
    # Duration: seconds at both ends of u64 with nanoseconds on both sides of every carry
    for secs in (0, 1, (1 << 63), (1 << 64) - 2, (1 << 64) - 1):
        for nanos in (0, 999_999_999, 1_000_000_000, 1_000_000_001, 1_999_999_999, 2_000_000_000, 4_000_000_000, (1 << 32) - 1):
            out.append((P("dur"), secs.to_bytes(8, "big") + nanos.to_bytes(4, "big")))
    for b in range(256):
        out.append((P("weekday"), bytes([b])))
        out.append((P("month"), bytes([b])))
    # date-times at both ends of the range under offsets that push the instant in or out
    def ndt(y, mo, d, h, mi, sec, ns=0):
        return _vu(y & 0xffffffff) + bytes([mo, d, h, mi, sec]) + _vu(ns)
    ends = [(G.MIN_YEAR, 1, 1, 0, 0, 0), (G.MIN_YEAR, 1, 1, 0, 0, 1), (G.MIN_YEAR, 1, 1, 23, 59, 59), (G.MIN_YEAR, 1, 2, 0, 0, 0),
            (G.MAX_YEAR, 12, 31, 23, 59, 59), (G.MAX_YEAR, 12, 31, 23, 59, 58), (G.MAX_YEAR, 12, 31, 0, 0, 0), (G.MAX_YEAR, 12, 30, 23, 59, 59)]
    for e in ends:
        for off in (0, 1, -1, 3600, -3600, 86399, -86399):
            out.append((P("dt_fixed"), ndt(*e) + bytes([0]) + _vi(off)))
        out.append((P("dt_tz"), ndt(*e) + bytes([1]) + _vi(3) + b"UTC"))
        out.append((P("dt_tz"), ndt(*e) + bytes([1]) + _vi(10) + b"Asia/Tokyo"))
        out.append((P("dt_local"), ndt(*e)))
        out.append((P("ndt"), ndt(*e, ns=1_999_999_999)))
    return out


def run_side_with_hangs(exe, cases, wd, tag, extra, limit_note):
    """like common._run_codec_side but survives the harness's watchdog (exit 3): the hanging case is
    recorded as 'hang' and the rest of the shard is resumed"""
    n = len(cases)
    shards = max(1, min(16, (n + 199) // 200))
    size = (n + shards - 1) // shards
    out = [None] * n
    jobs = []
    for i in range(shards):
        lo, hi = i * size, min(n, (i + 1) * size)
        if lo < hi:
            jobs.append((i, lo, hi))
    running = []

    def start(i, lo, hi, gen):
        path = os.path.join(wd, f"{tag}.{i}.{gen}.cases")
        cur = None
        with open(path, "w") as f:
            for j in range(lo, hi):
                if cases[j]["env"] != cur:
                    cur = cases[j]["env"]
                    f.write(f"E {cur}\n")
                f.write(C.codec_line(cases[j]) + "\n")
        # stdout goes to a file: a full pipe would block the harness inside a case and trip its watchdog
        outp = path[:-6] + ".out"
        p = subprocess.Popen([exe, "codec", path] + extra, stdout=open(outp, "w"), stderr=subprocess.PIPE, text=True,
                             env=dict(os.environ, TZ="UTC"),
                             preexec_fn=lambda: __import__("resource").setrlimit(
                                 __import__("resource").RLIMIT_AS, (6 << 30, 6 << 30)))
        p._outp = outp
        return (p, i, lo, hi, gen)
    for (i, lo, hi) in jobs:
        running.append(start(i, lo, hi, 0))
    hangs = 0
    while running:
        p, i, lo, hi, gen = running.pop(0)
        _, e = p.communicate(timeout=3000)
        o = open(p._outp).read()
        got = [l for l in o.splitlines() if l != "env"]
        for k, l in enumerate(got):
            out[lo + k] = l
        done = lo + len(got)
        if p.returncode == 0 and done == hi:
            continue
        if p.returncode == 3 or p.returncode < 0 or p.returncode == 134:
            # watchdog (hang), or the process was killed / aborted (memory limit, stack overflow)
            out[done] = "hang" if p.returncode == 3 else f"abort({p.returncode})"
            if p.returncode == 3:
                # a case that passed its time limit is run once more, alone and with four times the limit, before it is
                # believed (a busy machine is not a hang)
                one = os.path.join(wd, f"{tag}.confirm.cases")
                with open(one, "w") as f:
                    f.write(f"E {cases[done]['env']}\n{C.codec_line(cases[done])}\n")
                ex2 = [("--limit-ms=%d" % (4 * int(x.split("=")[1]))) if x.startswith("--limit-ms=") else x for x in extra]
                pr = subprocess.run([exe, "codec", one] + ex2, stdout=subprocess.PIPE, stderr=subprocess.PIPE, text=True,
                                    env=dict(os.environ, TZ="UTC"))
                res = [l for l in pr.stdout.splitlines() if l != "env"]
                if pr.returncode == 0 and len(res) == 1:
                    out[done] = res[0]
            hangs += 1
            with open(os.path.join(wd, "hangs.log"), "a") as hf:
                hf.write(f"{out[done]} {C.codec_line(cases[done])[:300]}\n")
            if hangs > 50:
                raise C.Undecided("too many hangs/aborts in the malformed stream")
            if done + 1 < hi:
                running.append(start(i, done + 1, hi, gen + 1))
            continue
        raise C.Undecided(f"{exe} codec ({tag}): exit {p.returncode}\n{e[-1500:]}")
    return out


def strip_alloc(line):
    """'<result> A<largest single request>,<peak of live bytes during the decode>' -> (result, request, peak)"""
    if line is None:
        return None, None, None
    if " A" in line:
        body, _, a = line.rpartition(" A")
        req, _, peak = a.partition(",")
        if req.isdigit() and peak.isdigit():
            return body, int(req), int(peak)
    return line, None, None


def check(rep, tier, seed):
    ob = C.coq_obligations("C05")
    harness = C.build_harness("release")
    hdebug = C.build_harness("debug")
    model = C.build_model()
    wd = C.workdir("C05")
    cases, pool, rng = gen_cases(seed, tier)
    # (ii) structure-aware mutants of valid encodings, (iii) random bytes
    nvalid = 2500 if tier == "quick" else 60000
    valid = []
    for _ in range(nvalid):
        env, t = pool[rng.randrange(len(pool))]
        v = G.gen_value_d(rng, t, env, 0.8, 0) if env else G.gen_value(rng, t, None, 0.8)
        valid.append(R.mk(env, t, v, "-", "enc"))
    venc, _ = C.run_codec(harness, model, valid, wd, "valid")
    per = 12 if tier == "quick" else 40
    for c, a in zip(valid, venc):
        if not a.startswith("ok "):
            continue
        hx = a.split(" ", 2)[1]
        b = bytes.fromhex(hx) if hx != "-" else b""
        for m in M.mutants(rng, b, per):
            cases.append({"env": c["env"], "cmd": "dec", "ty": c["ty"], "hex": m.hex() or "-", "_t": c["_t"],
                          "_env": c["_env"], "_len": len(m)})
    for _ in range(3000 if tier == "quick" else 100000):
        env, t = pool[rng.randrange(len(pool))]
        b = bytes(rng.getrandbits(8) for _ in range(rng.randrange(0, 24)))
        cases.append({"env": G.show_env(env) if env else "-", "cmd": "dec", "ty": G.show_ty(t), "hex": b.hex() or "-",
                      "_t": t, "_env": env, "_len": len(b)})
    # model first: a case on which the model runs out of its (generous) fuel is not sent to the implementation
    lines = [C.codec_line(c) for c in cases]
    mod = C._run_codec_side(model, cases, lines, wd, "model", 16, 3000)
    keep = [i for i, m in enumerate(mod) if m != "fuel"]
    nfuel = len(cases) - len(keep)
    kc = [cases[i] for i in keep]
    km = [mod[i] for i in keep]
    res = {}
    for prof, exe in (("release", harness), ("debug", hdebug)):
        res[prof] = run_side_with_hangs(exe, kc, wd, "impl_" + prof, ["--alloc", "--limit-ms=8000"], prof)
    bad, dis = [], []
    classes = {}
    max_ratio = 0.0
    max_live = 0.0
    for c, m, a_rel, a_dbg in zip(kc, km, res["release"], res["debug"]):
        for prof, a in (("release", a_rel), ("debug", a_dbg)):
            body, alloc, peak = strip_alloc(a)
            cls = (body or "missing").split(" ")[0].split("(")[0]
            classes[cls] = classes.get(cls, 0) + 1
            if body is None or cls in ("panic", "hang") or cls.startswith("abort"):
                bad.append((c, prof, a, cls))
                continue
            if alloc is not None:
                bound = 65536 + 512 * c["_len"]
                max_ratio = max(max_ratio, alloc / bound)
                if alloc > bound:
                    bad.append((c, prof, a, f"allocation request of {alloc} bytes for {c['_len']} input bytes"))
                # everything live at the highest point of the decode (the harness's own value representation costs up
                # to ~200 bytes per decoded node, growth by doubling another factor 2)
                lbound = 262144 + 2048 * c["_len"]
                max_live = max(max_live, peak / lbound)
                if peak > lbound and not dedup_backrefs(c):
                    bad.append((c, prof, a, f"{peak} bytes live during the decode of {c['_len']} input bytes"))
            if body != m:
                dis.append((C.codec_line(c), f"{prof}: {body}", m))
    # the known finding: confirm the witness still reproduces (watchdog), then say so
    known = C.load_known()
    f14_listed = any(k.get("id") == "F14" for k in known.get("findings", []))
    w = run_side_with_hangs(harness, [F14_WITNESS], wd, "f14", ["--limit-ms=1500"], "release")
    if w[0] == "hang":
        if f14_listed:
            rep.known(F14)
        else:
            bad.append((F14_WITNESS, "release", "hang", "hang"))
    # known finding F30: confirm the amplification witness, and that the same shape WITHOUT back-references stays linear
    f30_listed = any(k.get("id") == "F30" for k in known.get("findings", []))
    w30 = f30_witness()
    plain = dict(w30, ty="(vec str)", hex=(zz(8001) + (zz(1) + b"a") * 8001).hex())
    plain["_len"] = len(plain["hex"]) // 2
    r30 = run_side_with_hangs(harness, [w30, plain], wd, "f30", ["--alloc", "--limit-ms=8000"], "release")
    live30 = [strip_alloc(x)[2] for x in r30]
    rep.coverage["backreference_amplification"] = {"input_bytes": w30["_len"], "live_bytes": live30[0],
                                                   "same_count_of_plain_strings_live_bytes": live30[1]}
    if live30[0] is not None and live30[0] > 262144 + 2048 * w30["_len"]:
        if f30_listed:
            rep.known(F30)
        else:
            bad.append((w30, "release", r30[0], f"{live30[0]} bytes live during the decode of {w30['_len']} input bytes"))
    if live30[1] is None or live30[1] > 262144 + 2048 * plain["_len"]:
        bad.append((plain, "release", r30[1], f"{live30[1]} bytes live during the decode of {plain['_len']} input bytes"))
    # record headers whose chunk sizes each fit the input while their SUM does not (256 sizes of 8 MiB and of 16 MiB on an
    # input of that size: the sum is 2^31 and 2^32): an error, in both profiles - never an arithmetic panic, never a value
    hdr = []
    for sz in (1 << 23, 1 << 24):
        body = bytes([255]) + zz(sz) * 256 + bytes(sz)
        for ty in ("(tup u8)", "(tup u8 str)"):
            hdr.append({"env": "-", "cmd": "decq", "ty": ty, "hex": body.hex(), "_len": len(body)})
    for prof, exe in (("release", harness), ("debug", hdebug)):
        hres = run_side_with_hangs(exe, hdr, wd, "hdr_" + prof, ["--limit-ms=20000"], prof)
        for c, a in zip(hdr, hres):
            if a is None or not a.startswith("err "):
                bad.append((dict(c, hex=c["hex"][:80] + "..."), prof, a, f"a header with 256 chunk sizes of {c['_len'] >> 20} MiB on an input of that size is not rejected: {a}"))
    rep.coverage["chunk_size_sum_witnesses"] = 2 * len(hdr)
    # negative lengths for zero-width element types (repaired by /repo 843c370): an error at once, in both profiles
    negs = [{"env": "-", "cmd": "dec", "ty": t, "hex": h, "_len": len(h) // 2}
            for t in ("(vec unit)", "(ll unit)", "(hset unit)", "(arr 0 unit)", "(arr 3 unit)", "(vec (box unit))")
            for h in ("03", "05", "ffffffff0f07", "fdffffff0f")]
    for prof, exe in (("release", harness), ("debug", hdebug)):
        nres = run_side_with_hangs(exe, negs, wd, "neg_" + prof, ["--limit-ms=1500"], prof)
        for c, a in zip(negs, nres):
            if a != "err DeserializationFailure":
                bad.append((c, prof, a, f"a negative element count is not rejected at once: {a}"))
    rep.coverage["negative_count_witnesses"] = 2 * len(negs)
    # nesting depth: shallow and moderately deep inputs must decode; the abort on very deep ones is known finding F27
    deep = {}
    f27_listed = any(k.get("id") == "F27" for k in known.get("findings", []))
    for n, where in ((100, "main"), (100, "thread"), (1000, "main"), (1000, "thread"), (10000, "thread"), (100000, "main")):
        p = C.run([harness, "deep", str(n), where], timeout=120, check=False)
        out = (p.stdout or "").strip().splitlines()
        res = out[-1] if out and out[-1].startswith("DEEP") else f"abort rc={p.returncode}"
        deep[f"{n}/{where}"] = res
        if res != f"DEEP {n} ok":
            if n >= 3000 and f27_listed:
                rep.known(F27)
            else:
                bad.append(({"env": "(catalogue)", "cmd": "dec", "ty": "List(static-catalogue)", "hex": f"{n} levels, {where} stack",
                             "_len": 6 * n + 6}, "release", res,
                            f"decoding List nested {n} levels deep on the {where} stack does not return: {res}"))
    # the same for a list type WITH an evolution step: every level is a record with a header and chunks, and the decoder
    # keeps a region per open level
    for n, where in ((15, "main"), (16, "thread"), (17, "main"), (31, "main"), (32, "thread"), (33, "main"), (40, "thread"),
                     (63, "main"), (64, "thread"), (65, "main"), (100, "main"), (127, "thread"), (128, "main"), (129, "thread"),
                     (255, "main"), (256, "thread"), (257, "main"), (300, "thread"), (1000, "main")):
        p = C.run([harness, "deep", str(n), where, "ev"], timeout=120, check=False)
        out = (p.stdout or "").strip().splitlines()
        res = out[-1] if out and out[-1].startswith("DEEP") else f"abort rc={p.returncode}"
        deep[f"{n}/{where}/evolved"] = res
        if res != f"DEEP {n} ok":
            bad.append(({"env": "(catalogue)", "cmd": "dec", "ty": "ListEv(static-catalogue)", "hex": f"{n} levels of evolved records, {where} stack",
                         "_len": 10 * n}, "release", res,
                        f"decoding an evolved record nested {n} levels deep on the {where} stack does not return a value: {res}"))
    rep.coverage["nesting_depth_probes"] = deep
    C.proof_coverage(rep, ob, "C05", ["known finding F27 (stack exhaustion beyond ~3000 nesting levels): the model has no stack; "
                                      "depth probes at 100 and 1000 levels must succeed, deeper ones are reported as known",
                                      "known finding F14 (zero-width sequence elements): types containing such a sequence "
                                      "are excluded from the malformed stream; the witness is re-run on every check"])
    rep.coverage.update({
        "evaluations": 2 * len(kc) + len(cases), "distinct_nontrivial": len(set(lines)),
        "rule": "malformed inputs for ~%d type expressions (built-in shallow layer, random deep types, random declaration "
                "environments incl. evolved records and enums): (i) every byte string of length <= 2 for 18 small types "
                "(quick: at least one boundary byte) and every string of length <= 4 over a 12-byte boundary alphabet for "
                "record-like types; (ii) structure-aware mutants of valid encodings (boundary rewrite of a byte, bit flip, "
                "5-byte var-int of a boundary count, insert, delete, duplicate slice, swap, truncate+junk); (iii) uniform "
                "random bytes; each through desert::deserialize semantics in release and debug (overflow checks) builds "
                "with catch_unwind, a per-case watchdog, RLIMIT_AS and a counting allocator (largest single request must "
                "be <= 64 KiB + 512 x input length); result compared with the model (Ok value and bytes left, or the error "
                "variant with its payload)" % len(pool),
        "samples": lines[:2] + lines[len(lines) // 2: len(lines) // 2 + 2] + lines[-2:],
        "disagreements_checked": 2 * len(kc), "disagreements": len(dis),
        "outcome_classes_both_profiles": classes, "model_fuel_exhausted_cases": nfuel,
        "largest_allocation_over_bound": round(max_ratio, 4),
        "largest_live_bytes_over_bound": round(max_live, 4),
    })
    if bad:
        c, prof, a, why = bad[0]
        rep.violation(f"{why} ({prof}) on {C.codec_line(c)[:160]}",
                      {"kind": "case", "env": c["env"], "case": C.codec_line(c), "profile": prof,
                       "implementation": a, "why": why, "n_failing": len(bad)})
    if nfuel:
        dis.append(("model ran out of fuel on %d cases of types without zero-width sequences" % nfuel, "", ""))
    C.report_broken(rep, ob, dis, "codec/malformed", bool(bad))
