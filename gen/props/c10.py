"""C10 — reference tracking preserves object-graph shape, sharing and cycles."""
import itertools
from .. import common as C


def vu(v):
    out = bytearray()
    while True:
        if v < 128:
            out.append(v)
            return bytes(out)
        out.append((v & 0x7f) | 0x80)
        v >>= 7


def reachable_canon(nodes, root):
    """reference semantics, independent of both codecs: DFS pre-order numbering of first encounter"""
    order, pos = [], {}

    def visit(a):
        if a in pos:
            return
        pos[a] = len(order)
        order.append(a)
        for e in nodes[a][1]:
            visit(e)
    import sys
    sys.setrecursionlimit(10000)
    visit(root)
    return [(nodes[a][0], [pos[e] for e in nodes[a][1]]) for a in order]


def show(g):
    return " ".join(f"{l}:{','.join(map(str, es))}" for l, es in g) or "-"


def gen(seed, tier):
    rng = C.rng_for(seed, "C10")
    graphs = []
    # exhaustive: all rooted digraphs with <= 3 nodes and out-degree <= 2 (ordered edge lists, self-loops,
    # parallel edges), equal and distinct labels
    for n in (1, 2, 3):
        edge_lists = [()] + [(a,) for a in range(n)] + [(a, b) for a in range(n) for b in range(n)]
        for combo in itertools.product(edge_lists, repeat=n):
            for root in range(n):
                graphs.append(([(7, list(es)) for es in combo], root))       # equal labels: identity != value
    # 4 nodes: sampled; random up to 40 nodes with sharing, cycles, higher degree
    for _ in range(3000 if tier == "quick" else 100000):
        n = 4 if rng.random() < 0.5 else rng.randrange(5, 41)
        nodes = []
        for _i in range(n):
            deg = rng.choice([0, 1, 1, 2, 2, 3]) if n > 4 else rng.choice([0, 1, 2])
            nodes.append((rng.choice([0, 1, 7, 127, 128, 300, (1 << 32) - 1, rng.getrandbits(20)]),
                          [rng.randrange(n) for _ in range(deg)]))
        graphs.append((nodes, rng.randrange(n)))
    # reference ids across the width boundaries of their var-int (128, 16384): wide shallow graphs whose late nodes
    # point back at nodes on both sides of each boundary
    for width in (130, 300):
        nodes = [(1, list(range(1, width)))] + [(k % 7, []) for k in range(1, width)]
        nodes[width - 1] = (9, [127, 128, 129, 0, width - 1])
        nodes[5] = (3, [width - 2, 126])
        graphs.append((nodes, 0))
    lines = []
    for k, (nodes, root) in enumerate(graphs):
        sfx = ["-", "00", "0102"][k % 3]
        lines.append(f"g {root} " + " ".join(f"{l}:{','.join(map(str, es))}" for l, es in nodes) + f" {sfx}")
    return graphs, lines


def check(rep, tier, seed):
    ob = C.coq_obligations("C10")
    harness = C.build_harness("release")
    model = C.build_model()
    wd = C.workdir("C10")
    graphs, lines = gen(seed, tier)
    # streams citing ids never introduced
    inv, inv_expect = [], []
    for k in (1, 2, 5, 127, 128, 1 << 20, (1 << 32) - 1):
        inv.append("gdec " + vu(k).hex())                     # nothing created yet
        inv_expect.append(f"err InvalidRefId({k})")
        if k > 1:
            # root created (id 1), one edge citing id k+1 > 1
            b = vu(0) + vu(9) + vu(1) + vu(k + 1) if k + 1 < (1 << 32) else None
            if b:
                inv.append("gdec " + b.hex())
                inv_expect.append(f"err InvalidRefId({k + 1})")
    impl = C.run_sharded(harness, "graph", lines + inv, wd, "impl")
    mod = C.run_sharded(model, "graph", lines + inv, wd, "model")
    dis = [(l, a, b) for l, a, b in zip(lines + inv, impl, mod) if a != b]
    bad = []
    for (nodes, root), l, a in zip(graphs, lines, impl):
        want = show(reachable_canon(nodes, root))
        nsfx = {"-": 0, "00": 1, "0102": 2}[l.rsplit(" ", 1)[1]]
        if not a.startswith("ok "):
            bad.append((l, a, "graph codec failed"))
            continue
        dec = a.split(" ; ", 1)[1]
        if dec != f"ok 0 | {want} | {nsfx}":
            bad.append((l, a, "decoded graph is not the reachable part in first-encounter order with sharing preserved"))
    for l, a, e in zip(inv, impl[len(lines):], inv_expect):
        if a != e:
            bad.append((l, a, f"reference to an object never introduced: expected {e}"))
    # the same graphs inside an evolved derived record (real macro): title, root, root again in a second chunk. The
    # markers and ids must travel through the record writer's chunk buffers: record = 01 size(c0) size(c1) c0 c1 with
    # c0 = "t" ++ G and c1 = the back-reference, G and the back-reference being the top-level encodings checked above
    def vi(v):
        return vu(((v << 1) ^ (v >> 31)) & 0xffffffff)
    elines = ["ge" + l[1:] for l in lines[:: (3 if tier == "quick" else 1)]]
    egraphs = graphs[:: (3 if tier == "quick" else 1)]
    eimpl = C.run_sharded(harness, "graph", elines, wd, "embedded")
    for (nodes, root), l, a in zip(egraphs, elines, eimpl):
        parts = a.split(" ; ")
        if len(parts) != 3 or not parts[0].startswith("ok "):
            bad.append((l, a, "graph inside an evolved record: encoding failed"))
            continue
        g_hex, b2_hex = parts[1].split(" ")
        c0 = bytes.fromhex("0274") + bytes.fromhex(g_hex)
        c1 = bytes.fromhex(b2_hex)
        want_bytes = (b"\x01" + vi(len(c0)) + vi(len(c1)) + c0 + c1).hex()
        nsfx = {"-": 0, "00": 1, "0102": 2}[l.rsplit(" ", 1)[1]]
        want_dec = f"ok 74 0 0 | {show(reachable_canon(nodes, root))} | {nsfx}"
        if parts[0] != "ok " + want_bytes:
            bad.append((l, a, "graph inside an evolved record: the reference markers are not where the record layout puts them"))
        elif parts[2] != want_dec:
            bad.append((l, a, "graph inside an evolved record: shape or sharing lost"))
    rep.coverage["embedded_in_evolved_record"] = len(elines)
    # ... and with de-duplicated strings in the same stream (a name-carrying header entry, a string before the graph and
    # its repeat after it): object numbers and string ids are separate numberings - record = 02 size(c0) size(c1)
    # [-2 "gone"] c0 c1 with c0 = "t" ++ G ++ back-reference to string 2, c1 = back-reference to object 1
    slines = ["gs" + l[1:] for l in lines[:: (5 if tier == "quick" else 1)]]
    sgraphs = graphs[:: (5 if tier == "quick" else 1)]
    simpl_s = C.run_sharded(harness, "graph", slines, wd, "embedded.strings")
    for (nodes, root), l, a in zip(sgraphs, slines, simpl_s):
        parts = a.split(" ; ")
        if len(parts) != 3 or not parts[0].startswith("ok "):
            bad.append((l, a, "graph and de-duplicated strings in one evolved record: encoding failed"))
            continue
        g_hex, b2_hex = parts[1].split(" ")
        c0 = bytes.fromhex("0274") + bytes.fromhex(g_hex) + vi(-2)
        c1 = bytes.fromhex(b2_hex)
        want_bytes = (b"\x02" + vi(len(c0)) + vi(len(c1)) + vi(-2) + vi(4) + b"gone" + c0 + c1).hex()
        nsfx = {"-": 0, "00": 1, "0102": 2}[l.rsplit(" ", 1)[1]]
        want_dec = f"ok 74 74 0 0 | {show(reachable_canon(nodes, root))} | {nsfx}"
        if parts[0] != "ok " + want_bytes:
            bad.append((l, a, "graph and de-duplicated strings in one record: object numbers / string ids are not the two separate "
                              "first-encounter numberings the format prescribes"))
        elif parts[2] != want_dec:
            bad.append((l, a, "graph and de-duplicated strings in one record: shape, sharing or a string lost"))
    rep.coverage["embedded_with_dedup_strings"] = len(slines)
    # the 16384 boundary, implementation only (the model's tables are lists): a star of 16500 leaves, late leaves
    # pointing back across the boundary; judged against the independent reachability computation
    W = 16500
    big = [(1, list(range(1, W)))] + [(k % 5, []) for k in range(1, W)]
    big[W - 1] = (9, [16382, 16383, 16384, 16385, 0])
    big[16384] = (8, [16383, 127, 128])
    bl = "g 0 " + " ".join(f"{l}:{','.join(map(str, es))}" for l, es in big) + " 00"
    ba = C.run_sharded(harness, "graph", [bl], wd, "big")[0]
    if ba.split(" ; ", 1)[-1] != f"ok 0 | {show(reachable_canon(big, 0))} | 1":
        bad.append((bl[:200] + " ...", ba[:200], "a graph with more than 16384 objects loses shape or sharing"))
    # identity is the object, not its address: a struct and its first field are two objects
    al = C.run_sharded(harness, "graph", ["alias"], wd, "alias")[0]
    if al != "ok 00000102 new,new,ref,ref":
        bad.append(("alias (struct and its first field offered to store_ref_or_object)", al,
                    "two distinct objects that share a start address are not kept distinct"))
    C.proof_coverage(rep, ob, "C10")
    sizes = {}
    for nodes, _ in graphs:
        sizes[len(nodes)] = sizes.get(len(nodes), 0) + 1
    rep.coverage.update({
        "evaluations": len(lines) + len(inv) + len(elines), "distinct_nontrivial": len(set(lines)),
        "rule": "ALL rooted digraphs with <= 3 nodes and out-degree <= 2 (ordered edge lists incl. self-loops, parallel "
                "edges, back-edges; equal labels so that identity differs from value), sampled 4-node graphs, random graphs "
                "up to 40 nodes; encoded by a codec over Rc<Node> built on store_ref_or_object / try_read_ref / store_ref "
                "with identity = address; the decoded graph (nodes numbered by creation, edges resolved with Rc::ptr_eq) "
                "must equal the reachable part renumbered in DFS first-encounter order, computed independently in Python; "
                "bytes and decoded graph compared with the model; streams citing ids never introduced",
        "samples": lines[:2] + lines[len(lines) // 2:len(lines) // 2 + 1] + lines[-2:] + inv[:2],
        "graph_sizes": {str(k): v for k, v in sorted(sizes.items())}, "exhaustive": True,
        "disagreements_checked": len(lines) + len(inv), "disagreements": len(dis),
    })
    if bad:
        l, a, why = bad[0]
        rep.violation(f"{why}: {l[:200]}", {"kind": "case", "case": l, "implementation": a, "why": why, "n_failing": len(bad)})
    C.report_broken(rep, ob, dis, "graph", bool(bad))
