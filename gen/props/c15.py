"""C15 — byte stream independent of the sink; exact size; sources agree."""
from .. import common as C
from .. import gencases as G

WKINDS = ["u8", "i8", "u16", "i16", "u32", "i32", "u64", "i64", "u128", "i128", "f32", "f64", "varu", "vari", "bytes"]
RKINDS = ["u8", "i8", "u16", "i16", "u32", "i32", "u64", "i64", "u128", "i128", "f32", "f64", "varu", "vari",
          "bytes", "skip"]
BITS = {"u8": (0, 8), "i8": (1, 8), "u16": (0, 16), "i16": (1, 16), "u32": (0, 32), "i32": (1, 32),
        "u64": (0, 64), "i64": (1, 64), "u128": (0, 128), "i128": (1, 128), "f32": (0, 32), "f64": (0, 64),
        "varu": (0, 32), "vari": (1, 32)}


def wop(rng):
    k = rng.choice(WKINDS)
    if k == "bytes":
        n = rng.choice([0, 1, 2, 3, 17])
        return "bytes:" + (bytes(rng.getrandbits(8) for _ in range(n)).hex() or "-")
    signed, bits = BITS[k]
    v = rng.choice(G.int_boundaries(signed, bits)) if rng.random() < 0.5 else rng.getrandbits(rng.randrange(1, bits + 1))
    if signed and rng.random() < 0.5:
        v = -v
    lo, hi = (-(1 << (bits - 1)), (1 << (bits - 1)) - 1) if signed else (0, (1 << bits) - 1)
    return f"{k}:{max(lo, min(hi, v))}"


def rop(rng, datalen):
    k = rng.choice(RKINDS)
    if k in ("bytes", "skip"):
        c = rng.random()
        if c < 0.6:
            n = rng.randrange(0, 6)
        elif c < 0.8:
            n = rng.randrange(max(0, datalen - 2), datalen + 3)
        else:
            n = rng.choice([(1 << 64) - 1, (1 << 64) - 2, (1 << 63), (1 << 32), (1 << 31), (1 << 64) - 1 - datalen])
        return f"{k}:{n}"
    return k


def gen(seed, tier):
    rng = C.rng_for(seed, "C15")
    nw, nr, nreg = (6000, 12000, 6000) if tier == "quick" else (100000, 200000, 100000)
    lines = []
    for _ in range(nw):
        lines.append("w " + " ".join(wop(rng) for _ in range(rng.randrange(1, 9))))
    for _ in range(nr):
        n = rng.randrange(0, 24)
        data = bytes((rng.getrandbits(8) | (0x80 if rng.random() < 0.3 else 0)) & 0xff for _ in range(n))
        lines.append(f"r {data.hex() or '-'} " + " ".join(rop(rng, n) for _ in range(rng.randrange(1, 10))))
    for _ in range(nreg):
        # region machine: pushes that respect the nesting discipline of the library, and some that do not
        n = rng.randrange(0, 24)
        data = bytes(rng.getrandbits(8) for _ in range(n))
        ops, depth = [], 0
        sane = rng.random() < 0.8
        for _ in range(rng.randrange(1, 12)):
            c = rng.random()
            if c < 0.25:
                st = rng.randrange(0, n + 1) if sane else rng.randrange(0, n + 6)
                ln = rng.randrange(0, n - st + 1) if sane and n >= st else rng.randrange(0, 8)
                ops.append(f"push:{st}:{ln}")
                depth += 1
            elif c < 0.45 and (depth > 0 or not sane):
                ops.append("pop")
                depth -= 1
            else:
                ops.append(rop(rng, n))
        lines.append(f"r {data.hex() or '-'} " + " ".join(ops))
    return lines


def check(rep, tier, seed):
    ob = C.coq_obligations("C15")
    harness = C.build_harness("release")
    hdebug = C.build_harness("debug")
    model = C.build_model()
    wd = C.workdir("C15")
    lines = gen(seed, tier)
    impl = C.run_sharded(harness, "ioops", lines, wd, "impl")
    impl_d = C.run_sharded(hdebug, "ioops", lines, wd, "impld")
    mod = C.run_sharded(model, "ioops", lines, wd, "model")
    def upto_error(line, out):
        # a failed read leaves the cursor where the failing primitive stopped; the model's Err carries
        # no state, so results are compared up to and including the first error
        if not line.startswith("r ") or out == "PANIC":
            return out
        cut = []
        for part in out.split():
            xs = part.split(",")
            if "E" in xs:
                xs = xs[:xs.index("E") + 1]
            cut.append(",".join(xs))
        return " ".join(cut)
    dis = [(l, a, b) for l, a, b in zip(lines, impl, mod) if upto_error(l, a) != upto_error(l, b)]
    dis += [(l, a, b) for l, a, b in zip(lines, impl_d, mod)
            if upto_error(l, a) != upto_error(l, b) and (l, a, b) not in dis]
    # the property itself, on the implementation alone
    bad = None
    npanic = 0
    for l, a in zip(lines, impl):
        t = a.split()
        if a == "PANIC":
            npanic += 1
            continue
        if l.startswith("w "):
            # vec == bytesmut == recording == through-context; size exact; buffered writes stay in the buffer
            ok = t[0] == t[1] == t[3] == t[4] and int(t[2]) == (0 if t[0] == "-" else len(t[0]) // 2) \
                and t[5] == "aa" + ("" if t[0] == "-" else t[0]) and t[6] == "-"
        else:
            ok = t[0] == "-" or (t[0] == t[1] == t[2])
        if not ok and bad is None:
            bad = (l, a)
    # a panic on an operation sequence without region operations is a violation of C05/C15
    for l, a in zip(lines, impl_d):
        if a == "PANIC" and "push" not in l and "pop" not in l and bad is None:
            bad = (l, a)
    # the convenience entry points (serialize_to_byte_vec: Vec<u8> sink, serialize_to_bytes: BytesMut sink) over a
    # HISTORY of calls in one process, failing encodes (unsupported characters deep inside the value) interleaved with
    # successful ones: both must give the same bytes whatever was encoded - or failed to encode - before
    from .. import gencases as G
    from .. import rtfamily as R
    erng = C.rng_for(seed, "C15e")
    ecases = []
    for _ in range(1500 if tier == "quick" else 40000):
        t = G.gen_type(erng, erng.choice([1, 2, 3]))
        if erng.random() < 0.35:
            t = ("tup", [G.P("u8"), ("seq", "vec", 0, G.P("char")), t])
            v = f"(0 n{erng.randrange(256)} (0 n97 n128512) {G.gen_value(erng, t[1][2])})"      # fails after some bytes
        else:
            v = G.gen_value(erng, t)
        ecases.append(R.mk(None, t, v, "-", "enc"))
    elines = [C.codec_line(c) for c in ecases]
    ep = C.os.path.join(wd, "entry.cases")
    C.write_lines(ep, ["E -"] + elines)          # ONE process: the history matters
    eout = [l for l in C.run([harness, "codec", ep], timeout=900).stdout.splitlines() if l != "env"]
    for l, a in zip(elines, eout):
        if a.startswith("entry-points-differ") and bad is None:
            bad = (l, a)
    rep.coverage["entry_point_history_cases"] = len(elines)
    # sources over more than 4 GiB (zeroed pages): the same primitives at the start and at the very end from all three
    hout = C.run([harness, "ioops-huge"], timeout=300, check=False).stdout.strip().splitlines()
    want = "Ok(16384) Ok(0) Ok(()) Ok(65535) Err(\"InputEnded\")"
    rep.coverage["sources_over_4GiB"] = hout
    for l in hout or ["HUGE (no output)"]:
        if not l.endswith(want) and bad is None:
            bad = ("ioops-huge: a source over 2^32 + 2 bytes", l)
    if len(hout) != 3 and bad is None:
        bad = ("ioops-huge", "the probe did not finish: " + " | ".join(hout))
    # derived and evolved records (chunk buffers, headers with sizes of every var-int width): the bytes on Vec<u8> and
    # BytesMut, the size calculator's count, and the same three under a caller-pushed buffer (a user-defined
    # length-prefixed frame built on push_buffer / pop_buffer) must agree
    dcases = R.derived_cases(erng, tier)[: (2500 if tier == "quick" else 10 ** 9)]
    big = "b" + "61" * 300
    for c in dcases:
        c["cmd"] = "enc"
    dimpl, _dm = C.run_codec(harness, model, dcases, wd, "derived")
    ndiff = 0
    for c, a in zip(dcases, dimpl):
        if a.startswith("entry-points-differ"):
            ndiff += 1
            if bad is None:
                bad = (C.codec_line(c), a)
    rep.coverage["derived_values_on_all_outputs"] = {"cases": len(dcases), "disagreeing": ndiff}
    # concrete container types (element-type-directed special cases, arrays of 63-127 elements inside collections): the size
    # calculator must count exactly the bytes written (the harness compares them on every `mrt`)
    names = [n for n in C.run([harness, "monotypes"], timeout=120).stdout.split("\n") if n.strip()]
    ml = []
    for n in names:
        t = G.ty_of_text(n)
        for _ in range(4 if tier == "quick" else 100):
            ml.append(f"mrt {n} {G.gen_value(erng, t)} -")
    mout = C.run_sharded(harness, "static", ml, wd, "mono.size", shards=8)
    nsz = 0
    for l, a in zip(ml, mout):
        if "size calculator" in a:
            nsz += 1
            if bad is None:
                bad = (l[:400], a[:300])
    rep.coverage["concrete_types_size_calculator"] = {"cases": len(ml), "disagreeing": nsz}
    C.proof_coverage(rep, ob, "C15")
    rep.coverage.update({
        "evaluations": 3 * len(lines), "distinct_nontrivial": len(set(lines)),
        "rule": "random sequences of every BinaryOutput method on Vec<u8>, BytesMut, SizeCalculator, a recording "
                "user-defined sink, SerializationContext with and without a pushed buffer; random sequences of every "
                "BinaryInput method (counts up to usize::MAX) on SliceInput, OwnedInput, DeserializationContext, the "
                "latter also with push_region/pop_region sequences (hook); release and debug builds; distinct = set of lines",
        "samples": lines[:2] + lines[len(lines) // 2: len(lines) // 2 + 2] + lines[-2:],
        "disagreements_checked": 2 * len(lines), "disagreements": len(dis),
        "region_sequences_panicking_in_both": npanic,
    })
    if bad:
        rep.violation(f"sinks/sources disagree or panic on: {bad[0]}", {"kind": "case", "case": bad[0], "implementation": bad[1],
                      "rerun": f"echo '{bad[0]}' > /tmp/c && {harness} ioops /tmp/c"})
    C.report_broken(rep, ob, dis, "ioops", bad is not None)
