#!/usr/bin/env python3
"""Generates the STATIC catalogue: real `#[derive(BinaryCodec)]` declarations compiled into the
harness (harness/src/catalogue.rs) together with their description for the model
(gen/catalogue.json).  Deterministic; run `python3 gen/mkcatalogue.py` and commit both files.
This is the only route that executes the derive macro itself."""
import json
import os
import random

V = os.path.dirname(os.path.dirname(os.path.abspath(__file__)))

# --- type DSL -> (rust type, model type tuple) -------------------------------------------
PRIM_RUST = {"u8": "u8", "i8": "i8", "u16": "u16", "i32": "i32", "u64": "u64", "i128": "i128", "bool": "bool",
             "char": "char", "str": "String", "dstr": "DStr", "f64": "F64", "unit": "()", "u32": "u32", "i64": "i64"}


def rust_ty(t, spelling="Option"):
    k = t[0]
    if k == "prim":
        return PRIM_RUST[t[1]]
    if k == "opt":
        if spelling == "paren":          # a parenthesised type: syn::Type::Paren
            return f"(Option<{rust_ty(t[1])}>)"
        return f"{spelling}<{rust_ty(t[1])}>"
    if k == "seq":
        return f"Vec<{rust_ty(t[3])}>"
    if k == "tup":
        inner = ", ".join(rust_ty(x) for x in t[1])
        return f"({inner},)" if len(t[1]) == 1 else f"({inner})"
    if k == "wrap":
        return f"Box<{rust_ty(t[2])}>"
    if k == "named":
        return t[2]
    raise ValueError(t)


def P(p):
    return ("prim", p)


def rust_val(t, v, decls):
    """Rust expression of type t for the model value v (parsed sexp); used for default expressions"""
    k = t[0]
    if k == "prim":
        p = t[1]
        if p in ("u8", "i8", "u16", "i32", "u64", "i128", "u32", "i64"):
            return f"{v[1:]}{p}" if not v[1:].startswith("-") else f"({v[1:]}{p})"
        if p == "bool":
            return "true" if v == "n1" else "false"
        if p == "char":
            return f"char::from_u32({v[1:]}).unwrap()"
        if p == "str":
            return "String::from_utf8(vec![%s]).unwrap()" % ", ".join(str(b) for b in bytes.fromhex(v[1:] if v[1:] != "-" else ""))
        if p == "dstr":
            return "DStr(String::from_utf8(vec![%s]).unwrap())" % ", ".join(str(b) for b in bytes.fromhex(v[1:] if v[1:] != "-" else ""))
        if p == "f64":
            return f"F64(f64::from_bits({v[1:]}u64))"
        if p == "unit":
            return "()"
    if k == "opt":
        if v[0] == "0":
            return f"None::<{rust_ty(t[1])}>"
        return f"Some({rust_val(t[1], v[1], decls)})"
    if k == "seq":
        if isinstance(v, str):      # Vec<u8>: b<hex>
            bs = bytes.fromhex(v[1:] if v[1:] != "-" else "")
            return "vec![%s]" % ", ".join(f"{b}u8" for b in bs) if bs else "Vec::<u8>::new()"
        return "vec![%s]" % ", ".join(rust_val(t[3], x, decls) for x in v[1:]) if len(v) > 1 else f"Vec::<{rust_ty(t[3])}>::new()"
    if k == "tup":
        inner = ", ".join(rust_val(tt, x, decls) for tt, x in zip(t[1], v[1:]))
        return f"({inner},)" if len(t[1]) == 1 else f"({inner})"
    if k == "wrap":
        return f"Box::new({rust_val(t[2], v, decls)})"
    if k == "named":
        d = decls[t[1]]
        assert d["kind"] == "rec"
        inner = ", ".join(f"{f['name']}: {rust_val(f['ty'], x, decls)}" for f, x in zip(d["fields"], v[1:]))
        return f"{d['name']} {{ {inner} }}"
    raise ValueError((t, v))


# --- the catalogue ----------------------------------------------------------------------
def F(name, ty, spelling=None, transient=None, alias=False):
    """field: spelling = how Option is written (None: not an option / 'Option' / 'std::option::Option' /
    'core::option::Option'); alias=True: the Option hides behind a type alias (not detected by the macro)"""
    opt = ty[0] == "opt" and not alias
    return {"name": name, "ty": ty, "opt": opt, "spelling": spelling or "Option", "transient": transient, "alias": alias}


def build():
    D = []

    def rec(name, fields, steps=(), via_ty=False):
        """via_ty: the declaration is stamped out by a macro_rules! macro that takes the field types as `$t:ty`
        fragments, so the derive macro sees every field type inside an invisible group (syn::Type::Group)"""
        D.append({"kind": "rec", "name": name, "fields": list(fields), "steps": list(steps), "via_ty": via_ty})
        return ("named", len(D) - 1, name)

    def enum(name, variants, sorted_=False, via_ty=False):
        D.append({"kind": "enum", "name": name, "sorted": sorted_, "variants": variants, "via_ty": via_ty})
        return ("named", len(D) - 1, name)

    def var(name, fields=(), steps=(), transient=False, shape="struct", disc=None):
        return {"name": name, "fields": list(fields), "steps": list(steps), "transient": transient, "shape": shape,
                "disc": disc}

    u8, i32, u64, s, b, ch = P("u8"), P("i32"), P("u64"), P("str"), P("bool"), P("char")
    # 0-3: plain shapes
    rec("Unit0", [])
    rec("One", [F("a", u8)])
    pt = rec("Pt", [F("x", i32), F("y", i32)])
    rec("Mixed", [F("a", u8), F("s", s), F("o", ("opt", u64)), F("v", ("seq", "vec", 0, i32)), F("t", ("tup", [u8, s])),
                  F("c", ch), F("f", P("f64")), F("w", P("i128"))])
    # option spellings and the alias
    rec("OptStd", [F("a", ("opt", u8), "std::option::Option"), F("b", u8)])
    rec("OptCore", [F("a", u8), F("b", ("opt", s), "core::option::Option")])
    rec("OptAlias", [F("a", ("opt", u8), alias=True), F("b", u8)])
    # the Option type reaches the derive macro inside a group: parenthesised, or as a `$t:ty` fragment of a
    # macro_rules! macro that stamps out the declaration
    rec("OptParen", [F("a", u8), F("b", ("opt", s), "paren")], [("opt", "b")])
    rec("OptParenAdd", [F("id", P("u32")), F("note", ("opt", s), "paren")], [("add", "note", "(0)"), ("opt", "note")])
    rec("OptGroup", [F("id", P("u32")), F("value", ("opt", s))], [("opt", "value")], via_ty=True)
    rec("OptGroup0", [F("a", ("opt", u64)), F("b", ("seq", "vec", 0, ("opt", u8))), F("t", ("opt", u8), transient="(0)")],
        via_ty=True)
    enum("EOptGroup", [var("Empty"), var("Full", [F("payload", ("opt", ("seq", "vec", 0, u8))), F("count", u8)],
                                         [("opt", "payload")])], via_ty=True)
    # transient fields at every position
    rec("TrFirst", [F("t", ("opt", s), transient="(0)"), F("a", u8), F("b", s)])
    rec("TrMid", [F("a", u8), F("t", i32, transient="z-7"), F("b", s)])
    rec("TrLast", [F("a", u8), F("b", s), F("t", ("seq", "vec", 0, u8), transient="b0102")])
    rec("TrTwo", [F("t1", u8, transient="n9"), F("a", u8), F("t2", s, transient="b6869")])
    # evolution: each step kind alone and combined (written as the latest version of a legal history)
    rec("EvAdd", [F("a", u8), F("n", i32)], [("add", "n", "z5")])
    rec("EvAddOpt", [F("a", u8), F("n", ("opt", s))], [("add", "n", "(1 b6869)")])
    rec("EvOpt", [F("a", u8), F("b", ("opt", s))], [("opt", "b")])
    rec("EvOptFirst", [F("a", ("opt", u8)), F("b", s)], [("opt", "a")])
    rec("EvRem", [F("a", u8)], [("rem", "gone")])
    rec("EvTra", [F("a", u8), F("c", s, transient="b78")], [("tra", "c")])
    rec("EvAddOptd", [F("a", u8), F("n", ("opt", i32))], [("add", "n", "(1 z5)"), ("opt", "n")])
    rec("EvOptTra", [F("a", u8), F("c", ("opt", u8), transient="(0)")], [("opt", "c"), ("tra", "c")])
    rec("EvOptRem", [F("a", u8)], [("opt", "c"), ("rem", "c")])
    rec("EvAddRem", [F("a", u8)], [("add", "n", "z5"), ("rem", "n")])
    rec("EvMany", [F("a", u8), F("b", ("opt", s)), F("n1", i32), F("n3", ("seq", "vec", 0, u8))],
        [("add", "n1", "z1"), ("opt", "b"), ("add", "n2", "n2"), ("rem", "n2"), ("add", "n3", "b-"), ("rem", "old")])
    point = rec("Point", [F("x", i32), F("y", i32), F("_cached_str", ("opt", s), transient="(0)")],
                [("add", "x", "z0"), ("rem", "z")])
    rec("Point2", [F("x", i32), F("y", i32), F("_cached_str", ("opt", s), transient="(0)"), F("description", ("opt", s))],
        [("add", "x", "z0"), ("rem", "z"), ("add", "description", "(1 b68656c6c6f)"), ("opt", "description")])
    # dedup strings with headers that carry names
    rec("DdFlat", [F("a", P("dstr")), F("b", P("dstr")), F("c", s)])
    ddi = rec("DdInner", [F("a", P("dstr"))], [("rem", "z")])
    rec("DdOuter", [F("i", ddi), F("b", P("dstr")), F("j", ddi)], [("rem", "z"), ("add", "j", None)])
    # nesting and recursion
    rec("Nest", [F("p", pt), F("q", ("opt", point)), F("l", ("seq", "vec", 0, pt))])
    D.append({"kind": "rec", "name": "List", "fields": [F("head", i32), F("tail", ("opt", ("wrap", "box", ("named", len(D), "List"))))],
              "steps": []})
    D.append({"kind": "rec", "name": "Tree", "fields": [F("label", s), F("kids", ("seq", "vec", 0, ("named", len(D), "Tree")))],
              "steps": [("add", "kids", "(0)")]})
    # enums
    enum("E1", [var("A", shape="unit")])
    enum("E3", [var("A", shape="unit"), var("B", [F("field0", s)], shape="tuple"),
                var("C", [F("pt", ("opt", point)), F("z", u64)])])
    enum("E3s", [var("Zed", shape="unit"), var("Alpha", [F("field0", u8)], shape="tuple"), var("Mid", [F("m", s)])], True)
    enum("ETr0", [var("T", shape="unit", transient=True), var("A", shape="unit"), var("B", [F("field0", u8)], shape="tuple")])
    enum("ETr1", [var("A", shape="unit"), var("T", [F("field0", u8)], shape="tuple", transient=True), var("B", shape="unit")])
    enum("ETr2s", [var("B", shape="unit"), var("A", shape="unit"), var("T", shape="unit", transient=True)], True)
    # sorted constructors whose transient one changes position under the sort (declaration slot 1 -> index 0)
    enum("ETr3s", [var("Write", [F("n", u8)]), var("Flush", [F("pending", u8)], transient=True), var("Read", shape="unit")], True)
    enum("ETr4s", [var("Zeta", shape="unit", transient=True), var("Beta", [F("field0", u8)], shape="tuple"),
                   var("Alpha", shape="unit", transient=True), var("Gamma", shape="unit")], True)
    enum("EEv", [var("A", [F("a", u8), F("n", i32)], [("add", "n", "z5")]),
                 var("B", [F("field0", u8), F("field1", ("opt", s))], [("opt", "field1")], shape="tuple"),
                 var("C", shape="unit")])
    # enum families for extension: E, E+1, E+2 (appended), and the sorted family
    enum("Fam2", [var("A", shape="unit"), var("B", [F("field0", u8)], shape="tuple")])
    enum("Fam3", [var("A", shape="unit"), var("B", [F("field0", u8)], shape="tuple"), var("C", [F("c", s)])])
    enum("Fam4", [var("A", shape="unit"), var("B", [F("field0", u8)], shape="tuple"), var("C", [F("c", s)]),
                  var("D", shape="unit")])
    enum("FamS2", [var("Ab", shape="unit"), var("Aa", [F("field0", u8)], shape="tuple")], True)
    enum("FamS3", [var("Ab", shape="unit"), var("Aa", [F("field0", u8)], shape="tuple"), var("Zz", shape="unit")], True)
    # sorted constructors whose byte order differs from any case-insensitive / "natural" order: 'B' < 'a', '1' < '_' < 'b'
    enum("FamC2", [var("DBError", [F("field0", s)], shape="tuple"), var("Apple", shape="unit")], True)
    enum("FamC3", [var("DBError", [F("field0", s)], shape="tuple"), var("Apple", shape="unit"), var("Data", [F("d", u8)])], True)
    enum("FamC4", [var("DBError", [F("field0", s)], shape="tuple"), var("Apple", shape="unit"), var("Data", [F("d", u8)]),
                   var("aardvark", shape="unit")], True)
    enum("ESortMix", [var("A_b", shape="unit"), var("Ab", [F("field0", u8)], shape="tuple"), var("A1", shape="unit"),
                      var("a", [F("x", u8)]), var("Z", shape="unit")], True)
    # an enum nested in an evolved struct, a struct nested in a variant
    e3 = ("named", [d["name"] for d in D].index("E3"), "E3")
    rec("HasEnum", [F("e", e3), F("k", u8), F("n", ("opt", e3))], [("add", "n", "(0)"), ("rem", "w")])
    # histories compiled version by version (C03 static route): H1 v0..v4
    h = [
        ([F("a", u8), F("b", s), F("c", i32)], []),
        ([F("a", u8), F("b", s), F("c", i32), F("d", u64)], [("add", "d", "n7")]),
        ([F("a", u8), F("b", ("opt", s)), F("c", i32), F("d", u64)], [("add", "d", "n7"), ("opt", "b")]),
        ([F("a", u8), F("b", ("opt", s)), F("d", u64)], [("add", "d", "n7"), ("opt", "b"), ("rem", "c")]),
        ([F("a", u8), F("b", ("opt", s)), F("d", u64, transient="n0")], [("add", "d", "n7"), ("opt", "b"), ("rem", "c"), ("tra", "d")]),
    ]
    for i, (fs, st) in enumerate(h):
        rec(f"H1v{i}", fs, st)
    # added fields declared anywhere in the struct (the chunk is determined by the name, not the position)
    rec("EvMid", [F("n", i32), F("a", u8), F("b", ("opt", s)), F("c", u64)], [("add", "n", "z5"), ("opt", "b")])
    rec("EvMid2", [F("a", u8), F("n1", s), F("b", ("opt", u8)), F("n2", ("seq", "vec", 0, u8)), F("c", i32), F("d", ("opt", s))],
        [("add", "n1", "b78"), ("opt", "b"), ("add", "n2", "b-"), ("opt", "d")])
    enum("EEvMid", [var("A", [F("field0", i32), F("field1", u8), F("field2", ("opt", s)), F("field3", u8)],
                        [("add", "field0", "z1"), ("opt", "field2")], shape="tuple"),
                    var("B", shape="unit")])
    h2 = [
        ([F("a", u8), F("b", s), F("c", i32)], []),
        ([F("n", u64), F("a", u8), F("b", s), F("c", i32)], [("add", "n", "n7")]),
        ([F("n", u64), F("a", u8), F("b", ("opt", s)), F("c", i32)], [("add", "n", "n7"), ("opt", "b")]),
        ([F("n", u64), F("a", u8), F("m", b), F("b", ("opt", s)), F("c", i32)], [("add", "n", "n7"), ("opt", "b"), ("add", "m", "n1")]),
        ([F("n", u64), F("a", u8), F("m", b), F("b", ("opt", s))], [("add", "n", "n7"), ("opt", "b"), ("add", "m", "n1"), ("rem", "c")]),
    ]
    for i, (fs, st) in enumerate(h2):
        rec(f"H2v{i}", fs, st)
    # explicit discriminants do not enter the format: the constructor index is the position
    enum("EDisc", [var("Low", shape="unit", disc=1), var("Mid", shape="unit", disc=5), var("High", shape="unit", disc=10)])
    enum("EDiscS", [var("Low", shape="unit", disc=7), var("Mid", shape="unit", disc=3), var("High", shape="unit", disc=200)], True)
    # transient positional fields inside tuple variants (the persisted ones keep their declaration numbers)
    enum("ETupTr", [var("Segment", [F("field0", P("u32")), F("field1", P("u32"), transient="n0"), F("field2", P("u32"))], shape="tuple"),
                    var("Entry", [F("field0", u64), F("field1", b, transient="n0"), F("field2", s)], shape="tuple"),
                    var("Lead", [F("field0", u8, transient="n9"), F("field1", s), F("field2", u8, transient="n1")], shape="tuple")])
    # a removed Option field followed in its chunk by a field that was made optional later (older readers skip
    # the removed field by name and must still find the made-optional entry of the field behind it)
    h3 = [
        ([F("nickname", ("opt", s)), F("age", P("u32")), F("score", P("u16"))], []),
        ([F("age", ("opt", P("u32"))), F("score", P("u16"))], [("rem", "nickname"), ("opt", "age")]),
        ([F("age", ("opt", P("u32"))), F("score", P("u16")), F("tail", u8)], [("rem", "nickname"), ("opt", "age"), ("add", "tail", "n4")]),
    ]
    for i, (fs, st) in enumerate(h3):
        rec(f"H3v{i}", fs, st)
    # a history on an enum VARIANT, compiled version by version (the variant's own metadata static)
    enum("HEv0", [var("A", [F("a", u8)]), var("B", shape="unit")])
    enum("HEv1", [var("A", [F("a", u8), F("n", i32)], [("add", "n", "z5")]), var("B", shape="unit")])
    enum("HEv2", [var("A", [F("a", ("opt", u8)), F("n", i32)], [("add", "n", "z5"), ("opt", "a")]), var("B", shape="unit")])
    enum("HEv3", [var("A", [F("a", ("opt", u8)), F("n", i32), F("s", ("opt", s))],
                      [("add", "n", "z5"), ("opt", "a"), ("add", "s", "(0)")]), var("B", shape="unit")])
    # the same for constructors that START as unit constructors and gain fields later (a unit constructor written
    # `A`, an empty tuple constructor `T()`, an empty struct constructor `S {}`): older readers must skip what newer
    # writers added
    enum("HUv0", [var("A", shape="unit"), var("T", shape="tuple"), var("S"), var("K", [F("k", u8)])])
    enum("HUv1", [var("A", [F("n", i32)], [("add", "n", "z5")]), var("T", shape="tuple"),
                  var("S", [F("q", ("opt", s))], [("add", "q", "(0)")]), var("K", [F("k", u8)])])
    enum("HUv2", [var("A", [F("n", i32), F("m", ("seq", "vec", 0, u8))], [("add", "n", "z5"), ("add", "m", "b0102")]),
                  var("T", [F("field0", u64)], [("add", "field0", "n7")], shape="tuple"),
                  var("S", [F("q", ("opt", s))], [("add", "q", "(0)")]), var("K", [F("k", u8)])])
    # header names of 63 / 64 / 65 bytes (the length prefix of a name changes width at 64); Option spelled with a
    # leading `::` under a FieldMadeOptional step
    rec("LongNames", [F("a", u8), F("q" * 64, ("opt", u8), transient="(0)")],
        [("rem", "x" * 64), ("rem", "y" * 63), ("tra", "q" * 64), ("rem", "z" * 65)])
    rec("OptAbs", [F("a", ("opt", u8), "::std::option::Option"), F("b", u8), F("c", ("opt", s), "::core::option::Option")],
        [("opt", "a"), ("add", "c", "(0)"), ("opt", "c")])
    # raw identifiers as field names: the wire name is the identifier as written (`r#type`), and evolution steps
    # name it that way
    rec("RawId", [F("r#type", u8), F("r#match", ("opt", s)), F("plain", i32)], [("opt", "r#match")])
    rec("RawId2", [F("r#type", ("opt", u8)), F("r#loop", i32)], [("add", "r#loop", "z7"), ("opt", "r#type")])
    # a unit constructor that carries evolution steps of its own (stored with a header although it has no fields),
    # followed by more data; a recursive record WITH evolution steps (every level opens chunk regions)
    eue = enum("EUnitEv", [var("A", shape="unit", steps=[("rem", "old")]), var("B", [F("field0", u8)], shape="tuple"),
                           var("C", steps=[("add", "gone", "n1"), ("rem", "gone")])])
    rec("UnitEvHolder", [F("e", eue), F("id", P("u32")), F("es", ("seq", "vec", 0, eue)), F("tail", s)])
    D.append({"kind": "rec", "name": "ListEv", "fields": [F("head", i32), F("tail", ("opt", ("wrap", "box", ("named", len(D), "ListEv")))),
                                                          F("note", ("opt", s))],
              "steps": [("add", "note", "(0)")]})
    # de-duplicated strings in fields whose WRITING order matters: an added field (own chunk) declared before fields
    # of the initial version - writer and reader must still meet the strings in the same order
    dd = P("dstr")
    rec("DdMid", [F("n", dd), F("a", dd), F("b", dd)], [("add", "n", "b7a")])
    rec("DdMid2", [F("a", dd), F("m", dd), F("b", dd), F("k", ("opt", dd))], [("add", "m", "b61"), ("add", "k", "(0)")])
    enum("EDdMid", [var("A", [F("n", dd), F("a", dd)], [("add", "n", "b7a")]), var("B", shape="unit"),
                    var("C", [F("field0", dd), F("field1", dd)], shape="tuple")])
    rec("DdMidOuter", [F("x", dd), F("i", ("named", len(D) - 3, "DdMid")), F("e", ("named", len(D) - 1, "EDdMid")), F("y", dd)],
        [("rem", "z")])
    # seeded random declarations over the small vocabulary
    rng = random.Random(20260930)
    vocab = [u8, i32, u64, s, b, ch, ("opt", u8), ("opt", s), ("seq", "vec", 0, u8), ("seq", "vec", 0, s),
             ("tup", [u8, s]), pt, ("opt", pt), ("seq", "vec", 0, pt), P("dstr"), P("i128"), P("f64")]
    names = ["a", "b", "c", "d", "e", "f", "g", "h"]
    for i in range(40):
        nf = rng.choice([1, 2, 3, 4, 5])
        fs = []
        for j in range(nf):
            t = rng.choice(vocab)
            sp = rng.choice(["Option", "Option", "std::option::Option", "core::option::Option"]) if t[0] == "opt" else None
            fs.append(F(names[j], t, sp))
        steps = []
        c = rng.random()
        if c < 0.5 and nf >= 2:
            # last field was added; maybe made optional
            last = fs[-1]
            dv = {"u8": "n3", "i32": "z-4", "u64": "n10", "str": "b6464", "bool": "n1", "char": "n65", "dstr": "b6464",
                  "i128": "z-1", "f64": "n4607182418800017408"}
            def dflt(t):
                if t[0] == "prim":
                    return dv[t[1]]
                if t[0] == "opt":
                    return "(0)" if rng.random() < 0.5 else f"(1 {dflt(t[1])})"
                if t[0] == "seq":
                    return "b-" if t[3] == ("prim", "u8") else "(0)"
                if t[0] == "tup":
                    return "(0 " + " ".join(dflt(x) for x in t[1]) + ")"
                if t[0] == "named":
                    return "(0 z1 z2)"
            steps.append(("add", last["name"], dflt(last["ty"])))
            if rng.random() < 0.5:
                fs.insert(rng.randrange(len(fs)), fs.pop())      # declare the added field somewhere else
            if rng.random() < 0.4:
                steps.append(("rem", "zz"))
        elif c < 0.7:
            cands = [f for f in fs if f["ty"][0] == "opt" and f["spelling"]]
            if cands:
                steps.append(("opt", rng.choice(cands)["name"]))
        if rng.random() < 0.3:
            fs.insert(rng.randrange(len(fs) + 1), F("tmp", u8, transient="n42"))
        rec(f"R{i}", fs, steps)
    # second generation: declarations produced by SIMULATING legal histories (any interleaving of FieldAdded anywhere
    # in the struct, FieldMadeOptional, FieldRemoved, FieldMadeTransient), zero-width and transient fields, and
    # enums with random shapes, transient constructors at any position, sorted or not, evolved variants
    rng2 = random.Random(20261001)
    dv = {"u8": "n3", "i8": "z-3", "u16": "n513", "i32": "z-4", "u64": "n10", "str": "b6464", "bool": "n1", "char": "n65",
          "dstr": "b6464", "i128": "z-1", "f64": "n4607182418800017408", "unit": "(0)", "u32": "n70000", "i64": "z-5"}
    vocab2 = [u8, P("i8"), P("u16"), i32, u64, s, b, ch, P("unit"), P("u32"), P("i64"), P("dstr"), P("i128"), P("f64"),
              ("opt", u8), ("opt", s), ("opt", P("unit")), ("seq", "vec", 0, u8), ("seq", "vec", 0, s),
              ("seq", "vec", 0, ("opt", u8)), ("tup", [u8, s]), ("tup", [P("unit")]), ("wrap", "box", i32), pt, ("opt", pt),
              ("seq", "vec", 0, pt)]

    def dflt2(t):
        if t[0] == "prim":
            return dv[t[1]]
        if t[0] == "opt":
            return "(0)" if rng2.random() < 0.5 else f"(1 {dflt2(t[1])})"
        if t[0] == "seq":
            return "b-" if t[3] == ("prim", "u8") else "(0)"
        if t[0] == "tup":
            return "(0 " + " ".join(dflt2(x) for x in t[1]) + ")"
        if t[0] == "wrap":
            return dflt2(t[2])
        if t[0] == "named":
            return "(0 z1 z2)"

    def rand_body(nsteps, names, positional=False):
        """fields + steps of a legal history; positional (tuple variant): fields are field0.. and only appended"""
        pool = list(names)
        fs, steps, gen = [], [], {}
        for _ in range(rng2.choice([0, 1, 2, 3])):
            t = rng2.choice(vocab2)
            f = F(pool.pop(0), t, "Option" if t[0] == "opt" else None)
            fs.append(f)
            gen[f["name"]] = 0
        if not positional and rng2.random() < 0.2:
            t = rng2.choice([u8, s, ("opt", u8)])
            fs.insert(rng2.randrange(len(fs) + 1), F("tmp", t, "Option" if t[0] == "opt" else None, transient=dflt2(t)))
        for k in range(1, nsteps + 1):
            c = rng2.random()
            written = [f for f in fs if f["transient"] is None]
            c0 = [f for f in written if gen.get(f["name"], 0) == 0]
            removable = [f for f in written if gen.get(f["name"], 0) > 0] + ([c0[-1]] if c0 else [])
            if c < 0.45 and pool:
                t = rng2.choice(vocab2)
                f = F(pool.pop(0), t, "Option" if t[0] == "opt" else None)
                fs.insert(len(fs) if positional else rng2.randrange(len(fs) + 1), f)
                gen[f["name"]] = k
                steps.append(("add", f["name"], dflt2(t)))
            elif c < 0.65:
                cands = [f for f in written if f["ty"][0] != "opt"]
                if not cands:
                    continue
                f = rng2.choice(cands)
                f["ty"] = ("opt", f["ty"])
                f["opt"] = True
                f["spelling"] = rng2.choice(["Option", "Option", "std::option::Option"])
                # the default of an earlier FieldAdded step is an expression of the field's declared (now Option) type
                steps = [("add", st[1], f"(1 {st[2]})") if st[0] == "add" and st[1] == f["name"] else st for st in steps]
                steps.append(("opt", f["name"]))
            elif c < 0.85 and removable and not positional:
                f = rng2.choice(removable)
                fs.remove(f)
                steps.append(("rem", f["name"]))
            elif removable and not positional:
                f = rng2.choice(removable)
                f["transient"] = dflt2(f["ty"])
                steps.append(("tra", f["name"]))
        if positional and fs and rng2.random() < 0.35:
            f = rng2.choice(fs)
            if f["transient"] is None and not any(st[1] == f["name"] for st in steps):
                f["transient"] = dflt2(f["ty"])
        if positional:
            ren = {f["name"]: f"field{i}" for i, f in enumerate(fs)}
            for f in fs:
                f["name"] = ren[f["name"]]
            steps = [(st[0], ren.get(st[1], st[1])) + tuple(st[2:]) for st in steps]
        return fs, steps

    fnames = ["a", "b", "c", "d", "e", "f", "g", "h", "k", "m"]
    for i in range(40):
        fs, steps = rand_body(rng2.choice([0, 1, 2, 3, 4]), fnames)
        rec(f"S{i}", fs, steps)
    vpool = ["Apple", "DBError", "Data", "aardvark", "Zed", "Alpha", "Mid", "A1", "A_b", "Ab", "Z", "B2", "Beta", "b", "Url",
             "Write", "Flush", "Read"]
    for i in range(40):
        vnames = rng2.sample(vpool, rng2.choice([1, 2, 3, 4, 5]))
        variants = []
        for vn in vnames:
            shape = rng2.choice(["unit", "tuple", "struct", "struct"])
            tr = rng2.random() < 0.2
            if shape == "unit":
                variants.append(var(vn, shape="unit", transient=tr))
                continue
            fs, steps = rand_body(0 if tr else rng2.choice([0, 0, 1, 2, 3]), fnames, positional=(shape == "tuple"))
            if not fs:
                variants.append(var(vn, shape="unit", transient=tr))
            else:
                variants.append(var(vn, fs, steps, transient=tr, shape=shape))
        enum(f"T{i}", variants, rng2.random() < 0.4)
    return D


# --- emit Rust ---------------------------------------------------------------------------
def rust_steps(steps, fields, decls):
    out = []
    for s in steps:
        if s[0] == "add":
            f = next((f for f in fields if f["name"] == s[1]), None)
            if s[2] is None:
                # default of a record type: build it from its own zero value
                out.append(f'FieldAdded("{s[1]}", DdInner {{ a: DStr(String::new()) }})')
            elif f is not None:
                out.append(f'FieldAdded("{s[1]}", {rust_val(f["ty"], parse(s[2]), decls)})')
            else:
                # the field was removed later: its type is recorded nowhere; use the literal's own shape
                out.append(f'FieldAdded("{s[1]}", {literal(parse(s[2]))})')
        elif s[0] == "opt":
            out.append(f'FieldMadeOptional("{s[1]}")')
        elif s[0] == "rem":
            out.append(f'FieldRemoved("{s[1]}")')
        else:
            out.append(f'FieldMadeTransient("{s[1]}")')
    return out


def literal(v):
    if isinstance(v, str):
        if v[0] == "n":
            return v[1:] + "u8" if int(v[1:]) < 256 else v[1:] + "u64"
        if v[0] == "z":
            return v[1:] + "i32"
    return "()"


def parse(s):
    from gen import sx
    return sx.parse(s)


def emit(D):
    o = []
    o.append("// GENERATED by gen/mkcatalogue.py - do not edit. Real #[derive(BinaryCodec)] declarations.")
    o.append("#![allow(non_camel_case_types, dead_code, unused_parens, clippy::all)]")
    o.append("use crate::sx::Sx;")
    o.append("use crate::sxv::*;")
    o.append("use desert::BinaryCodec;")
    o.append("")
    o.append("type MaybeU8 = Option<u8>;")
    o.append("")
    o.append("macro_rules! via_ty_struct {")
    o.append("    ($(#[$m:meta])* pub struct $name:ident { $( $(#[$fm:meta])* pub $f:ident : $t:ty ),* $(,)? }) => {")
    o.append("        $(#[$m])* pub struct $name { $( $(#[$fm])* pub $f : $t ),* }")
    o.append("    };")
    o.append("}")
    o.append("macro_rules! via_ty_enum {")
    o.append("    ($(#[$m:meta])* pub enum $name:ident { $( $(#[$vm:meta])* $v:ident { $( $(#[$fm:meta])* $f:ident : $t:ty ),* $(,)? } ),* $(,)? }) => {")
    o.append("        $(#[$m])* pub enum $name { $( $(#[$vm])* $v { $( $(#[$fm])* $f : $t ),* } ),* }")
    o.append("    };")
    o.append("}")
    o.append("")
    for d in D:
        if d.get("via_ty"):
            o.append("via_ty_struct! {" if d["kind"] == "rec" else "via_ty_enum! {")
        if d["kind"] == "rec":
            st = rust_steps(d["steps"], d["fields"], D)
            o.append("#[derive(BinaryCodec)]")
            if st and len(st) >= 2 and (len(d["name"]) + len(st)) % 3 == 0:
                for one in st:            # the same history declared with one attribute per step
                    o.append(f"#[evolution({one})]")
            elif st:
                o.append(f"#[evolution({', '.join(st)})]")
            if not d["fields"]:
                o.append(f"pub struct {d['name']};")
            else:
                o.append(f"pub struct {d['name']} {{")
                for f in d["fields"]:
                    if f["transient"] is not None:
                        o.append(f"    #[transient({rust_val(f['ty'], parse(f['transient']), D)})]")
                    ty = "MaybeU8" if f["alias"] else rust_ty(f["ty"], f["spelling"])
                    o.append(f"    pub {f['name']}: {ty},")
                o.append("}")
        else:
            o.append("#[derive(BinaryCodec)]")
            if d["sorted"]:
                o.append("#[sorted_constructors]")
            o.append(f"pub enum {d['name']} {{")
            for v in d["variants"]:
                st = rust_steps(v["steps"], v["fields"], D)
                if v["transient"]:
                    o.append("    #[transient]")
                if st and len(st) >= 2 and (len(v["name"]) + len(st)) % 2 == 0:
                    for one in st:
                        o.append(f"    #[evolution({one})]")
                elif st:
                    o.append(f"    #[evolution({', '.join(st)})]")
                if v["shape"] == "unit":
                    o.append(f"    {v['name']}{' = ' + str(v['disc']) if v.get('disc') is not None else ''},")
                elif v["shape"] == "tuple":
                    parts = []
                    for f in v["fields"]:
                        tr = f"#[transient({rust_val(f['ty'], parse(f['transient']), D)})] " if f["transient"] is not None else ""
                        parts.append(tr + rust_ty(f["ty"], f["spelling"]))
                    o.append(f"    {v['name']}({', '.join(parts)}),")
                else:
                    o.append(f"    {v['name']} {{")
                    for f in v["fields"]:
                        if f["transient"] is not None:
                            o.append(f"        #[transient({rust_val(f['ty'], parse(f['transient']), D)})]")
                        o.append(f"        {f['name']}: {rust_ty(f['ty'], f['spelling'])},")
                    o.append("    },")
            o.append("}")
        if d.get("via_ty"):
            o.append("}")
        o.append("")
    # conversions
    for d in D:
        n = d["name"]
        o.append(f"impl Sxv for {n} {{")
        if d["kind"] == "rec":
            o.append("    fn from_sx(s: &Sx) -> Self {")
            o.append("        let l = s.list();")
            if not d["fields"]:
                o.append(f"        let _ = l; {n}")
            else:
                o.append(f"        {n} {{ " + ", ".join(f"{f['name']}: Sxv::from_sx(&l[{i + 1}])" for i, f in enumerate(d["fields"])) + " }")
            o.append("    }")
            o.append("    fn to_sx(&self) -> String {")
            parts = ", ".join(f"self.{f['name']}.to_sx()" for f in d["fields"])
            o.append(f"        node(0, vec![{parts}])")
            o.append("    }")
        else:
            o.append("    fn from_sx(s: &Sx) -> Self {")
            o.append("        let l = s.list();")
            o.append("        match l[0].atom() {")
            for i, v in enumerate(d["variants"]):
                if v["shape"] == "unit":
                    o.append(f'            "{i}" => {n}::{v["name"]},')
                elif v["shape"] == "tuple":
                    o.append(f'            "{i}" => {n}::{v["name"]}(' + ", ".join(f"Sxv::from_sx(&l[{j + 1}])" for j in range(len(v["fields"]))) + "),")
                else:
                    o.append(f'            "{i}" => {n}::{v["name"]} {{ ' + ", ".join(f"{f['name']}: Sxv::from_sx(&l[{j + 1}])" for j, f in enumerate(v["fields"])) + " },")
            o.append('            t => panic!("bad variant tag {t}"),')
            o.append("        }")
            o.append("    }")
            o.append("    fn to_sx(&self) -> String {")
            o.append("        match self {")
            for i, v in enumerate(d["variants"]):
                if v["shape"] == "unit":
                    o.append(f"            {n}::{v['name']} => node({i}, vec![]),")
                elif v["shape"] == "tuple":
                    bs = ", ".join(f"f{j}" for j in range(len(v["fields"])))
                    o.append(f"            {n}::{v['name']}({bs}) => node({i}, vec![" + ", ".join(f"f{j}.to_sx()" for j in range(len(v["fields"]))) + "]),")
                else:
                    bs = ", ".join(f["name"] for f in v["fields"])
                    o.append(f"            {n}::{v['name']} {{ {bs} }} => node({i}, vec![" + ", ".join(f"{f['name']}.to_sx()" for f in v["fields"]) + "]),")
            o.append("        }")
            o.append("    }")
        o.append("}")
        o.append("")
    # dispatch
    o.append("pub fn static_enc(name: &str, s: &Sx) -> Option<desert::Result<Vec<u8>>> {")
    o.append("    Some(match name {")
    for d in D:
        o.append(f'        "{d["name"]}" => desert::serialize_to_byte_vec(&<{d["name"]} as Sxv>::from_sx(s)),')
    o.append("        _ => return None,")
    o.append("    })")
    o.append("}")
    o.append("")
    o.append("pub fn static_dec(name: &str, bytes: &[u8]) -> Option<desert::Result<(String, usize)>> {")
    o.append("    Some(match name {")
    for d in D:
        o.append(f'        "{d["name"]}" => dec_with_rest::<{d["name"]}>(bytes),')
    o.append("        _ => return None,")
    o.append("    })")
    o.append("}")
    return "\n".join(o) + "\n"


def model_ty(t):
    k = t[0]
    if k == "named":
        return ["named", t[1]]
    if k == "prim":
        return ["prim", t[1]]
    if k == "opt":
        return ["opt", model_ty(t[1])]
    if k == "seq":
        return ["seq", t[1], t[2], model_ty(t[3])]
    if k == "tup":
        return ["tup", [model_ty(x) for x in t[1]]]
    if k == "wrap":
        return ["wrap", t[1], model_ty(t[2])]
    raise ValueError(t)


def describe(D):
    def fld(f):
        return {"name": f["name"], "ty": model_ty(f["ty"]), "opt": f["opt"], "transient": f["transient"]}

    def steps(st):
        out = []
        for s in st:
            if s[0] == "add":
                out.append(["add", s[1], s[2] if s[2] is not None else "(0 b-)"])
            else:
                out.append([s[0], s[1]])
        return out
    out = []
    for d in D:
        if d["kind"] == "rec":
            out.append({"kind": "rec", "name": d["name"], "fields": [fld(f) for f in d["fields"]], "steps": steps(d["steps"])})
        else:
            out.append({"kind": "enum", "name": d["name"], "sorted": d["sorted"],
                        "variants": [{"name": v["name"], "transient": v["transient"], "fields": [fld(f) for f in v["fields"]],
                                      "steps": steps(v["steps"])} for v in d["variants"]]})
    return out


if __name__ == "__main__":
    import sys
    sys.path.insert(0, V)
    D = build()
    with open(os.path.join(V, "harness", "src", "catalogue.rs"), "w") as f:
        f.write(emit(D))
    with open(os.path.join(V, "gen", "catalogue.json"), "w") as f:
        json.dump(describe(D), f, indent=0)
    print(len(D), "declarations")
