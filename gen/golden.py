"""The Scala-produced golden file of /repo (desert_macro/golden/dataset1.bin) as a case of the
dynamic route: the declarations of desert_macro/tests/golden.rs in the case language."""
import os
from . import common as C
from . import gencases as G

P = G.P
S = P("str")


def F(name, ty, opt=False, transient=None):
    return {"name": name, "ty": ty, "opt": opt, "transient": transient}


def env():
    """indices: 0 TestModel1, 1 ListElement1, 2 ListElement2, 3 Throwable, 4 StackTraceElement"""
    le1, le2, thr, ste = ("named", 1), ("named", 2), ("named", 3), ("named", 4)
    return [
        {"kind": "rec", "name": "TestModel1", "fields": [
            F("byte", P("i8")), F("short", P("i16")), F("int", P("i32")), F("long", P("i64")), F("float", P("f32")),
            F("double", P("f64")), F("boolean", P("bool")), F("unit", P("unit")), F("string", S), F("uuid", P("uuid")),
            F("exception", thr), F("list", ("seq", "vec", 0, le1)), F("array", ("seq", "vec", 0, P("i64"))),
            F("vector", ("seq", "vec", 0, le1)), F("set", ("seq", "hset", 0, S)), F("either", ("res", P("bool"), S)),
            F("tried", ("res", le2, thr)), F("option", ("opt", ("map", "hmap", S, le2)), opt=True)],
         "steps": [("opt", "option"), ("add", "string", "b" + "default string".encode().hex()), ("add", "set", "(0)")]},
        {"kind": "rec", "name": "ListElement1", "fields": [F("id", S)], "steps": []},
        {"kind": "enum", "name": "ListElement2", "sorted": True, "variants": [
            {"name": "First", "transient": False, "fields": [F("elem", le1)], "steps": []},
            {"name": "Second", "transient": False,
             "fields": [F("uuid", P("uuid")), F("desc", ("opt", S), opt=True), F("_cached", ("opt", S), opt=True, transient="(0)")],
             "steps": [("tra", "cached")]},
            {"name": "Third", "transient": True, "fields": [F("_file", S)], "steps": []}]},
        {"kind": "rec", "name": "Throwable", "fields": [
            F("class_name", S), F("message", S), F("stack_trace", ("seq", "vec", 0, ste)),
            F("cause", ("opt", ("wrap", "box", thr)), opt=True)], "steps": []},
        # hand-written in golden.rs: version byte 0, three Option<String>, write_var_u32(line_number) -
        # byte for byte what a version-0 record with a var-int last field is
        {"kind": "rec", "name": "StackTraceElement", "fields": [
            F("class_name", ("opt", S), opt=True), F("method_name", ("opt", S), opt=True), F("file_name", ("opt", S), opt=True),
            F("line_number", P("varu32"))], "steps": []},
    ]


def golden_hex():
    return open(os.path.join(C.REPO, "desert_macro", "golden", "dataset1.bin"), "rb").read().hex()
