#!/usr/bin/env python3
"""Regenerates MANIFEST.json from the table below (run: python3 gen/manifest.py)."""
import json
import os

V = os.path.dirname(os.path.dirname(os.path.abspath(__file__)))
TB = ("Trusted: Coq 8.16.1 kernel (full .vo build); the hand-written Gallina model (coq/*.v) is tied to /repo by "
      "differential execution of the extracted model (ExtrOcamlBasic only, no Extract Constant) and the Rust harness "
      "on the same generated cases on every run; OCaml/Rust/Python glue. Every theorem: Closed under the global context.")
CORR = " + model/implementation correspondence (extracted model vs harness built from the working tree)"

CHECKS = {
 "C01": ("Theorem over ALL type expressions without declarations (any nesting) and all well-formed values: decoding "
         "encode(v) ++ s yields v, leaves s, same string table (CodecRt2.roundtrip_A by fuel induction; primitive, "
         "sequence, set, map, tuple lemmas); also through the Rust cursor model (layer B). Tie: dynamic-route harness "
         "runs the library's generic impls at run-time chosen types; bytes and decoded values compared with the model.",
         "6 C01", "The chrono and chrono-tz codecs are inside the theorem: what chrono accepts (calendar, leap seconds, ranges, "
         "offsets, the 596 zone names) is written out in Calendar.v/TzNames.v as oracles whose agreement with the crates is "
         "sampled on every boundary (C05 calendar grid) and, for the names, compared on every run; DateTime<Local> under "
         "TZ=UTC. BigDecimal is inside the theorem too: the decimal text the bigdecimal crate renders and parses "
         "(Display, FromStr, num-bigint's integer parser, i128::from_str) is written out in BigDec.v as an oracle and "
         "proved to round-trip for every integer and every i64 scale (C01_bigdecimal_text, BigDecLemmas.v); its agreement "
         "with the crates is sampled by a value stream and a text stream on every run. C01_injective: distinct values "
         "never share an encoding. " + TB),
 "C02": ("Theorem over ALL declaration environments (records, enums, transient/optional fields, evolution steps on "
         "structs and variants, sorted constructors, recursion) and values: decode(encode v) = v with transient fields "
         "reset (RecordRt.rt_record_v0, RecordChunked.rt_record_chunked: header parse, chunk cutting, field loop). Tie: "
         "dynamic route drives AdtSerializer/AdtDeserializer as the macro output does; the macro itself is exercised by "
         "the static catalogue AND by a translator (gen/expand.py): rustc's macro expansion of each of the 186 catalogue "
         "types is translated into the procedure it performs (metadata steps, ordered write_field/read_field/"
         "read_optional_field calls with defaults, constructor indices, transient constructors) and compared with the "
         "procedure the model executes for the declaration, on every run.",
         "6 C02", "wf_env/wf_env_rt hypotheses: <=127 steps and fields, UTF-8 names, Option-spelled fields for "
         "FieldMadeOptional (known class optalias excluded). " + TB),
 "C03": ("Theorem c03 (Evolution.v, 2100 lines): for ALL legal histories (FieldAdded with default, FieldMadeOptional, "
         "FieldRemoved, FieldMadeTransient in any interleaving), ALL pairs of versions (kw, kr), ALL values and ALL suffixes, "
         "the record writer of version kw followed by the record reader of version kr yields exactly `expected` (layer V, "
         "History.v: default for an added field, wrap/unwrap for made-optional, None or FieldRemovedInSerializedVersion for "
         "removed/transient, NonOptionalFieldSerializedAsNone) and, when framed, leaves exactly the suffix. Tie: `expected` "
         "itself is compared with the implementation on random histories x version pairs x values, top level and embedded "
         "(dynamic route), plus a history compiled version by version with the real macro (static route).",
         "6 C03", "Stated for field codecs that leave the string table alone (fields_neutral; DESIGN 9.4) - the instantiation "
         "at enc/dec for neutral field types is C03_pairs_top (records) and C03_pairs_variant (a constructor at any position of "
         "any enum, sorted or not). " + TB),
 "C04": ("The reference format of DESIGN section 4 is Codec.enc (concatenative, over byte lists); 21 layout theorems pin "
         "its constants construct by construct for all values (big-endian, zig-zag string length, unsigned byte-array length, "
         "Option/Result tags, count-prefixed sequences, version byte, header/chunk order, position byte sign, enum index). "
         "Converse: round trip of the known form (roundtrip) AND of the encoder that writes every sequence and map in the "
         "unknown-length form at every nesting level (AltProofs.roundtrip_U), mixed choices by C12_forms_agree. Tie: "
         "implementation bytes = reference bytes for every value of the C01/C02 streams (dynamic route) and every catalogue "
         "type (static route, real macro), the pinned Point vector, and the implementation decoding reference-built "
         "unknown-form encodings.",
         "6 C04", "There is a single encoder model, so 'B.serialize = A.encode' is by construction and the tie to the code is "
         "the correspondence run. External anchors: the Scala-written golden file (the reference decoder reads the value the "
         "implementation reads; the reference encoding of that value differs from Scala's only in the size form of one list "
         "and one repeated header name and is read back as the same value) and the Point vector. BigDecimal's layout "
         "(String of the decimal text, trailing zeros included) is checked against an independent Python rendering as "
         "well as against the model (BigDec.v). " + TB),
 "C05": ("Theorems: the top-level decoder over the DeserializationContext model (usize arithmetic with explicit Panic, "
         "region stack, index/slice/unwrap) never panics for any bytes and any well-formed type (TotalProofs + SimProofs: "
         "layer B simulates layer A); the three sources answer every count in N like the reference source; TERMINATION "
         "(TermProofs): every successful decode of a non-zero-width type consumes at least one byte of its region, a fuel "
         "linear in the unread bytes suffices for every type without sequences of zero-width elements (recursive "
         "declarations included), and without that restriction fuel_bound + 2^31 suffices (the count governs it: F14). SIZE "
         "of the result (SizeProofs): false with de-duplicated strings (C05_size_refuted: known finding F30), linear in the "
         "bytes consumed for every type and environment without them (C05_size_linear), at most quadratic in the input for every "
         "type (C05_size_quadratic). Allocator behaviour and stack depth "
         "are measured, not proved. Tie: malformed streams (exhaustive short strings, "
         "structure-aware mutants, random) in release and debug builds with catch_unwind, watchdog, RLIMIT_AS, counting "
         "allocator.",
         "6 C05", "Known finding F30 (back-references to de-duplicated strings are expanded: memory quadratic in the input) "
         "re-confirmed each run with its control; known finding F14 (zero-width sequence elements) excluded from the stream and re-confirmed each run; "
         "known finding F27 (stack exhaustion beyond ~3000 nesting levels; the model has no stack) probed each run at "
         "100/1000/10000/100000 levels. " + TB),
 "C06": ("Theorems: whatever layer B accepts is exactly what the reference decoder assigns (sound, complete, errors "
         "agree); chunk confinement = the simulation relation (a region denotes a sub-list at every step); accepted "
         "input is suffix-independent; arrays need exactly N elements; DenoteProofs (2550 lines): EVERY value the decoder "
         "returns, from any accepted input, is a well-formed value of the type and its own normal form "
         "(C06_decoded_values_are_wellformed), and the canonical encoding of that value denotes the same value (C06_denotes, "
         "C06_denotes_evolved). Tie: tampered encodings of evolved/nested records, "
         "arrays, maps: implementation Ok(v) only where the reference says Ok(v).",
         "6 C06", "C06_denotes is proved for declarations without evolution steps; with steps the size limits of the format cannot "
         "be excluded from a bound on the input (C06_denotes_evolved classifies the writer's outcomes). Hypothesis defaults_wf: "
         "declared defaults are values of their fields' types (Rust's type checker). " + TB),
 "C07": ("Theorems: for all suffixes s decode(encode v ++ s) leaves exactly s; consecutive values are read back "
         "consecutively; any accepted input is consumed as a prefix and is suffix-independent (TruncProofs.decA_stable); the "
         "code is prefix-free (C07_prefix_free: no encoding of a type is a strict prefix of another).",
         "6 C07", "Cross-version (evolved reader/writer) self-delimitation is part of C03. " + TB),
 "C08": ("Theorems: every strict prefix of every encoding is an error on layers A and B; more generally cutting "
         "inside what any successful decode consumed yields an error; C08_cross_version: prefixes of version-kw data are "
         "rejected by the version-kr reader of a legal history whenever the pair is framed. Tie: every cut of generated "
         "encodings under the writing definition, and of evolved records under older and newer definitions.",
         "6 C08", TB),
 "C09": ("Theorems: the general round trip threads the string table through every codec (DeduplicatedString is a "
         "primitive of the type language; evolved records register header names when opened), so any arrangement of "
         "dedup/plain strings decodes to what was written and the reader ends with the writer's table; first occurrence "
         "= plain string bytes; ids 1,2,.. in first-occurrence order; a repeat = var_i32(-id) of at most 5 bytes; an id "
         "never introduced is InvalidStringId. Tie: repetition-heavy streams over a tiny alphabet incl. header names.",
         "6 C09", "Reading with a different definition while dedup strings are in use is outside the property (DESIGN 9.4). "
         "Limit: fewer than 2^31 distinct strings per stream. " + TB),
 "C10": ("Theorems about the canonical codec over the two reference-tracking primitives (Graph.v, mirrored by "
         "harness/src/graph.rs on Rc<Node>): encoding terminates on cyclic graphs with fuel |g|+1; the table is duplicate-"
         "free, starts with the root and is exactly the reachable set; decode(encode g) = g restricted to reachable nodes "
         "renumbered by first encounter (isomorphism: injective, label- and edge-order-preserving), any suffix untouched; "
         "an id never introduced is InvalidRefId; a known object is written as its id only. Tie: all rooted digraphs with "
         "<= 3 nodes, random to 40 nodes, against model and an independent Python DFS.",
         "6 C10", "The theorems are about the model of the codec; the library primitives themselves (HashMap keyed by "
         "*const dyn Any) are tied by the correspondence run. " + TB),
 "C12": ("Theorems: sequence bytes do not depend on the container kind; what container k1 wrote decodes under k2 to the "
         "same elements collected into k2; the unknown-length form decodes identically for every container kind; byte "
         "containers are interchangeable. Tie: full source x target matrix, maps from lists of pairs, unknown form "
         "produced by the model and by serialize_iterator with an inexact size hint.",
         "6 C12", TB),
 "C13": ("Theorems: layout 00 ++ var_u32(index) ++ record; index = declaration position or position in the stable "
         "byte-lexicographic sort (permutation + sortedness proved); appended constructors leave old data's meaning "
         "unchanged; unknown index -> InvalidConstructorId for every index and suffix; transient constructors -> the "
         "dedicated errors in both directions. Tie: static route (real derive macro on the compiled catalogue: families "
         "E, E+1, E+2, sorted families, transient positions) and dynamic route with random extensions.",
         "6 C13", TB),
 "C14": ("Theorems: values agreeing on non-transient fields encode identically (bytes, table, errors) and conversely "
         "values with the same bytes differ at most in transient fields (C14_only_transients_are_dropped); decoding yields "
         "the declared defaults (normv); transient constructor -> SerializingTransientConstructor; declarations whose "
         "FieldMadeOptional names are written or removed/transient never fail with UnknownFieldReference. Tie: static and "
         "dynamic pairs differing only in transient fields; histories containing FieldMadeTransient.",
         "6 C14", TB),
 "C16": ("PARTIAL. Theorems with deflate/inflate as Section oracles: frame = var_u32(len d) ++ var_u32(len z) ++ z; round "
         "trip through any refining source with any suffix untouched (premise: inflate(deflate l d) = Some d); every "
         "strict prefix of a frame is an error and the reservation is <= 64 KiB and the framing code never panics - both "
         "with NO assumption on inflate. Measured, not proved: miniz_oxide does not panic on damaged data, Vec growth "
         "stays within 2x produced bytes (counting allocator).",
         "6 C16", "Oracle law inflate(deflate l d) = Some d (flate2/miniz_oxide) assumed. Lengths of 2^32 bytes or more are "
         "LengthTooLarge since the repair of F18 (C16_frame_true_lengths; a 2^32 + 5 byte block is tried on every run). " + TB),
 "C17": ("Theorems: for every value (well-typed or not) and well-formed declarations the encoder model - which contains "
         "every u8/i8 counter overflow, -(i8::MIN), buffer index, unwrap and the 255-step assertion of the Rust - never "
         "panics except for the i32 string-id counter, which needs 2^31-1 distinct strings already in the stream; the "
         "table only grows; legal declarations never yield UnknownFieldReference. Tie: every Unicode scalar value, "
         "lengths and size hints around 2^31 / 2^32 / usize::MAX, unsupported values nested anywhere, transient "
         "constructors, dangling steps, 254 steps; release and debug.",
         "6 C17", "Exact error class per input (C17_errors) is checked by correspondence, not proved. DateTime<FixedOffset> "
         "(F16) is outside the modelled vocabulary. " + TB),
 "C18": ("PARTIAL. Theorems about a model of the only process-wide state (one lazily initialised metadata cell per derived "
         "type, first-use initialisation as atomic touches, bodies that read declarations THROUGH the cells and start from an "
         "empty string table): for every interleaving of every finite set of threads the cells only hold what their "
         "declaration says, every cell is initialised before a body reads it, and every result equals the same call alone in "
         "a fresh process; per-thread program order. Sampled, not proved: std::sync::Once, memory ordering, hashbrown reads "
         "(16 threads x barrier x fresh processes making first use of all catalogue types; call histories in one process).",
         "6 C18", "Real schedules are sampled. " + TB),
 "C19": ("PARTIAL. Theorems: arrays are built from exactly N decoded elements; any decoded value is determined by the consumed "
         "prefix of the input alone; the object table yields only live objects unless an object is dropped while registered "
         "(Mem.v) - and C19_refs_refuted: a client performing only operations safe Rust allows is handed a dead object (known "
         "finding F15). Tie: compiler verdicts on a catalogue of #![forbid(unsafe_code)] witness programs (4 must be rejected, "
         "control accepted, the F15 witness is accepted = the finding), unsafe decoding paths on every count/length mismatch "
         "vs the model; thorough: Miri.",
         "6 C19", "The borrow checker's verdict is observed; transmute::<Vec<u8>,Vec<T>> layout trusted. " + TB),
 "C11": ("Theorems over all of N/Z (no enumeration) about the transcription of write_var_u32/i32, read_var_u32/i32 and "
         "the three sources: round trip through any refining source, the three sources refine, bytes = LEB128, minimal "
         "length, continuation bits, zig-zag closed form and bijection, sink agreement. Tie: boundary/random/all-small "
         "values and arbitrary byte strings vs the extracted model, plus an exhaustive sweep of all 2*2^32 values on the "
         "implementation against the transcribed reference.",
         "6 C11", TB),
 "C15": ("Theorems: for any sequence of BinaryOutput calls Vec/BytesMut receive the same bytes and SizeCalculator "
         "their number; a lawful user sink receives them one by one; SerializationContext passes through / buffers; "
         "the three sources refine one reference source, so all provided read methods agree. Tie: random operation "
         "sequences on all sinks and sources incl. region push/pop through the desert_verif hook, release and debug.",
         "6 C15", "Value-level sink independence (serialize_to_bytes vs serialize_to_byte_vec vs custom sink on typed "
         "values) is covered by the op-sequence theorem plus the codec stream, not by a separate theorem. " + TB),
}
NOT_YET = {}

def main():
    props = [json.loads(l) for l in open(os.path.join(V, "properties.jsonl"))]
    checks = []
    for pid, (text, ref, note) in sorted(CHECKS.items()):
        checks.append({
            "property_id": pid,
            "quick_cmd": f"bin/vcheck {pid} --tier quick",
            "thorough_cmd": f"bin/vcheck {pid} --tier thorough",
            "evidence_file": f"evidence/{pid}.json",
            "replay_cmd_template": f"bin/vcheck {pid} --replay {{path}}",
            "engine": "coq-model",
            "level_claimed": {"category": "proof", "text": text, "design_ref": "DESIGN.md section " + ref},
            "level_note": note,
            "technique": "Coq proof (Gallina model, induction over type expressions/fuel)" + CORR,
        })
    na = []
    for p in props:
        if p["id"] not in CHECKS:
            na.append({"property_id": p["id"],
                       "reason": NOT_YET.get(p["id"], "not yet claimed: the check for this property is still being built "
                                             "(model and theorems exist or are in progress; see DESIGN.md section 11)")})
    m = {
        "version": 1,
        "setup_cmd": "bin/setup",
        "hooks": {"guard": "desert_verif",
                  "enable": "RUSTFLAGS=\"--cfg desert_verif\" (set by gen/common.py when it builds harness/ against /repo)",
                  "baseline_off_cmd": "cd /repo && cargo test --workspace --no-fail-fast --offline",
                  "source_commits": ["ab16198"], "add_only": True},
        "engines": [
            {"name": "coq-model", "path": "coq/", "serves_properties": sorted(CHECKS),
             "kind_free_text": "hand-written Gallina model + theorems (Coq 8.16.1), extracted to OCaml for the correspondence check"},
            {"name": "harness", "path": "harness/", "serves_properties": sorted(CHECKS),
             "kind_free_text": "Rust crate linking /repo's working tree (hooks on); executes the same cases as the extracted model"}],
        "checks": checks,
        "notes": "Properties move from not_applicable to checks as their theorems and correspondence streams land.",
        "not_applicable": na,
    }
    json.dump(m, open(os.path.join(V, "MANIFEST.json"), "w"), indent=1)
    print("checks:", [c["property_id"] for c in checks])

if __name__ == "__main__":
    main()
