"""The static catalogue (real #[derive(BinaryCodec)] types compiled into the harness) as a model
environment; cases through the `static` harness command and the model's codec command."""
import json
import os
from . import common as C
from . import gencases as G


def _ty(j):
    k = j[0]
    if k == "prim":
        return ("prim", j[1])
    if k == "named":
        return ("named", j[1])
    if k == "opt":
        return ("opt", _ty(j[1]))
    if k == "seq":
        return ("seq", j[1], j[2], _ty(j[3]))
    if k == "tup":
        return ("tup", [_ty(x) for x in j[1]])
    if k == "wrap":
        return ("wrap", j[1], _ty(j[2]))
    raise ValueError(j)


def load():
    raw = json.load(open(os.path.join(C.VERIF, "gen", "catalogue.json")))
    env = []
    for d in raw:
        def fld(f):
            return {"name": f["name"], "ty": _ty(f["ty"]), "opt": f["opt"], "transient": f["transient"]}

        def steps(st):
            return [tuple(s) for s in st]
        if d["kind"] == "rec":
            env.append({"kind": "rec", "name": d["name"], "fields": [fld(f) for f in d["fields"]], "steps": steps(d["steps"])})
        else:
            env.append({"kind": "enum", "name": d["name"], "sorted": d["sorted"],
                        "variants": [{"name": v["name"], "transient": v["transient"], "fields": [fld(f) for f in v["fields"]],
                                      "steps": steps(v["steps"])} for v in d["variants"]]})
    return env


def index_of(env, name):
    return [d["name"] for d in env].index(name)


def run_static(harness, model, env, cases, wd, tag):
    """cases: dicts with cmd in srt/sx/sdec, w (decl index), val / hex, r (decl index for sx), sfx.
    Returns (impl, model) lines normalised to 'ENC ; DEC' with ENC = 'ok HEX' | 'err ..'."""
    envs = G.show_env(env)
    hl, ml = [], []
    for c in cases:
        wn = env[c["w"]]["name"]
        if c["cmd"] == "srt":
            hl.append(f"srt {wn} {c['val']} {c['sfx']}")
            ml.append(f"rt (named {c['w']}) {c['val']} {c['sfx']}")
        elif c["cmd"] == "sx":
            hl.append(f"sx {wn} {c['val']} {env[c['r']]['name']} {c['sfx']}")
            ml.append(f"xrt (named {c['w']}) {c['val']} (named {c['r']}) {c['sfx']}")
        else:
            hl.append(f"sdec {wn} {c['hex']}")
            ml.append(f"dec (named {c['w']}) {c['hex']}")
    impl = C.run_sharded(harness, "static", hl, wd, tag + ".impl", shards=8)
    # model: one E line per shard
    n = len(ml)
    shards = max(1, min(16, (n + 99) // 100))
    size = (n + shards - 1) // shards
    import subprocess
    procs = []
    for i in range(shards):
        part = ml[i * size:(i + 1) * size]
        if not part:
            continue
        path = os.path.join(wd, f"{tag}.model.{i}.cases")
        C.write_lines(path, [f"E {envs}"] + part)
        procs.append(subprocess.Popen([model, "codec", path], stdout=subprocess.PIPE, stderr=subprocess.PIPE, text=True,
                                      preexec_fn=C.model_stack(model)))
    mod = []
    for p in procs:
        o, e = p.communicate(timeout=3000)
        if p.returncode != 0:
            raise C.Undecided("model codec (static) failed: " + e[-1500:])
        mod += [l for l in o.splitlines() if l != "env"]
    if len(mod) != n:
        raise C.Undecided(f"static: {len(mod)} model results for {n} cases")
    # normalise the model's 'ok HEX VAL ; DEC' to 'ok HEX ; DEC'
    norm = []
    for c, m in zip(cases, mod):
        if c["cmd"] in ("srt", "sx") and m.startswith("ok "):
            enc_part, sep, dec_part = m.partition(" ; ")
            toks = enc_part.split(" ", 2)
            norm.append(f"ok {toks[1]}{sep}{dec_part}")
        else:
            norm.append(m)
    return impl, norm, hl


def gen_values(rng, env, i, n):
    return [G.gen_value_d(rng, ("named", i), env, 1.0, 0) for _ in range(n)]


def run_static_single(harness, model, env, cases, wd, tag):
    """like run_static but the implementation runs ALL cases in ONE process, in order (call histories)"""
    import subprocess
    envs = G.show_env(env)
    hl, ml = [], []
    for c in cases:
        wn = env[c["w"]]["name"]
        hl.append(f"srt {wn} {c['val']} {c['sfx']}")
        ml.append(f"rt (named {c['w']}) {c['val']} {c['sfx']}")
    path = os.path.join(wd, f"{tag}.impl.cases")
    C.write_lines(path, hl)
    impl = C.run_lines(harness, "static", path)
    mod = []
    n = len(ml)
    shards = max(1, min(16, (n + 99) // 100))
    size = (n + shards - 1) // shards
    procs = []
    for i in range(shards):
        part = ml[i * size:(i + 1) * size]
        if not part:
            continue
        mp = os.path.join(wd, f"{tag}.model.{i}.cases")
        C.write_lines(mp, [f"E {envs}"] + part)
        procs.append(subprocess.Popen([model, "codec", mp], stdout=subprocess.PIPE, stderr=subprocess.PIPE, text=True,
                                      preexec_fn=C.model_stack(model)))
    for p in procs:
        o, e = p.communicate(timeout=3000)
        if p.returncode != 0:
            raise C.Undecided("model codec failed: " + e[-1000:])
        mod += [l for l in o.splitlines() if l != "env"]
    norm = []
    for m in mod:
        if m.startswith("ok "):
            enc_part, sep, dec_part = m.partition(" ; ")
            toks = enc_part.split(" ", 2)
            norm.append(f"ok {toks[1]}{sep}{dec_part}")
        else:
            norm.append(m)
    return impl, norm, hl
