"""Shared machinery for bin/vcheck: building the Coq development, the extracted model
runner and the Rust harness; running case files through both; evidence, replay and
known-findings handling."""
import hashlib
import json
import os
import random
import re
import shutil
import subprocess
import sys
import time

VERIF = os.path.dirname(os.path.dirname(os.path.abspath(__file__)))
REPO = "/repo"
COQ = os.path.join(VERIF, "coq")
OCAML = os.path.join(VERIF, "ocaml")
HARNESS = os.path.join(VERIF, "harness")
WITNESS = os.path.join(VERIF, "witness")
CACHE = os.path.join(VERIF, ".cache")
TARGET = os.path.join(CACHE, "target")
WORK = os.path.join(CACHE, "work")
EVIDENCE = os.path.join(VERIF, "evidence")
REPLAY = os.path.join(VERIF, "replay")
GUARD = "desert_verif"

# Development aid (seeded changes are evaluated several at a time): VERIF_REPO=<worktree of /repo> runs a check
# against that tree instead of /repo, with its own copies of the harness and witness crates (path dependencies
# rewritten), its own cargo target, work, evidence and replay directories under .cache/alt/<name>/.  The registered
# commands never set it: they run against /repo and write /verif/evidence.
_ALT = os.environ.get("VERIF_REPO")
if _ALT and os.path.realpath(_ALT) != "/repo":
    REPO = os.path.realpath(_ALT)
    _base = os.path.join(CACHE, "alt", re.sub(r"[^A-Za-z0-9]+", "_", REPO).strip("_"))
    for _name in ("harness", "witness"):
        _src, _dst = os.path.join(VERIF, _name), os.path.join(_base, _name)
        shutil.copytree(_src, _dst, dirs_exist_ok=True, ignore=shutil.ignore_patterns("target", "Cargo.lock"))
        _toml = os.path.join(_dst, "Cargo.toml")
        _t = open(_toml).read().replace('"/repo/', '"' + REPO + '/')
        if _t != open(_toml).read():
            open(_toml, "w").write(_t)
    HARNESS, WITNESS = os.path.join(_base, "harness"), os.path.join(_base, "witness")
    TARGET, WORK = os.path.join(_base, "target"), os.path.join(_base, "work")
    EVIDENCE, REPLAY = os.path.join(_base, "evidence"), os.path.join(_base, "replay")
    for _d in (WORK, EVIDENCE, REPLAY):
        os.makedirs(_d, exist_ok=True)
TBASE = os.path.dirname(TARGET)     # further cargo target directories live next to the harness's

FORBIDDEN = re.compile(
    r"\b(Admitted|admit|Axiom|Axioms|Parameter|Parameters|Conjecture|Conjectures|"
    r"Admit Obligations|Unset Guard Checking|Unset Positivity Checking|Unset Universe Checking|"
    r"bypass_check|type-in-type|impredicative-set)\b")
# axioms of the standard library that a theorem may depend on (none are needed so far)
AXIOM_ALLOW = set()


class Undecided(Exception):
    """Tool or build failure: nothing was decided (exit 2, no VIOLATION line)."""


def log(msg):
    print(f"[vcheck] {msg}", file=sys.stderr, flush=True)


def model_stack(argv0):
    """preexec_fn for the extracted model: the extracted list functions are not tail-recursive, so the OCaml
    runner gets the largest stack the system allows (the implementation's processes are left alone)"""
    if isinstance(argv0, str) and argv0.startswith(OCAML):
        def f():
            import resource
            soft, hard = resource.getrlimit(resource.RLIMIT_STACK)
            resource.setrlimit(resource.RLIMIT_STACK, (hard, hard))
        return f
    return None


def run(cmd, cwd=None, timeout=3600, env=None, check=True, capture=True):
    e = dict(os.environ)
    e.update({"CARGO_NET_OFFLINE": "true", "TZ": "UTC"})
    if env:
        e.update(env)
    p = subprocess.run(cmd, cwd=cwd, env=e, timeout=timeout, shell=isinstance(cmd, str),
                       preexec_fn=model_stack(cmd[0] if isinstance(cmd, list) else None),
                       stdout=subprocess.PIPE if capture else None,
                       stderr=subprocess.STDOUT if capture else None, text=True)
    if check and p.returncode != 0:
        raise Undecided(f"command failed ({p.returncode}): {cmd}\n{(p.stdout or '')[-4000:]}")
    return p


# ----------------------------------------------------------------------------------------
# Coq

def coq_sources():
    out = []
    for root, _dirs, files in os.walk(COQ):
        if "/Gen" in root:
            pass
        for f in files:
            if f.endswith(".v") and not f.startswith("Dbg_"):
                out.append(os.path.join(root, f))
    return sorted(out)


def forbidden_scan():
    """Admitted / Axiom / ... anywhere in the development is a broken obligation."""
    hits = []
    for path in coq_sources():
        txt = open(path).read()
        # strip comments (non-nested is enough for our sources; nested handled by loop)
        prev = None
        while prev != txt:
            prev = txt
            txt = re.sub(r"\(\*[^*(]*(?:\*(?!\))[^*(]*|\((?!\*)[^*(]*)*\*\)", " ", txt)
        for m in FORBIDDEN.finditer(txt):
            hits.append(f"{os.path.relpath(path, VERIF)}: {m.group(0)}")
    return hits


def ensure_coq_makefile():
    mk = os.path.join(COQ, "Makefile")
    proj = os.path.join(COQ, "_CoqProject")
    if not os.path.exists(mk) or os.path.getmtime(mk) < os.path.getmtime(proj):
        run(["coq_makefile", "-f", "_CoqProject", "-o", "Makefile"], cwd=COQ)


def coq_build(target=None, timeout=3000):
    """Full .vo build (never -vos/-vok) of one target or of everything."""
    ensure_coq_makefile()
    cmd = ["make", "-j16"] + ([target] if target else [])
    p = run(cmd, cwd=COQ, timeout=timeout, check=False)
    return p.returncode == 0, p.stdout


def coq_obligations(prop_file):
    """Compile Props/<prop>.v (after its dependencies) and read back, per theorem, what
    Print Assumptions reports.  Returns dict with obligations/discharged/axioms/broken."""
    rel = f"Props/{prop_file}.v"
    src = open(os.path.join(COQ, rel)).read()
    theorems = re.findall(r"^\s*Theorem\s+([A-Za-z0-9_']+)", src, re.M)
    printed = re.findall(r"^\s*Print Assumptions\s+([A-Za-z0-9_']+)\s*\.", src, re.M)
    res = {"file": rel, "theorems": theorems, "obligations": len(theorems), "discharged": 0,
           "axioms": {}, "broken": [], "log": ""}
    hits = forbidden_scan()
    if hits:
        res["broken"].append("forbidden constructs: " + "; ".join(hits[:5]))
    ok, out = coq_build(f"Props/{prop_file}.vo")
    if not ok:
        m = re.search(r'File "([^"]+)", line (\d+)', out)
        where = f"{m.group(1)}:{m.group(2)}" if m else "?"
        res["broken"].append(f"coq build failed at {where}")
        res["log"] = out[-3000:]
        return res
    # re-run coqc on the statements file alone to capture Print Assumptions
    p = run(["coqc", "-Q", ".", "Desert", rel], cwd=COQ, timeout=600, check=False)
    if p.returncode != 0:
        res["broken"].append("coqc on property file failed")
        res["log"] = p.stdout[-3000:]
        return res
    blocks = re.split(r"(?=Closed under the global context|Axioms:)", p.stdout)
    blocks = [b for b in blocks if b.startswith("Closed under") or b.startswith("Axioms:")]
    if len(blocks) != len(printed):
        res["broken"].append(f"Print Assumptions: {len(blocks)} reports for {len(printed)} requests")
    missing = [t for t in theorems if t not in printed]
    if missing:
        res["broken"].append("no Print Assumptions for: " + ", ".join(missing))
    for name_, b in zip(printed, blocks):
        if b.startswith("Closed under"):
            res["axioms"][name_] = []
        else:
            ax = re.findall(r"^([A-Za-z0-9_.']+)\s*:", b[len("Axioms:"):], re.M)
            res["axioms"][name_] = ax
            bad = [a for a in ax if a not in AXIOM_ALLOW]
            if bad:
                res["broken"].append(f"{name_} depends on axioms not allow-listed: {bad}")
    res["discharged"] = len([t for t in theorems if t in res["axioms"]
                             and all(a in AXIOM_ALLOW for a in res["axioms"][t])])
    if res["broken"]:
        res["discharged"] = min(res["discharged"], max(0, res["obligations"] - 1))
    return res


# ----------------------------------------------------------------------------------------
# extracted model runner

def _newest(paths):
    return max(os.path.getmtime(p) for p in paths)


def build_model():
    """Extract the model (make Extract/Extract.vo builds only the model files it imports, so
    the model still runs when a proof file is broken) and compile the OCaml runner."""
    bdir = os.path.join(OCAML, "_build")
    os.makedirs(bdir, exist_ok=True)
    exe = os.path.join(bdir, "driver")
    ok, out = coq_build("Extract/Extract.vo")
    if not ok:
        raise Undecided("coq model does not build:\n" + out[-3000:])
    srcs = [os.path.join(COQ, "model.ml"), os.path.join(COQ, "model.mli"), os.path.join(OCAML, "driver.ml")]
    if os.path.exists(exe) and os.path.getmtime(exe) >= _newest(srcs):
        return exe
    for f in srcs:
        shutil.copy(f, bdir)
    run(["ocamlfind", "ocamlopt", "-w", "-a", "-package", "str", "-linkpkg", "-unsafe", "-inline", "100",
         "model.mli", "model.ml", "driver.ml", "-o", "driver"], cwd=bdir, timeout=900)
    return exe


# ----------------------------------------------------------------------------------------
# Rust harness

def build_harness(profile="release", features=None):
    # development aid (bin/coverage): run the checks against a coverage-instrumented build of the same harness
    over = os.environ.get("VERIF_HARNESS_" + profile.upper())
    if over:
        return over
    lock_src = os.path.join(REPO, "Cargo.lock")
    lock_dst = os.path.join(HARNESS, "Cargo.lock")
    if not os.path.exists(lock_dst):
        shutil.copy(lock_src, lock_dst)
    cmd = ["cargo", "build", "--offline"]
    if profile == "release":
        cmd.append("--release")
    p = run(cmd, cwd=HARNESS, timeout=3000, check=False,
            env={"CARGO_TARGET_DIR": TARGET, "RUSTFLAGS": f"--cfg {GUARD}"})
    if p.returncode != 0:
        # a lock file that no longer matches /repo: refresh once
        shutil.copy(lock_src, lock_dst)
        p = run(cmd, cwd=HARNESS, timeout=3000, check=False,
                env={"CARGO_TARGET_DIR": TARGET, "RUSTFLAGS": f"--cfg {GUARD}"})
    if p.returncode != 0:
        raise Undecided("harness does not build against /repo:\n" + p.stdout[-4000:])
    return os.path.join(TARGET, "release" if profile == "release" else "debug", "dharness")


# ----------------------------------------------------------------------------------------
# running cases

def workdir(prop):
    d = os.path.join(WORK, prop)
    shutil.rmtree(d, ignore_errors=True)
    os.makedirs(d, exist_ok=True)
    return d


def write_lines(path, lines):
    with open(path, "w") as f:
        for l in lines:
            f.write(l)
            f.write("\n")


def run_lines(exe, command, case_path, timeout=3000, extra=None, env=None):
    p = run([exe, command, case_path] + (extra or []), timeout=timeout, check=False, env=env)
    if p.returncode != 0:
        raise Undecided(f"{exe} {command} failed ({p.returncode}):\n{p.stdout[-3000:]}")
    return p.stdout.splitlines()



def _retry_hangs(argv, path, outp, rc, err, e, timeout):
    """The harness watchdog ends the process with exit code 3 and 'HANG <index>' when one case runs
    past its limit. Such a case is a result, not a tooling failure: its line is replaced by the
    command `hang` (which prints `hang`) and the file is run again, so every other case is still
    decided. Returns (rc, err)."""
    import re
    tries = 0
    seen = set()
    while rc == 3 and tries < 80:
        m = re.search(r"HANG (\d+)", err or "")
        if not m:
            break
        idx = int(m.group(1))
        lines = [l for l in open(path).read().splitlines() if l.strip()]
        if idx >= len(lines) or lines[idx].split(" ", 1)[0] in ("E", "E2", "hang"):
            break
        if idx in seen:
            lines[idx] = "hang"
            write_lines(path, lines)
        else:
            # a case that passed its time limit once is run again before it is believed (a busy machine is not a hang)
            seen.add(idx)
        with open(outp, "w") as fo:
            pr = subprocess.run(argv, stdout=fo, stderr=subprocess.PIPE, env=e, text=True, timeout=timeout,
                                preexec_fn=model_stack(argv[0]))
        rc, err = pr.returncode, pr.stderr
        tries += 1
    return rc, err

def run_sharded(exe, command, lines, wd, tag, shards=16, timeout=3000, extra=None, env=None):
    """Split `lines` into shards, run them in parallel, return outputs in order."""
    n = len(lines)
    if n == 0:
        return []
    shards = max(1, min(shards, (n + 199) // 200))
    size = (n + shards - 1) // shards
    procs = []
    e = dict(os.environ)
    e.update({"TZ": "UTC"})
    if env:
        e.update(env)
    for i in range(shards):
        part = lines[i * size:(i + 1) * size]
        if not part:
            continue
        path = os.path.join(wd, f"{tag}.{i}.cases")
        write_lines(path, part)
        outp = os.path.join(wd, f"{tag}.{i}.out")
        f = open(outp, "w")
        argv = [exe, command, path] + (extra or [])
        procs.append((subprocess.Popen(argv, stdout=f, stderr=subprocess.PIPE, env=e, text=True,
                                       preexec_fn=model_stack(argv[0])), f, outp,
                      len(part), argv, path))
    out = []
    t0 = time.time()
    for p, f, outp, k, argv, path in procs:
        try:
            _, err = p.communicate(timeout=max(1, timeout - (time.time() - t0)))
        except subprocess.TimeoutExpired:
            p.kill()
            raise Undecided(f"{exe} {command} timed out")
        f.close()
        rc, err = _retry_hangs(argv, path, outp, p.returncode, err, e, timeout)
        got = open(outp).read().splitlines()
        # the IMPLEMENTATION's process dying on a case (abort, stack overflow, a signal) is a result of that case, not
        # a tooling failure: the case is recorded as `abort(<status>)` and the rest of the shard is run in a new process
        part = open(path).read().splitlines()
        tries = 0
        while rc != 0 and "dharness" in os.path.basename(exe) and len(got) < k:
            tries += 1
            got.append(f"abort({rc})")
            if tries >= 12:
                # the process keeps dying: the remaining cases of the shard are not run
                got += [f"abort(not run: the process died on {tries} cases of this shard)"] * (k - len(got))
                rc = 0
                break
            rest = part[len(got):]
            if not rest:
                rc = 0
                break
            rpath = path + f".resume{tries}"
            write_lines(rpath, rest)
            with open(rpath + ".out", "w") as fo:
                pr = subprocess.run([exe, command, rpath] + (extra or []), stdout=fo, stderr=subprocess.PIPE, env=e, text=True,
                                    timeout=timeout)
            rc, err = _retry_hangs([exe, command, rpath] + (extra or []), rpath, rpath + ".out", pr.returncode, pr.stderr, e, timeout)
            got += open(rpath + ".out").read().splitlines()
        if rc != 0 or len(got) != k:
            raise Undecided(f"{exe} {command}: exit {rc}, {len(got)}/{k} lines\n{(err or '')[-2000:]}")
        out.extend(got)
    return out


# ----------------------------------------------------------------------------------------
# evidence, violations, known findings

def load_known():
    path = os.path.join(VERIF, "known_findings.json")
    if not os.path.exists(path):
        return {"findings": [], "fixed": []}
    return json.load(open(path))


class Report:
    def __init__(self, prop, tier, seed):
        self.prop = prop
        self.tier = tier
        self.seed = seed
        self.t0 = time.time()
        self.violations = []      # (what, replay dict)
        self.known_hits = []
        self.coverage = {}
        self.assumptions = []
        self.level = "proof"

    def violation(self, what, replay, no_input=False):
        os.makedirs(REPLAY, exist_ok=True)
        h = hashlib.sha256(json.dumps(replay, sort_keys=True, default=str).encode()).hexdigest()[:12]
        path = os.path.join(REPLAY, f"{self.prop}-{h}.json")
        replay = dict(replay)
        replay.update({"property": self.prop, "what": what, "seed": self.seed, "tier": self.tier})
        with open(path, "w") as f:
            json.dump(replay, f, indent=1, default=str)
        self.violations.append((what, path, no_input))

    def known(self, what):
        if what not in self.known_hits:
            self.known_hits.append(what)

    def finish(self):
        os.makedirs(EVIDENCE, exist_ok=True)
        cov = dict(self.coverage)
        cov.setdefault("known_findings_printed", self.known_hits)
        ev = {"property_id": self.prop, "tier": self.tier, "seed": self.seed, "level": self.level,
              "coverage": cov, "assumptions": self.assumptions,
              "wall_s": round(time.time() - self.t0, 2), "violations": len(self.violations)}
        with open(os.path.join(EVIDENCE, f"{self.prop}.json"), "w") as f:
            json.dump(ev, f, indent=1, default=str)
        for w in self.known_hits:
            print(f"KNOWN-FINDING: property={self.prop} {w}")
        for what, path, no_input in self.violations:
            log(f"violation: {what}")
            tail = " no-failing-input-found" if no_input else ""
            print(f"VIOLATION property={self.prop} replay={path}{tail}")
        sys.stdout.flush()
        return 1 if self.violations else 0


def rng_for(seed, *tags):
    h = hashlib.sha256(("/".join([str(seed)] + [str(t) for t in tags])).encode()).digest()
    return random.Random(int.from_bytes(h[:8], "big"))


TRUSTED_COMMON = [
    "Coq 8.16.1 kernel (coqc, full .vo build; vm_compute in Examples only; no native_compute)",
    "hand-written Gallina model coq/*.v, tied to /repo by differential execution of the extracted model "
    "(ExtrOcamlBasic only; no Extract Constant) and the Rust harness on the same generated cases",
    "OCaml driver (parsing/printing glue), Rust harness (harness/src), Python generators and differ (gen/)",
]


# ----------------------------------------------------------------------------------------
# the codec stream: structured cases through harness and model

def codec_line(c, val=None):
    if c["cmd"] in ("dec", "decq"):
        return f"{c['cmd']} {c['ty']} {c['hex']}"
    v = val if val is not None else c["val"]
    if c["cmd"] in ("enc", "encu", "encit"):
        return f"{c['cmd']} {c['ty']} {v}"
    if c["cmd"] == "urt":
        return f"urt {c['ty']} {v} {c.get('sfx', '-')}"
    if c["cmd"] == "xrt":
        return f"xrt {c['ty']} {v} {c.get('ty2', c['ty'])} {c.get('sfx', '-')}"
    return f"rt {c['ty']} {v} {c.get('sfx', '-')}"


def _run_codec_side(exe, cases, lines, wd, tag, shards, timeout, env=None):
    """cases[i] has key 'env' (string); lines[i] is its case line. Shards keep E lines right."""
    n = len(cases)
    if n == 0:
        return []
    shards = max(1, min(shards, (n + 99) // 100))
    size = (n + shards - 1) // shards
    procs = []
    e = dict(os.environ)
    e.update({"TZ": "UTC"})
    if env:
        e.update(env)
    for i in range(shards):
        lo, hi = i * size, min(n, (i + 1) * size)
        if lo >= hi:
            continue
        path = os.path.join(wd, f"{tag}.{i}.cases")
        cur = None
        k = 0
        with open(path, "w") as f:
            for j in range(lo, hi):
                key = (cases[j]["env"], cases[j].get("env2"))
                if key != cur:
                    cur = key
                    f.write(f"E {key[0]}\n")
                    k += 1
                    if key[1] is not None:
                        f.write(f"E2 {key[1]}\n")
                        k += 1
                f.write(lines[j] + "\n")
                k += 1
        outp = os.path.join(wd, f"{tag}.{i}.out")
        fo = open(outp, "w")
        argv = [exe, "codec", path]
        procs.append((subprocess.Popen(argv, stdout=fo, stderr=subprocess.PIPE, env=e, text=True,
                                       preexec_fn=model_stack(argv[0])),
                      fo, outp, k, argv, path))
    out = []
    t0 = time.time()
    for p, fo, outp, k, argv, path in procs:
        try:
            _, err = p.communicate(timeout=max(1, timeout - (time.time() - t0)))
        except subprocess.TimeoutExpired:
            p.kill()
            raise Undecided(f"{exe} codec timed out ({tag})")
        fo.close()
        rc, err = _retry_hangs(argv, path, outp, p.returncode, err, e, timeout)
        got = open(outp).read().splitlines()
        # the IMPLEMENTATION's process dying on a case (a signal, an abort) is the result of that case: `abort(..)`; the
        # rest of the shard is run in a new process under the same declarations
        flines = [l for l in open(path).read().splitlines() if l.strip()]
        tries = 0
        while rc != 0 and "dharness" in os.path.basename(exe) and len(got) < k:
            tries += 1
            idx = len(got)
            got.append(f"abort({rc})")
            rest = flines[idx + 1:]
            if tries >= 12 or not rest:
                got += ["env" if l.split(" ", 1)[0] in ("E", "E2") else
                        f"abort(not run: the process died on {tries} cases of this shard)" for l in rest]
                rc = 0
                break
            last_e, last_e2 = None, None
            for l in flines[:idx + 1]:
                if l.startswith("E "):
                    last_e, last_e2 = l, None
                elif l.startswith("E2 "):
                    last_e2 = l
            ctx = [x for x in (last_e, last_e2) if x]
            rpath = path + f".resume{tries}"
            write_lines(rpath, ctx + rest)
            with open(rpath + ".out", "w") as fo2:
                pr = subprocess.run([exe, "codec", rpath], stdout=fo2, stderr=subprocess.PIPE, env=e, text=True, timeout=timeout)
            rc, err = _retry_hangs([exe, "codec", rpath], rpath, rpath + ".out", pr.returncode, pr.stderr, e, timeout)
            got += open(rpath + ".out").read().splitlines()[len(ctx):]
        if rc != 0 or len(got) != k:
            raise Undecided(f"{exe} codec ({tag}): exit {rc}, {len(got)}/{k} lines\n{(err or '')[-2000:]}")
        out.extend(l for l in got if l != "env")
    if len(out) != n:
        raise Undecided(f"{exe} codec ({tag}): {len(out)} results for {n} cases")
    return out


def run_codec(harness, model, cases, wd, tag, shards=16, timeout=3000, profile_env=None):
    """Run structured codec cases through the implementation, then through the model (with the
    iteration order the implementation reported for sets and maps). Returns (impl, model) lists."""
    lines = [codec_line(c) for c in cases]
    impl = _run_codec_side(harness, cases, lines, wd, tag + ".impl", shards, timeout, profile_env)
    mlines = []
    for c, l, o in zip(cases, lines, impl):
        if c["cmd"] != "dec" and c.get("unordered") and o.startswith("ok "):
            head = o.split(" ; ")[0]
            parts = head.split(" ", 2)
            if len(parts) == 3:
                l = codec_line(c, parts[2])
        mlines.append(l)
    mod = _run_codec_side(model, cases, mlines, wd, tag + ".model", shards, timeout)
    return impl, mod


def proof_coverage(rep, ob, prop_file, extra_trusted=None):
    ax = "axioms: none (every theorem: Closed under the global context)" \
        if all(not v for v in ob["axioms"].values()) and not ob["broken"] else "axioms: " + str(ob["axioms"])
    rep.coverage.update({
        "obligations": ob["obligations"], "discharged": ob["discharged"],
        "checker_cmd": f"make -C coq Props/{prop_file}.vo && coqc -Q coq Desert coq/Props/{prop_file}.v "
                       "(Print Assumptions per theorem; forbidden-construct scan over coq/)",
        "trusted_base": TRUSTED_COMMON + [ax] + (extra_trusted or []),
        "theorems": ob["theorems"],
    })


def report_broken(rep, ob, disagreements, stream, found_input):
    """A broken obligation or correspondence for which the search found no failing input."""
    if found_input:
        return
    if ob["broken"] or disagreements:
        first = disagreements[0] if disagreements else None
        rep.violation("obligations or model/implementation correspondence no longer check: "
                      + "; ".join(ob["broken"] + ([f"first disagreement in {stream}: {first[0]}"] if first else [])),
                      {"kind": "correspondence", "broken_obligations": ob["broken"], "stream": stream,
                       "first_disagreement": first, "n_disagreements": len(disagreements),
                       "coq_log": ob.get("log", "")}, no_input=True)


# ----------------------------------------------------------------------------------------
# replay of a recorded violation

def generic_replay(path):
    """Re-runs the recorded case of a replay file on the implementation (and the model where the stream has one) and
    prints what each says now. Exit 1 if the implementation still answers as recorded (the violation reproduces),
    0 if it answers differently, 2 if the file holds nothing that can be re-run generically."""
    r = json.load(open(path))
    print(f"replay of property={r.get('property')} kind={r.get('kind')}: {r.get('what', '')[:300]}")
    case = r.get("case") or (r.get("first_disagreement") or [None])[0]
    if not case or not isinstance(case, str):
        print(json.dumps(r, indent=1)[:4000])
        print("nothing to re-run generically: the replay names the theorem / stream that no longer checks")
        return 2
    head = case.split(" ", 1)[0]
    harness = build_harness(r.get("profile", "release") if r.get("profile") in ("release", "debug") else "release")
    wd = workdir("replay")
    f = os.path.join(wd, "case.txt")
    if head in ("rt", "enc", "dec", "xrt", "urt", "encu", "encit"):
        lines = []
        if r.get("writer_env"):
            lines += [f"E {r['writer_env']}", f"E2 {r.get('reader_env', '-')}"]
        else:
            lines.append(f"E {r.get('env', '-')}")
        write_lines(f, lines + [case])
        cmd = "codec"
    elif head in ("srt", "sx", "senc", "sdec", "mrt", "mdec"):
        write_lines(f, [case])
        cmd = "static"
    else:
        print(json.dumps(r, indent=1)[:4000])
        print(f"stream `{head}` has no generic replay; see the `rerun` / `case` fields above")
        return 2
    p = run([harness, cmd, f], check=False, timeout=600)
    out = [l for l in (p.stdout or "").splitlines() if l != "env"]
    now = out[-1] if out else f"(no output, exit {p.returncode})"
    print("case          :", case[:400])
    print("recorded      :", str(r.get("implementation"))[:400])
    print("implementation:", now[:400])
    if cmd == "codec":
        try:
            m = run([build_model(), "codec", f], check=False, timeout=600)
            mo = [l for l in (m.stdout or "").splitlines() if l != "env"]
            print("model         :", (mo[-1] if mo else "(no output)")[:400])
        except Undecided as e:
            print("model         : not available:", str(e)[:200])
    rec = str(r.get("implementation", ""))
    same = rec and (now == rec or now.startswith(rec[:60]) or rec.startswith(now[:60]))
    print("still reproduces" if same else "answers differently now")
    return 1 if same else 0
