(* Codec.v — the codecs (definitions only).
   Encoder: one concatenative definition with the order of string-table effects and every
   arithmetic failure of the Rust made explicit.
   Decoder: one definition, generic in the primitive operations of the input (`dops`);
   instantiated with the reference input (lists; layer A) in this file and with the
   DeserializationContext model of IO.v (cursor + region stack; layer B) in CodecB.v.
   src: desert_core/src/serializer/mod.rs, serializer/tuples.rs, deserializer/mod.rs,
        deserializer/tuples.rs, adt/{mod,serializer,deserializer}.rs, evolution.rs, state.rs,
        features/{uuid,bigdecimal,chrono}.rs, desert_macro/src/lib.rs *)
From Coq Require Import NArith ZArith List Bool.
From Desert Require Import Outcome IO Types Calendar BigDec.
Import ListNotations.
Open Scope N_scope.

(* ------------------------------------------------------------------ *)
(* string table (state.rs:7-33,49-51): ids from 1 in first-occurrence order *)

Definition strtab := list bytes.

Fixpoint str_find (s : bytes) (st : strtab) (i : N) : option N :=
  match st with
  | [] => None
  | x :: r => if bytes_eqb x s then Some i else str_find s r (i + 1)
  end.
Definition str_id (s : bytes) (st : strtab) : option N := str_find s st 1.
Definition str_store (s : bytes) (st : strtab) : strtab :=
  match str_id s st with Some _ => st | None => st ++ [s] end.
Definition str_get (st : strtab) (id : Z) : option bytes :=
  if (id <=? 0)%Z then None
  else if (Z.of_N (nlen st) <? id)%Z then None
  else nth_error st (Z.to_nat (id - 1)).

(* ------------------------------------------------------------------ *)
(* UTF-8 well-formedness (Unicode table 3-7), what String::from_utf8 accepts *)

Definition in_range (lo hi b : N) : bool := (lo <=? b) && (b <=? hi).
Definition is_cont (b : N) : bool := in_range 128 191 b.

Fixpoint utf8_valid (bs : bytes) : bool :=
  match bs with
  | [] => true
  | b0 :: r0 =>
      if b0 <? 128 then utf8_valid r0 else
      match r0 with
      | [] => false
      | b1 :: r1 =>
          if in_range 194 223 b0 then is_cont b1 && utf8_valid r1 else
          match r1 with
          | [] => false
          | b2 :: r2 =>
              if b0 =? 224 then in_range 160 191 b1 && is_cont b2 && utf8_valid r2
              else if in_range 225 236 b0 then is_cont b1 && is_cont b2 && utf8_valid r2
              else if b0 =? 237 then in_range 128 159 b1 && is_cont b2 && utf8_valid r2
              else if in_range 238 239 b0 then is_cont b1 && is_cont b2 && utf8_valid r2
              else
              match r2 with
              | [] => false
              | b3 :: r3 =>
                  if b0 =? 240 then in_range 144 191 b1 && is_cont b2 && is_cont b3 && utf8_valid r3
                  else if in_range 241 243 b0 then is_cont b1 && is_cont b2 && is_cont b3 && utf8_valid r3
                  else if b0 =? 244 then in_range 128 143 b1 && is_cont b2 && is_cont b3 && utf8_valid r3
                  else false
              end
          end
      end
  end.

(* ------------------------------------------------------------------ *)
(* BigInt: minimal two's complement, big-endian (num-bigint to/from_signed_bytes_be) *)

Definition bigint_nbytes (z : Z) : N :=
  let m := Z.to_N (if (z <? 0)%Z then (- z - 1)%Z else z) in
  (if m =? 0 then 0 else N.log2 m + 1) / 8 + 1.
Definition bigint_to_be (z : Z) : bytes :=
  let k := bigint_nbytes z in
  be_bytes (N.to_nat k) (Z.to_N (z mod 2 ^ Z.of_N (8 * k))).
Definition bigint_of_be (bs : bytes) : Z :=
  match bs with
  | [] => 0%Z
  | b0 :: _ =>
      if b0 <? 128 then Z.of_N (of_be bs) else (Z.of_N (of_be bs) - 2 ^ Z.of_N (8 * nlen bs))%Z
  end.

(* ------------------------------------------------------------------ *)
(* names of tuple fields: "_0" .. "_7" *)
Definition tuple_field_name (i : N) : name := [95; 48 + i].

Fixpoint tuple_fields (ts : list ty) (i : N) : list field :=
  match ts with
  | [] => []
  | t :: r => mkField (tuple_field_name i) t false None :: tuple_fields r (i + 1)
  end.
(* deserializer/tuples.rs: tuples are read through AdtDeserializer with EMPTY_ADT_METADATA *)
Definition tuple_meta (ts : list ty) : rmeta := mkR (tuple_fields ts 0) [].

Definition is_u8 (t : ty) : bool := match t with TPrim PU8 => true | _ => false end.
(* castaway::cast! selects the byte layout for Vec<u8>, [u8] and [u8; N] only *)
Definition byte_path (k : seqk) (e : ty) : bool :=
  is_u8 e && match k with KVec | KSlice | KArray _ => true | _ => false end.

(* ------------------------------------------------------------------ *)
(* constructor order: declaration order, or stable sort by identifier (String order =
   byte-lexicographic) under #[sorted_constructors]; desert_macro/src/lib.rs:146-151 *)

Fixpoint bytes_leb (a b : bytes) : bool :=
  match a, b with
  | [], _ => true
  | _ :: _, [] => false
  | x :: a', y :: b' => if x <? y then true else if y <? x then false else bytes_leb a' b'
  end.

Fixpoint insert_variant (x : N * variant) (l : list (N * variant)) : list (N * variant) :=
  match l with
  | [] => [x]
  | y :: r => if bytes_leb (v_name (snd y)) (v_name (snd x)) then y :: insert_variant x r
              else x :: l
  end.
(* stable: an element is inserted after every element that is <= it *)
Definition sort_variants (l : list (N * variant)) : list (N * variant) :=
  fold_left (fun acc x => insert_variant x acc) l [].

Fixpoint number_from {A} (i : N) (l : list A) : list (N * A) :=
  match l with [] => [] | x :: r => (i, x) :: number_from (i + 1) r end.

(* the cases in case_idx order, each with its index in the declaration *)
Definition cases_of (m : emeta) : list (N * variant) :=
  let l := number_from 0 (e_variants m) in
  if e_sorted m then sort_variants l else l.

(* case_idx of the variant declared at position `decl_idx` *)
Fixpoint case_index (cs : list (N * variant)) (decl_idx : N) (i : N) : option (N * variant) :=
  match cs with
  | [] => None
  | (d, v) :: r => if d =? decl_idx then Some (i, v) else case_index r decl_idx (i + 1)
  end.

(* ================================================================== *)
(*                               ENCODER                               *)
(* ================================================================== *)

Definition enc_result := outcome (bytes * strtab).
Definition encoder := val -> strtab -> enc_result.

(* serializer/mod.rs:255-277 *)
Definition enc_string (bs : bytes) (st : strtab) : enc_result :=
  if nlen bs <? 2 ^ 31 then Ok (write_var_i32 (Z.of_N (nlen bs)) ++ bs, st)
  else Err ELengthTooLarge.

(* serializer/mod.rs:279-292 *)
Definition enc_dedup (bs : bytes) (st : strtab) : enc_result :=
  match str_id bs st with
  | Some id =>
      (* ids are i32: one above i32::MAX cannot have been assigned *)
      if id <? 2 ^ 31 then Ok (write_var_i32 (- Z.of_N id), st) else Panic POverflow
  | None =>
      (* StringId::next: `self.0 += 1` on an i32 *)
      if nlen st + 1 <? 2 ^ 31 then enc_string bs (st ++ [bs]) else Panic POverflow
  end.

(* serializer/mod.rs:341-401, the byte layout *)
Definition enc_bytes (bs : bytes) (st : strtab) : enc_result :=
  if nlen bs <? 2 ^ 32 then Ok (write_var_u32 (nlen bs) ++ bs, st) else Err ELengthTooLarge.

(* whole seconds since the epoch of a NaiveDateTime value *)
Definition ndt_secs_of (v : val) : Z :=
  match v with
  | VNode 0 [VNode 0 [VZ y; VN m; VN d]; VNode 0 [VN h; VN mi; VN sec; VN _]] =>
      ndt_secs y m d h mi sec
  | _ => 0%Z
  end.

(* --- features/chrono.rs: the byte layouts --- *)
(* NaiveDate: var_u32(year as u32), month, day *)
Definition enc_ndate (v : val) : option bytes :=
  match v with
  | VNode 0 [VZ y; VN m; VN d] => Some (write_var_u32 (to_unsigned 32 y) ++ [m; d])
  | _ => None
  end.
(* NaiveTime: hour, minute, second, var_u32(nanosecond) *)
Definition enc_ntime (v : val) : option bytes :=
  match v with
  | VNode 0 [VN h; VN mi; VN sec; VN ns] => Some ([h; mi; sec] ++ write_var_u32 ns)
  | _ => None
  end.
Definition enc_ndt (v : val) : option bytes :=
  match v with
  | VNode 0 [d; t] =>
      match enc_ndate d, enc_ntime t with
      | Some a, Some b => Some (a ++ b)
      | _, _ => None
      end
  | _ => None
  end.
Definition of_opt (o : option bytes) (st : strtab) : enc_result :=
  match o with Some b => Ok (b, st) | None => Err EIllTyped end.

Definition enc_prim (p : prim) (v : val) (st : strtab) : enc_result :=
  match p, v with
  | PU8, VN n => Ok ([n], st)
  | PI8, VZ z => Ok ([to_unsigned 8 z], st)
  | PU16, VN n => Ok (be_bytes 2 n, st)
  | PI16, VZ z => Ok (be_bytes 2 (to_unsigned 16 z), st)
  | PU32, VN n => Ok (be_bytes 4 n, st)
  | PI32, VZ z => Ok (be_bytes 4 (to_unsigned 32 z), st)
  | PU64, VN n => Ok (be_bytes 8 n, st)
  | PI64, VZ z => Ok (be_bytes 8 (to_unsigned 64 z), st)
  | PU128, VN n => Ok (be_bytes 16 n, st)
  | PI128, VZ z => Ok (be_bytes 16 (to_unsigned 128 z), st)
  | PF32, VN n => Ok (be_bytes 4 n, st)
  | PF64, VN n => Ok (be_bytes 8 n, st)
  | PBool, VN n => Ok ([if n =? 0 then 0 else 1], st)
  | PUnit, VNode 0 [] => Ok ([], st)
  | PChar, VN c => if c <? 65536 then Ok (be_bytes 2 c, st) else Err EUnsupportedCharacter
  | PString, VB bs => enc_string bs st
  | PDedupString, VB bs => enc_dedup bs st
  | PDuration, VNode 0 [VN secs; VN nanos] => Ok (be_bytes 8 secs ++ be_bytes 4 nanos, st)
  | PBytes, VB bs => enc_bytes bs st
  | PUuid, VB bs => Ok (bs, st)
  | PBigInt, VZ z => enc_bytes (bigint_to_be z) st
  (* Weekday / Month: number_from_monday() / number_from_month() as i8 *)
  | PWeekday, VN n => Ok ([n], st)
  | PMonth, VN n => Ok ([n], st)
  (* FixedOffset: type byte 0, var_i32(local_minus_utc) *)
  | PFixedOffset, VZ z => Ok (0 :: write_var_i32 z, st)
  (* Tz: type byte 1, the zone name as a plain String *)
  | PTz, VB nm => '(b, st) <- enc_string nm st ;; Ok (1 :: b, st)
  (* DateTime<Utc>: i64 seconds, u32 nanoseconds *)
  | PDateTimeUtc, VNode 0 [VZ secs; VN nanos] =>
      Ok (be_bytes 8 (to_unsigned 64 secs) ++ be_bytes 4 nanos, st)
  | PNaiveDate, v => of_opt (enc_ndate v) st
  | PNaiveTime, v => of_opt (enc_ntime v) st
  | PNaiveDateTime, v => of_opt (enc_ndt v) st
  (* DateTime<Local>: its local NaiveDateTime *)
  | PDateTimeLocal, v => of_opt (enc_ndt v) st
  (* DateTime<FixedOffset>: local NaiveDateTime, then the offset *)
  | PDateTimeFixed, VNode 0 [dt; VZ off] =>
      '(b, st) <- of_opt (enc_ndt dt) st ;; Ok (b ++ 0 :: write_var_i32 off, st)
  (* DateTime<Tz>: UTC NaiveDateTime, then the zone *)
  | PDateTimeTz, VNode 0 [dt; VB nm] =>
      '(b, st) <- of_opt (enc_ndt dt) st ;;
      '(b2, st) <- enc_string nm st ;;
      Ok (b ++ 1 :: b2, st)
  (* BigDecimal: the String of to_string() (features/bigdecimal.rs) *)
  | PBigDecimal, VNode 0 [VZ i; VZ sc] => enc_string (bd_render i sc) st
  | PVarU32, VN n => Ok (write_var_u32 n, st)
  | PVarI32, VZ z => Ok (write_var_i32 z, st)
  | _, _ => Err EIllTyped
  end.

Fixpoint enc_items (fuel : nat) (e : encoder) (vs : list val) (st : strtab) : enc_result :=
  match vs with
  | [] => Ok ([], st)
  | v :: r =>
      match fuel with
      | O => Fuel
      | S fl =>
          '(b1, st) <- e v st ;;
          '(b2, st) <- enc_items fl e r st ;;
          Ok (b1 ++ b2, st)
      end
  end.

(* serialize_iterator with an exact size_hint, and the hand-written slice/array loops *)
Definition enc_seq (fuel : nat) (e : encoder) (vs : list val) (st : strtab) : enc_result :=
  if nlen vs <? 2 ^ 31 then
    '(b, st) <- enc_items fuel e vs st ;;
    Ok (write_var_i32 (Z.of_N (nlen vs)) ++ b, st)
  else Err ELengthTooLarge.

(* serialize_iterator without an exact size hint: marker -1, each item behind a flag byte 1, terminator 0
   (this crate's own writers never take this path for the built-in containers; Scala's List does) *)
Fixpoint enc_items_flagged (fuel : nat) (e : encoder) (vs : list val) (st : strtab) : enc_result :=
  match vs with
  | [] => Ok ([0], st)
  | v :: r => match fuel with O => Fuel | S fl =>
      '(b1, st) <- e v st ;; '(b2, st) <- enc_items_flagged fl e r st ;; Ok (1 :: b1 ++ b2, st) end
  end.
Definition enc_seq_unknown (fuel : nat) (e : encoder) (vs : list val) (st : strtab) : enc_result :=
  '(b, st) <- enc_items_flagged fuel e vs st ;; Ok (write_var_i32 (-1) ++ b, st).

(* fields of a version-0 record, in declaration order, transient ones skipped *)
Fixpoint enc_fields_v0 (encf : ty -> encoder) (fs : list field) (vs : list val) (st : strtab)
  : enc_result :=
  match fs, vs with
  | [], [] => Ok ([], st)
  | f :: fs', v :: vs' =>
      match f_transient f with
      | Some _ => enc_fields_v0 encf fs' vs' st
      | None =>
          '(b1, st) <- encf (f_ty f) v st ;;
          '(b2, st) <- enc_fields_v0 encf fs' vs' st ;;
          Ok (b1 ++ b2, st)
      end
  | _, _ => Err EIllTyped
  end.

(* --- AdtSerializer with chunks (adt/serializer.rs) --- *)
Record ser_st := mkSer {
  ss_chunks : list bytes;                (* buffers, one per generation 0..version *)
  ss_last : list (N * N);                (* last_index_per_chunk *)
  ss_idx : list (name * (N * N)) }.      (* field_indices: name -> (chunk, position) *)

Fixpoint assoc_N (k : N) (l : list (N * N)) : option N :=
  match l with [] => None | (a, b) :: r => if a =? k then Some b else assoc_N k r end.
Fixpoint assoc_name {A} (k : name) (l : list (name * A)) : option A :=
  match l with [] => None | (a, b) :: r => if bytes_eqb a k then Some b else assoc_name k r end.

Fixpoint app_nth (l : list bytes) (i : nat) (b : bytes) : option (list bytes) :=
  match l, i with
  | [], _ => None
  | x :: r, O => Some ((x ++ b) :: r)
  | x :: r, S i' => match app_nth r i' b with Some r' => Some (x :: r') | None => None end
  end.

(* adt/serializer.rs:87-101 *)
Definition ser_record_index (ss : ser_st) (n : name) (chunk : N) : outcome ser_st :=
  match assoc_N chunk (ss_last ss) with
  | Some li =>
      if li + 1 <? 256 then
        Ok (mkSer (ss_chunks ss) ((chunk, li + 1) :: ss_last ss) ((n, (chunk, li + 1)) :: ss_idx ss))
      else Panic POverflow
  | None => Ok (mkSer (ss_chunks ss) ((chunk, 0) :: ss_last ss) ((n, (chunk, 0)) :: ss_idx ss))
  end.

Fixpoint enc_fields_chunked (encf : ty -> encoder) (steps : list step)
    (fs : list field) (vs : list val) (ss : ser_st) (st : strtab) : outcome (ser_st * strtab) :=
  match fs, vs with
  | [], [] => Ok (ss, st)
  | f :: fs', v :: vs' =>
      match f_transient f with
      | Some _ => enc_fields_chunked encf steps fs' vs' ss st
      | None =>
          let chunk := match field_generation steps (f_name f) with Some c => c | None => 0 end in
          '(b, st) <- encf (f_ty f) v st ;;
          match app_nth (ss_chunks ss) (N.to_nat chunk) b with
          | None => Panic PIndex
          | Some chunks =>
              ss <- ser_record_index (mkSer chunks (ss_last ss) (ss_idx ss)) (f_name f) chunk ;;
              enc_fields_chunked encf steps fs' vs' ss st
          end
      end
  | _, _ => Err EIllTyped
  end.

(* adt/mod.rs:100-112 *)
Definition field_position_byte (chunk pos : N) : outcome N :=
  if chunk =? 0 then
    let p := to_signed 8 pos in                       (* position as i8 *)
    if (p =? -128)%Z then Panic POverflow             (* -(i8::MIN) *)
    else Ok (to_unsigned 8 (- p))
  else Ok chunk.

(* header entries that carry a field name are rendered when the record is opened, in step
   order, so that their strings get their ids before any field of the record *)
Fixpoint prerender_names (steps : list step) (all : list step) (st : strtab)
  : outcome (list (option bytes) * strtab) :=
  match steps with
  | [] => Ok ([], st)
  | s :: r =>
      let named := match s with
                   | SRemoved n | SMadeTransient n => Some n
                   | SMadeOptional n => if in_removed all n then Some n else None
                   | SAdded _ _ => None
                   end in
      match named with
      | Some n =>
          '(b, st) <- enc_dedup n st ;;
          '(rest, st) <- prerender_names r all st ;;
          Ok (Some (write_var_i32 (-2) ++ b) :: rest, st)
      | None =>
          '(rest, st) <- prerender_names r all st ;;
          Ok (None :: rest, st)
      end
  end.

Definition chunk_size_entry (chunks : list bytes) (i : nat) : outcome bytes :=
  match nth_error chunks i with
  | None => Panic PIndex
  | Some c => if nlen c <? 2 ^ 31 then Ok (write_var_i32 (Z.of_N (nlen c))) else Err ELengthTooLarge
  end.

(* adt/serializer.rs:103-144; `i` is the index of the step in evolution_steps *)
Fixpoint header_entries (steps : list step) (pre : list (option bytes)) (ss : ser_st) (i : nat)
  : outcome bytes :=
  match steps, pre with
  | [], _ => Ok []
  | s :: r, p :: pr =>
      e <- match s with
           | SAdded _ _ => chunk_size_entry (ss_chunks ss) i
           | SMadeOptional n =>
               match assoc_name n (ss_idx ss) with
               | Some (c, pos) =>
                   b <- field_position_byte c pos ;;
                   Ok (write_var_i32 (-1) ++ [b])
               | None =>
                   match p with Some b => Ok b | None => Err (EUnknownFieldRef n) end
               end
           | SRemoved n | SMadeTransient n =>
               match p with Some b => Ok b | None => Panic PUnwrap end
           end ;;
      rest <- header_entries r pr ss (S i) ;;
      Ok (e ++ rest)
  | _ :: _, [] => Panic PIndex
  end.

Definition enc_record (encf : ty -> encoder) (m : rmeta) (vs : list val) (st : strtab) : enc_result :=
  let steps := r_steps m in
  match steps with
  | [] =>
      '(b, st) <- enc_fields_v0 encf (r_fields m) vs st ;;
      Ok (0 :: b, st)
  | _ :: _ =>
      let v := version_of steps in
      if 255 <=? v then Panic PAssert else       (* AdtMetadata::new: "Too many evolution steps" *)
      '(pre, st) <- prerender_names steps steps st ;;
      let ss0 := mkSer (repeat [] (S (length steps))) [] [] in
      '(ss, st) <- enc_fields_chunked encf steps (r_fields m) vs ss0 st ;;
      e0 <- chunk_size_entry (ss_chunks ss) 0 ;;
      hdr <- header_entries steps pre ss 1 ;;
      Ok (v :: e0 ++ hdr ++ concat (ss_chunks ss), st)
  end.

Definition enc_enum (encf : ty -> encoder) (tyname : name) (m : emeta) (v : val) (st : strtab)
  : enc_result :=
  match v with
  | VNode tag payload =>
      match case_index (cases_of m) tag 0 with
      | None => Err EIllTyped
      | Some (idx, var) =>
          if v_transient var then Err (ESerTransientCtor (v_name var) tyname)
          else if 2 ^ 32 <=? idx then Err EIllTyped      (* `case_idx as u32`: no such enum exists *)
          else
            '(b, st) <- enc_record encf (v_rec var) payload st ;;
            Ok (0 :: write_var_u32 idx ++ b, st)
      end
  | _ => Err EIllTyped
  end.

Fixpoint enc (f : nat) (E : env) (t : ty) (v : val) (st : strtab) {struct f} : enc_result :=
  match f with
  | O => Fuel
  | S f' =>
      match t with
      | TPrim p => enc_prim p v st
      | TOption t' =>
          match v with
          | VNode 0 [] => Ok ([0], st)
          | VNode 1 [x] => '(b, st) <- enc f' E t' x st ;; Ok (1 :: b, st)
          | _ => Err EIllTyped
          end
      | TResult r e =>
          match v with
          | VNode 0 [x] => '(b, st) <- enc f' E e x st ;; Ok (0 :: b, st)
          | VNode 1 [x] => '(b, st) <- enc f' E r x st ;; Ok (1 :: b, st)
          | _ => Err EIllTyped
          end
      | TTuple ts =>
          match v with
          | VNode 0 vs => enc_record (enc f' E) (tuple_meta ts) vs st
          | _ => Err EIllTyped
          end
      | TSeq k e =>
          if byte_path k e then
            match v with VB bs => enc_bytes bs st | _ => Err EIllTyped end
          else
            match v with
            | VNode 0 vs => enc_seq f' (enc f' E e) vs st
            | _ => Err EIllTyped
            end
      | TMap _ kt vt =>
          match v with
          | VNode 0 vs => enc_seq f' (enc f' E (TTuple [kt; vt])) vs st
          | _ => Err EIllTyped
          end
      | TWrap _ t' => enc f' E t' v st
      | TPhantom => match v with VNode 0 [] => Ok ([], st) | _ => Err EIllTyped end
      | TNamed n =>
          match lookup_decl E n with
          | None => Err EIllTyped
          | Some d =>
              match d_body d with
              | DRecord m =>
                  match v with
                  | VNode 0 vs => enc_record (enc f' E) m vs st
                  | _ => Err EIllTyped
                  end
              | DEnum m => enc_enum (enc f' E) (d_name d) m v st
              end
          end
      end
  end.

(* ================================================================== *)
(*                               DECODER                               *)
(* ================================================================== *)

(* what a decoder needs from its input, beyond the three BinaryInput primitives *)
Record dops (S Rg : Type) := {
  d_rd : reader S;
  d_take : N -> S -> outcome (Rg * S);     (* start = pos(); skip(n); InputRegion::new(start, n) *)
  d_push : Rg -> S -> outcome S;           (* push_region *)
  d_pop : S -> outcome (Rg * S);           (* pop_region *)
  d_empty : Rg;                            (* InputRegion::empty() *)
  d_str_get : S -> Z -> option bytes;      (* state().get_string_by_id *)
  d_str_store : bytes -> S -> S }.         (* state_mut().store_string *)
Arguments d_rd {S Rg}. Arguments d_take {S Rg}. Arguments d_push {S Rg}. Arguments d_pop {S Rg}.
Arguments d_empty {S Rg}. Arguments d_str_get {S Rg}. Arguments d_str_store {S Rg}.

Inductive sstep :=                          (* SerializedEvolutionStep *)
| SSChunk (size : Z) | SSOpt (chunk pos : N) | SSRemoved (n : name) | SSUnknown.

Fixpoint dedup_vals (seen : list val) (l : list val) : list val :=
  match l with
  | [] => []
  | x :: r => if existsb (val_eqb x) seen then dedup_vals seen r else x :: dedup_vals (x :: seen) r
  end.

(* collect() into a map: a repeated key keeps its first position and takes the last value *)
Fixpoint map_insert (k v : val) (acc : list (val * val)) : list (val * val) :=
  match acc with
  | [] => [(k, v)]
  | (k', v') :: r => if val_eqb k' k then (k', v) :: r else (k', v') :: map_insert k v r
  end.
Definition pair_of (x : val) : option (val * val) :=
  match x with VNode 0 [k; v] => Some (k, v) | _ => None end.
Fixpoint map_collect (items : list val) (acc : list (val * val)) : list (val * val) :=
  match items with
  | [] => acc
  | x :: r => match pair_of x with
              | Some (k, v) => map_collect r (map_insert k v acc)
              | None => map_collect r acc
              end
  end.

Section Dec.
  Context {S Rg : Type} (D : dops S Rg).
  Notation rd := (d_rd D).

  Definition decoder := S -> outcome (val * S).

  Definition dec_utf8 (bs : bytes) (s : S) : outcome (val * S) :=
    if utf8_valid bs then Ok (VB bs, s) else Err EFailedToDecodeString.

  (* deserializer/mod.rs:216-222 *)
  Definition dec_string : decoder := fun s =>
    '(id, s) <- read_var_i32 rd s ;;
    '(bs, s) <- r_bytes rd (as_usize id) s ;;
    dec_utf8 bs s.

  (* deserializer/mod.rs:224-240 *)
  Definition dec_dedup : decoder := fun s =>
    '(c, s) <- read_var_i32 rd s ;;
    if (c <? 0)%Z then
      if (c =? - 2 ^ 31)%Z then Err (EInvalidStringId c) else
      match d_str_get D s (- c) with
      | Some bs => Ok (VB bs, s)
      | None => Err (EInvalidStringId (- c))
      end
    else
      '(bs, s) <- r_bytes rd (as_usize c) s ;;
      '(v, s) <- dec_utf8 bs s ;;
      Ok (v, d_str_store D bs s).

  Definition dec_bytes : decoder := fun s =>
    '(len, s) <- read_var_u32 rd s ;;
    '(bs, s) <- r_bytes rd len s ;;
    Ok (VB bs, s).

  (* --- features/chrono.rs --- *)
  Definition dec_small (lo hi : N) : decoder := fun s =>
    '(z, s) <- read_i8 rd s ;;
    if ((Z.of_N lo <=? z) && (z <=? Z.of_N hi))%Z then Ok (VN (Z.to_N z), s)
    else Err EDeserializationFailure.

  Definition dec_offset : decoder := fun s =>
    '(t, s) <- r_u8 rd s ;;
    if t =? 0 then
      '(z, s) <- read_var_i32 rd s ;;
      if valid_offset z then Ok (VZ z, s) else Err EDeserializationFailure
    else Err EDeserializationFailure.

  Definition dec_tz : decoder := fun s =>
    '(t, s) <- r_u8 rd s ;;
    if t =? 1 then
      '(v, s) <- dec_string s ;;
      match v with
      | VB nm => if tz_known nm then Ok (VB nm, s) else Err EDeserializationFailure
      | _ => Err EIllTyped
      end
    else Err EDeserializationFailure.

  Definition dec_ndate : decoder := fun s =>
    '(y, s) <- read_var_u32 rd s ;;
    '(m, s) <- r_u8 rd s ;;
    '(d, s) <- r_u8 rd s ;;
    let yz := to_signed 32 y in
    if valid_ymd yz m d then Ok (VNode 0 [VZ yz; VN m; VN d], s) else Err EDeserializationFailure.

  Definition dec_ntime : decoder := fun s =>
    '(h, s) <- r_u8 rd s ;;
    '(mi, s) <- r_u8 rd s ;;
    '(sec, s) <- r_u8 rd s ;;
    '(ns, s) <- read_var_u32 rd s ;;
    if valid_hmsn h mi sec ns then Ok (VNode 0 [VN h; VN mi; VN sec; VN ns], s)
    else Err EDeserializationFailure.

  Definition dec_ndt : decoder := fun s =>
    '(d, s) <- dec_ndate s ;;
    '(t, s) <- dec_ntime s ;;
    Ok (VNode 0 [d; t], s).

  Definition dec_prim (p : prim) : decoder := fun s =>
    match p with
    | PU8 => '(b, s) <- r_u8 rd s ;; Ok (VN b, s)
    | PI8 => '(z, s) <- read_i8 rd s ;; Ok (VZ z, s)
    | PU16 => '(n, s) <- read_be rd 2 s ;; Ok (VN n, s)
    | PI16 => '(z, s) <- read_signed rd 2 16 s ;; Ok (VZ z, s)
    | PU32 => '(n, s) <- read_be rd 4 s ;; Ok (VN n, s)
    | PI32 => '(z, s) <- read_signed rd 4 32 s ;; Ok (VZ z, s)
    | PU64 => '(n, s) <- read_be rd 8 s ;; Ok (VN n, s)
    | PI64 => '(z, s) <- read_signed rd 8 64 s ;; Ok (VZ z, s)
    | PU128 => '(n, s) <- read_be rd 16 s ;; Ok (VN n, s)
    | PI128 => '(z, s) <- read_signed rd 16 128 s ;; Ok (VZ z, s)
    | PF32 => '(n, s) <- read_be rd 4 s ;; Ok (VN n, s)
    | PF64 => '(n, s) <- read_be rd 8 s ;; Ok (VN n, s)
    | PBool => '(b, s) <- r_u8 rd s ;; Ok (VN (if b =? 0 then 0 else 1), s)
    | PUnit => Ok (VUnit, s)
    | PChar =>
        '(c, s) <- read_be rd 2 s ;;
        if in_range 55296 57343 c then Err EFailedToDecodeCharacter else Ok (VN c, s)
    | PString => dec_string s
    | PDedupString => dec_dedup s
    | PDuration =>
        '(secs, s) <- read_be rd 8 s ;;
        '(nanos, s) <- read_be rd 4 s ;;
        (* Duration::new carries whole seconds out of nanos; a carry past u64::MAX is an error *)
        let secs' := secs + nanos / 1000000000 in
        if secs' <? 2 ^ 64 then Ok (VNode 0 [VN secs'; VN (nanos mod 1000000000)], s)
        else Err EDeserializationFailure
    | PBytes => dec_bytes s
    | PUuid => '(bs, s) <- r_bytes rd 16 s ;; Ok (VB bs, s)
    | PBigInt =>
        '(v, s) <- dec_bytes s ;;
        match v with VB bs => Ok (VZ (bigint_of_be bs), s) | _ => Err EIllTyped end
    (* BigDecimal: a String, then str::parse; the model keeps the representative bd_norm *)
    | PBigDecimal =>
        '(v, s) <- dec_string s ;;
        match v with
        | VB bs => match bd_parse bs with
                   | Some p => Ok (VNode 0 [VZ (fst (bd_norm p)); VZ (snd (bd_norm p))], s)
                   | None => Err EDeserializationFailure
                   end
        | _ => Err EIllTyped
        end
    | PWeekday => dec_small 1 7 s
    | PMonth => dec_small 1 12 s
    | PFixedOffset => dec_offset s
    | PTz => dec_tz s
    | PDateTimeUtc =>
        '(secs, s) <- read_signed rd 8 64 s ;;
        '(nanos, s) <- read_be rd 4 s ;;
        if valid_ts secs nanos then Ok (VNode 0 [VZ secs; VN nanos], s)
        else Err EDeserializationFailure
    | PNaiveDate => dec_ndate s
    | PNaiveTime => dec_ntime s
    | PNaiveDateTime => dec_ndt s
    (* Local.from_local_datetime(..).single(): the checks pin TZ=UTC, where every NaiveDateTime is
       an unambiguous local time *)
    | PDateTimeLocal => dec_ndt s
    | PDateTimeFixed =>
        '(dt, s) <- dec_ndt s ;;
        '(off, s) <- dec_offset s ;;
        match off with
        | VZ z =>
            if valid_local_with_offset (ndt_secs_of dt) z then Ok (VNode 0 [dt; off], s)
            else Err EDeserializationFailure
        | _ => Err EIllTyped
        end
    | PDateTimeTz =>
        '(dt, s) <- dec_ndt s ;;
        '(tz, s) <- dec_tz s ;;
        Ok (VNode 0 [dt; tz], s)
    | PVarU32 => '(n, s) <- read_var_u32 rd s ;; Ok (VN n, s)
    | PVarI32 => '(z, s) <- read_var_i32 rd s ;; Ok (VZ z, s)
    end.

  (* --- sequences: deserializer/mod.rs:375-434 --- *)
  Fixpoint dec_known (fuel : nat) (d : decoder) (n : N) (s : S) : outcome (list val * S) :=
    if n =? 0 then Ok ([], s) else
    match fuel with
    | O => Fuel
    | Datatypes.S fl =>
        '(x, s) <- d s ;;
        '(xs, s) <- dec_known fl d (n - 1) s ;;
        Ok (x :: xs, s)
    end.

  Fixpoint dec_unknown (fuel : nat) (d : decoder) (s : S) : outcome (list val * S) :=
    match fuel with
    | O => Fuel
    | Datatypes.S fl =>
        '(tag, s) <- r_u8 rd s ;;
        if tag =? 0 then Ok ([], s)
        else if tag =? 1 then
          '(x, s) <- d s ;;
          '(xs, s) <- dec_unknown fl d s ;;
          Ok (x :: xs, s)
        else Err EDeserializationFailure
    end.

  Definition dec_seq_items (fuel : nat) (d : decoder) (s : S) : outcome (list val * S) :=
    match read_var_i32 rd s with
    | Ok (n, s) =>
        if (n =? -1)%Z then dec_unknown fuel d s
        (* any other negative length is rejected (it is never written; as usize it would be ~2^64) *)
        else if (n <? 0)%Z then Err EDeserializationFailure
        else dec_known fuel d (as_usize n) s
    | Err _ => Err EInputEnded
    | Panic p => Panic p
    | Fuel => Fuel
    end.

  Definition collect (k : seqk) (items : list val) : outcome val :=
    match k with
    | KVec | KSlice | KLinkedList => Ok (VNode 0 items)
    | KHashSet | KBTreeSet => Ok (VNode 0 (dedup_vals [] items))
    | KArray n => if nlen items =? n then Ok (VNode 0 items) else Err EDeserializationFailure
    end.

  (* --- AdtDeserializer: adt/deserializer.rs --- *)
  Record adt_de := mkAd {
    ad_last : list Z;                    (* last_index_per_chunk : Vec<i8> *)
    ad_ctor : option N;                  (* read_constructor_idx *)
    ad_stored : N;                       (* stored_version *)
    ad_mo : list (N * N);                (* keys of made_optional_at *)
    ad_removed : list name;              (* removed_fields read from the header *)
    ad_inputs : list Rg }.

  Definition ad_new_v0 (steps : list step) : adt_de :=
    mkAd (repeat (-1)%Z (Datatypes.S (length steps))) None 0 [] [] [].

  (* evolution.rs:75-93 and adt/mod.rs:124-133 *)
  Definition dec_sstep (s : S) : outcome (sstep * S) :=
    '(code, s) <- read_var_i32 rd s ;;
    if (code =? 0)%Z then Ok (SSUnknown, s)
    else if (code =? -1)%Z then
      '(b, s) <- read_i8 rd s ;;
      if (b <? 0)%Z then
        if (b =? -128)%Z then Err EDeserializationFailure
        else Ok (SSOpt 0 (Z.to_N (- b)), s)
      else Ok (SSOpt (Z.to_N b) 0, s)
    else if (code =? -2)%Z then
      '(v, s) <- dec_dedup s ;;
      match v with VB n => Ok (SSRemoved n, s) | _ => Err EIllTyped end
    else Ok (SSChunk code, s).

  Fixpoint dec_ssteps (n : nat) (s : S) : outcome (list sstep * S) :=
    match n with
    | O => Ok ([], s)
    | Datatypes.S n' =>
        '(x, s) <- dec_sstep s ;;
        '(xs, s) <- dec_ssteps n' s ;;
        Ok (x :: xs, s)
    end.

  (* second loop of AdtDeserializer::new: skip the chunks, remember where they are *)
  Fixpoint take_chunks (ss : list sstep) (idx : N) (s : S)
    : outcome ((list Rg * list (N * N) * list name) * S) :=
    match ss with
    | [] => Ok (([], [], []), s)
    | x :: r =>
        match x with
        | SSChunk size =>
            '(rg, s) <- d_take D (as_usize size) s ;;
            '((inputs, mo, rem), s) <- take_chunks r (idx + 1) s ;;
            Ok ((rg :: inputs, mo, rem), s)
        | SSOpt c p =>
            '((inputs, mo, rem), s) <- take_chunks r (idx + 1) s ;;
            Ok ((d_empty D :: inputs, (c, p) :: mo, rem), s)
        | SSRemoved n =>
            '((inputs, mo, rem), s) <- take_chunks r (idx + 1) s ;;
            Ok ((d_empty D :: inputs, mo, n :: rem), s)
        | SSUnknown =>
            '((inputs, mo, rem), s) <- take_chunks r (idx + 1) s ;;
            Ok ((d_empty D :: inputs, mo, rem), s)
        end
    end.

  Definition ad_new (steps : list step) (stored : N) (s : S) : outcome (adt_de * S) :=
    '(ss, s) <- dec_ssteps (Datatypes.S (N.to_nat stored)) s ;;
    '((inputs, mo, rem), s) <- take_chunks ss 0 s ;;
    Ok (mkAd (repeat (-1)%Z (Datatypes.S (length steps))) None stored mo rem inputs, s).

  Definition ad_open (steps : list step) (s : S) : outcome (adt_de * S) :=
    '(stored, s) <- r_u8 rd s ;;
    if stored =? 0 then Ok (ad_new_v0 steps, s) else ad_new steps stored s.

  Fixpoint set_nth {A} (l : list A) (i : nat) (x : A) : list A :=
    match l, i with
    | [], _ => []
    | _ :: r, O => x :: r
    | y :: r, Datatypes.S i' => y :: set_nth r i' x
    end.

  (* adt/deserializer.rs:204-210 *)
  Definition ad_record_index (ad : adt_de) (chunk : N) : outcome ((N * N) * adt_de) :=
    match nth_error (ad_last ad) (N.to_nat chunk) with
    | None => Panic PIndex
    | Some last =>
        let new := (last + 1)%Z in
        if (127 <? new)%Z then Panic POverflow else
        Ok ((chunk, Z.to_N new),
            mkAd (set_nth (ad_last ad) (N.to_nat chunk) new) (ad_ctor ad) (ad_stored ad)
                 (ad_mo ad) (ad_removed ad) (ad_inputs ad))
    end.

  Definition ad_set_input (ad : adt_de) (chunk : N) (rg : Rg) : adt_de :=
    mkAd (ad_last ad) (ad_ctor ad) (ad_stored ad) (ad_mo ad) (ad_removed ad)
         (set_nth (ad_inputs ad) (N.to_nat chunk) rg).

  (* run `body` inside the region of `chunk` when the record has a header *)
  Definition in_chunk {A} (ad : adt_de) (chunk : N) (body : S -> outcome (A * S)) (s : S)
    : outcome (A * adt_de * S) :=
    match ad_inputs ad with
    | [] => '(a, s) <- body s ;; Ok (a, ad, s)
    | _ :: _ =>
        match nth_error (ad_inputs ad) (N.to_nat chunk) with
        | None => Panic PIndex
        | Some rg =>
            s <- d_push D rg s ;;
            '(a, s) <- body s ;;
            '(rg', s) <- d_pop D s ;;
            Ok (a, ad_set_input ad chunk rg', s)
        end
    end.

  Definition mem_name (n : name) (l : list name) : bool := existsb (bytes_eqb n) l.
  Definition mem_pos (p : N * N) (l : list (N * N)) : bool :=
    existsb (fun q => (fst q =? fst p) && (snd q =? snd p)) l.

  (* adt/deserializer.rs:86-137 *)
  Definition read_field (steps : list step) (d : decoder) (n : name) (default : option val)
      (ad : adt_de) (s : S) : outcome (val * adt_de * S) :=
    if mem_name n (ad_removed ad) then Err (EFieldRemoved n) else
    let chunk := match field_generation steps n with Some c => c | None => 0 end in
    '(fp, ad) <- ad_record_index ad chunk ;;
    if ad_stored ad <? chunk then
      match default with
      | Some v => Ok (v, ad, s)
      | None => Err (EFieldMissing n)
      end
    else
      in_chunk ad chunk
        (fun s =>
           if mem_pos fp (ad_mo ad) then
             '(b, s) <- r_u8 rd s ;;
             if b =? 0 then Err (ENonOptionalNone n) else d s
           else d s) s.

  (* adt/deserializer.rs:139-181; `d` decodes the T of Option<T> *)
  Definition read_optional_field (steps : list step) (d : decoder) (n : name) (default : option val)
      (ad : adt_de) (s : S) : outcome (val * adt_de * S) :=
    if mem_name n (ad_removed ad) then Ok (VNone, ad, s) else
    let chunk := match field_generation steps n with Some c => c | None => 0 end in
    let opt_since := match made_optional_at steps n with Some i => i | None => 0 end in
    '(_, ad) <- ad_record_index ad chunk ;;
    if ad_stored ad <? chunk then
      match default with
      | Some v => Ok (v, ad, s)
      | None => Err EDeserializationFailure
      end
    else
      in_chunk ad chunk
        (fun s =>
           if ad_stored ad <? opt_since then
             '(x, s) <- d s ;; Ok (VSome x, s)
           else
             '(tag, s) <- r_u8 rd s ;;
             if tag =? 0 then Ok (VNone, s)
             else if tag =? 1 then '(x, s) <- d s ;; Ok (VSome x, s)
             else Err EDeserializationFailure) s.

  (* the constructor expression the macro generates, field by field *)
  Fixpoint read_fields (decf : ty -> decoder) (steps : list step) (fs : list field)
      (ad : adt_de) (s : S) : outcome (list val * adt_de * S) :=
    match fs with
    | [] => Ok ([], ad, s)
    | f :: r =>
        '(v, ad, s) <-
          match f_transient f with
          | Some dflt => Ok (dflt, ad, s)
          | None =>
              let dflt := field_default steps (f_name f) None in
              if f_opt f then
                match f_ty f with
                | TOption t' => read_optional_field steps (decf t') (f_name f) dflt ad s
                | _ => Err EIllTyped
                end
              else read_field steps (decf (f_ty f)) (f_name f) dflt ad s
          end ;;
        '(vs, ad, s) <- read_fields decf steps r ad s ;;
        Ok (v :: vs, ad, s)
    end.

  Definition dec_record (decf : ty -> decoder) (m : rmeta) : decoder := fun s =>
    if 255 <=? version_of (r_steps m) then Panic PAssert else
    '(ad, s) <- ad_open (r_steps m) s ;;
    '(vs, _, s) <- read_fields decf (r_steps m) (r_fields m) ad s ;;
    Ok (VNode 0 vs, s).

  (* adt/deserializer.rs:212-228 *)
  Definition read_ctor_idx (ad : adt_de) (s : S) : outcome (N * adt_de * S) :=
    match ad_ctor ad with
    | Some i => Ok (i, ad, s)
    | None =>
        '(i, ad, s) <- in_chunk ad 0 (read_var_u32 rd) s ;;
        Ok (i, mkAd (ad_last ad) (Some i) (ad_stored ad) (ad_mo ad) (ad_removed ad) (ad_inputs ad), s)
    end.

  (* the generated chain of read_constructor attempts; desert_macro/src/lib.rs:255-283,332-337 *)
  Fixpoint read_cases (decf : ty -> decoder) (tyname : name) (cs : list (N * variant)) (idx : N)
      (ad : adt_de) (s : S) : outcome (val * S) :=
    match cs with
    | [] =>
        '(i, _, _) <- read_ctor_idx ad s ;;
        Err (EInvalidConstructorId i tyname)
    | (decl_idx, var) :: r =>
        '(i, ad, s) <- read_ctor_idx ad s ;;
        if i =? idx then
          if v_transient var then Err (EDeTransientCtor (v_name var) tyname)
          else
            '(v, _, s) <- in_chunk ad 0 (dec_record decf (v_rec var)) s ;;
            match v with
            | VNode _ vs => Ok (VNode decl_idx vs, s)
            | _ => Err EIllTyped
            end
        else read_cases decf tyname r (idx + 1) ad s
    end.

  Definition dec_enum (decf : ty -> decoder) (tyname : name) (m : emeta) : decoder := fun s =>
    '(ad, s) <- ad_open [] s ;;
    read_cases decf tyname (cases_of m) 0 ad s.

  Fixpoint dec (f : nat) (E : env) (t : ty) (s : S) {struct f} : outcome (val * S) :=
    match f with
    | O => Fuel
    | Datatypes.S f' =>
        match t with
        | TPrim p => dec_prim p s
        | TOption t' =>
            '(tag, s) <- r_u8 rd s ;;
            if tag =? 0 then Ok (VNone, s)
            else if tag =? 1 then '(x, s) <- dec f' E t' s ;; Ok (VSome x, s)
            else Err EDeserializationFailure
        | TResult r e =>
            '(tag, s) <- r_u8 rd s ;;
            if tag =? 0 then '(x, s) <- dec f' E e s ;; Ok (VNode 0 [x], s)
            else if tag =? 1 then '(x, s) <- dec f' E r s ;; Ok (VNode 1 [x], s)
            else Err EDeserializationFailure
        | TTuple ts => dec_record (dec f' E) (tuple_meta ts) s
        | TSeq k e =>
            if byte_path k e then
              '(v, s) <- dec_bytes s ;;
              match k, v with
              | KArray n, VB bs => if nlen bs =? n then Ok (v, s) else Err EInputEnded
              | _, _ => Ok (v, s)
              end
            else
              '(items, s) <- dec_seq_items f' (dec f' E e) s ;;
              v <- collect k items ;;
              Ok (v, s)
        | TMap _ kt vt =>
            '(items, s) <- dec_seq_items f' (dec f' E (TTuple [kt; vt])) s ;;
            Ok (VNode 0 (map (fun kv => VNode 0 [fst kv; snd kv]) (map_collect items [])), s)
        | TWrap _ t' => dec f' E t' s
        | TPhantom => Ok (VUnit, s)
        | TNamed n =>
            match lookup_decl E n with
            | None => Err EIllTyped
            | Some d =>
                match d_body d with
                | DRecord m => dec_record (dec f' E) m s
                | DEnum m => dec_enum (dec f' E) (d_name d) m s
                end
            end
        end
    end.
End Dec.

(* ================================================================== *)
(*     layer A: the reference input — bytes not yet read, as lists      *)
(* ================================================================== *)

Record astate := mkA { a_cur : bytes; a_stack : list bytes; a_strs : strtab }.

Definition a_with_cur (s : astate) (c : bytes) : astate := mkA c (a_stack s) (a_strs s).

Definition a_reader : reader astate :=
  {| r_u8 := fun s => '(b, c) <- r_u8 list_reader (a_cur s) ;; Ok (b, a_with_cur s c);
     r_bytes := fun n s => '(bs, c) <- r_bytes list_reader n (a_cur s) ;; Ok (bs, a_with_cur s c);
     r_skip := fun n s => '(u, c) <- r_skip list_reader n (a_cur s) ;; Ok (u, a_with_cur s c) |}.

(* a chunk is a sub-list: the bytes of it not yet read *)
Definition a_ops : dops astate bytes :=
  {| d_rd := a_reader;
     d_take := fun n s =>
       if n <=? nlen (a_cur s) then Ok (ntake n (a_cur s), a_with_cur s (ndrop n (a_cur s)))
       else Err EInputEnded;
     d_push := fun rg s => Ok (mkA rg (a_cur s :: a_stack s) (a_strs s));
     d_pop := fun s =>
       match a_stack s with
       | top :: rest => Ok (a_cur s, mkA top rest (a_strs s))
       | [] => Panic PUnwrap
       end;
     d_empty := [];
     d_str_get := fun s id => str_get (a_strs s) id;
     d_str_store := fun bs s => mkA (a_cur s) (a_stack s) (str_store bs (a_strs s)) |}.

(* ref_decode of the properties: the value, the unread suffix, the string table *)
Definition decodeA (f : nat) (E : env) (t : ty) (bs : bytes) (st : strtab)
  : outcome (val * bytes * strtab) :=
  '(v, s) <- dec a_ops f E t (mkA bs [] st) ;; Ok (v, a_cur s, a_strs s).
