(* RecordRt.v — round trip of records, given round trip of their field codecs:
   the interface between the fuel induction (CodecRt2.v) and the AdtSerializer /
   AdtDeserializer models.  Version-0 records (and tuples) here; chunked records in
   RecordChunked.v. *)
From Coq Require Import NArith ZArith List Lia Bool.
From Coq Require Import ZifyBool ZifyN ZifyNat.
From Desert Require Import Bits Outcome IO IOProofs VarintProofs Types Codec CodecWf CodecLemmas.
Import ListNotations.
Open Scope N_scope.

Ltac Zify.zify_post_hook ::= Z.div_mod_to_equations.

Definition adecoder := astate -> outcome (val * astate).

(* an encoder/decoder pair round-trips on the values accepted by `w`, up to `nv` *)
Definition rt_pair (e : encoder) (d : adecoder) (w : val -> bool) (nv : val -> val) : Prop :=
  forall v st b st' s k, w v = true -> e v st = Ok (b, st') ->
    d (mkA (b ++ s) k st) = Ok (nv v, mkA s k st').

(* what the fuel induction provides about the codecs of field types *)
Record fields_ok (E : env) (encf : ty -> encoder) (decf : ty -> adecoder)
    (w : ty -> val -> bool) (nv : ty -> val -> val) : Prop := {
  fo_rt : forall t, wf_ty E t = true -> rt_pair (encf t) (decf t) (w t) (nv t);
  (* an Option-spelled field is read as a tag followed by the inner codec *)
  fo_opt : forall t', wf_ty E t' = true -> forall v st b st' s k,
      w (TOption t') v = true -> encf (TOption t') v st = Ok (b, st') ->
      (v = VNone /\ b = [0] /\ st' = st /\ nv (TOption t') v = VNone) \/
      (exists x b', v = VSome x /\ b = 1 :: b' /\ nv (TOption t') v = VSome (nv t' x) /\
                    decf t' (mkA (b' ++ s) k st) = Ok (nv t' x, mkA s k st')) }.

Section V0.
  Context (E : env) (encf : ty -> encoder) (decf : ty -> adecoder)
          (w : ty -> val -> bool) (nv : ty -> val -> val).
  Hypothesis FO : fields_ok E encf decf w nv.

  Definition ad_v0 (c : Z) : adt_de (Rg := bytes) := mkAd [c] None 0 [] [] [].

  Lemma read_field_v0 (d : adecoder) n dflt c s :
    (c < 127)%Z ->
    read_field a_ops [] d n dflt (ad_v0 c) s =
      ('(v, s') <- d s ;; Ok (v, ad_v0 (c + 1), s')).
  Proof.
    intros Hc. unfold read_field, ad_v0. cbn [mem_name existsb ad_removed field_generation last_index_where].
    unfold ad_record_index. cbn [ad_last nth_error N.to_nat].
    assert ((127 <? c + 1)%Z = false) as -> by lia.
    cbn [bind ad_stored ad_ctor ad_mo ad_removed ad_inputs set_nth].
    cbn [N.ltb N.compare]. unfold in_chunk. cbn [ad_inputs mem_pos existsb ad_mo].
    destruct (d s) as [[v s']| | |]; reflexivity.
  Qed.

  Lemma read_optional_field_v0 (d : adecoder) n dflt c s :
    (c < 127)%Z ->
    read_optional_field a_ops [] d n dflt (ad_v0 c) s =
      ('(v, s') <- ('(tag, s) <- r_u8 a_reader s ;;
                    if tag =? 0 then Ok (VNone, s)
                    else if tag =? 1 then '(x, s) <- d s ;; Ok (VSome x, s)
                    else Err EDeserializationFailure) ;;
       Ok (v, ad_v0 (c + 1), s')).
  Proof.
    intros Hc. unfold read_optional_field, ad_v0.
    cbn [mem_name existsb ad_removed field_generation made_optional_at last_index_where].
    unfold ad_record_index. cbn [ad_last nth_error N.to_nat].
    assert ((127 <? c + 1)%Z = false) as -> by lia.
    cbn [bind ad_stored ad_ctor ad_mo ad_removed ad_inputs set_nth].
    cbn [N.ltb N.compare]. unfold in_chunk. cbn [ad_inputs a_ops d_rd].
    destruct (r_u8 a_reader s) as [[tag s1]| | |]; cbn [bind]; reflexivity.
  Qed.

  Definition count_written (fs : list field) : Z :=
    Z.of_nat (length (filter (fun f => match f_transient f with None => true | Some _ => false end) fs)).

  Lemma count_written_le fs : (count_written fs <= Z.of_nat (length fs))%Z.
  Proof.
    unfold count_written. induction fs as [|f fs IH]; cbn [filter length]; [lia|].
    destruct (f_transient f); cbn [length]; lia.
  Qed.

  Lemma count_written_nonneg fs : (0 <= count_written fs)%Z.
  Proof. unfold count_written. lia. Qed.

  Lemma count_written_cons f fs :
    count_written (f :: fs) = (match f_transient f with None => 1 | Some _ => 0 end + count_written fs)%Z.
  Proof. unfold count_written. cbn [filter]. destruct (f_transient f); cbn [length]; lia. Qed.

  (* fields of a version-0 record *)
  Lemma rt_fields_v0 : forall fs vs st b st' s k c,
    forallb (wf_field E []) fs = true ->
    wf_fields w fs vs = true ->
    (c + count_written fs <= 126)%Z ->
    enc_fields_v0 encf fs vs st = Ok (b, st') ->
    exists c',
      read_fields a_ops decf [] fs (ad_v0 c) (mkA (b ++ s) k st)
      = Ok (norm_fields nv fs vs, ad_v0 c', mkA s k st').
  Proof.
    induction fs as [|f fs IH]; intros vs st b st' s k c Hwf Hv Hc Henc.
    - destruct vs; [|discriminate]. cbn in Henc. injection Henc as <- <-. exists c. reflexivity.
    - destruct vs as [|x vs]; [discriminate|].
      cbn [forallb] in Hwf. apply andb_true_iff in Hwf as [Hf Hwf].
      cbn [wf_fields] in Hv. apply andb_true_iff in Hv as [Hx Hv].
      rewrite count_written_cons in Hc. pose proof (count_written_nonneg fs) as Hnn.
      cbn [enc_fields_v0] in Henc. cbn [read_fields norm_fields].
      unfold wf_field in Hf. apply andb_true_iff in Hf as [Hf Htr]. apply andb_true_iff in Hf as [Hty Hopt].
      destruct (f_transient f) as [dflt|] eqn:Etr.
      + (* transient: nothing written, the default is produced *)
        cbn [bind]. destruct (IH vs st b st' s k c Hwf Hv ltac:(lia) Henc) as [c' Hc'].
        rewrite Hc'. cbn [bind]. exists c'. reflexivity.
      + destruct (encf (f_ty f) x st) as [[b1 st1]| | |] eqn:E1; try discriminate. cbn [bind] in Henc.
        destruct (enc_fields_v0 encf fs vs st1) as [[b2 st2]| | |] eqn:E2; try discriminate.
        cbn [bind] in Henc. injection Henc as <- <-.
        destruct (IH vs st1 b2 st2 s k (c + 1)%Z Hwf Hv ltac:(lia) E2) as [c' Hc'].
        rewrite <- app_assoc.
        destruct (f_opt f) eqn:Eopt.
        * destruct (f_ty f) as [| t' | | | | | | |] eqn:Ety; try discriminate.
          rewrite read_optional_field_v0 by lia.
          destruct (fo_opt _ _ _ _ _ FO t' Hty x st b1 st1 (b2 ++ s) k Hx E1)
            as [(-> & -> & -> & Hn) | (y & b' & -> & -> & Hn & Hd)].
          -- cbn [app]. rewrite a_r_u8. cbn [bind N.eqb]. rewrite Hc'. cbn [bind].
             rewrite Hn. exists c'. reflexivity.
          -- cbn [app]. rewrite a_r_u8. cbn [bind N.eqb Pos.eqb]. rewrite Hd. cbn [bind].
             rewrite Hc'. cbn [bind]. rewrite Hn. exists c'. reflexivity.
        * rewrite read_field_v0 by lia.
          rewrite (fo_rt _ _ _ _ _ FO (f_ty f) Hty x st b1 st1 (b2 ++ s) k Hx E1). cbn [bind].
          rewrite Hc'. cbn [bind]. exists c'. reflexivity.
  Qed.

  Lemma rt_record_v0 m vs st b st' s k :
    r_steps m = [] -> wf_rmeta E m = true -> wf_fields w (r_fields m) vs = true ->
    enc_record encf m vs st = Ok (b, st') ->
    dec_record a_ops decf m (mkA (b ++ s) k st) = Ok (VNode 0 (norm_fields nv (r_fields m) vs), mkA s k st').
  Proof.
    intros Hs Hwf Hv Henc. unfold enc_record in Henc. unfold dec_record. rewrite Hs in *.
    cbn [version_of length N.of_nat N.leb N.compare].
    destruct (enc_fields_v0 encf (r_fields m) vs st) as [[b1 st1]| | |] eqn:E1; try discriminate.
    cbn [bind] in Henc. injection Henc as <- <-.
    unfold ad_open. cbn [app a_ops d_rd]. rewrite a_r_u8. cbn [bind N.eqb].
    unfold wf_rmeta in Hwf. rewrite Hs in Hwf.
    apply andb_true_iff in Hwf as [Hwf Hfs]. apply andb_true_iff in Hwf as [Hwf Hnd].
    apply andb_true_iff in Hwf as [_ Hlen].
    assert (Hcnt: (-1 + count_written (r_fields m) <= 126)%Z).
    { pose proof (count_written_le (r_fields m)). rewrite nlen_length in Hlen. lia. }
    destruct (rt_fields_v0 (r_fields m) vs st b1 st1 s k (-1)%Z Hfs Hv Hcnt E1) as [c' Hc'].
    change (ad_new_v0 []) with (ad_v0 (-1)). rewrite Hc'. reflexivity.
  Qed.
End V0.
