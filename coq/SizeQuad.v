(* SizeQuad.v — the UPPER bound that matches SizeProofs.size_not_linear_with_dedup: with
   de-duplicated strings the size of the decoded value is not linear in the number of input
   bytes consumed, but it is at most QUADRATIC.

   Definitions
     maxlen st          the length of the longest string of the string table st
     strs_bound s     = N.max (maxlen (a_strs s)) (nlen (a_cur s))
                        a bound on the length of every string a back-reference can return
                        during a run started in s: the strings already in the table, and the
                        strings registered during the run -- a de-duplicated string (or the header
                        field name of an evolved record) of n bytes is read from the current
                        region or from a chunk region carved out of it, so n <= nlen (a_cur s)

   Results  (nzw_env E, nzw_ty t as in SizeProofs; NO no_dedup hypothesis)
     decA_size_quad_hoare     dec a_ops f E t s = Ok (v, s'), every string of a_strs s and the
                              current region at most B long  ->  stack as found, |cur s'| <= |cur s|,
                              every string of a_strs s' at most B long, and
                                vsize v <= size_const E t * (1 + B) * consumed
                                           + (if zero_width t then 1 else 0)
     decA_size_quadratic      vsize v <= size_const E t * (1 + consumed) * (1 + strs_bound s)
     decA_size_quadratic_tab  ... and maxlen (a_strs s') <= strs_bound s: the bound is an invariant
     decA_size_quadratic_builtin   E = []
     decodeA_size_quadratic   the entry point, initial table st:
                                vsize v <= size_const E t * (1 + nlen bs) * (1 + N.max (maxlen st) (nlen bs))
     decodeA_size_quadratic_fresh  st = []:  vsize v <= size_const E t * (1 + nlen bs) * (1 + nlen bs)
     size_quadratic_nonvacuous     on SizeProofs.dedup_bomb (184 bytes, value of size 8182) the
                                   bound is 3 * 185 * 185 = 102675

   How the proof goes.  The Hoare logic of SizeProofs.v, with one more component in the triple:
   `hq B P m s` says that if m = Ok (a, s') and every string of the table of s and the current
   region of s are at most B long, then the stack is as found, every string of the table of s'
   is at most B long, and there is a lower bound w on the bytes consumed with P w a.  (For the
   AdtDeserializer the precondition is on the current region PLUS the chunk regions it holds:
   nlen (a_cur s) + adw ad <= B; chunk regions are carved out of the current region.)
   The predicate on values is SizeProofs.SZ itself, at the constant K * (1 + B): then the only
   new case is the leaf `dec_dedup` -- a back-reference consumed >= 1 byte and returns a string
   of the table, of size 1 + n <= 1 + B; a string spelled out is registered, it was read from
   the current region so n <= B.  Everything else is SizeProofs.dec_sz again. *)
From Coq Require Import NArith ZArith List Lia Bool Arith.
From Coq Require Import ZifyBool ZifyN ZifyNat.
From Desert Require Import Bits Outcome IO IOProofs VarintProofs Types Codec CodecWf TotalProofs
  MonoProofs TermProofs SizeProofs.
Import ListNotations.
Open Scope N_scope.

Ltac Zify.zify_post_hook ::= Z.div_mod_to_equations.

(* ================================================================== *)
(*                           definitions                               *)
(* ================================================================== *)

Definition maxlen (st : strtab) : N := fold_right (fun x a => N.max (nlen x) a) 0 st.

Definition strs_bound (s : astate) : N := N.max (maxlen (a_strs s)) (nlen (a_cur s)).

Lemma maxlen_Forall B : forall st, maxlen st <= B -> Forall (fun x => nlen x <= B) st.
Proof.
  induction st as [| x st IH]; intros H; [constructor|]. cbn [maxlen fold_right] in H.
  fold (maxlen st) in H. constructor; [lia | apply IH; lia].
Qed.

Lemma Forall_str_store (P : bytes -> Prop) bs st :
  Forall P st -> P bs -> Forall P (str_store bs st).
Proof.
  intros H Hb. unfold str_store. destruct (str_id bs st); [exact H|].
  apply Forall_app. split; [exact H | constructor; [exact Hb | constructor]].
Qed.

Lemma str_get_In st id bs : str_get st id = Some bs -> In bs st.
Proof.
  unfold str_get. destruct (id <=? 0)%Z; [discriminate|].
  destruct (_ <? _)%Z; [discriminate|]. apply nth_error_In.
Qed.

Lemma nth_error_sumN {A} (f : A -> N) : forall (l : list A) i x,
  nth_error l i = Some x -> f x <= sumN (map f l).
Proof.
  induction l as [| z l IH]; intros i x H; [destruct i; discriminate|].
  destruct i as [| i]; cbn [nth_error] in H; cbn [map sumN fold_right].
  - injection H as ->. lia.
  - specialize (IH i x H). unfold sumN in IH. lia.
Qed.

Section Quad.
  Variable B : N.

  (* ================================================================ *)
  (*        2. the Hoare logic, with the bound on the string table     *)
  (* ================================================================ *)

  Definition tabB (s : astate) : Prop := Forall (fun x => nlen x <= B) (a_strs s).

  Definition hq {A} (P : N -> A -> Prop) (m : outcome (A * astate)) (s : astate) : Prop :=
    match m with
    | Ok (a, s') =>
        tabB s -> nlen (a_cur s) <= B ->
        a_stack s' = a_stack s /\ tabB s' /\
        exists w, P w a /\ w + nlen (a_cur s') <= nlen (a_cur s)
    | _ => True
    end.

  Lemma hq_bind {A C} (P : N -> A -> Prop) (Q : N -> C -> Prop) (m : outcome (A * astate))
      (k : A * astate -> outcome (C * astate)) s :
    hq P m s ->
    (forall a s' w, P w a -> hq (fun w' b => Q (w + w') b) (k (a, s')) s') ->
    hq Q (bind m k) s.
  Proof.
    intros Hm Hk. destruct m as [[a s1] | e | p | ]; cbn [bind]; try exact I.
    pose proof (Hk a s1) as Hk'. unfold hq in Hm, Hk' |- *.
    destruct (k (a, s1)) as [[b s2] | e | p | ]; try exact I.
    intros Ht Hc. destruct (Hm Ht Hc) as (Hst & Ht1 & w & Pw & Hw).
    assert (Hc1 : nlen (a_cur s1) <= B) by lia.
    destruct (Hk' w Pw Ht1 Hc1) as (Hst2 & Ht2 & w' & Qw & Hw').
    split; [congruence|]. split; [exact Ht2|]. exists (w + w'). split; [exact Qw | lia].
  Qed.

  Lemma hq_ok_pre {A} (P : N -> A -> Prop) a s :
    (tabB s -> nlen (a_cur s) <= B -> P 0 a) -> hq P (Ok (a, s)) s.
  Proof.
    intros H Ht Hc. split; [reflexivity|]. split; [exact Ht|].
    exists 0. split; [exact (H Ht Hc) | lia].
  Qed.

  Lemma hq_ok {A} (P : N -> A -> Prop) a s : P 0 a -> hq P (Ok (a, s)) s.
  Proof. intros H. apply hq_ok_pre. intros _ _. exact H. Qed.

  Lemma hq_weaken {A} (P Q : N -> A -> Prop) m s :
    hq P m s -> (forall w a, P w a -> Q w a) -> hq Q m s.
  Proof.
    intros H HPQ. destruct m as [[a s1] | e | p | ]; try exact I.
    intros Ht Hc. destruct (H Ht Hc) as (H1 & H2 & w & Pw & Hw).
    split; [exact H1|]. split; [exact H2|]. exists w. split; [apply HPQ; exact Pw | exact Hw].
  Qed.

  (* ---------------------------------------------------------------- *)
  (* the readers *)

  Lemma r_u8_q s : hq (fun w _ => w = 1) (r_u8 a_reader s) s.
  Proof.
    aops. destruct s as [cur stk strs]. cbn [a_cur]. destruct cur as [| b r]; cbn [bind]; [exact I|].
    unfold hq, tabB, a_with_cur. cbn [a_cur a_stack a_strs]. intros Ht Hc.
    split; [reflexivity|]. split; [exact Ht|].
    exists 1. split; [reflexivity|]. cbn [nlen]. lia.
  Qed.

  (* what is read from the current region is at most B long *)
  Lemma r_bytes_q n s :
    hq (fun w bs => w = n /\ nlen bs = n /\ n <= B) (r_bytes a_reader n s) s.
  Proof.
    aops. destruct s as [cur stk strs]. cbn [a_cur].
    destruct (n <=? nlen cur) eqn:Hn; cbn [bind]; [| exact I].
    unfold hq, tabB, a_with_cur. cbn [a_cur a_stack a_strs]. intros Ht Hc.
    split; [reflexivity|]. split; [exact Ht|].
    exists n. rewrite nlen_ndrop.
    split; [split; [reflexivity | split; [apply nlen_ntake; lia | lia]] | lia].
  Qed.

  Lemma d_take_q n s : hq (fun w rg => nlen rg <= w) (d_take a_ops n s) s.
  Proof.
    aops. destruct s as [cur stk strs]. cbn [a_cur].
    destruct (n <=? nlen cur) eqn:Hn; [| exact I].
    unfold hq, tabB, a_with_cur. cbn [a_cur a_stack a_strs]. intros Ht Hc.
    split; [reflexivity|]. split; [exact Ht|].
    exists n. rewrite nlen_ndrop, nlen_ntake by lia. split; lia.
  Qed.

  Lemma read_be_q k s : hq (fun w _ => w = k) (read_be a_reader k s) s.
  Proof.
    unfold read_be. eapply hq_bind; [apply r_bytes_q|]. intros bs s1 w [-> _]. cbv beta iota.
    apply hq_ok. lia.
  Qed.

  Lemma read_i8_q s : hq (fun w _ => w = 1) (read_i8 a_reader s) s.
  Proof.
    unfold read_i8. eapply hq_bind; [apply r_u8_q|]. intros b s1 w ->. cbv beta iota.
    apply hq_ok. lia.
  Qed.

  Lemma read_signed_q k bits s : hq (fun w _ => w = k) (read_signed a_reader k bits s) s.
  Proof.
    unfold read_signed. eapply hq_bind; [apply read_be_q|]. intros u s1 w ->. cbv beta iota.
    apply hq_ok. lia.
  Qed.

  Lemma read_var_u32_q s : hq (fun w _ => 1 <= w) (read_var_u32 a_reader s) s.
  Proof.
    unfold read_var_u32.
    eapply hq_bind; [apply r_u8_q|]. intros b1 s1 w1 ->. cbv beta iota zeta.
    destruct (N.land b1 128 =? 0); [apply hq_ok; lia|].
    eapply hq_bind; [apply r_u8_q|]. intros b2 s2 w2 ->. cbv beta iota zeta.
    destruct (N.land b2 128 =? 0); [apply hq_ok; lia|].
    eapply hq_bind; [apply r_u8_q|]. intros b3 s3 w3 ->. cbv beta iota zeta.
    destruct (N.land b3 128 =? 0); [apply hq_ok; lia|].
    eapply hq_bind; [apply r_u8_q|]. intros b4 s4 w4 ->. cbv beta iota zeta.
    destruct (N.land b4 128 =? 0); [apply hq_ok; lia|].
    eapply hq_bind; [apply r_u8_q|]. intros b5 s5 w5 ->. cbv beta iota zeta.
    apply hq_ok. lia.
  Qed.

  Lemma read_var_i32_q s : hq (fun w _ => 1 <= w) (read_var_i32 a_reader s) s.
  Proof.
    unfold read_var_i32. eapply hq_bind; [apply read_var_u32_q|]. intros r s1 w Hw.
    cbv beta iota in Hw |- *. apply hq_ok. lia.
  Qed.

  Lemma dec_utf8_q bs (s : astate) : hq (fun w v => v = VB bs) (dec_utf8 bs s) s.
  Proof. unfold dec_utf8. destruct (utf8_valid bs); [apply hq_ok; reflexivity | exact I]. Qed.

  Lemma dec_string_q s : hq (fun w v => vsize v <= w /\ 1 <= w) (dec_string a_ops s) s.
  Proof.
    unfold dec_string. change (d_rd a_ops) with a_reader.
    eapply hq_bind; [apply read_var_i32_q|]. intros id s1 w1 Hw1. cbv beta iota in Hw1 |- *.
    eapply hq_bind; [apply r_bytes_q|]. intros bs s2 w2 (-> & Hlen & _). cbv beta iota.
    eapply hq_weaken; [apply dec_utf8_q|]. cbv beta. intros w v ->. cbn [vsize]. lia.
  Qed.

  Lemma dec_bytes_q s : hq (fun w v => vsize v <= w /\ 1 <= w) (dec_bytes a_ops s) s.
  Proof.
    unfold dec_bytes. change (d_rd a_ops) with a_reader.
    eapply hq_bind; [apply read_var_u32_q|]. intros n s1 w1 Hw1. cbv beta iota in Hw1 |- *.
    eapply hq_bind; [apply r_bytes_q|]. intros bs s2 w2 (-> & Hlen & _). cbv beta iota.
    apply hq_ok. cbn [vsize]. lia.
  Qed.

  (* THE NEW LEAF: a de-duplicated string.  A back-reference (>= 1 byte) returns a string of
     the table: size 1 + n <= 1 + B.  A string spelled out pays for itself and is registered:
     it was read from the current region, so it is at most B long. *)
  Lemma dec_dedup_q s :
    hq (fun w v => vsize v <= (1 + B) * w /\ 1 <= w) (dec_dedup a_ops s) s.
  Proof.
    unfold dec_dedup. change (d_rd a_ops) with a_reader.
    eapply hq_bind; [apply read_var_i32_q|]. intros c s1 w1 Hw1. cbv beta iota in Hw1 |- *.
    destruct (c <? 0)%Z.
    - destruct (c =? - 2 ^ 31)%Z; [exact I|].
      destruct (d_str_get a_ops s1 (- c)) as [bs |] eqn:Hg; [| exact I].
      apply hq_ok_pre. intros Ht _. cbn [a_ops d_str_get] in Hg. apply str_get_In in Hg.
      unfold tabB in Ht. rewrite Forall_forall in Ht. specialize (Ht bs Hg). cbv beta in Ht.
      cbn [vsize]. split; [| lia].
      assert (Hm : (1 + B) * 1 <= (1 + B) * (w1 + 0)) by (apply N.mul_le_mono_l; lia). lia.
    - eapply hq_bind; [apply r_bytes_q|]. intros bs s2 w2 (-> & Hlen & HnB). cbv beta iota.
      eapply hq_bind; [apply dec_utf8_q|]. intros v s3 w3 ->. cbv beta iota.
      aops. unfold hq, tabB. cbn [a_cur a_stack a_strs]. intros Ht Hc.
      split; [reflexivity|].
      split; [apply Forall_str_store; [exact Ht | cbv beta; lia]|].
      exists 0. split; [| lia]. cbn [vsize]. split; [| lia].
      assert (Hm : 1 * (w1 + (as_usize c + (w3 + 0))) <= (1 + B) * (w1 + (as_usize c + (w3 + 0))))
        by (apply N.mul_le_mono_r; lia).
      lia.
  Qed.

  (* ---------------------------------------------------------------- *)
  (* compositions of readers *)

  Ltac qrd0 :=
    change (d_rd a_ops) with a_reader;
    first [ apply r_u8_q | apply read_i8_q | apply read_be_q | apply read_signed_q
          | apply read_var_u32_q | apply read_var_i32_q | apply r_bytes_q
          | apply dec_string_q | apply dec_bytes_q ].

  Ltac qgo_with rd fin :=
    lazymatch goal with
    | |- hq _ (Ok _) _ => apply hq_ok; fin
    | |- hq _ (Err _) _ => exact I
    | |- hq _ (Panic _) _ => exact I
    | |- hq _ (bind _ _) _ =>
        eapply hq_bind;
        [ rd | let H := fresh "Hrd" in intros ? ? ? H; cbv beta iota zeta in H |- *; qgo_with rd fin ]
    | |- hq _ (if ?c then _ else _) _ => destruct c; qgo_with rd fin
    | |- hq _ (match ?v with _ => _ end) _ => destruct v; qgo_with rd fin
    end.

  Ltac fin_sz := cbv beta; cbn [vsize fold_right] in *; lia.

  Lemma dec_small_q lo hi s : hq (fun w v => vsize v <= 1 /\ 1 <= w) (dec_small a_ops lo hi s) s.
  Proof. unfold dec_small. qgo_with qrd0 fin_sz. Qed.
  Lemma dec_offset_q s : hq (fun w v => vsize v <= 1 /\ 2 <= w) (dec_offset a_ops s) s.
  Proof. unfold dec_offset. qgo_with qrd0 fin_sz. Qed.
  Lemma dec_tz_q s : hq (fun w v => vsize v + 1 <= w) (dec_tz a_ops s) s.
  Proof. unfold dec_tz. qgo_with qrd0 fin_sz. Qed.
  Lemma dec_ndate_q s : hq (fun w v => vsize v <= 4 /\ 3 <= w) (dec_ndate a_ops s) s.
  Proof. unfold dec_ndate. qgo_with qrd0 fin_sz. Qed.
  Lemma dec_ntime_q s : hq (fun w v => vsize v <= 5 /\ 4 <= w) (dec_ntime a_ops s) s.
  Proof. unfold dec_ntime. qgo_with qrd0 fin_sz. Qed.

  Ltac qrd1 :=
    first [ qrd0 | apply dec_small_q | apply dec_offset_q | apply dec_tz_q | apply dec_ndate_q
          | apply dec_ntime_q ].

  Lemma dec_ndt_q s : hq (fun w v => vsize v <= 10 /\ 7 <= w) (dec_ndt a_ops s) s.
  Proof. unfold dec_ndt. qgo_with qrd1 fin_sz. Qed.

  Ltac qrd := first [ qrd1 | apply dec_ndt_q ].

  Ltac qgo_w rd fin :=
    lazymatch goal with
    | |- hq _ (Ok _) _ => apply hq_ok; fin
    | |- hq _ (Err _) _ => exact I
    | |- hq _ (Panic _) _ => exact I
    | |- hq _ (bind _ _) _ =>
        eapply hq_bind;
        [ rd | let H := fresh "Hrd" in intros ? ? ? H; cbv beta iota zeta in H |- *; qgo_w rd fin ]
    | |- hq _ (if ?c then _ else _) _ => destruct c; qgo_w rd fin
    | |- hq _ (match ?v with _ => _ end) _ => destruct v; qgo_w rd fin
    | |- hq _ _ _ =>
        eapply hq_weaken; [ rd | let H := fresh "Hrd" in intros ? ? H; cbv beta in H |- *; fin ]
    end.


  (* ================================================================ *)
  (*     3. the size predicate SizeProofs.SZ, at one K >= 1 + B        *)
  (* ================================================================ *)

  Section Size.
    Variable K : N.
    Hypothesis HK : 3 <= K.
    Hypothesis HKB : 1 + B <= K.

    Ltac fin_lin :=
      cbv beta; unfold VUnit, VNone, VSome;
      first [ apply lin; [exact HK | cbn [vsize fold_right] in *; lia]
            | cbn [vsize fold_right] in *; lia ].

    (* primitives, de-duplicated strings included *)
    Lemma dec_prim_q p s : hq (SZ K (TPrim p)) (dec_prim a_ops p s) s.
    Proof.
      destruct p; unfold dec_prim, SZ; cbn [zero_width];
        try (qgo_w qrd fin_lin; fail).
      eapply hq_weaken; [apply dec_dedup_q|]. cbv beta. intros w v [Hv Hw].
      pose proof (N.mul_le_mono_r (1 + B) K w HKB). lia.
    Qed.

    (* -------------------------------------------------------------- *)
    (* sequences: items that pay for themselves *)
    Section Seq.
      Variable d : astate -> outcome (val * astate).
      Hypothesis Hd : forall s, hq (fun w v => vsize v <= K * w) (d s) s.

      Lemma dec_known_q : forall fuel n s,
        hq (fun w xs => vsum xs <= K * w) (dec_known fuel d n s) s.
      Proof.
        induction fuel as [| fl IH]; intros n s; cbn [dec_known].
        - destruct (n =? 0); [apply hq_ok; rewrite vsum_nil; lia | exact I].
        - destruct (n =? 0); [apply hq_ok; rewrite vsum_nil; lia |].
          eapply hq_bind; [apply Hd|]. intros x s1 w1 Hx. cbv beta iota in Hx |- *.
          eapply hq_bind; [apply IH|]. intros xs s2 w2 Hxs. cbv beta iota in Hxs |- *.
          apply hq_ok. rewrite vsum_cons. lia.
      Qed.

      Lemma dec_unknown_q : forall fuel s,
        hq (fun w xs => vsum xs <= K * w) (dec_unknown a_ops fuel d s) s.
      Proof.
        induction fuel as [| fl IH]; intros s; cbn [dec_unknown]; [exact I|].
        change (d_rd a_ops) with a_reader.
        eapply hq_bind; [apply r_u8_q|]. intros tag s1 w0 Hw0. cbv beta iota in Hw0 |- *.
        destruct (tag =? 0); [apply hq_ok; rewrite vsum_nil; lia |].
        destruct (tag =? 1); [| exact I].
        eapply hq_bind; [apply Hd|]. intros x s2 w1 Hx. cbv beta iota in Hx |- *.
        eapply hq_bind; [apply IH|]. intros xs s3 w2 Hxs. cbv beta iota in Hxs |- *.
        apply hq_ok. rewrite vsum_cons. lia.
      Qed.

      Lemma dec_seq_items_q fuel s :
        hq (fun w xs => 1 + vsum xs <= K * w) (dec_seq_items a_ops fuel d s) s.
      Proof.
        unfold dec_seq_items. change (d_rd a_ops) with a_reader.
        assert (H : hq (fun w xs => 1 + vsum xs <= K * w)
                      (bind (read_var_i32 a_reader s)
                         (fun '(n, s) => if (n =? -1)%Z then dec_unknown a_ops fuel d s
                                         else if (n <? 0)%Z then Err EDeserializationFailure
                                         else dec_known fuel d (as_usize n) s)) s).
        { eapply hq_bind; [apply read_var_i32_q|]. intros n s1 w0 Hw0. cbv beta iota in Hw0 |- *.
          assert (Hm : K * 1 <= K * w0) by (apply N.mul_le_mono_l; exact Hw0).
          destruct (n =? -1)%Z.
          - eapply hq_weaken; [apply dec_unknown_q|]. cbv beta. intros w xs Hxs. lia.
          - destruct (n <? 0)%Z; [exact I|].
            eapply hq_weaken; [apply dec_known_q|]. cbv beta. intros w xs Hxs. lia. }
        destruct (read_var_i32 a_reader s) as [[n s1] | e | p | ]; cbn [bind] in H; try exact I.
        exact H.
      Qed.
    End Seq.

    (* -------------------------------------------------------------- *)
    (* the AdtDeserializer: its regions were carved out of the current region, so the current
       region and they together are at most B long *)

    Definition hq_ad {A} (P : N -> A -> Prop) (ad : @adt_de bytes)
        (m : outcome (A * @adt_de bytes * astate)) (s : astate) : Prop :=
      match m with
      | Ok (a, ad', s') =>
          tabB s -> nlen (a_cur s) + adw ad <= B ->
          a_stack s' = a_stack s /\ tabB s' /\ nlen (a_cur s') <= nlen (a_cur s) /\
          exists w, P w a /\ w + nlen (a_cur s') + adw ad' <= nlen (a_cur s) + adw ad
      | _ => True
      end.

    Lemma hq_ad_bind {A C} (P : N -> A -> Prop) (Q : N -> C -> Prop) ad
        (m : outcome (A * @adt_de bytes * astate))
        (k : A * @adt_de bytes * astate -> outcome (C * @adt_de bytes * astate)) s :
      hq_ad P ad m s ->
      (forall a ad1 s1 w, P w a -> hq_ad (fun w' b => Q (w + w') b) ad1 (k (a, ad1, s1)) s1) ->
      hq_ad Q ad (bind m k) s.
    Proof.
      intros Hm Hk. destruct m as [[[a ad1] s1] | e | p | ]; cbn [bind]; try exact I.
      pose proof (Hk a ad1 s1) as Hk'. unfold hq_ad in Hm, Hk' |- *.
      destruct (k (a, ad1, s1)) as [[[b ad2] s2] | e | p | ]; try exact I.
      intros Ht Hc. destruct (Hm Ht Hc) as (Hst & Ht1 & Hc1 & w & Pw & Hw).
      assert (Hc1' : nlen (a_cur s1) + adw ad1 <= B) by lia.
      destruct (Hk' w Pw Ht1 Hc1') as (Hst2 & Ht2 & Hc2 & w' & Qw & Hw').
      split; [congruence|]. split; [exact Ht2|]. split; [lia|].
      exists (w + w'). split; [exact Qw | lia].
    Qed.

    Lemma hq_ad_ok {A} (P : N -> A -> Prop) a ad s : P 0 a -> hq_ad P ad (Ok (a, ad, s)) s.
    Proof.
      intros H. unfold hq_ad. intros Ht Hc. split; [reflexivity|]. split; [exact Ht|].
      split; [lia|]. exists 0. split; [exact H | lia].
    Qed.

    Lemma hq_ad_weaken {A} (P Q : N -> A -> Prop) ad m s :
      hq_ad P ad m s -> (forall w a, P w a -> Q w a) -> hq_ad Q ad m s.
    Proof.
      intros H HPQ. destruct m as [[[a ad1] s1] | e | p | ]; try exact I.
      intros Ht Hc. destruct (H Ht Hc) as (H1 & H2 & H3 & w & Pw & Hw).
      split; [exact H1|]. split; [exact H2|]. split; [exact H3|].
      exists w. split; [apply HPQ; exact Pw | exact Hw].
    Qed.

    Lemma hq_ad_change {A} (P : N -> A -> Prop) ad ad1 m s :
      ad_inputs ad1 = ad_inputs ad -> hq_ad P ad1 m s -> hq_ad P ad m s.
    Proof.
      intros Hi H. destruct m as [[[a ad2] s2] | e | p | ]; try exact I.
      unfold hq_ad, adw in *. rewrite Hi in H. exact H.
    Qed.

    Lemma in_chunk_q {A} (P : N -> A -> Prop) ad chunk (body : astate -> outcome (A * astate)) s :
      (forall s, hq P (body s) s) -> hq_ad P ad (in_chunk a_ops ad chunk body s) s.
    Proof.
      intros Hb. unfold in_chunk. destruct (ad_inputs ad) as [| i0 ir] eqn:Hi.
      - specialize (Hb s). destruct (body s) as [[a s1] | e | p | ]; cbn [bind]; try exact I.
        unfold hq_ad. intros Ht Hc.
        assert (Hc0 : nlen (a_cur s) <= B) by lia.
        destruct (Hb Ht Hc0) as (Hst & Ht1 & w & Pw & Hw).
        split; [exact Hst|]. split; [exact Ht1|]. split; [lia|]. exists w. split; [exact Pw | lia].
      - rewrite <- Hi.
        destruct (nth_error (ad_inputs ad) (N.to_nat chunk)) as [rg |] eqn:Hn; [| exact I].
        aops. cbn [bind].
        specialize (Hb (mkA rg (a_cur s :: a_stack s) (a_strs s))).
        destruct (body (mkA rg (a_cur s :: a_stack s) (a_strs s))) as [[a s2] | e | p | ];
          cbn [bind]; try exact I.
        destruct (a_stack s2) as [| top rest] eqn:Hstk; cbn [bind]; [exact I|].
        unfold hq_ad. cbn [a_stack a_cur a_strs]. intros Ht Hc.
        pose proof (nth_error_sumN (@nlen N) (ad_inputs ad) (N.to_nat chunk) rg Hn) as Hrg.
        fold (adw ad) in Hrg.
        assert (Hc0 : nlen rg <= B) by lia.
        destruct (Hb Ht Hc0) as (Hst2 & Ht2 & w & Pw & Hw). cbn [a_stack a_cur] in Hst2, Hw.
        rewrite Hstk in Hst2. injection Hst2 as -> ->.
        split; [reflexivity|]. split; [exact Ht2|]. split; [lia|]. exists w. split; [exact Pw|].
        unfold adw, ad_set_input. cbn [ad_inputs].
        pose proof (sum_set_nth (@nlen N) (ad_inputs ad) (N.to_nat chunk) rg (a_cur s2) Hn) as HS.
        unfold adw in Hc.
        match goal with |- _ + _ + ?X <= _ + ?Y =>
          match type of HS with ?X' + _ = ?Y' + _ => change X' with X in HS; change Y' with Y in HS end
        end.
        lia.
    Qed.

    (* -------------------------------------------------------------- *)
    (* fields *)
    Section Field.
      Variable steps : list step.
      Variable d : astate -> outcome (val * astate).
      Variable t : ty.
      Hypothesis Hd : forall s, hq (SZ K t) (d s) s.

      Lemma read_field_q n dflt D ad s :
        1 <= D -> (forall dv, dflt = Some dv -> vsize dv <= D) ->
        hq_ad (fun w v => vsize v <= K * w + D) ad (read_field a_ops steps d n dflt ad s) s.
      Proof.
        intros HD Hdf. unfold read_field.
        destruct (mem_name n (ad_removed ad)); [exact I|]. cbv zeta.
        destruct (ad_record_index ad _) as [[fp ad1] | e | p | ] eqn:Hri; cbn [bind]; try exact I.
        apply ad_record_index_same in Hri.
        eapply hq_ad_change; [exact Hri|].
        destruct (ad_stored ad1 <? _).
        - destruct dflt as [dv |]; [| exact I]. apply hq_ad_ok. specialize (Hdf dv eq_refl). lia.
        - apply in_chunk_q. intros s0. change (d_rd a_ops) with a_reader.
          destruct (mem_pos fp (ad_mo ad1)).
          + eapply hq_bind; [apply r_u8_q|]. intros b s1 w1 Hw1. cbv beta iota in Hw1 |- *.
            destruct (b =? 0); [exact I|].
            eapply hq_weaken; [apply Hd|]. cbv beta. intros w v Hv. apply SZ_le1 in Hv. lia.
          + eapply hq_weaken; [apply Hd|]. cbv beta. intros w v Hv. apply SZ_le1 in Hv. lia.
      Qed.

      Lemma read_optional_field_q n dflt D ad s :
        2 <= D -> (forall dv, dflt = Some dv -> vsize dv <= D) ->
        hq_ad (fun w v => vsize v <= K * w + D) ad
                 (read_optional_field a_ops steps d n dflt ad s) s.
      Proof.
        intros HD Hdf. unfold read_optional_field.
        destruct (mem_name n (ad_removed ad)).
        { apply hq_ad_ok. unfold VNone. cbn [vsize fold_right]. lia. }
        cbv zeta.
        destruct (ad_record_index ad _) as [[fp ad1] | e | p | ] eqn:Hri; cbn [bind]; try exact I.
        apply ad_record_index_same in Hri.
        eapply hq_ad_change; [exact Hri|].
        destruct (ad_stored ad1 <? match field_generation steps n with Some c => c | None => 0 end).
        - destruct dflt as [dv |]; [| exact I]. apply hq_ad_ok. specialize (Hdf dv eq_refl). lia.
        - apply in_chunk_q. intros s0. change (d_rd a_ops) with a_reader.
          destruct (ad_stored ad1 <? _).
          + eapply hq_bind; [apply Hd|]. intros x s1 w1 Hx. cbv beta iota in Hx |- *.
            apply hq_ok. apply SZ_le1 in Hx. unfold VSome. cbn [vsize fold_right]. lia.
          + eapply hq_bind; [apply r_u8_q|]. intros tag s1 w1 Hw1. cbv beta iota in Hw1 |- *.
            destruct (tag =? 0).
            { apply hq_ok. unfold VNone. cbn [vsize fold_right]. lia. }
            destruct (tag =? 1); [| exact I].
            eapply hq_bind; [apply Hd|]. intros x s2 w2 Hx. cbv beta iota in Hx |- *.
            apply hq_ok. apply SZ_le1 in Hx. unfold VSome. cbn [vsize fold_right]. lia.
      Qed.
    End Field.

    Lemma read_fields_q (decf : ty -> astate -> outcome (val * astate)) steps : forall fs,
      (forall fl, In fl fs -> forall s, hq (SZ K (field_dec_ty fl)) (decf (field_dec_ty fl) s) s) ->
      forall ad s,
        hq_ad (fun w vs => vsum vs <= K * w + fields_const steps fs) ad
                 (read_fields a_ops decf steps fs ad s) s.
    Proof.
      induction fs as [| f r IH]; intros Hdec ad s; cbn [read_fields].
      { apply hq_ad_ok. rewrite vsum_nil. cbn [fields_const fold_right]. lia. }
      cbn [fields_const fold_right]. fold (fields_const steps r).
      eapply hq_ad_bind with (P := fun w v => vsize v <= K * w + field_const steps f).
      - unfold field_const. destruct (f_transient f) as [dflt |].
        { apply hq_ad_ok. lia. }
        cbv zeta.
        assert (Hdf : forall dv, field_default steps (f_name f) None = Some dv ->
                                 vsize dv <= 2 + 0 + added_size steps).
        { intros dv Hdv. apply field_default_size in Hdv. destruct Hdv as [Hdv | Hdv]; [discriminate | lia]. }
        pose proof (Hdec f (or_introl eq_refl)) as Hf. unfold field_dec_ty in Hf.
        destruct (f_opt f).
        + destruct (f_ty f) as [ | t' | | | | | | | ]; try exact I.
          apply read_optional_field_q with (t := t'); [exact Hf | lia | exact Hdf].
        + apply read_field_q with (t := f_ty f); [exact Hf | lia | exact Hdf].
      - intros v ad1 s1 w1 Hv. cbv beta iota in Hv |- *.
        eapply hq_ad_bind; [apply IH; intros fl Hin; apply Hdec; right; exact Hin|].
        intros vs ad2 s2 w2 Hvs. cbv beta iota in Hvs |- *.
        apply hq_ad_ok. rewrite vsum_cons. lia.
    Qed.

    (* the evolution header: the field names are registered in the string table *)
    Lemma dec_sstep_q s : hq (fun _ _ => True) (dec_sstep a_ops s) s.
    Proof. unfold dec_sstep. qgo_w ltac:(first [qrd | apply dec_dedup_q]) ltac:(exact I). Qed.

    Lemma dec_ssteps_q : forall n s, hq (fun _ _ => True) (dec_ssteps a_ops n s) s.
    Proof.
      induction n as [| n IH]; intros s; cbn [dec_ssteps]; [apply hq_ok; exact I|].
      eapply hq_bind; [apply dec_sstep_q|]. intros x s1 w1 _. cbv beta iota.
      eapply hq_bind; [apply IH|]. intros xs s2 w2 _. cbv beta iota.
      apply hq_ok. exact I.
    Qed.

    Lemma take_chunks_q : forall ss idx s,
      hq (fun w r => sumN (map (@nlen N) (fst (fst r))) <= w) (take_chunks a_ops ss idx s) s.
    Proof.
      induction ss as [| x r IH]; intros idx s; cbn [take_chunks].
      - apply hq_ok. cbn. lia.
      - destruct x.
        + eapply hq_bind; [apply d_take_q|]. intros rg s1 w1 Hw1. cbv beta iota in Hw1 |- *.
          eapply hq_bind; [apply IH|]. intros [[inputs mo] rem] s2 w2 Hw2. cbv beta iota in Hw2 |- *.
          apply hq_ok. cbn [fst map sumN fold_right] in *. unfold sumN in Hw2. lia.
        + eapply hq_bind; [apply IH|]. intros [[inputs mo] rem] s2 w2 Hw2. cbv beta iota in Hw2 |- *.
          apply hq_ok. cbn [fst map sumN fold_right a_ops d_empty nlen] in *. unfold sumN in Hw2. lia.
        + eapply hq_bind; [apply IH|]. intros [[inputs mo] rem] s2 w2 Hw2. cbv beta iota in Hw2 |- *.
          apply hq_ok. cbn [fst map sumN fold_right a_ops d_empty nlen] in *. unfold sumN in Hw2. lia.
        + eapply hq_bind; [apply IH|]. intros [[inputs mo] rem] s2 w2 Hw2. cbv beta iota in Hw2 |- *.
          apply hq_ok. cbn [fst map sumN fold_right a_ops d_empty nlen] in *. unfold sumN in Hw2. lia.
    Qed.

    Lemma ad_open_q steps s : hq (fun w ad => 1 + adw ad <= w) (ad_open a_ops steps s) s.
    Proof.
      unfold ad_open. change (d_rd a_ops) with a_reader.
      eapply hq_bind; [apply r_u8_q|]. intros stored s1 w1 Hw1. cbv beta iota in Hw1 |- *.
      destruct (stored =? 0).
      - apply hq_ok. unfold adw, ad_new_v0. cbn [ad_inputs map sumN fold_right]. lia.
      - unfold ad_new.
        eapply hq_bind; [apply dec_ssteps_q|]. intros ss s2 w2 _. cbv beta iota.
        eapply hq_bind; [apply take_chunks_q|]. intros [[inputs mo] rem] s3 w3 Hw3.
        cbv beta iota in Hw3 |- *. apply hq_ok. unfold adw. cbn [ad_inputs fst] in *. lia.
    Qed.

    (* -------------------------------------------------------------- *)
    (* records *)
    Lemma dec_record_q (decf : ty -> astate -> outcome (val * astate)) m :
      (forall fl, In fl (r_fields m) ->
                  forall s, hq (SZ K (field_dec_ty fl)) (decf (field_dec_ty fl) s) s) ->
      rmeta_const m <= K ->
      forall s, hq (fun w v => vsize v <= K * w) (dec_record a_ops decf m s) s.
    Proof.
      intros Hdec HKm s. unfold dec_record.
      destruct (255 <=? version_of (r_steps m)); [exact I|].
      pose proof (ad_open_q (r_steps m) s) as Ho.
      destruct (ad_open a_ops (r_steps m) s) as [[ad s1] | e | p | ]; cbn [bind]; try exact I.
      pose proof (read_fields_q decf (r_steps m) (r_fields m) Hdec ad s1) as H.
      destruct (read_fields a_ops decf (r_steps m) (r_fields m) ad s1) as [[[vs ad2] s2] | e | p | ];
        cbn [bind]; try exact I.
      unfold hq. intros Ht Hc.
      destruct (Ho Ht Hc) as (Hst0 & Ht1 & w0 & Hw0 & Hle0).
      assert (Hc1 : nlen (a_cur s1) + adw ad <= B) by lia.
      destruct (H Ht1 Hc1) as (Hst & Ht2 & Hc2 & w & Hw & Hle).
      split; [congruence|]. split; [exact Ht2|].
      exists (nlen (a_cur s) - nlen (a_cur s2)). split; [| lia].
      rewrite vsize_node. unfold rmeta_const in HKm.
      assert (Hm : K * (w + 1) <= K * (nlen (a_cur s) - nlen (a_cur s2)))
        by (apply N.mul_le_mono_l; lia).
      lia.
    Qed.

    (* -------------------------------------------------------------- *)
    (* enums *)
    Lemma read_ctor_idx_q ad s : hq_ad (fun _ _ => True) ad (read_ctor_idx a_ops ad s) s.
    Proof.
      unfold read_ctor_idx. destruct (ad_ctor ad) as [i |]; [apply hq_ad_ok; exact I|].
      pose proof (in_chunk_q (fun _ (_ : N) => True) ad 0 (read_var_u32 (d_rd a_ops)) s) as H.
      assert (Hb : forall s, hq (fun _ (_ : N) => True) (read_var_u32 (d_rd a_ops) s) s).
      { intros s'. eapply hq_weaken; [apply read_var_u32_q|]. intros; exact I. }
      specialize (H Hb).
      destruct (in_chunk a_ops ad 0 (read_var_u32 (d_rd a_ops)) s) as [[[i ad1] s1] | e | p | ];
        cbn [bind]; try exact I.
      unfold hq_ad. intros Ht Hc. destruct (H Ht Hc) as (H1 & H2 & H3 & w & _ & Hw).
      split; [exact H1|]. split; [exact H2|]. split; [exact H3|]. exists w. split; [exact I|].
      unfold adw in *. cbn [ad_inputs]. exact Hw.
    Qed.

    Definition hq_c (P : N -> val -> Prop) (ad : @adt_de bytes) (m : outcome (val * astate))
        (s : astate) : Prop :=
      match m with
      | Ok (v, s') =>
          tabB s -> nlen (a_cur s) + adw ad <= B ->
          a_stack s' = a_stack s /\ tabB s' /\ nlen (a_cur s') <= nlen (a_cur s) /\
          exists w, P w v /\ w + nlen (a_cur s') <= nlen (a_cur s) + adw ad
      | _ => True
      end.

    Lemma read_cases_q (decf : ty -> astate -> outcome (val * astate)) tyname : forall cs,
      (forall c, In c cs ->
         rmeta_const (v_rec (snd c)) <= K /\
         forall fl, In fl (r_fields (v_rec (snd c))) ->
                    forall s, hq (SZ K (field_dec_ty fl)) (decf (field_dec_ty fl) s) s) ->
      forall idx ad s,
        hq_c (fun w v => vsize v <= K * w) ad (read_cases a_ops decf tyname cs idx ad s) s.
    Proof.
      induction cs as [| [decl_idx var] cs IH]; intros Hcs idx ad s; cbn [read_cases].
      - destruct (read_ctor_idx a_ops ad s) as [[[i ad1] s1] | e | p | ]; cbn [bind]; exact I.
      - pose proof (read_ctor_idx_q ad s) as Hr.
        destruct (read_ctor_idx a_ops ad s) as [[[i ad1] s1] | e | p | ]; cbn [bind]; try exact I.
        destruct (i =? idx).
        + destruct (v_transient var); [exact I|].
          destruct (Hcs (decl_idx, var) (or_introl eq_refl)) as [HKm Hdec]. cbn [snd] in HKm, Hdec.
          pose proof (in_chunk_q (fun w v => vsize v <= K * w) ad1 0
                        (dec_record a_ops decf (v_rec var)) s1
                        (dec_record_q decf (v_rec var) Hdec HKm)) as H.
          destruct (in_chunk a_ops ad1 0 (dec_record a_ops decf (v_rec var)) s1)
            as [[[v ad2] s2] | e | p | ]; cbn [bind]; try exact I.
          destruct v as [n | z | bs | tag vs]; try exact I.
          unfold hq_c. intros Ht Hc.
          destruct (Hr Ht Hc) as (Hst1 & Ht1 & Hc1 & w1 & _ & Hw1).
          assert (Hc1' : nlen (a_cur s1) + adw ad1 <= B) by lia.
          destruct (H Ht1 Hc1') as (Hst2 & Ht2 & Hc2 & w & Hv & Hw).
          split; [congruence|]. split; [exact Ht2|]. split; [lia|]. exists w.
          split; [rewrite vsize_node in Hv |- *; exact Hv | lia].
        + specialize (IH (fun c Hc => Hcs c (or_intror Hc)) (idx + 1) ad1 s1).
          unfold hq_c in IH |- *.
          destruct (read_cases a_ops decf tyname cs (idx + 1) ad1 s1) as [[v s2] | e | p | ]; try exact I.
          intros Ht Hc.
          destruct (Hr Ht Hc) as (Hst1 & Ht1 & Hc1 & w1 & _ & Hw1).
          assert (Hc1' : nlen (a_cur s1) + adw ad1 <= B) by lia.
          destruct (IH Ht1 Hc1') as (Hst2 & Ht2 & Hc2 & w & Hv & Hw).
          split; [congruence|]. split; [exact Ht2|]. split; [lia|].
          exists w. split; [exact Hv | lia].
    Qed.

    Lemma dec_enum_q (decf : ty -> astate -> outcome (val * astate)) tyname m :
      (forall v, In v (e_variants m) ->
         rmeta_const (v_rec v) <= K /\
         forall fl, In fl (r_fields (v_rec v)) ->
                    forall s, hq (SZ K (field_dec_ty fl)) (decf (field_dec_ty fl) s) s) ->
      forall s, hq (fun w v => vsize v <= K * w) (dec_enum a_ops decf tyname m s) s.
    Proof.
      intros Hv s. unfold dec_enum.
      pose proof (ad_open_q [] s) as Ho.
      destruct (ad_open a_ops [] s) as [[ad s1] | e | p | ]; cbn [bind]; try exact I.
      pose proof (read_cases_q decf tyname (cases_of m)
                    (fun c Hc => Hv (snd c) (cases_of_In m c Hc)) 0 ad s1) as H.
      unfold hq_c in H. unfold hq.
      destruct (read_cases a_ops decf tyname (cases_of m) 0 ad s1) as [[v s2] | e | p | ]; try exact I.
      intros Ht Hc.
      destruct (Ho Ht Hc) as (Hst0 & Ht1 & w0 & Hw0 & Hle0).
      assert (Hc1 : nlen (a_cur s1) + adw ad <= B) by lia.
      destruct (H Ht1 Hc1) as (Hst & Ht2 & Hc2 & w & Hsz & Hw).
      split; [congruence|]. split; [exact Ht2|].
      exists (nlen (a_cur s) - nlen (a_cur s2)). split; [| lia].
      assert (Hm : K * w <= K * (nlen (a_cur s) - nlen (a_cur s2)))
        by (apply N.mul_le_mono_l; lia).
      lia.
    Qed.
  End Size.


  (* ================================================================ *)
  (*                        4. the main lemma                          *)
  (* ================================================================ *)

  Section Main.
    Variable K : N.
    Hypothesis HK : 3 <= K.
    Hypothesis HKB : 1 + B <= K.
    Variable E : env.
    Hypothesis HE_ty : forall t, In t (env_field_tys E) -> ty_const t <= K.
    Hypothesis HE_decl : forall d, In d E -> decl_const d <= K.
    Hypothesis HE_nzw : nzw_env E = true.

    Ltac fin_lin :=
      cbv beta; unfold VUnit, VNone, VSome;
      first [ apply lin; [exact HK | cbn [vsize fold_right] in *; lia]
            | cbn [vsize fold_right] in *; lia ].

    Lemma dec_szq : forall f t s,
      nzw_ty t = true -> ty_const t <= K ->
      hq (SZ K t) (dec a_ops f E t s) s.
    Proof.
      induction f as [| f IH]; intros t s Hz Hc; cbn [dec]; [exact I|].
      assert (Hfld : forall fl, In (f_ty fl) (env_field_tys E) ->
                     forall s1, hq (SZ K (field_dec_ty fl)) (dec a_ops f E (field_dec_ty fl) s1) s1).
      { intros fl Hin s1. apply IH.
        - apply field_dec_ty_nzw. unfold nzw_env in HE_nzw. rewrite forallb_forall in HE_nzw.
          apply HE_nzw. exact Hin.
        - pose proof (field_dec_ty_const fl). specialize (HE_ty _ Hin). lia. }
      destruct t as [p | t' | r e | ts | k e | k kt vt | w t' | | n].
      - (* TPrim *) apply dec_prim_q; [exact HK | exact HKB].
      - (* TOption *) cbn [nzw_ty ty_const] in Hz, Hc. change (d_rd a_ops) with a_reader.
        unfold SZ at 1. cbn [zero_width].
        eapply hq_bind; [apply r_u8_q|]. intros tag s1 w1 ->. cbv beta iota.
        destruct (tag =? 0); [apply hq_ok; fin_lin|]. destruct (tag =? 1); [| exact I].
        eapply hq_bind; [apply IH; assumption|]. intros x s2 w2 Hx. cbv beta iota in Hx |- *.
        apply hq_ok. apply SZ_le1 in Hx. unfold VSome. cbn [vsize fold_right]. lia.
      - (* TResult *) cbn [nzw_ty ty_const] in Hz, Hc. change (d_rd a_ops) with a_reader.
        apply andb_true_iff in Hz. destruct Hz as [Hzr Hze].
        unfold SZ at 1. cbn [zero_width].
        eapply hq_bind; [apply r_u8_q|]. intros tag s1 w1 ->. cbv beta iota.
        destruct (tag =? 0).
        { eapply hq_bind; [apply IH; [exact Hze | lia]|].
          intros x s2 w2 Hx. cbv beta iota in Hx |- *.
          apply hq_ok. apply SZ_le1 in Hx. cbn [vsize fold_right]. lia. }
        destruct (tag =? 1); [| exact I].
        eapply hq_bind; [apply IH; [exact Hzr | lia]|].
        intros x s2 w2 Hx. cbv beta iota in Hx |- *.
        apply hq_ok. apply SZ_le1 in Hx. cbn [vsize fold_right]. lia.
      - (* TTuple *) cbn [nzw_ty ty_const] in Hz, Hc.
        unfold SZ at 1. cbn [zero_width].
        eapply hq_weaken; [apply (dec_record_q K HK HKB) | cbv beta; intros w v Hv; lia].
        + intros fl Hin s1. unfold tuple_meta in Hin. cbn [r_fields] in Hin.
          apply tuple_fields_In in Hin. destruct Hin as [Hopt Hin].
          unfold field_dec_ty. rewrite Hopt. apply IH.
          * rewrite forallb_forall in Hz. apply Hz. exact Hin.
          * pose proof (fold_max_In ty_const 3 ts _ Hin). lia.
        + rewrite rmeta_const_tuple. lia.
      - (* TSeq *) cbn [nzw_ty ty_const] in Hz, Hc.
        apply andb_true_iff in Hz. destruct Hz as [Hzw Hz]. apply negb_true_iff in Hzw.
        unfold SZ at 1. cbn [zero_width].
        destruct (byte_path k e).
        + qgo_w qrd fin_lin.
        + eapply hq_bind; [apply (dec_seq_items_q K HK HKB)|].
          * intros s1. eapply hq_weaken; [apply IH; assumption|].
            cbv beta. intros w v Hv. apply (SZ_nz K e); assumption.
          * intros items s1 w1 Hit. cbv beta iota in Hit |- *.
            destruct (collect k items) as [v | er | p | ] eqn:Hcol; cbn [bind]; try exact I.
            apply hq_ok. apply collect_sz in Hcol. lia.
      - (* TMap *) cbn [nzw_ty ty_const] in Hz, Hc.
        apply andb_true_iff in Hz. destruct Hz as [Hzk Hzv].
        unfold SZ at 1. cbn [zero_width].
        eapply hq_bind; [apply (dec_seq_items_q K HK HKB)|].
        + intros s1. eapply hq_weaken; [apply IH|].
          * cbn [nzw_ty forallb]. rewrite Hzk, Hzv. reflexivity.
          * cbn [ty_const fold_right nlen]. lia.
          * cbv beta. intros w v Hv. apply (SZ_nz K (TTuple [kt; vt])); [reflexivity | exact Hv].
        + intros items s1 w1 Hit. cbv beta iota in Hit |- *.
          apply hq_ok. rewrite vsize_node, vsum_map_pairs.
          pose proof (map_collect_psz items []) as Hm. cbn [psz fold_right] in Hm. fold psz in Hm. lia.
      - (* TWrap *) change (SZ K (TWrap w t')) with (SZ K t'). apply IH; assumption.
      - (* TPhantom *) apply hq_ok. unfold SZ, VUnit. cbn [zero_width vsize fold_right]. lia.
      - (* TNamed *) unfold SZ at 1. cbn [zero_width].
        destruct (lookup_decl E n) as [d |] eqn:Hd; [| exact I].
        unfold lookup_decl in Hd. apply nth_error_In in Hd.
        pose proof (HE_decl d Hd) as HKd. unfold decl_const in HKd.
        destruct (d_body d) as [m | m] eqn:Hbody.
        + eapply hq_weaken; [apply (dec_record_q K HK HKB) | cbv beta; intros w v Hv; lia].
          * intros fl Hin s1. apply Hfld. eapply record_field_in_env; eassumption.
          * exact HKd.
        + eapply hq_weaken; [apply (dec_enum_q K HK HKB) | cbv beta; intros w v Hv; lia].
          intros v Hv. split.
          * pose proof (fold_max_In (fun v => rmeta_const (v_rec v)) 0 _ v Hv). cbv beta in *. lia.
          * intros fl Hin s1. apply Hfld. eapply enum_field_in_env; eassumption.
    Qed.
  End Main.

End Quad.

(* ================================================================== *)
(*                          5. the theorems                            *)
(* ================================================================== *)

Lemma mul_ge_l a b : 1 <= b -> a <= a * b.
Proof. intros H. pose proof (N.mul_le_mono_l 1 b a H). lia. Qed.

(* the general form: B is any bound on the strings of the table and on the current region.
   It is an invariant: the table found afterwards is bounded by B as well *)
Theorem decA_size_quad_hoare : forall B f E t s v s',
  nzw_env E = true -> nzw_ty t = true ->
  Forall (fun x => nlen x <= B) (a_strs s) -> nlen (a_cur s) <= B ->
  dec a_ops f E t s = Ok (v, s') ->
  a_stack s' = a_stack s /\ nlen (a_cur s') <= nlen (a_cur s) /\
  Forall (fun x => nlen x <= B) (a_strs s') /\
  vsize v <= size_const E t * (1 + B) * (nlen (a_cur s) - nlen (a_cur s'))
             + (if zero_width t then 1 else 0).
Proof.
  intros B f E t s v s' HzE Hzt Ht Hc Hd.
  set (K := size_const E t * (1 + B)).
  pose proof (size_const_ge E t) as H3.
  assert (HK : 3 <= K) by (unfold K; pose proof (mul_ge_l (size_const E t) (1 + B)); lia).
  assert (HKB : 1 + B <= K).
  { unfold K. pose proof (N.mul_le_mono_r 1 (size_const E t) (1 + B)). lia. }
  assert (Hsc : size_const E t <= K) by (unfold K; apply mul_ge_l; lia).
  pose proof (dec_szq B K HK HKB E) as H.
  specialize (H (fun t' Hin => N.le_trans _ _ _ (size_const_env_ty E t t' Hin) Hsc)
                (fun d Hin => N.le_trans _ _ _ (size_const_env_decl E t d Hin) Hsc)
                HzE f t s Hzt).
  assert (Hct : ty_const t <= K) by (unfold size_const in Hsc; lia).
  specialize (H Hct). rewrite Hd in H.
  destruct (H Ht Hc) as (Hst & Ht' & w & Hsz & Hw). unfold SZ in Hsz.
  split; [exact Hst|]. split; [lia|]. split; [exact Ht'|].
  assert (Hm : K * w <= K * (nlen (a_cur s) - nlen (a_cur s')))
    by (apply N.mul_le_mono_l; lia).
  fold K. lia.
Qed.

Lemma strs_bound_tab s : Forall (fun x => nlen x <= strs_bound s) (a_strs s).
Proof. apply maxlen_Forall. unfold strs_bound. lia. Qed.

Lemma strs_bound_cur s : nlen (a_cur s) <= strs_bound s.
Proof. unfold strs_bound. lia. Qed.

(* THE QUADRATIC BOUND *)
Theorem decA_size_quadratic : forall f E t s v s',
  nzw_env E = true -> nzw_ty t = true ->
  dec a_ops f E t s = Ok (v, s') ->
  vsize v <= size_const E t * (1 + (nlen (a_cur s) - nlen (a_cur s'))) * (1 + strs_bound s).
Proof.
  intros f E t s v s' HzE Hzt Hd.
  destruct (decA_size_quad_hoare (strs_bound s) f E t s v s' HzE Hzt
              (strs_bound_tab s) (strs_bound_cur s) Hd) as (_ & _ & _ & H).
  pose proof (size_const_ge E t) as H3.
  set (c := nlen (a_cur s) - nlen (a_cur s')) in *.
  set (W := 1 + strs_bound s) in *. set (C := size_const E t) in *.
  assert (HW : C <= C * W) by (apply mul_ge_l; unfold W; lia).
  replace (C * (1 + c) * W) with (C * W + C * W * c) by lia.
  destruct (zero_width t); lia.
Qed.

(* strs_bound is an invariant: it bounds the strings of the table left by the run as well
   (so it can be carried over to the next run on the same table) *)
Corollary decA_size_quadratic_tab : forall f E t s v s',
  nzw_env E = true -> nzw_ty t = true ->
  dec a_ops f E t s = Ok (v, s') ->
  nlen (a_cur s') <= nlen (a_cur s) /\ maxlen (a_strs s') <= strs_bound s.
Proof.
  intros f E t s v s' HzE Hzt Hd.
  destruct (decA_size_quad_hoare (strs_bound s) f E t s v s' HzE Hzt
              (strs_bound_tab s) (strs_bound_cur s) Hd) as (_ & Hc & Ht & _).
  split; [exact Hc|]. induction Ht as [| x l Hx _ IH]; cbn [maxlen fold_right]; [lia|].
  fold (maxlen l). lia.
Qed.

(* declaration-free types *)
Corollary decA_size_quadratic_builtin : forall f t s v s',
  nzw_ty t = true ->
  dec a_ops f [] t s = Ok (v, s') ->
  vsize v <= size_const [] t * (1 + (nlen (a_cur s) - nlen (a_cur s'))) * (1 + strs_bound s).
Proof. intros f t s v s' Hz Hd. apply (decA_size_quadratic f [] t s v s'); auto. Qed.

(* the entry point: the whole value against the whole input and the initial string table *)
Corollary decodeA_size_quadratic : forall f E t bs st v rest st',
  nzw_env E = true -> nzw_ty t = true ->
  decodeA f E t bs st = Ok (v, rest, st') ->
  vsize v <= size_const E t * (1 + (nlen bs - nlen rest)) * (1 + N.max (maxlen st) (nlen bs)) /\
  vsize v <= size_const E t * (1 + nlen bs) * (1 + N.max (maxlen st) (nlen bs)).
Proof.
  intros f E t bs st v rest st' HzE Hzt Hd. unfold decodeA in Hd.
  destruct (dec a_ops f E t (mkA bs [] st)) as [[v0 s0] | e | p | ] eqn:Hdec; cbn [bind] in Hd;
    try discriminate Hd.
  injection Hd as <- <- <-.
  pose proof (decA_size_quadratic f E t _ _ _ HzE Hzt Hdec) as H.
  unfold strs_bound in H. cbn [a_cur a_strs] in H.
  split; [exact H|].
  assert (Hm : size_const E t * (1 + (nlen bs - nlen (a_cur s0))) <= size_const E t * (1 + nlen bs))
    by (apply N.mul_le_mono_l; lia).
  pose proof (N.mul_le_mono_r _ _ (1 + N.max (maxlen st) (nlen bs)) Hm). lia.
Qed.

(* ... and from the empty table: at most quadratic in the length of the input *)
Corollary decodeA_size_quadratic_fresh : forall f E t bs v rest st',
  nzw_env E = true -> nzw_ty t = true ->
  decodeA f E t bs [] = Ok (v, rest, st') ->
  vsize v <= size_const E t * (1 + nlen bs) * (1 + nlen bs).
Proof.
  intros f E t bs v rest st' HzE Hzt Hd.
  destruct (decodeA_size_quadratic f E t bs [] v rest st' HzE Hzt Hd) as [_ H].
  cbn [maxlen fold_right] in H. rewrite N.max_0_l in H. exact H.
Qed.

(* ================================================================== *)
(*                          6. non-vacuity                             *)
(* ================================================================== *)

(* SizeProofs.dedup_bomb: Vec<DeduplicatedString>, 184 bytes, a value of size 8182 -- more than
   20 times the input (size_not_linear_with_dedup), and below the quadratic bound 102675 *)
Example size_quadratic_nonvacuous :
  let t := TSeq KVec (TPrim PDedupString) in
  nzw_env [] = true /\ nzw_ty t = true /\ size_const [] t = 3 /\ nlen dedup_bomb = 184 /\
  match decodeA 200 [] t dedup_bomb [] with
  | Ok (v, rest, st') =>
      rest = [] /\ vsize v = 8182 /\
      size_const [] t * (1 + nlen dedup_bomb) * (1 + nlen dedup_bomb) = 102675 /\
      vsize v <= size_const [] t * (1 + nlen dedup_bomb) * (1 + nlen dedup_bomb)
  | _ => False
  end.
Proof. vm_compute. repeat split; try reflexivity; discriminate. Qed.

(* the bound in the form of the theorem, on the state of the run *)
Example size_quadratic_nonvacuous_state :
  let t := TSeq KVec (TPrim PDedupString) in
  let s := mkA dedup_bomb [] [] in
  match dec a_ops 200 [] t s with
  | Ok (v, s') =>
      strs_bound s = 184 /\
      size_const [] t * (1 + (nlen (a_cur s) - nlen (a_cur s'))) * (1 + strs_bound s) = 102675 /\
      8182 <= size_const [] t * (1 + (nlen (a_cur s) - nlen (a_cur s'))) * (1 + strs_bound s)
  | _ => False
  end.
Proof. vm_compute. repeat split; try reflexivity; discriminate. Qed.

Print Assumptions decA_size_quad_hoare.
Print Assumptions decA_size_quadratic.
Print Assumptions decA_size_quadratic_tab.
Print Assumptions decA_size_quadratic_builtin.
Print Assumptions decodeA_size_quadratic.
Print Assumptions decodeA_size_quadratic_fresh.
Print Assumptions size_quadratic_nonvacuous.
Print Assumptions size_quadratic_nonvacuous_state.
