(* Outcome.v — results of model functions: the Rust `Result`, plus the two ways a model
   computation can leave the Result world: a panic (with its kind) and fuel exhaustion. *)
From Coq Require Import NArith ZArith List.
Import ListNotations.

Definition byte := N.          (* a byte is an N; encoders only ever produce values < 256 *)
Definition bytes := list N.
Definition name := list N.     (* identifiers and strings are their UTF-8 bytes *)

(* desert::Error, variant for variant; payloads kept where a property names them *)
Inductive err :=
| EUnsupportedCharacter
| EFailedToDecodeCharacter
| ELengthTooLarge
| EInvalidTimeZone
| EInputEnded
| ECompressionFailure
| EDecompressionFailure
| EFailedToDecodeString
| EInvalidStringId (id : Z)
| EDeserializationFailure
| EUnknownFieldRef (n : name)
| EInvalidConstructorName
| ENonExistingChunk
| EFieldRemoved (n : name)
| EFieldMissing (n : name)
| ENonOptionalNone (n : name)
| EInvalidRefId (id : N)
| EInvalidConstructorId (id : N) (ty : name)
| EDeTransientCtor (ctor ty : name)
| ESerTransientCtor (ctor ty : name)
| EIllTyped.   (* model only: the value does not inhabit the type (no Rust counterpart) *)

Inductive pkind := POverflow | PIndex | PUnwrap | PUnreachable | PAssert | PLibrary.

Inductive outcome (A : Type) :=
| Ok (a : A)
| Err (e : err)
| Panic (p : pkind)
| Fuel.
Arguments Ok {A} a.
Arguments Err {A} e.
Arguments Panic {A} p.
Arguments Fuel {A}.

Definition bind {A B} (m : outcome A) (k : A -> outcome B) : outcome B :=
  match m with
  | Ok a => k a
  | Err e => Err e
  | Panic p => Panic p
  | Fuel => Fuel
  end.

Definition omap {A B} (f : A -> B) (m : outcome A) : outcome B :=
  bind m (fun a => Ok (f a)).

Declare Scope outcome_scope.
Notation "x <- m ;; k" := (bind m (fun x => k))
  (at level 61, m at next level, right associativity) : outcome_scope.
Notation "' p <- m ;; k" := (bind m (fun x => let p := x in k))
  (at level 61, p pattern, m at next level, right associativity) : outcome_scope.
Open Scope outcome_scope.

Definition is_ok {A} (m : outcome A) : bool := match m with Ok _ => true | _ => false end.
Definition is_err {A} (m : outcome A) : bool := match m with Err _ => true | _ => false end.
Definition is_panic {A} (m : outcome A) : bool := match m with Panic _ => true | _ => false end.
Definition is_fuel {A} (m : outcome A) : bool := match m with Fuel => true | _ => false end.
(* the two outcomes a Rust function returning Result may legitimately have *)
Definition is_result {A} (m : outcome A) : bool := match m with Ok _ | Err _ => true | _ => false end.

Lemma bind_ok {A B} (m : outcome A) (k : A -> outcome B) b :
  bind m k = Ok b -> exists a, m = Ok a /\ k a = Ok b.
Proof. destruct m; simpl; intros H; try discriminate. eauto. Qed.

Lemma bind_assoc {A B C} (m : outcome A) (k : A -> outcome B) (h : B -> outcome C) :
  bind (bind m k) h = bind m (fun a => bind (k a) h).
Proof. destruct m; reflexivity. Qed.

Lemma bind_ret_r {A} (m : outcome A) : bind m (fun a => Ok a) = m.
Proof. destruct m; reflexivity. Qed.
