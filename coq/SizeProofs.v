(* SizeProofs.v — "decoding never allocates more than a bounded multiple of the input length",
   at the level of the model: the SIZE of the decoded value against the number of input bytes
   consumed, for the reference decoder (layer A).

   Definitions (all computable)
     vsize v            one per node or leaf, plus the bytes of the strings / byte strings
     no_dedup t         no TPrim PDedupString anywhere in t;  no_dedup_env E: in no field type
     ty_const t         3, and 1 + 2 * arity for every TTuple occurring in t
     field_const steps f = 2 + (size of the #[transient] default of f, if any)
                             + added_size steps (sum of the sizes of the FieldAdded defaults)
     rmeta_const m      1 + sum of field_const (r_steps m) f over the fields of m
     decl_const d       rmeta_const of the record / the largest rmeta_const of the variants
     env_const E        the largest decl_const of E and the largest ty_const of a field type
     size_const E t   = N.max (ty_const t) (env_const E)
   Neither array lengths nor the nesting depth enter the constant.

   Results
     size_not_linear_with_dedup   the property is FALSE in general: a back-reference to a
                                  de-duplicated string (1..5 bytes) is expanded to a copy of the
                                  string; 184 bytes decode to a value of size 8182
     size_not_linear_zero_width   ... and so is it for sequences of zero-width elements: the 2
                                  bytes of the count 1000 decode to 1001 nodes (Vec<()>)
     decA_size_hoare              nzw_env E, nzw_ty t, no_dedup_env E, no_dedup t,
                                  dec a_ops f E t s = Ok (v, s')  ->  stack as found, |cur s'| <=
                                  |cur s|, and vsize v <= size_const E t * consumed
                                                          + (if zero_width t then 1 else 0)
     decA_size_linear             hence vsize v <= size_const E t * (1 + consumed)   (as asked)
     decA_size_linear_nzw         no "1 +" when t is not zero-width
     decA_size_linear_nat         with `length` in nat
     decA_size_linear_builtin     E = []
     decodeA_size_linear          the entry point: vsize v <= size_const E t * (1 + nlen input)
     size_linear_nonvacuous       the hypotheses are satisfiable (a recursive declaration:
                                  size_const = 5, 12 bytes, value of size 12)
     size_const_with_defaults     FieldAdded / #[transient] defaults enter the constant
                                  (size_const = 25; 2 bytes decode to a value of size 12)
   No well-formedness hypothesis (wf_env / wf_ty) is needed.

   How the proof goes.  A Hoare logic over successful runs (as in DenoteProofs.v, without any
   invariant on the state): `hoare P m s` says that if m = Ok (a, s') then the region stack is
   as found and there is a LOWER bound w on the number of bytes of the current region that were
   consumed such that P w a.  The predicate on decoded values is, for one constant K >= 3,
       SZ K t w v :=  vsize v <= K * w + (if zero_width t then 1 else 0)
   so a value of a type that is not zero-width is paid for entirely by the bytes it consumed
   (K per byte).  This form goes through every case of `dec` (main lemma `dec_sz`, by induction
   on the fuel as TermProofs.dec_g) with the SAME K, whatever the nesting:
     - a leaf / a string of n bytes consumed >= 1 / >= 1 + n bytes (`dec_prim_h`; a BigDecimal,
       3 nodes out of >= 1 byte, is why K >= 3);
     - Option / Result / a sequence read a tag or count byte that pays for their node;
     - the items of a sequence are not zero-width (nzw_ty), so they pay for themselves,
       whatever the count says (sets and maps only drop items: `dedup_vals_vsum`,
       `map_collect_psz`; an array is a sequence whose length is checked afterwards);
     - a record / tuple / enum reads a version byte, which pays for the node and for everything
       its fields can produce out of zero bytes: at most field_const each (1 for `()`, 2 for
       `()` behind a Some, the #[transient] default, a FieldAdded default) -- this is where K
       depends on E and t: K >= rmeta_const of every record of E and of every tuple of t;
     - fields read from chunk regions: the regions were carved out of the current region by
       `ad_open` (1 + adw ad <= consumed), so what is consumed in them was consumed from the
       current region (`adw`: total length of the regions still held by the AdtDeserializer;
       `hoare_ad`, `in_chunk_h`);
     - the header field NAMES of evolved records are read as de-duplicated strings
       (`dec_dedup_h`) but do not become part of the value. *)
From Coq Require Import NArith ZArith List Lia Bool Arith.
From Coq Require Import ZifyBool ZifyN ZifyNat.
From Desert Require Import Bits Outcome IO IOProofs VarintProofs Types Codec CodecWf TotalProofs
  MonoProofs TermProofs.
Import ListNotations.
Open Scope N_scope.

Ltac Zify.zify_post_hook ::= Z.div_mod_to_equations.

(* ================================================================== *)
(*                           definitions                               *)
(* ================================================================== *)

(* the size of a value: one per node or leaf, plus the bytes of the strings *)
Fixpoint vsize (v : val) : N :=
  match v with
  | VN _ | VZ _ => 1
  | VB bs => 1 + nlen bs
  | VNode _ vs => 1 + fold_right (fun x a => vsize x + a) 0 vs
  end.

Definition vsum (vs : list val) : N := fold_right (fun x a => vsize x + a) 0 vs.

Lemma vsize_node t vs : vsize (VNode t vs) = 1 + vsum vs.
Proof. reflexivity. Qed.
Lemma vsum_nil : vsum [] = 0.
Proof. reflexivity. Qed.
Lemma vsum_cons x r : vsum (x :: r) = vsize x + vsum r.
Proof. reflexivity. Qed.
Lemma vsize_pos v : 1 <= vsize v.
Proof. destruct v; cbn [vsize]; lia. Qed.

(* no DeduplicatedString anywhere in the type expression *)
Fixpoint no_dedup (t : ty) : bool :=
  match t with
  | TPrim PDedupString => false
  | TPrim _ | TPhantom | TNamed _ => true
  | TOption t' | TWrap _ t' | TSeq _ t' => no_dedup t'
  | TResult r e => no_dedup r && no_dedup e
  | TTuple ts => forallb no_dedup ts
  | TMap _ k v => no_dedup k && no_dedup v
  end.

Definition no_dedup_env (E : env) : bool := forallb no_dedup (env_field_tys E).

(* ---- the constant ---- *)

(* 3 for the primitives (a BigDecimal is a node with two leaves and may come from one byte),
   1 + 2 * arity for every tuple of the type *)
Fixpoint ty_const (t : ty) : N :=
  match t with
  | TPrim _ | TPhantom | TNamed _ => 3
  | TOption t' | TWrap _ t' | TSeq _ t' => ty_const t'
  | TResult r e => N.max (ty_const r) (ty_const e)
  | TTuple ts => N.max (1 + 2 * nlen ts) (fold_right (fun x a => N.max (ty_const x) a) 3 ts)
  | TMap _ k v => N.max 5 (N.max (ty_const k) (ty_const v))
  end.

(* the sizes of the FieldAdded defaults of a record *)
Definition added_size (steps : list step) : N :=
  fold_right (fun st a => match st with SAdded _ d => vsize d + a | _ => a end) 0 steps.

(* what a field can contribute to the value without consuming a byte *)
Definition field_const (steps : list step) (f : field) : N :=
  2 + match f_transient f with Some d => vsize d | None => 0 end + added_size steps.

Definition fields_const (steps : list step) (fs : list field) : N :=
  fold_right (fun f a => field_const steps f + a) 0 fs.

Definition rmeta_const (m : rmeta) : N := 1 + fields_const (r_steps m) (r_fields m).

Definition decl_const (d : tdecl) : N :=
  match d_body d with
  | DRecord m => rmeta_const m
  | DEnum m => fold_right (fun v a => N.max (rmeta_const (v_rec v)) a) 0 (e_variants m)
  end.

Definition env_const (E : env) : N :=
  N.max (fold_right (fun d a => N.max (decl_const d) a) 0 E)
        (fold_right (fun t a => N.max (ty_const t) a) 0 (env_field_tys E)).

Definition size_const (E : env) (t : ty) : N := N.max (ty_const t) (env_const E).

(* ================================================================== *)
(*                     1. the refutation                               *)
(* ================================================================== *)

(* Vec<DeduplicatedString>: count 81, "AAA...A" (100 bytes) spelled once, then 80 times the
   one-byte back-reference to string 1 *)
Definition dedup_bomb : bytes := [162; 1] ++ [200; 1] ++ repeat 65 100 ++ repeat 1 80.

Example size_not_linear_with_dedup :
  let t := TSeq KVec (TPrim PDedupString) in
  exists input v s', dec a_ops 200 [] t (mkA input [] []) = Ok (v, s') /\
                     nlen input < 200 /\ 20 * nlen input < vsize v.
Proof.
  intros t.
  destruct (dec a_ops 200 [] t (mkA dedup_bomb [] [])) as [[v s'] | e | p | ] eqn:Hd;
    [| vm_compute in Hd; discriminate Hd ..].
  exists dedup_bomb, v, s'. split; [exact Hd|].
  vm_compute in Hd. injection Hd as <- _. vm_compute. split; reflexivity.
Qed.

(* the numbers *)
Example size_not_linear_numbers :
  nlen dedup_bomb = 184 /\
  match dec a_ops 200 [] (TSeq KVec (TPrim PDedupString)) (mkA dedup_bomb [] []) with
  | Ok (v, s') => vsize v = 8182 /\ a_cur s' = []
  | _ => False
  end.
Proof. vm_compute. repeat split; reflexivity. Qed.

(* the other hypothesis of the bound is needed as well: Vec<()> with the two-byte count 1000 *)
Example size_not_linear_zero_width :
  exists v s', dec a_ops 1002 [] (TSeq KVec (TPrim PUnit)) (mkA [208; 15] [] []) = Ok (v, s') /\
               no_dedup (TSeq KVec (TPrim PUnit)) = true /\ vsize v = 1001.
Proof.
  destruct (dec a_ops 1002 [] (TSeq KVec (TPrim PUnit)) (mkA [208; 15] [] [])) as [[v s'] | e | p | ] eqn:Hd;
    [| vm_compute in Hd; discriminate Hd ..].
  exists v, s'. split; [reflexivity|]. split; [reflexivity|].
  vm_compute in Hd. injection Hd as <- _. vm_compute. reflexivity.
Qed.

(* ================================================================== *)
(*                 2. a Hoare logic over successful runs               *)
(* ================================================================== *)

Definition hoare {A} (P : N -> A -> Prop) (m : outcome (A * astate)) (s : astate) : Prop :=
  match m with
  | Ok (a, s') =>
      a_stack s' = a_stack s /\ exists w, P w a /\ w + nlen (a_cur s') <= nlen (a_cur s)
  | _ => True
  end.

Lemma hoare_bind {A B} (P : N -> A -> Prop) (Q : N -> B -> Prop) (m : outcome (A * astate))
    (k : A * astate -> outcome (B * astate)) s :
  hoare P m s ->
  (forall a s' w, P w a -> hoare (fun w' b => Q (w + w') b) (k (a, s')) s') ->
  hoare Q (bind m k) s.
Proof.
  intros Hm Hk. destruct m as [[a s1] | e | p | ]; cbn [bind]; try exact I.
  destruct Hm as (Hst & w & Pw & Hw). specialize (Hk a s1 w Pw). unfold hoare in Hk |- *.
  destruct (k (a, s1)) as [[b s2] | e | p | ]; try exact I.
  destruct Hk as (Hst2 & w' & Qw & Hw'). split; [congruence|].
  exists (w + w'). split; [exact Qw | lia].
Qed.

Lemma hoare_ok {A} (P : N -> A -> Prop) a s : P 0 a -> hoare P (Ok (a, s)) s.
Proof. intros H. split; [reflexivity|]. exists 0. split; [exact H | lia]. Qed.

Lemma hoare_weaken {A} (P Q : N -> A -> Prop) m s :
  hoare P m s -> (forall w a, P w a -> Q w a) -> hoare Q m s.
Proof.
  intros H HPQ. destruct m as [[a s1] | e | p | ]; try exact I.
  destruct H as (H1 & w & Pw & Hw). split; [exact H1|]. exists w. split; [apply HPQ; exact Pw | exact Hw].
Qed.

(* ------------------------------------------------------------------ *)
(* the readers *)

Lemma r_u8_h s : hoare (fun w _ => w = 1) (r_u8 a_reader s) s.
Proof.
  aops. destruct s as [cur stk strs]. cbn [a_cur]. destruct cur as [| b r]; cbn [bind]; [exact I|].
  unfold hoare, a_with_cur. cbn [a_cur a_stack]. split; [reflexivity|].
  exists 1. split; [reflexivity|]. cbn [nlen]. lia.
Qed.

Lemma r_bytes_h n s : hoare (fun w bs => w = n /\ nlen bs = n) (r_bytes a_reader n s) s.
Proof.
  aops. destruct s as [cur stk strs]. cbn [a_cur].
  destruct (n <=? nlen cur) eqn:Hn; cbn [bind]; [| exact I].
  unfold hoare, a_with_cur. cbn [a_cur a_stack]. split; [reflexivity|].
  exists n. rewrite nlen_ndrop. split; [split; [reflexivity | apply nlen_ntake; lia] | lia].
Qed.

Lemma d_take_h n s : hoare (fun w rg => nlen rg <= w) (d_take a_ops n s) s.
Proof.
  aops. destruct s as [cur stk strs]. cbn [a_cur].
  destruct (n <=? nlen cur) eqn:Hn; [| exact I].
  unfold hoare, a_with_cur. cbn [a_cur a_stack]. split; [reflexivity|].
  exists n. rewrite nlen_ndrop, nlen_ntake by lia. split; lia.
Qed.

Lemma read_be_h k s : hoare (fun w _ => w = k) (read_be a_reader k s) s.
Proof.
  unfold read_be. eapply hoare_bind; [apply r_bytes_h|]. intros bs s1 w [-> _]. cbv beta iota.
  apply hoare_ok. lia.
Qed.

Lemma read_i8_h s : hoare (fun w _ => w = 1) (read_i8 a_reader s) s.
Proof.
  unfold read_i8. eapply hoare_bind; [apply r_u8_h|]. intros b s1 w ->. cbv beta iota.
  apply hoare_ok. lia.
Qed.

Lemma read_signed_h k bits s : hoare (fun w _ => w = k) (read_signed a_reader k bits s) s.
Proof.
  unfold read_signed. eapply hoare_bind; [apply read_be_h|]. intros u s1 w ->. cbv beta iota.
  apply hoare_ok. lia.
Qed.

Lemma read_var_u32_h s : hoare (fun w _ => 1 <= w) (read_var_u32 a_reader s) s.
Proof.
  unfold read_var_u32.
  eapply hoare_bind; [apply r_u8_h|]. intros b1 s1 w1 ->. cbv beta iota zeta.
  destruct (N.land b1 128 =? 0); [apply hoare_ok; lia|].
  eapply hoare_bind; [apply r_u8_h|]. intros b2 s2 w2 ->. cbv beta iota zeta.
  destruct (N.land b2 128 =? 0); [apply hoare_ok; lia|].
  eapply hoare_bind; [apply r_u8_h|]. intros b3 s3 w3 ->. cbv beta iota zeta.
  destruct (N.land b3 128 =? 0); [apply hoare_ok; lia|].
  eapply hoare_bind; [apply r_u8_h|]. intros b4 s4 w4 ->. cbv beta iota zeta.
  destruct (N.land b4 128 =? 0); [apply hoare_ok; lia|].
  eapply hoare_bind; [apply r_u8_h|]. intros b5 s5 w5 ->. cbv beta iota zeta.
  apply hoare_ok. lia.
Qed.

Lemma read_var_i32_h s : hoare (fun w _ => 1 <= w) (read_var_i32 a_reader s) s.
Proof.
  unfold read_var_i32. eapply hoare_bind; [apply read_var_u32_h|]. intros r s1 w Hw. cbv beta iota in Hw |- *.
  apply hoare_ok. lia.
Qed.

Lemma dec_utf8_h bs (s : astate) : hoare (fun w v => v = VB bs) (dec_utf8 bs s) s.
Proof. unfold dec_utf8. destruct (utf8_valid bs); [apply hoare_ok; reflexivity | exact I]. Qed.

(* a string of n bytes takes at least 1 + n bytes of input *)
Lemma dec_string_h s : hoare (fun w v => vsize v <= w /\ 1 <= w) (dec_string a_ops s) s.
Proof.
  unfold dec_string. change (d_rd a_ops) with a_reader.
  eapply hoare_bind; [apply read_var_i32_h|]. intros id s1 w1 Hw1. cbv beta iota in Hw1 |- *.
  eapply hoare_bind; [apply r_bytes_h|]. intros bs s2 w2 [-> Hlen]. cbv beta iota.
  eapply hoare_weaken; [apply dec_utf8_h|]. cbv beta. intros w v ->. cbn [vsize]. lia.
Qed.

Lemma dec_bytes_h s : hoare (fun w v => vsize v <= w /\ 1 <= w) (dec_bytes a_ops s) s.
Proof.
  unfold dec_bytes. change (d_rd a_ops) with a_reader.
  eapply hoare_bind; [apply read_var_u32_h|]. intros n s1 w1 Hw1. cbv beta iota in Hw1 |- *.
  eapply hoare_bind; [apply r_bytes_h|]. intros bs s2 w2 [-> Hlen]. cbv beta iota.
  apply hoare_ok. cbn [vsize]. lia.
Qed.

(* header field names: nothing to say about the (possibly copied) string, it is dropped *)
Lemma dec_dedup_h s : hoare (fun _ _ => True) (dec_dedup a_ops s) s.
Proof.
  unfold dec_dedup. change (d_rd a_ops) with a_reader.
  eapply hoare_bind; [apply read_var_i32_h|]. intros c s1 w1 Hw1. cbv beta iota.
  destruct (c <? 0)%Z.
  - destruct (c =? - 2 ^ 31)%Z; [exact I|].
    destruct (d_str_get a_ops s1 (- c)); [apply hoare_ok; exact I | exact I].
  - eapply hoare_bind; [apply r_bytes_h|]. intros bs s2 w2 _. cbv beta iota.
    eapply hoare_bind; [apply dec_utf8_h|]. intros v s3 w3 _. cbv beta iota.
    aops. unfold hoare. cbn [a_cur a_stack]. split; [reflexivity|]. exists 0. split; [exact I | lia].
Qed.

(* ------------------------------------------------------------------ *)
(* compositions of readers through bind / if / match: every leaf `Ok (v, s)` is closed by `fin` *)

Ltac hrd0 :=
  change (d_rd a_ops) with a_reader;
  first [ apply r_u8_h | apply read_i8_h | apply read_be_h | apply read_signed_h
        | apply read_var_u32_h | apply read_var_i32_h | apply r_bytes_h
        | apply dec_string_h | apply dec_bytes_h ].

Ltac hgo_with rd fin :=
  lazymatch goal with
  | |- hoare _ (Ok _) _ => apply hoare_ok; fin
  | |- hoare _ (Err _) _ => exact I
  | |- hoare _ (Panic _) _ => exact I
  | |- hoare _ (bind _ _) _ =>
      eapply hoare_bind;
      [ rd | let H := fresh "Hrd" in intros ? ? ? H; cbv beta iota zeta in H |- *; hgo_with rd fin ]
  | |- hoare _ (if ?c then _ else _) _ => destruct c; hgo_with rd fin
  | |- hoare _ (match ?v with _ => _ end) _ => destruct v; hgo_with rd fin
  end.

Ltac fin_sz := cbv beta; cbn [vsize fold_right] in *; lia.

(* features/chrono.rs *)
Lemma dec_small_h lo hi s : hoare (fun w v => vsize v <= 1 /\ 1 <= w) (dec_small a_ops lo hi s) s.
Proof. unfold dec_small. hgo_with hrd0 fin_sz. Qed.
Lemma dec_offset_h s : hoare (fun w v => vsize v <= 1 /\ 2 <= w) (dec_offset a_ops s) s.
Proof. unfold dec_offset. hgo_with hrd0 fin_sz. Qed.
Lemma dec_tz_h s : hoare (fun w v => vsize v + 1 <= w) (dec_tz a_ops s) s.
Proof. unfold dec_tz. hgo_with hrd0 fin_sz. Qed.
Lemma dec_ndate_h s : hoare (fun w v => vsize v <= 4 /\ 3 <= w) (dec_ndate a_ops s) s.
Proof. unfold dec_ndate. hgo_with hrd0 fin_sz. Qed.
Lemma dec_ntime_h s : hoare (fun w v => vsize v <= 5 /\ 4 <= w) (dec_ntime a_ops s) s.
Proof. unfold dec_ntime. hgo_with hrd0 fin_sz. Qed.

Ltac hrd1 :=
  first [ hrd0 | apply dec_small_h | apply dec_offset_h | apply dec_tz_h | apply dec_ndate_h
        | apply dec_ntime_h ].

Lemma dec_ndt_h s : hoare (fun w v => vsize v <= 10 /\ 7 <= w) (dec_ndt a_ops s) s.
Proof. unfold dec_ndt. hgo_with hrd1 fin_sz. Qed.

Ltac hrd := first [ hrd1 | apply dec_ndt_h ].

Ltac hgo_w rd fin :=
  lazymatch goal with
  | |- hoare _ (Ok _) _ => apply hoare_ok; fin
  | |- hoare _ (Err _) _ => exact I
  | |- hoare _ (Panic _) _ => exact I
  | |- hoare _ (bind _ _) _ =>
      eapply hoare_bind;
      [ rd | let H := fresh "Hrd" in intros ? ? ? H; cbv beta iota zeta in H |- *; hgo_w rd fin ]
  | |- hoare _ (if ?c then _ else _) _ => destruct c; hgo_w rd fin
  | |- hoare _ (match ?v with _ => _ end) _ => destruct v; hgo_w rd fin
  | |- hoare _ _ _ =>
      eapply hoare_weaken; [ rd | let H := fresh "Hrd" in intros ? ? H; cbv beta in H |- *; fin ]
  end.

(* ================================================================== *)
(*                    3. the size predicate, one K                     *)
(* ================================================================== *)

Definition SZ (K : N) (t : ty) (w : N) (v : val) : Prop :=
  vsize v <= K * w + (if zero_width t then 1 else 0).

Lemma lin K x w : 3 <= K -> x <= 3 * w -> x <= K * w + 0.
Proof. intros HK Hx. pose proof (N.mul_le_mono_r 3 K w HK). lia. Qed.

Definition sumN (l : list N) : N := fold_right N.add 0 l.

Lemma sum_set_nth {A} (f : A -> N) : forall (l : list A) i x y,
  nth_error l i = Some x ->
  sumN (map f (set_nth l i y)) + f x = sumN (map f l) + f y.
Proof.
  induction l as [| z l IH]; intros i x y H; [destruct i; discriminate|].
  destruct i as [| i]; cbn [nth_error] in H; cbn [set_nth map sumN fold_right].
  - injection H as ->. lia.
  - specialize (IH i x y H). unfold sumN in IH. lia.
Qed.

Lemma dedup_vals_vsum : forall l seen, vsum (dedup_vals seen l) <= vsum l.
Proof.
  induction l as [| x l IH]; intros seen; cbn [dedup_vals]; [lia|].
  destruct (existsb (val_eqb x) seen); rewrite ?vsum_cons.
  - specialize (IH seen). lia.
  - specialize (IH (x :: seen)). lia.
Qed.

Lemma collect_sz k items v : collect k items = Ok v -> vsize v <= 1 + vsum items.
Proof.
  destruct k; cbn [collect]; try (intros [= <-]; rewrite vsize_node; lia).
  - intros [= <-]. rewrite vsize_node. pose proof (dedup_vals_vsum items []). lia.
  - intros [= <-]. rewrite vsize_node. pose proof (dedup_vals_vsum items []). lia.
  - destruct (nlen items =? n); [| discriminate]. intros [= <-]. rewrite vsize_node. lia.
Qed.

(* maps *)
Definition psz (l : list (val * val)) : N :=
  fold_right (fun kv a => 1 + vsize (fst kv) + vsize (snd kv) + a) 0 l.

Lemma map_insert_psz k v : forall acc, psz (map_insert k v acc) <= psz acc + 1 + vsize k + vsize v.
Proof.
  unfold psz. induction acc as [| [k' v'] acc IH]; cbn [map_insert fold_right fst snd]; [lia|].
  destruct (val_eqb k' k); cbn [fold_right fst snd]; lia.
Qed.

Lemma pair_of_sz x k v : pair_of x = Some (k, v) -> 1 + vsize k + vsize v <= vsize x.
Proof.
  destruct x as [n | z | bs | tag vs]; try discriminate. destruct tag; try discriminate.
  destruct vs as [| a [| b [| c r]]]; try discriminate. cbn [pair_of]. intros [= <- <-].
  cbn [vsize fold_right]. lia.
Qed.

Lemma map_collect_psz : forall items acc, psz (map_collect items acc) <= psz acc + vsum items.
Proof.
  induction items as [| x items IH]; intros acc; cbn [map_collect]; [rewrite vsum_nil; lia|].
  rewrite vsum_cons. destruct (pair_of x) as [[k v] |] eqn:Hp.
  - apply pair_of_sz in Hp. specialize (IH (map_insert k v acc)).
    pose proof (map_insert_psz k v acc). lia.
  - specialize (IH acc). lia.
Qed.

Lemma vsum_map_pairs l : vsum (map (fun kv : val * val => VNode 0 [fst kv; snd kv]) l) = psz l.
Proof.
  induction l as [| kv l IH]; [reflexivity|]. cbn [map]. rewrite vsum_cons, IH.
  cbn [psz fold_right vsize]. fold (psz l). lia.
Qed.

(* the defaults handed out by read_field *)
Lemma field_default_size n dv : forall steps acc,
  field_default steps n acc = Some dv -> acc = Some dv \/ vsize dv <= added_size steps.
Proof.
  induction steps as [| st steps IH]; intros acc H; cbn [field_default] in H; [left; exact H|].
  destruct st as [m d | m | m | m]; cbn [added_size fold_right]; fold (added_size steps).
  - apply IH in H. destruct H as [H | H]; [| right; lia].
    destruct (bytes_eqb m n); [injection H as <-; right; lia | left; exact H].
  - apply IH in H. exact H.
  - apply IH in H. exact H.
  - apply IH in H. exact H.
Qed.

Lemma fold_max_In {A} (f : A -> N) b : forall l x, In x l -> f x <= fold_right (fun y a => N.max (f y) a) b l.
Proof.
  induction l as [| y l IH]; intros x H; [destruct H|]. cbn [fold_right].
  destruct H as [-> | H]; [lia | specialize (IH x H); lia].
Qed.

Lemma fold_max_base {A} (f : A -> N) b : forall l, b <= fold_right (fun y a => N.max (f y) a) b l.
Proof. induction l as [| y l IH]; cbn [fold_right]; lia. Qed.

Lemma ty_const_ge t : 3 <= ty_const t.
Proof.
  induction t as [p | t' IH | r IHr e IHe | ts | k e IH | k kt IHk vt IHv | w t' IH | | n];
    cbn [ty_const]; try lia.
  pose proof (fold_max_base ty_const 3 ts). lia.
Qed.

Lemma fields_const_tuple : forall ts i, fields_const [] (tuple_fields ts i) = 2 * nlen ts.
Proof.
  induction ts as [| t r IH]; intros i; cbn [tuple_fields fields_const fold_right nlen]; [reflexivity|].
  fold (fields_const [] (tuple_fields r (i + 1))). rewrite IH.
  unfold field_const. cbn [f_transient added_size fold_right]. lia.
Qed.

Lemma rmeta_const_tuple ts : rmeta_const (tuple_meta ts) = 1 + 2 * nlen ts.
Proof. unfold rmeta_const, tuple_meta. cbn [r_steps r_fields]. rewrite fields_const_tuple. reflexivity. Qed.

Lemma field_dec_ty_no_dedup fl : no_dedup (f_ty fl) = true -> no_dedup (field_dec_ty fl) = true.
Proof.
  unfold field_dec_ty. destruct (f_opt fl); [| auto]. destruct (f_ty fl); cbn [no_dedup]; auto.
Qed.

Lemma field_dec_ty_const fl : ty_const (field_dec_ty fl) <= ty_const (f_ty fl).
Proof.
  unfold field_dec_ty. destruct (f_opt fl); [| lia]. destruct (f_ty fl); cbn [ty_const]; lia.
Qed.

Lemma SZ_le1 K t w v : SZ K t w v -> vsize v <= K * w + 1.
Proof. unfold SZ. destruct (zero_width t); lia. Qed.

Lemma SZ_nz K t w v : zero_width t = false -> SZ K t w v -> vsize v <= K * w.
Proof. unfold SZ. intros ->. lia. Qed.

Section Size.
  Variable K : N.
  Hypothesis HK : 3 <= K.

  Ltac fin_lin :=
    cbv beta; unfold VUnit, VNone, VSome;
    first [ apply lin; [exact HK | cbn [vsize fold_right] in *; lia]
          | cbn [vsize fold_right] in *; lia ].

  (* ---------------------------------------------------------------- *)
  (* primitives: the one place where dec_prim is looked into *)
  Lemma dec_prim_h p s :
    no_dedup (TPrim p) = true -> hoare (SZ K (TPrim p)) (dec_prim a_ops p s) s.
  Proof.
    intros Hp. destruct p; try discriminate Hp; clear Hp; unfold dec_prim, SZ; cbn [zero_width];
      hgo_w hrd fin_lin.
  Qed.

  (* ---------------------------------------------------------------- *)
  (* sequences: items that pay for themselves *)
  Section Seq.
    Variable d : astate -> outcome (val * astate).
    Hypothesis Hd : forall s, hoare (fun w v => vsize v <= K * w) (d s) s.

    Lemma dec_known_h : forall fuel n s,
      hoare (fun w xs => vsum xs <= K * w) (dec_known fuel d n s) s.
    Proof.
      induction fuel as [| fl IH]; intros n s; cbn [dec_known].
      - destruct (n =? 0); [apply hoare_ok; rewrite vsum_nil; lia | exact I].
      - destruct (n =? 0); [apply hoare_ok; rewrite vsum_nil; lia |].
        eapply hoare_bind; [apply Hd|]. intros x s1 w1 Hx. cbv beta iota in Hx |- *.
        eapply hoare_bind; [apply IH|]. intros xs s2 w2 Hxs. cbv beta iota in Hxs |- *.
        apply hoare_ok. rewrite vsum_cons. lia.
    Qed.

    Lemma dec_unknown_h : forall fuel s,
      hoare (fun w xs => vsum xs <= K * w) (dec_unknown a_ops fuel d s) s.
    Proof.
      induction fuel as [| fl IH]; intros s; cbn [dec_unknown]; [exact I|].
      change (d_rd a_ops) with a_reader.
      eapply hoare_bind; [apply r_u8_h|]. intros tag s1 w0 Hw0. cbv beta iota in Hw0 |- *.
      destruct (tag =? 0); [apply hoare_ok; rewrite vsum_nil; lia |].
      destruct (tag =? 1); [| exact I].
      eapply hoare_bind; [apply Hd|]. intros x s2 w1 Hx. cbv beta iota in Hx |- *.
      eapply hoare_bind; [apply IH|]. intros xs s3 w2 Hxs. cbv beta iota in Hxs |- *.
      apply hoare_ok. rewrite vsum_cons. lia.
    Qed.

    (* the count pays for the node of the sequence *)
    Lemma dec_seq_items_h fuel s :
      hoare (fun w xs => 1 + vsum xs <= K * w) (dec_seq_items a_ops fuel d s) s.
    Proof.
      unfold dec_seq_items. change (d_rd a_ops) with a_reader.
      assert (H : hoare (fun w xs => 1 + vsum xs <= K * w)
                    (bind (read_var_i32 a_reader s)
                       (fun '(n, s) => if (n =? -1)%Z then dec_unknown a_ops fuel d s
                                       else if (n <? 0)%Z then Err EDeserializationFailure
                                       else dec_known fuel d (as_usize n) s)) s).
      { eapply hoare_bind; [apply read_var_i32_h|]. intros n s1 w0 Hw0. cbv beta iota in Hw0 |- *.
        assert (Hm : K * 1 <= K * w0) by (apply N.mul_le_mono_l; exact Hw0).
        destruct (n =? -1)%Z.
        - eapply hoare_weaken; [apply dec_unknown_h|]. cbv beta. intros w xs Hxs. lia.
        - destruct (n <? 0)%Z; [exact I|].
          eapply hoare_weaken; [apply dec_known_h|]. cbv beta. intros w xs Hxs. lia. }
      destruct (read_var_i32 a_reader s) as [[n s1] | e | p | ]; cbn [bind] in H; try exact I.
      exact H.
    Qed.
  End Seq.

  (* ---------------------------------------------------------------- *)
  (* the AdtDeserializer: the regions waiting in `ad_inputs` are part of the input *)

  Definition adw (ad : @adt_de bytes) : N := sumN (map (@nlen N) (ad_inputs ad)).

  Definition hoare_ad {A} (P : N -> A -> Prop) (ad : @adt_de bytes)
      (m : outcome (A * @adt_de bytes * astate)) (s : astate) : Prop :=
    match m with
    | Ok (a, ad', s') =>
        a_stack s' = a_stack s /\ nlen (a_cur s') <= nlen (a_cur s) /\
        exists w, P w a /\ w + nlen (a_cur s') + adw ad' <= nlen (a_cur s) + adw ad
    | _ => True
    end.

  Lemma hoare_ad_bind {A B} (P : N -> A -> Prop) (Q : N -> B -> Prop) ad
      (m : outcome (A * @adt_de bytes * astate))
      (k : A * @adt_de bytes * astate -> outcome (B * @adt_de bytes * astate)) s :
    hoare_ad P ad m s ->
    (forall a ad1 s1 w, P w a -> hoare_ad (fun w' b => Q (w + w') b) ad1 (k (a, ad1, s1)) s1) ->
    hoare_ad Q ad (bind m k) s.
  Proof.
    intros Hm Hk. destruct m as [[[a ad1] s1] | e | p | ]; cbn [bind]; try exact I.
    destruct Hm as (Hst & Hc & w & Pw & Hw). specialize (Hk a ad1 s1 w Pw). unfold hoare_ad in Hk |- *.
    destruct (k (a, ad1, s1)) as [[[b ad2] s2] | e | p | ]; try exact I.
    destruct Hk as (Hst2 & Hc2 & w' & Qw & Hw'). split; [congruence|]. split; [lia|].
    exists (w + w'). split; [exact Qw | lia].
  Qed.

  Lemma hoare_ad_ok {A} (P : N -> A -> Prop) a ad s : P 0 a -> hoare_ad P ad (Ok (a, ad, s)) s.
  Proof.
    intros H. unfold hoare_ad. split; [reflexivity|]. split; [lia|]. exists 0. split; [exact H | lia].
  Qed.

  Lemma hoare_ad_weaken {A} (P Q : N -> A -> Prop) ad m s :
    hoare_ad P ad m s -> (forall w a, P w a -> Q w a) -> hoare_ad Q ad m s.
  Proof.
    intros H HPQ. destruct m as [[[a ad1] s1] | e | p | ]; try exact I.
    destruct H as (H1 & H2 & w & Pw & Hw). split; [exact H1|]. split; [exact H2|].
    exists w. split; [apply HPQ; exact Pw | exact Hw].
  Qed.

  (* the same computation started from an AdtDeserializer with the same regions *)
  Lemma hoare_ad_change {A} (P : N -> A -> Prop) ad ad1 m s :
    ad_inputs ad1 = ad_inputs ad -> hoare_ad P ad1 m s -> hoare_ad P ad m s.
  Proof.
    intros Hi H. destruct m as [[[a ad2] s2] | e | p | ]; try exact I.
    unfold hoare_ad, adw in *. rewrite Hi in H. exact H.
  Qed.

  Lemma in_chunk_h {A} (P : N -> A -> Prop) ad chunk (body : astate -> outcome (A * astate)) s :
    (forall s, hoare P (body s) s) -> hoare_ad P ad (in_chunk a_ops ad chunk body s) s.
  Proof.
    intros Hb. unfold in_chunk. destruct (ad_inputs ad) as [| i0 ir] eqn:Hi.
    - specialize (Hb s). destruct (body s) as [[a s1] | e | p | ]; cbn [bind]; try exact I.
      destruct Hb as (Hst & w & Pw & Hw). unfold hoare_ad.
      split; [exact Hst|]. split; [lia|]. exists w. split; [exact Pw | lia].
    - rewrite <- Hi.
      destruct (nth_error (ad_inputs ad) (N.to_nat chunk)) as [rg |] eqn:Hn; [| exact I].
      aops. cbn [bind].
      specialize (Hb (mkA rg (a_cur s :: a_stack s) (a_strs s))).
      destruct (body (mkA rg (a_cur s :: a_stack s) (a_strs s))) as [[a s2] | e | p | ];
        cbn [bind]; try exact I.
      destruct Hb as (Hst2 & w & Pw & Hw). cbn [a_stack a_cur] in Hst2, Hw.
      rewrite Hst2. cbn [bind]. unfold hoare_ad. cbn [a_stack a_cur].
      split; [reflexivity|]. split; [lia|]. exists w. split; [exact Pw|].
      unfold adw, ad_set_input. cbn [ad_inputs].
      pose proof (sum_set_nth (@nlen N) (ad_inputs ad) (N.to_nat chunk) rg (a_cur s2) Hn) as HS.
      match goal with |- _ + _ + ?X <= _ + ?Y =>
        match type of HS with ?X' + _ = ?Y' + _ => change X' with X in HS; change Y' with Y in HS end
      end.
      lia.
  Qed.

  Lemma ad_record_index_same (ad : @adt_de bytes) chunk fp ad1 :
    ad_record_index ad chunk = Ok (fp, ad1) -> ad_inputs ad1 = ad_inputs ad.
  Proof.
    unfold ad_record_index. destruct (nth_error _ _); [| discriminate].
    destruct (_ <? _)%Z; [discriminate|]. intros H. injection H as _ <-. reflexivity.
  Qed.

  (* ---------------------------------------------------------------- *)
  (* fields: what was consumed pays K per byte; D is what can come out of zero bytes *)
  Section Field.
    Variable steps : list step.
    Variable d : astate -> outcome (val * astate).
    Variable t : ty.
    Hypothesis Hd : forall s, hoare (SZ K t) (d s) s.

    Lemma read_field_h n dflt D ad s :
      1 <= D -> (forall dv, dflt = Some dv -> vsize dv <= D) ->
      hoare_ad (fun w v => vsize v <= K * w + D) ad (read_field a_ops steps d n dflt ad s) s.
    Proof.
      intros HD Hdf. unfold read_field.
      destruct (mem_name n (ad_removed ad)); [exact I|]. cbv zeta.
      destruct (ad_record_index ad _) as [[fp ad1] | e | p | ] eqn:Hri; cbn [bind]; try exact I.
      apply ad_record_index_same in Hri.
      eapply hoare_ad_change; [exact Hri|].
      destruct (ad_stored ad1 <? _).
      - destruct dflt as [dv |]; [| exact I]. apply hoare_ad_ok. specialize (Hdf dv eq_refl). lia.
      - apply in_chunk_h. intros s0. change (d_rd a_ops) with a_reader.
        destruct (mem_pos fp (ad_mo ad1)).
        + eapply hoare_bind; [apply r_u8_h|]. intros b s1 w1 Hw1. cbv beta iota in Hw1 |- *.
          destruct (b =? 0); [exact I|].
          eapply hoare_weaken; [apply Hd|]. cbv beta. intros w v Hv. apply SZ_le1 in Hv. lia.
        + eapply hoare_weaken; [apply Hd|]. cbv beta. intros w v Hv. apply SZ_le1 in Hv. lia.
    Qed.

    (* here `d` decodes the T of Option<T> *)
    Lemma read_optional_field_h n dflt D ad s :
      2 <= D -> (forall dv, dflt = Some dv -> vsize dv <= D) ->
      hoare_ad (fun w v => vsize v <= K * w + D) ad
               (read_optional_field a_ops steps d n dflt ad s) s.
    Proof.
      intros HD Hdf. unfold read_optional_field.
      destruct (mem_name n (ad_removed ad)).
      { apply hoare_ad_ok. unfold VNone. cbn [vsize fold_right]. lia. }
      cbv zeta.
      destruct (ad_record_index ad _) as [[fp ad1] | e | p | ] eqn:Hri; cbn [bind]; try exact I.
      apply ad_record_index_same in Hri.
      eapply hoare_ad_change; [exact Hri|].
      destruct (ad_stored ad1 <? match field_generation steps n with Some c => c | None => 0 end).
      - destruct dflt as [dv |]; [| exact I]. apply hoare_ad_ok. specialize (Hdf dv eq_refl). lia.
      - apply in_chunk_h. intros s0. change (d_rd a_ops) with a_reader.
        destruct (ad_stored ad1 <? _).
        + eapply hoare_bind; [apply Hd|]. intros x s1 w1 Hx. cbv beta iota in Hx |- *.
          apply hoare_ok. apply SZ_le1 in Hx. unfold VSome. cbn [vsize fold_right]. lia.
        + eapply hoare_bind; [apply r_u8_h|]. intros tag s1 w1 Hw1. cbv beta iota in Hw1 |- *.
          destruct (tag =? 0).
          { apply hoare_ok. unfold VNone. cbn [vsize fold_right]. lia. }
          destruct (tag =? 1); [| exact I].
          eapply hoare_bind; [apply Hd|]. intros x s2 w2 Hx. cbv beta iota in Hx |- *.
          apply hoare_ok. apply SZ_le1 in Hx. unfold VSome. cbn [vsize fold_right]. lia.
    Qed.
  End Field.

  Lemma read_fields_h (decf : ty -> astate -> outcome (val * astate)) steps : forall fs,
    (forall fl, In fl fs -> forall s, hoare (SZ K (field_dec_ty fl)) (decf (field_dec_ty fl) s) s) ->
    forall ad s,
      hoare_ad (fun w vs => vsum vs <= K * w + fields_const steps fs) ad
               (read_fields a_ops decf steps fs ad s) s.
  Proof.
    induction fs as [| f r IH]; intros Hdec ad s; cbn [read_fields].
    { apply hoare_ad_ok. rewrite vsum_nil. cbn [fields_const fold_right]. lia. }
    cbn [fields_const fold_right]. fold (fields_const steps r).
    eapply hoare_ad_bind with (P := fun w v => vsize v <= K * w + field_const steps f).
    - unfold field_const. destruct (f_transient f) as [dflt |].
      { apply hoare_ad_ok. lia. }
      cbv zeta.
      assert (Hdf : forall dv, field_default steps (f_name f) None = Some dv ->
                               vsize dv <= 2 + 0 + added_size steps).
      { intros dv Hdv. apply field_default_size in Hdv. destruct Hdv as [Hdv | Hdv]; [discriminate | lia]. }
      pose proof (Hdec f (or_introl eq_refl)) as Hf. unfold field_dec_ty in Hf.
      destruct (f_opt f).
      + destruct (f_ty f) as [ | t' | | | | | | | ]; try exact I.
        apply read_optional_field_h with (t := t'); [exact Hf | lia | exact Hdf].
      + apply read_field_h with (t := f_ty f); [exact Hf | lia | exact Hdf].
    - intros v ad1 s1 w1 Hv. cbv beta iota in Hv |- *.
      eapply hoare_ad_bind; [apply IH; intros fl Hin; apply Hdec; right; exact Hin|].
      intros vs ad2 s2 w2 Hvs. cbv beta iota in Hvs |- *.
      apply hoare_ad_ok. rewrite vsum_cons. lia.
  Qed.

  (* the evolution header *)
  Lemma dec_sstep_h s : hoare (fun _ _ => True) (dec_sstep a_ops s) s.
  Proof. unfold dec_sstep. hgo_w ltac:(first [hrd | apply dec_dedup_h]) ltac:(exact I). Qed.

  Lemma dec_ssteps_h : forall n s, hoare (fun _ _ => True) (dec_ssteps a_ops n s) s.
  Proof.
    induction n as [| n IH]; intros s; cbn [dec_ssteps]; [apply hoare_ok; exact I|].
    eapply hoare_bind; [apply dec_sstep_h|]. intros x s1 w1 _. cbv beta iota.
    eapply hoare_bind; [apply IH|]. intros xs s2 w2 _. cbv beta iota.
    apply hoare_ok. exact I.
  Qed.

  Lemma take_chunks_h : forall ss idx s,
    hoare (fun w r => sumN (map (@nlen N) (fst (fst r))) <= w) (take_chunks a_ops ss idx s) s.
  Proof.
    induction ss as [| x r IH]; intros idx s; cbn [take_chunks].
    - apply hoare_ok. cbn. lia.
    - destruct x.
      + eapply hoare_bind; [apply d_take_h|]. intros rg s1 w1 Hw1. cbv beta iota in Hw1 |- *.
        eapply hoare_bind; [apply IH|]. intros [[inputs mo] rem] s2 w2 Hw2. cbv beta iota in Hw2 |- *.
        apply hoare_ok. cbn [fst map sumN fold_right] in *. unfold sumN in Hw2. lia.
      + eapply hoare_bind; [apply IH|]. intros [[inputs mo] rem] s2 w2 Hw2. cbv beta iota in Hw2 |- *.
        apply hoare_ok. cbn [fst map sumN fold_right a_ops d_empty nlen] in *. unfold sumN in Hw2. lia.
      + eapply hoare_bind; [apply IH|]. intros [[inputs mo] rem] s2 w2 Hw2. cbv beta iota in Hw2 |- *.
        apply hoare_ok. cbn [fst map sumN fold_right a_ops d_empty nlen] in *. unfold sumN in Hw2. lia.
      + eapply hoare_bind; [apply IH|]. intros [[inputs mo] rem] s2 w2 Hw2. cbv beta iota in Hw2 |- *.
        apply hoare_ok. cbn [fst map sumN fold_right a_ops d_empty nlen] in *. unfold sumN in Hw2. lia.
  Qed.

  (* opening a record reads its version byte, and the regions are carved out of what it reads *)
  Lemma ad_open_h steps s : hoare (fun w ad => 1 + adw ad <= w) (ad_open a_ops steps s) s.
  Proof.
    unfold ad_open. change (d_rd a_ops) with a_reader.
    eapply hoare_bind; [apply r_u8_h|]. intros stored s1 w1 Hw1. cbv beta iota in Hw1 |- *.
    destruct (stored =? 0).
    - apply hoare_ok. unfold adw, ad_new_v0. cbn [ad_inputs map sumN fold_right]. lia.
    - unfold ad_new.
      eapply hoare_bind; [apply dec_ssteps_h|]. intros ss s2 w2 _. cbv beta iota.
      eapply hoare_bind; [apply take_chunks_h|]. intros [[inputs mo] rem] s3 w3 Hw3.
      cbv beta iota in Hw3 |- *. apply hoare_ok. unfold adw. cbn [ad_inputs fst] in *. lia.
  Qed.

  (* ---------------------------------------------------------------- *)
  (* records: the version byte pays for the node and for what the fields make out of nothing *)
  Lemma dec_record_h (decf : ty -> astate -> outcome (val * astate)) m :
    (forall fl, In fl (r_fields m) ->
                forall s, hoare (SZ K (field_dec_ty fl)) (decf (field_dec_ty fl) s) s) ->
    rmeta_const m <= K ->
    forall s, hoare (fun w v => vsize v <= K * w) (dec_record a_ops decf m s) s.
  Proof.
    intros Hdec HKm s. unfold dec_record.
    destruct (255 <=? version_of (r_steps m)); [exact I|].
    eapply hoare_bind; [apply ad_open_h|]. intros ad s1 w0 Hw0. cbv beta iota in Hw0 |- *.
    pose proof (read_fields_h decf (r_steps m) (r_fields m) Hdec ad s1) as H.
    destruct (read_fields a_ops decf (r_steps m) (r_fields m) ad s1) as [[[vs ad2] s2] | e | p | ];
      cbn [bind]; try exact I.
    destruct H as (Hst & Hc & w & Hw & Hle). unfold hoare. split; [exact Hst|].
    exists (nlen (a_cur s1) - nlen (a_cur s2)). split; [| lia].
    rewrite vsize_node. unfold rmeta_const in HKm.
    assert (Hm : K * (w + 1) <= K * (w0 + (nlen (a_cur s1) - nlen (a_cur s2))))
      by (apply N.mul_le_mono_l; lia).
    lia.
  Qed.

  (* ---------------------------------------------------------------- *)
  (* enums *)
  Lemma read_ctor_idx_h ad s : hoare_ad (fun _ _ => True) ad (read_ctor_idx a_ops ad s) s.
  Proof.
    unfold read_ctor_idx. destruct (ad_ctor ad) as [i |]; [apply hoare_ad_ok; exact I|].
    pose proof (in_chunk_h (fun _ (_ : N) => True) ad 0 (read_var_u32 (d_rd a_ops)) s) as H.
    assert (Hb : forall s, hoare (fun _ (_ : N) => True) (read_var_u32 (d_rd a_ops) s) s).
    { intros s'. eapply hoare_weaken; [apply read_var_u32_h|]. intros; exact I. }
    specialize (H Hb).
    destruct (in_chunk a_ops ad 0 (read_var_u32 (d_rd a_ops)) s) as [[[i ad1] s1] | e | p | ];
      cbn [bind]; try exact I.
    destruct H as (H1 & H2 & w & _ & Hw). unfold hoare_ad.
    split; [exact H1|]. split; [exact H2|]. exists w. split; [exact I|].
    unfold adw in *. cbn [ad_inputs]. exact Hw.
  Qed.

  Definition hoare_c (P : N -> val -> Prop) (ad : @adt_de bytes) (m : outcome (val * astate))
      (s : astate) : Prop :=
    match m with
    | Ok (v, s') =>
        a_stack s' = a_stack s /\ nlen (a_cur s') <= nlen (a_cur s) /\
        exists w, P w v /\ w + nlen (a_cur s') <= nlen (a_cur s) + adw ad
    | _ => True
    end.

  Lemma read_cases_h (decf : ty -> astate -> outcome (val * astate)) tyname : forall cs,
    (forall c, In c cs ->
       rmeta_const (v_rec (snd c)) <= K /\
       forall fl, In fl (r_fields (v_rec (snd c))) ->
                  forall s, hoare (SZ K (field_dec_ty fl)) (decf (field_dec_ty fl) s) s) ->
    forall idx ad s,
      hoare_c (fun w v => vsize v <= K * w) ad (read_cases a_ops decf tyname cs idx ad s) s.
  Proof.
    induction cs as [| [decl_idx var] cs IH]; intros Hcs idx ad s; cbn [read_cases].
    - destruct (read_ctor_idx a_ops ad s) as [[[i ad1] s1] | e | p | ]; cbn [bind]; exact I.
    - pose proof (read_ctor_idx_h ad s) as Hr.
      destruct (read_ctor_idx a_ops ad s) as [[[i ad1] s1] | e | p | ]; cbn [bind]; try exact I.
      destruct Hr as (Hst1 & Hc1 & w1 & _ & Hw1).
      destruct (i =? idx).
      + destruct (v_transient var); [exact I|].
        destruct (Hcs (decl_idx, var) (or_introl eq_refl)) as [HKm Hdec]. cbn [snd] in HKm, Hdec.
        pose proof (in_chunk_h (fun w v => vsize v <= K * w) ad1 0
                      (dec_record a_ops decf (v_rec var)) s1
                      (dec_record_h decf (v_rec var) Hdec HKm)) as H.
        destruct (in_chunk a_ops ad1 0 (dec_record a_ops decf (v_rec var)) s1)
          as [[[v ad2] s2] | e | p | ]; cbn [bind]; try exact I.
        destruct H as (Hst2 & Hc2 & w & Hv & Hw).
        destruct v as [n | z | bs | tag vs]; try exact I.
        unfold hoare_c. split; [congruence|]. split; [lia|]. exists w.
        split; [rewrite vsize_node in Hv |- *; exact Hv | lia].
      + specialize (IH (fun c Hc => Hcs c (or_intror Hc)) (idx + 1) ad1 s1).
        unfold hoare_c in IH |- *.
        destruct (read_cases a_ops decf tyname cs (idx + 1) ad1 s1) as [[v s2] | e | p | ]; try exact I.
        destruct IH as (Hst2 & Hc2 & w & Hv & Hw).
        split; [congruence|]. split; [lia|]. exists w. split; [exact Hv | lia].
  Qed.

  Lemma dec_enum_h (decf : ty -> astate -> outcome (val * astate)) tyname m :
    (forall v, In v (e_variants m) ->
       rmeta_const (v_rec v) <= K /\
       forall fl, In fl (r_fields (v_rec v)) ->
                  forall s, hoare (SZ K (field_dec_ty fl)) (decf (field_dec_ty fl) s) s) ->
    forall s, hoare (fun w v => vsize v <= K * w) (dec_enum a_ops decf tyname m s) s.
  Proof.
    intros Hv s. unfold dec_enum.
    eapply hoare_bind; [apply ad_open_h|]. intros ad s1 w0 Hw0. cbv beta iota in Hw0 |- *.
    pose proof (read_cases_h decf tyname (cases_of m)
                  (fun c Hc => Hv (snd c) (cases_of_In m c Hc)) 0 ad s1) as H.
    unfold hoare_c in H. unfold hoare.
    destruct (read_cases a_ops decf tyname (cases_of m) 0 ad s1) as [[v s2] | e | p | ]; try exact I.
    destruct H as (Hst & Hc & w & Hsz & Hw). split; [exact Hst|].
    exists (nlen (a_cur s1) - nlen (a_cur s2)). split; [| lia].
    assert (Hm : K * w <= K * (w0 + (nlen (a_cur s1) - nlen (a_cur s2))))
      by (apply N.mul_le_mono_l; lia).
    lia.
  Qed.
End Size.

(* ================================================================== *)
(*                          4. the main lemma                          *)
(* ================================================================== *)

Section Main.
  Variable K : N.
  Hypothesis HK : 3 <= K.
  Variable E : env.
  Hypothesis HE_ty : forall t, In t (env_field_tys E) -> ty_const t <= K.
  Hypothesis HE_decl : forall d, In d E -> decl_const d <= K.
  Hypothesis HE_nzw : nzw_env E = true.
  Hypothesis HE_nd : no_dedup_env E = true.

  Ltac fin_lin :=
    cbv beta; unfold VUnit, VNone, VSome;
    first [ apply lin; [exact HK | cbn [vsize fold_right] in *; lia]
          | cbn [vsize fold_right] in *; lia ].

  Lemma dec_sz : forall f t s,
    nzw_ty t = true -> no_dedup t = true -> ty_const t <= K ->
    hoare (SZ K t) (dec a_ops f E t s) s.
  Proof.
    induction f as [| f IH]; intros t s Hz Hn Hc; cbn [dec]; [exact I|].
    (* the field decoders of a declaration *)
    assert (Hfld : forall fl, In (f_ty fl) (env_field_tys E) ->
                   forall s1, hoare (SZ K (field_dec_ty fl)) (dec a_ops f E (field_dec_ty fl) s1) s1).
    { intros fl Hin s1. apply IH.
      - apply field_dec_ty_nzw. unfold nzw_env in HE_nzw. rewrite forallb_forall in HE_nzw.
        apply HE_nzw. exact Hin.
      - apply field_dec_ty_no_dedup. unfold no_dedup_env in HE_nd. rewrite forallb_forall in HE_nd.
        apply HE_nd. exact Hin.
      - pose proof (field_dec_ty_const fl). specialize (HE_ty _ Hin). lia. }
    destruct t as [p | t' | r e | ts | k e | k kt vt | w t' | | n].
    - (* TPrim *) apply dec_prim_h; [exact HK | exact Hn].
    - (* TOption *) cbn [nzw_ty no_dedup ty_const] in Hz, Hn, Hc. change (d_rd a_ops) with a_reader.
      unfold SZ at 1. cbn [zero_width].
      eapply hoare_bind; [apply r_u8_h|]. intros tag s1 w1 ->. cbv beta iota.
      destruct (tag =? 0); [apply hoare_ok; fin_lin|]. destruct (tag =? 1); [| exact I].
      eapply hoare_bind; [apply IH; assumption|]. intros x s2 w2 Hx. cbv beta iota in Hx |- *.
      apply hoare_ok. apply SZ_le1 in Hx. unfold VSome. cbn [vsize fold_right]. lia.
    - (* TResult *) cbn [nzw_ty no_dedup ty_const] in Hz, Hn, Hc. change (d_rd a_ops) with a_reader.
      apply andb_true_iff in Hz. destruct Hz as [Hzr Hze].
      apply andb_true_iff in Hn. destruct Hn as [Hnr Hne].
      unfold SZ at 1. cbn [zero_width].
      eapply hoare_bind; [apply r_u8_h|]. intros tag s1 w1 ->. cbv beta iota.
      destruct (tag =? 0).
      { eapply hoare_bind; [apply IH; [exact Hze | exact Hne | lia]|].
        intros x s2 w2 Hx. cbv beta iota in Hx |- *.
        apply hoare_ok. apply SZ_le1 in Hx. cbn [vsize fold_right]. lia. }
      destruct (tag =? 1); [| exact I].
      eapply hoare_bind; [apply IH; [exact Hzr | exact Hnr | lia]|].
      intros x s2 w2 Hx. cbv beta iota in Hx |- *.
      apply hoare_ok. apply SZ_le1 in Hx. cbn [vsize fold_right]. lia.
    - (* TTuple *) cbn [nzw_ty no_dedup ty_const] in Hz, Hn, Hc.
      unfold SZ at 1. cbn [zero_width].
      eapply hoare_weaken; [apply (dec_record_h K HK) | cbv beta; intros w v Hv; lia].
      + intros fl Hin s1. unfold tuple_meta in Hin. cbn [r_fields] in Hin.
        apply tuple_fields_In in Hin. destruct Hin as [Hopt Hin].
        unfold field_dec_ty. rewrite Hopt. apply IH.
        * rewrite forallb_forall in Hz. apply Hz. exact Hin.
        * rewrite forallb_forall in Hn. apply Hn. exact Hin.
        * pose proof (fold_max_In ty_const 3 ts _ Hin). lia.
      + rewrite rmeta_const_tuple. lia.
    - (* TSeq *) cbn [nzw_ty no_dedup ty_const] in Hz, Hn, Hc.
      apply andb_true_iff in Hz. destruct Hz as [Hzw Hz]. apply negb_true_iff in Hzw.
      unfold SZ at 1. cbn [zero_width].
      destruct (byte_path k e).
      + hgo_w hrd fin_lin.
      + eapply hoare_bind; [apply (dec_seq_items_h K HK)|].
        * intros s1. eapply hoare_weaken; [apply IH; assumption|].
          cbv beta. intros w v Hv. apply (SZ_nz K e); assumption.
        * intros items s1 w1 Hit. cbv beta iota in Hit |- *.
          destruct (collect k items) as [v | er | p | ] eqn:Hcol; cbn [bind]; try exact I.
          apply hoare_ok. apply collect_sz in Hcol. lia.
    - (* TMap *) cbn [nzw_ty no_dedup ty_const] in Hz, Hn, Hc.
      apply andb_true_iff in Hz. destruct Hz as [Hzk Hzv].
      apply andb_true_iff in Hn. destruct Hn as [Hnk Hnv].
      unfold SZ at 1. cbn [zero_width].
      eapply hoare_bind; [apply (dec_seq_items_h K HK)|].
      + intros s1. eapply hoare_weaken; [apply IH|].
        * cbn [nzw_ty forallb]. rewrite Hzk, Hzv. reflexivity.
        * cbn [no_dedup forallb]. rewrite Hnk, Hnv. reflexivity.
        * cbn [ty_const fold_right nlen]. lia.
        * cbv beta. intros w v Hv. apply (SZ_nz K (TTuple [kt; vt])); [reflexivity | exact Hv].
      + intros items s1 w1 Hit. cbv beta iota in Hit |- *.
        apply hoare_ok. rewrite vsize_node, vsum_map_pairs.
        pose proof (map_collect_psz items []) as Hm. cbn [psz fold_right] in Hm. fold psz in Hm. lia.
    - (* TWrap *) change (SZ K (TWrap w t')) with (SZ K t'). apply IH; assumption.
    - (* TPhantom *) apply hoare_ok. unfold SZ, VUnit. cbn [zero_width vsize fold_right]. lia.
    - (* TNamed *) unfold SZ at 1. cbn [zero_width].
      destruct (lookup_decl E n) as [d |] eqn:Hd; [| exact I].
      unfold lookup_decl in Hd. apply nth_error_In in Hd.
      pose proof (HE_decl d Hd) as HKd. unfold decl_const in HKd.
      destruct (d_body d) as [m | m] eqn:Hbody.
      + eapply hoare_weaken; [apply (dec_record_h K HK) | cbv beta; intros w v Hv; lia].
        * intros fl Hin s1. apply Hfld. eapply record_field_in_env; eassumption.
        * exact HKd.
      + eapply hoare_weaken; [apply (dec_enum_h K HK) | cbv beta; intros w v Hv; lia].
        intros v Hv. split.
        * pose proof (fold_max_In (fun v => rmeta_const (v_rec v)) 0 _ v Hv). cbv beta in *. lia.
        * intros fl Hin s1. apply Hfld. eapply enum_field_in_env; eassumption.
  Qed.
End Main.

(* ================================================================== *)
(*                          5. the theorems                            *)
(* ================================================================== *)

Lemma size_const_ge E t : 3 <= size_const E t.
Proof. unfold size_const. pose proof (ty_const_ge t). lia. Qed.

Lemma size_const_env_ty E t t' : In t' (env_field_tys E) -> ty_const t' <= size_const E t.
Proof.
  intros H. unfold size_const, env_const.
  pose proof (fold_max_In ty_const 0 (env_field_tys E) t' H). lia.
Qed.

Lemma size_const_env_decl E t d : In d E -> decl_const d <= size_const E t.
Proof.
  intros H. unfold size_const, env_const.
  pose proof (fold_max_In decl_const 0 E d H). lia.
Qed.

(* the general form: any K that dominates the constants of E and t will do *)
Theorem decA_size_hoare : forall f E t s v s',
  nzw_env E = true -> nzw_ty t = true -> no_dedup_env E = true -> no_dedup t = true ->
  dec a_ops f E t s = Ok (v, s') ->
  a_stack s' = a_stack s /\ nlen (a_cur s') <= nlen (a_cur s) /\
  vsize v <= size_const E t * (nlen (a_cur s) - nlen (a_cur s')) + (if zero_width t then 1 else 0).
Proof.
  intros f E t s v s' HzE Hzt HnE Hnt Hd.
  pose proof (dec_sz (size_const E t) (size_const_ge E t) E
                (fun t' => size_const_env_ty E t t') (fun d => size_const_env_decl E t d)
                HzE HnE f t s Hzt Hnt) as H.
  assert (Hc : ty_const t <= size_const E t) by (unfold size_const; lia).
  specialize (H Hc). rewrite Hd in H. destruct H as (Hst & w & Hsz & Hw). unfold SZ in Hsz.
  split; [exact Hst|]. split; [lia|].
  assert (Hm : size_const E t * w <= size_const E t * (nlen (a_cur s) - nlen (a_cur s')))
    by (apply N.mul_le_mono_l; lia).
  lia.
Qed.

(* THE LINEAR BOUND *)
Theorem decA_size_linear : forall f E t s v s',
  nzw_env E = true -> nzw_ty t = true -> no_dedup_env E = true -> no_dedup t = true ->
  dec a_ops f E t s = Ok (v, s') ->
  vsize v <= size_const E t * (1 + (nlen (a_cur s) - nlen (a_cur s'))).
Proof.
  intros f E t s v s' HzE Hzt HnE Hnt Hd.
  destruct (decA_size_hoare f E t s v s' HzE Hzt HnE Hnt Hd) as (_ & _ & H).
  pose proof (size_const_ge E t). destruct (zero_width t); lia.
Qed.

(* a type that is not zero-width: no additive constant *)
Corollary decA_size_linear_nzw : forall f E t s v s',
  nzw_env E = true -> nzw_ty t = true -> no_dedup_env E = true -> no_dedup t = true ->
  zero_width t = false ->
  dec a_ops f E t s = Ok (v, s') ->
  vsize v <= size_const E t * (nlen (a_cur s) - nlen (a_cur s')).
Proof.
  intros f E t s v s' HzE Hzt HnE Hnt Hzw Hd.
  destruct (decA_size_hoare f E t s v s' HzE Hzt HnE Hnt Hd) as (_ & _ & H).
  rewrite Hzw in H. lia.
Qed.

(* the same with `length` in nat *)
Corollary decA_size_linear_nat : forall f E t s v s',
  nzw_env E = true -> nzw_ty t = true -> no_dedup_env E = true -> no_dedup t = true ->
  dec a_ops f E t s = Ok (v, s') ->
  (length (a_cur s') <= length (a_cur s))%nat /\
  vsize v <= size_const E t * N.of_nat (1 + (length (a_cur s) - length (a_cur s'))).
Proof.
  intros f E t s v s' HzE Hzt HnE Hnt Hd.
  pose proof (decA_size_linear f E t s v s' HzE Hzt HnE Hnt Hd) as H.
  destruct (decA_size_hoare f E t s v s' HzE Hzt HnE Hnt Hd) as (_ & Hl & _).
  rewrite !nlen_length in H, Hl. split; [lia|].
  replace (N.of_nat (1 + (length (a_cur s) - length (a_cur s'))))
    with (1 + (N.of_nat (length (a_cur s)) - N.of_nat (length (a_cur s')))) by lia.
  exact H.
Qed.

(* declaration-free types *)
Corollary decA_size_linear_builtin : forall f t s v s',
  nzw_ty t = true -> no_dedup t = true ->
  dec a_ops f [] t s = Ok (v, s') ->
  vsize v <= size_const [] t * (1 + (nlen (a_cur s) - nlen (a_cur s'))).
Proof. intros f t s v s' Hz Hn Hd. apply (decA_size_linear f [] t s v s'); auto. Qed.

(* the entry point: the whole value against the whole input *)
Corollary decodeA_size_linear : forall f E t bs st v rest st',
  nzw_env E = true -> nzw_ty t = true -> no_dedup_env E = true -> no_dedup t = true ->
  decodeA f E t bs st = Ok (v, rest, st') ->
  vsize v <= size_const E t * (1 + (nlen bs - nlen rest)) /\
  vsize v <= size_const E t * (1 + nlen bs).
Proof.
  intros f E t bs st v rest st' HzE Hzt HnE Hnt Hd. unfold decodeA in Hd.
  destruct (dec a_ops f E t (mkA bs [] st)) as [[v0 s0] | e | p | ] eqn:Hdec; cbn [bind] in Hd;
    try discriminate Hd.
  injection Hd as <- <- <-.
  pose proof (decA_size_linear f E t _ _ _ HzE Hzt HnE Hnt Hdec) as H. cbn [a_cur] in H.
  split; [exact H|].
  assert (Hm : size_const E t * (1 + (nlen bs - nlen (a_cur s0))) <= size_const E t * (1 + nlen bs))
    by (apply N.mul_le_mono_l; lia).
  lia.
Qed.

(* ================================================================== *)
(*                          6. non-vacuity                             *)
(* ================================================================== *)

(* the recursive declaration  struct L { n: Option<Box<L>>, i: Vec<(u8,)> }  of
   TermProofs.prompt_nonvacuous / C05_prompt_example, and the 12-byte encoding of
   L { n: Some(L { n: None, i: [(7,)] }), i: [(9,), (8,)] } *)
Example size_linear_nonvacuous :
  let E := [mkD [76] (DRecord (mkR [mkField [110] (TOption (TWrap KBox (TNamed 0))) true None;
                                    mkField [105] (TSeq KVec (TTuple [TPrim PU8])) false None] []))] in
  let input := [0; 1; 0; 0; 2; 0; 7; 4; 0; 9; 0; 8] in
  nzw_env E = true /\ nzw_ty (TNamed 0) = true /\
  no_dedup_env E = true /\ no_dedup (TNamed 0) = true /\
  size_const E (TNamed 0) = 5 /\
  match dec a_ops 53 E (TNamed 0) (mkA input [] []) with
  | Ok (v, s') => a_cur s' = [] /\ vsize v = 12 /\
                  vsize v <= size_const E (TNamed 0) * (1 + (nlen input - nlen (a_cur s')))
  | _ => False
  end.
Proof. vm_compute. repeat split; try reflexivity; discriminate. Qed.

(* an environment with evolution steps: FieldAdded defaults and a #[transient] default enter
   the constant *)
Example size_const_with_defaults :
  let E := [mkD [82] (DRecord (mkR [mkField [97] (TPrim PU8) false None;
                                    mkField [98] (TPrim PString) false None;
                                    mkField [99] (TPrim PU8) false (Some (VB [1; 2; 3; 4; 5]))]
                                   [SAdded [98] (VB [120; 121; 122])]))] in
  nzw_env E = true /\ no_dedup_env E = true /\
  size_const E (TNamed 0) = 25 /\
  (* version 0 input: only `a` is on the wire; `b` and `c` come from the defaults *)
  match dec a_ops 10 E (TNamed 0) (mkA [0; 7] [] []) with
  | Ok (v, s') => v = VNode 0 [VN 7; VB [120; 121; 122]; VB [1; 2; 3; 4; 5]] /\ vsize v = 12 /\
                  vsize v <= size_const E (TNamed 0) * (1 + (2 - nlen (a_cur s')))
  | _ => False
  end.
Proof. vm_compute. repeat split; try reflexivity; discriminate. Qed.

Print Assumptions size_not_linear_with_dedup.
Print Assumptions size_not_linear_zero_width.
Print Assumptions decA_size_hoare.
Print Assumptions decA_size_linear.
Print Assumptions decA_size_linear_nzw.
Print Assumptions decA_size_linear_nat.
Print Assumptions decA_size_linear_builtin.
Print Assumptions decodeA_size_linear.
Print Assumptions size_linear_nonvacuous.
Print Assumptions size_const_with_defaults.
