(* GraphProofs.v — C10: reference tracking preserves object-graph shape, sharing and cycles.
   All six theorems of the brief are proved as stated (no Admitted, no axioms):
     C10_encode_terminates, C10_table, C10_roundtrip, C10_iso, C10_invalid_ref, C10_known_offer.
   Additional explicit-fuel form of the round trip: C10_roundtrip_fuel.

   Method.  Successful encoder runs are reflected into a fuel-indexed big-step relation
   (encR / encsR, lemma enc_edge_rel); every property of successful runs is then a mutual
   induction on that relation (enc_mutind):
     - encR_struct : the table only grows (tb' = tb ++ ext), the offered object is in the final
                     table, and every object registered by this run has all its edges in the
                     final table (closed_in);
     - encR_inv    : NoDup and "addresses are in the heap" are preserved;
     - encR_reach  : only reachable objects are registered;
     - dec_sim     : the decoder, started on a heap h as long as the table, returns the
                     table position of the offered object, leaves the suffix, and ends with
                     h ++ (entries of the objects registered by this run).
   Note on fuel: the decoder spends one unit of fuel per edge-list element (dec_edges counts
   down k), the encoder does not (enc_edges is structural), so the decoder needs
   f + (max out-degree) units where the encoder needed f. *)
From Coq Require Import NArith ZArith List Lia Bool Arith.
From Coq Require Import ZifyBool ZifyN ZifyNat.
From Desert Require Import Outcome IO IOProofs VarintProofs Graph.
Import ListNotations.
Open Scope N_scope.

(* ------------------------------------------------------------------ *)
(* ref_find / ref_id / ref_pos                                          *)

Lemma ref_find_None a tb i : ref_find a tb i = None <-> ~ In a tb.
Proof.
  revert i; induction tb as [|x r IH]; intros i; cbn [ref_find In].
  - tauto.
  - destruct (N.eqb_spec x a) as [->|ne].
    + split; [discriminate | intros H; exfalso; apply H; auto].
    + rewrite IH. split; intros H; [intros [E|I]; [congruence|auto] | auto].
Qed.

Lemma ref_find_Some a tb i id : ref_find a tb i = Some id ->
  i <= id /\ id < i + nlen tb /\ nth_error tb (N.to_nat (id - i)) = Some a.
Proof.
  revert i; induction tb as [|x r IH]; intros i; cbn [ref_find nlen].
  - discriminate.
  - destruct (N.eqb_spec x a) as [->|ne].
    + intros [= <-]. rewrite N.sub_diag. cbn [N.to_nat nth_error]. repeat split; lia.
    + intros H. apply IH in H. destruct H as (H1 & H2 & H3). split; [lia|split;[lia|]].
      replace (N.to_nat (id - i)) with (S (N.to_nat (id - (i+1)))) by lia. exact H3.
Qed.

Lemma ref_find_In a tb i id : ref_find a tb i = Some id -> In a tb.
Proof. intros H. apply ref_find_Some in H. eapply nth_error_In, H. Qed.

Lemma ref_find_app_l a tb ext i id :
  ref_find a tb i = Some id -> ref_find a (tb ++ ext) i = Some id.
Proof.
  revert i; induction tb as [|x r IH]; intros i; cbn [ref_find app].
  - discriminate.
  - destruct (x =? a); auto.
Qed.

Lemma ref_find_app_new a tb ext i :
  ref_find a tb i = None -> ref_find a (tb ++ a :: ext) i = Some (i + nlen tb).
Proof.
  revert i; induction tb as [|x r IH]; intros i; cbn [ref_find app nlen].
  - intros _. rewrite N.eqb_refl. f_equal. lia.
  - destruct (x =? a); [discriminate|]. intros H. rewrite IH by exact H. f_equal. lia.
Qed.

Lemma ref_pos_app a tb ext : In a tb -> ref_pos (tb ++ ext) a = ref_pos tb a.
Proof.
  intros H. unfold ref_pos, ref_id.
  destruct (ref_find a tb 1) as [id|] eqn:E.
  - rewrite (ref_find_app_l _ _ ext _ _ E). reflexivity.
  - apply ref_find_None in E. contradiction.
Qed.

Lemma ref_pos_new a tb ext : ref_id a tb = None -> ref_pos (tb ++ a :: ext) a = nlen tb.
Proof.
  intros H. unfold ref_pos, ref_id. rewrite ref_find_app_new by exact H. lia.
Qed.

Lemma ref_pos_nth a tb : In a tb -> nth_error tb (N.to_nat (ref_pos tb a)) = Some a.
Proof.
  intros H. unfold ref_pos, ref_id.
  destruct (ref_find a tb 1) as [id|] eqn:E.
  - apply ref_find_Some in E. tauto.
  - apply ref_find_None in E. contradiction.
Qed.

Lemma ref_pos_hd a tb : ref_pos (a :: tb) a = 0.
Proof. unfold ref_pos, ref_id. cbn [ref_find]. rewrite N.eqb_refl. reflexivity. Qed.

(* ------------------------------------------------------------------ *)
(* renumber, entries                                                    *)

Definition entry (g : graph) (tb : reftab) (a : N) : node :=
  match get_node g a with Some (l, es) => (l, map (ref_pos tb) es) | None => (0, []) end.

Lemma renumber_entry g tb : renumber g tb = map (entry g tb) tb.
Proof. reflexivity. Qed.

(* every object of ext has all its out-edges in tb *)
Definition closed_in (g : graph) (ext tb : reftab) : Prop :=
  forall x l es e, In x ext -> get_node g x = Some (l, es) -> In e es -> In e tb.

Lemma entry_ext g tb ext2 ext :
  closed_in g ext tb -> map (entry g (tb ++ ext2)) ext = map (entry g tb) ext.
Proof.
  intros C. apply map_ext_in. intros x Hx. unfold entry.
  destruct (get_node g x) as [[l es]|] eqn:E; auto. f_equal.
  apply map_ext_in. intros e He. apply ref_pos_app. eapply C; eauto.
Qed.

Lemma closed_in_mono g ext tb ext2 : closed_in g ext tb -> closed_in g ext (tb ++ ext2).
Proof. intros C x l es e Hx G He. apply in_or_app. left. eapply C; eauto. Qed.

(* ------------------------------------------------------------------ *)
(* list helpers                                                         *)

Lemma NoDup_snoc {A} (l : list A) a : NoDup l -> ~ In a l -> NoDup (l ++ [a]).
Proof.
  induction 1 as [|x l Hx Hl IH]; cbn [app]; intros Ha.
  - constructor; [intros []|constructor].
  - constructor.
    + rewrite in_app_iff. cbn [In]. intros [I|[E|[]]]; [auto|]. subst. apply Ha. left; auto.
    + apply IH. intros I. apply Ha. right; auto.
Qed.

Lemma tb_len_le (g : graph) (tb : reftab) :
  NoDup tb -> Forall (fun x => x < nlen g) tb -> (length tb <= length g)%nat.
Proof.
  intros ND R.
  assert (I : incl tb (map N.of_nat (seq 0 (length g)))).
  { intros x Hx. rewrite Forall_forall in R. specialize (R x Hx).
    rewrite nlen_length in R. apply in_map_iff. exists (N.to_nat x). split; [lia|].
    apply in_seq. lia. }
  apply NoDup_incl_length in I; [|exact ND]. rewrite map_length, seq_length in I. exact I.
Qed.

Lemma set_node_app (h t : graph) x y : set_node (h ++ x :: t) (length h) y = h ++ y :: t.
Proof. induction h as [|z h IH]; cbn [app length set_node]; [reflexivity|]. rewrite IH. reflexivity. Qed.

Lemma wf_get_node g a l es : wf_graph g -> get_node g a = Some (l, es) ->
  l < 2^32 /\ nlen es < 2^32 /\ Forall (fun e => e < nlen g) es.
Proof.
  intros [_ WF] G. unfold get_node in G. apply nth_error_In in G.
  rewrite Forall_forall in WF. apply (WF _ G).
Qed.

Lemma get_node_lt g a : a < nlen g -> exists l es, get_node g a = Some (l, es).
Proof.
  intros H. unfold get_node. destruct (nth_error g (N.to_nat a)) as [[l es]|] eqn:E; eauto.
  apply nth_error_None in E. rewrite nlen_length in H. lia.
Qed.

(* ------------------------------------------------------------------ *)
(* big-step relation for successful encoder runs, indexed by fuel       *)

Inductive encR (g : graph) : nat -> N -> reftab -> bytes -> reftab -> Prop :=
| encR_known f a tb id :
    ref_id a tb = Some id -> encR g (S f) a tb (write_var_u32 id) tb
| encR_new f a tb l es b tb' :
    ref_id a tb = None -> get_node g a = Some (l, es) ->
    encsR g f es (tb ++ [a]) b tb' ->
    encR g (S f) a tb
         (write_var_u32 0 ++ write_var_u32 l ++ write_var_u32 (nlen es) ++ b) tb'
with encsR (g : graph) : nat -> list N -> reftab -> bytes -> reftab -> Prop :=
| encsR_nil f tb : encsR g f [] tb [] tb
| encsR_cons f e r tb b1 tb1 b2 tb2 :
    encR g f e tb b1 tb1 -> encsR g f r tb1 b2 tb2 ->
    encsR g f (e :: r) tb (b1 ++ b2) tb2.

Scheme encR_mind := Minimality for encR Sort Prop
  with encsR_mind := Minimality for encsR Sort Prop.
Combined Scheme enc_mutind from encR_mind, encsR_mind.

Lemma enc_edges_rel g f
  (IH : forall a tb b tb', enc_edge f g a tb = Ok (b, tb') -> encR g f a tb b tb') :
  forall es tb b tb', enc_edges (enc_edge f g) es tb = Ok (b, tb') -> encsR g f es tb b tb'.
Proof.
  induction es as [|e r IHr]; intros tb b tb' H; cbn [enc_edges] in H.
  - injection H as <- <-. constructor.
  - apply bind_ok in H. destruct H as ([b1 tb1] & H1 & H). cbv beta iota in H.
    apply bind_ok in H. destruct H as ([b2 tb2] & H2 & H). cbv beta iota in H.
    injection H as <- <-. econstructor; eauto.
Qed.

Lemma enc_edge_rel g : forall f a tb b tb',
  enc_edge f g a tb = Ok (b, tb') -> encR g f a tb b tb'.
Proof.
  induction f as [|f IH]; intros a tb b tb' H; cbn [enc_edge] in H.
  - discriminate.
  - destruct (ref_id a tb) as [id|] eqn:E.
    + injection H as <- <-. constructor; auto.
    + destruct (get_node g a) as [[l es]|] eqn:G; [|discriminate].
      apply bind_ok in H. destruct H as ([b1 tb1] & H1 & H). cbv beta iota in H.
      injection H as <- <-. econstructor; eauto. apply enc_edges_rel; auto.
Qed.

(* ------------------------------------------------------------------ *)
(* structure of a successful run                                        *)

Lemma encR_struct g :
  (forall f a tb b tb', encR g f a tb b tb' ->
     exists ext, tb' = tb ++ ext /\ In a tb' /\ closed_in g ext tb') /\
  (forall f es tb b tb', encsR g f es tb b tb' ->
     exists ext, tb' = tb ++ ext /\ (forall e, In e es -> In e tb') /\ closed_in g ext tb').
Proof.
  apply enc_mutind.
  - intros f a tb id E. exists []. rewrite app_nil_r. split; [reflexivity|]. split.
    + eapply ref_find_In, E.
    + intros x l es e [].
  - intros f a tb l es b tb' E G _ (ext1 & -> & Hes & C).
    exists (a :: ext1). rewrite <- app_assoc. cbn [app]. split; [reflexivity|]. split.
    + apply in_or_app. right. left. reflexivity.
    + rewrite <- app_assoc in Hes, C. cbn [app] in Hes, C.
      intros x l' es' e [<-|Hx] G' He.
      * rewrite G in G'. injection G' as <- <-. auto.
      * eapply C; eauto.
  - intros f tb. exists []. rewrite app_nil_r. split; [reflexivity|]. split.
    + intros e [].
    + intros x l es e [].
  - intros f e r tb b1 tb1 b2 tb2 _ (ext1 & -> & He & C1) _ (ext2 & -> & Hr & C2).
    exists (ext1 ++ ext2). rewrite app_assoc. split; [reflexivity|]. split.
    + intros x [<-|Hx]; [apply in_or_app; left; exact He | auto].
    + intros x l es y Hx G Hy. apply in_app_or in Hx. destruct Hx as [Hx|Hx].
      * apply in_or_app. left. eapply C1; eauto.
      * eapply C2; eauto.
Qed.

Definition in_heap (g : graph) (tb : list N) : Prop := Forall (fun x => x < nlen g) tb.

Lemma encR_inv g (WF : wf_graph g) :
  (forall f a tb b tb', encR g f a tb b tb' ->
     NoDup tb -> in_heap g tb -> a < nlen g -> NoDup tb' /\ in_heap g tb') /\
  (forall f es tb b tb', encsR g f es tb b tb' ->
     NoDup tb -> in_heap g tb -> in_heap g es -> NoDup tb' /\ in_heap g tb').
Proof.
  apply enc_mutind.
  - auto.
  - intros f a tb l es b tb' E G _ IH ND R Ha.
    apply IH.
    + apply NoDup_snoc; [exact ND|]. apply ref_find_None in E. exact E.
    + apply Forall_app. split; [exact R|]. constructor; [exact Ha|constructor].
    + eapply wf_get_node; eauto.
  - auto.
  - intros f e r tb b1 tb1 b2 tb2 _ IH1 _ IH2 ND R Hes.
    inversion Hes as [|? ? He Hr]; subst.
    destruct (IH1 ND R He) as [ND1 R1]. apply IH2; auto.
Qed.

Lemma encR_reach g root :
  (forall f a tb b tb', encR g f a tb b tb' ->
     reachable g root a -> (forall x, In x tb -> reachable g root x) ->
     forall x, In x tb' -> reachable g root x) /\
  (forall f es tb b tb', encsR g f es tb b tb' ->
     (forall e, In e es -> reachable g root e) -> (forall x, In x tb -> reachable g root x) ->
     forall x, In x tb' -> reachable g root x).
Proof.
  apply enc_mutind.
  - auto.
  - intros f a tb l es b tb' E G _ IH Ra Rtb. apply IH.
    + intros e He. eapply reach_step; eauto.
    + intros x Hx. apply in_app_or in Hx. destruct Hx as [Hx|[<-|[]]]; auto.
  - auto.
  - intros f e r tb b1 tb1 b2 tb2 _ IH1 _ IH2 Res Rtb.
    apply IH2.
    + intros y Hy. apply Res. right; exact Hy.
    + apply IH1; [apply Res; left; reflexivity | exact Rtb].
Qed.

(* ------------------------------------------------------------------ *)
(* decoder: unfolding lemmas                                            *)

Lemma dec_edge_new fl l cnt inp h : l < 2^32 -> cnt < 2^32 ->
  dec_edge (S fl) (write_var_u32 0 ++ write_var_u32 l ++ write_var_u32 cnt ++ inp) h =
  bind (dec_edges (dec_edge fl) fl cnt inp (h ++ [(0, [])]))
       (fun x => let '(es, inp, h') := x in
                 Ok (nlen h, inp, set_node h' (N.to_nat (nlen h)) (l, es))).
Proof.
  intros Hl Hc. cbn [dec_edge].
  rewrite var_u32_roundtrip_list by lia. cbn [bind]. rewrite N.eqb_refl.
  rewrite var_u32_roundtrip_list by exact Hl. cbn [bind].
  rewrite var_u32_roundtrip_list by exact Hc. cbn [bind]. reflexivity.
Qed.

Lemma dec_edge_ref fl r inp h : 0 < r -> r < 2^32 ->
  dec_edge (S fl) (write_var_u32 r ++ inp) h =
  if r <=? nlen h then Ok (r - 1, inp, h) else Err (EInvalidRefId r).
Proof.
  intros H0 Hr. cbn [dec_edge].
  rewrite var_u32_roundtrip_list by exact Hr. cbn [bind].
  destruct (N.eqb_spec r 0) as [->|_]; [lia|]. reflexivity.
Qed.

Lemma dec_edges_nil de k inp h : dec_edges de k 0 inp h = Ok ([], inp, h).
Proof. destruct k; reflexivity. Qed.

Lemma dec_edges_cons de k n inp h : 0 < n ->
  dec_edges de (S k) n inp h =
  bind (de inp h) (fun x => let '(e, inp, h) := x in
  bind (dec_edges de k (n - 1) inp h) (fun y => let '(es, inp, h) := y in
  Ok (e :: es, inp, h))).
Proof.
  intros H. cbn [dec_edges]. destruct (N.eqb_spec n 0) as [->|_]; [lia|]. reflexivity.
Qed.

(* ------------------------------------------------------------------ *)
(* the decoder follows the encoder                                      *)

Section Dec.
  Variable g : graph.
  Variable D : nat.
  Hypothesis WF : wf_graph g.
  Hypothesis HD : Forall (fun nd : node => (length (snd nd) <= D)%nat) g.

  Lemma deg_le a l es : get_node g a = Some (l, es) -> (length es <= D)%nat.
  Proof.
    intros G. unfold get_node in G. apply nth_error_In in G.
    rewrite Forall_forall in HD. apply (HD _ G).
  Qed.

  Lemma dec_sim :
    (forall f a tb b tb', encR g f a tb b tb' ->
       NoDup tb -> in_heap g tb -> a < nlen g ->
       forall ext, tb' = tb ++ ext ->
       forall fd h s, (f + D <= fd)%nat -> length h = length tb ->
       dec_edge fd (b ++ s) h = Ok (ref_pos tb' a, s, h ++ map (entry g tb') ext)) /\
    (forall f es tb b tb', encsR g f es tb b tb' ->
       NoDup tb -> in_heap g tb -> in_heap g es ->
       forall ext, tb' = tb ++ ext ->
       forall fd k h s, (f + D <= fd)%nat -> (length es <= k)%nat -> length h = length tb ->
       dec_edges (dec_edge fd) k (nlen es) (b ++ s) h =
         Ok (map (ref_pos tb') es, s, h ++ map (entry g tb') ext)).
  Proof.
    apply enc_mutind.
    - (* known object *)
      intros f a tb id E ND R Ha ext Hext fd h s Hfd Hlen.
      assert (ext = []) as ->.
      { apply (app_inv_head tb). rewrite app_nil_r. symmetry. exact Hext. }
      destruct fd as [|fd]; [lia|].
      pose proof (tb_len_le g tb ND R) as Hle.
      pose proof (ref_find_Some _ _ _ _ E) as (H1 & H2 & _).
      destruct WF as [Hg _]. rewrite !nlen_length in *.
      rewrite dec_edge_ref by lia.
      destruct (N.leb_spec id (nlen h)) as [_|C]; [|rewrite nlen_length in C; lia].
      cbn [map]. rewrite app_nil_r. unfold ref_pos. rewrite E. reflexivity.
    - (* new object *)
      intros f a tb l es b tb' E G Hes IH ND R Ha ext Hext fd h s Hfd Hlen.
      destruct (proj2 (encR_struct g) _ _ _ _ _ Hes) as (ext1 & Htb' & _ & _).
      assert (ext = a :: ext1) as ->.
      { apply (app_inv_head tb). rewrite <- Hext, Htb', <- app_assoc. reflexivity. }
      destruct fd as [|fd]; [lia|].
      destruct (wf_get_node _ _ _ _ WF G) as (Hl & Hc & Hr).
      pose proof (deg_le _ _ _ G) as Hdeg.
      rewrite <- !app_assoc. rewrite dec_edge_new by assumption.
      assert (ND1 : NoDup (tb ++ [a])).
      { apply NoDup_snoc; [exact ND|]. apply ref_find_None in E. exact E. }
      assert (R1 : in_heap g (tb ++ [a])).
      { apply Forall_app. split; [exact R|]. constructor; [exact Ha|constructor]. }
      rewrite (IH ND1 R1 Hr ext1 Htb' fd fd (h ++ [(0, [])]) s) by
        (rewrite ?app_length; cbn [length]; lia).
      cbn [bind]. do 2 f_equal.
      + f_equal. rewrite Hext. rewrite ref_pos_new by exact E.
        rewrite !nlen_length. lia.
      + rewrite nlen_length, Nat2N.id. rewrite <- app_assoc. cbn [app].
        rewrite set_node_app. cbn [map]. do 2 f_equal.
        unfold entry. rewrite G. reflexivity.
    - (* no edges *)
      intros f tb ND R _ ext Hext fd k h s Hfd Hk Hlen.
      assert (ext = []) as ->.
      { apply (app_inv_head tb). rewrite app_nil_r. symmetry. exact Hext. }
      cbn [nlen app map]. rewrite dec_edges_nil, app_nil_r. reflexivity.
    - (* an edge, then the others *)
      intros f e r tb b1 tb1 b2 tb2 He IH1 Hr IH2 ND R Hes ext Hext fd k h s Hfd Hk Hlen.
      pose proof (Forall_inv Hes) as He'. pose proof (Forall_inv_tail Hes) as Hr'.
      cbv beta in He'.
      destruct (proj1 (encR_struct g) _ _ _ _ _ He) as (ext1 & Htb1 & Ie & C1).
      destruct (proj2 (encR_struct g) _ _ _ _ _ Hr) as (ext2 & Htb2 & _ & _).
      assert (ext = ext1 ++ ext2) as ->.
      { apply (app_inv_head tb). rewrite <- Hext, Htb2, Htb1, <- app_assoc. reflexivity. }
      destruct (proj1 (encR_inv g WF) _ _ _ _ _ He ND R He') as [ND1 R1].
      cbn [length] in Hk. destruct k as [|k]; [lia|].
      rewrite dec_edges_cons by (cbn [nlen]; lia).
      rewrite <- app_assoc.
      rewrite (IH1 ND R He' ext1 Htb1 fd h (b2 ++ s) Hfd Hlen). cbn [bind].
      replace (nlen (e :: r) - 1) with (nlen r) by (cbn [nlen]; lia).
      rewrite (IH2 ND1 R1 Hr' ext2 Htb2 fd k (h ++ map (entry g tb1) ext1) s Hfd)
        by (rewrite ?Htb1, ?app_length, ?map_length; lia).
      cbn [bind map]. do 2 f_equal.
      + f_equal. f_equal. rewrite Htb2. symmetry. apply ref_pos_app. exact Ie.
      + rewrite map_app, <- app_assoc. do 2 f_equal.
        rewrite Htb2. symmetry. apply entry_ext. exact C1.
  Qed.
End Dec.

(* ------------------------------------------------------------------ *)
(* termination                                                          *)

Lemma enc_total g (WF : wf_graph g) : forall f a tb,
  NoDup tb -> in_heap g tb -> a < nlen g -> (length g + 1 <= f + length tb)%nat ->
  exists b tb', enc_edge f g a tb = Ok (b, tb').
Proof.
  induction f as [|f IH]; intros a tb ND R Ha Hf.
  - pose proof (tb_len_le g tb ND R). lia.
  - cbn [enc_edge]. destruct (ref_id a tb) as [id|] eqn:E; [eauto|].
    destruct (get_node_lt g a Ha) as (l & es & G). rewrite G.
    assert (ND1 : NoDup (tb ++ [a])).
    { apply NoDup_snoc; [exact ND|]. apply ref_find_None in E. exact E. }
    assert (R1 : in_heap g (tb ++ [a])).
    { apply Forall_app. split; [exact R|]. constructor; [exact Ha|constructor]. }
    destruct (wf_get_node _ _ _ _ WF G) as (_ & _ & Hr).
    assert (K : forall es tb1, NoDup tb1 -> in_heap g tb1 -> in_heap g es ->
                  (length g + 1 <= f + length tb1)%nat ->
                  exists b tb', enc_edges (enc_edge f g) es tb1 = Ok (b, tb')).
    { clear - IH WF. induction es as [|e r IHr]; intros tb1 ND1 R1 Hes Hf; cbn [enc_edges].
      - eauto.
      - pose proof (Forall_inv Hes) as He. cbv beta in He.
        destruct (IH e tb1 ND1 R1 He Hf) as (b1 & tb2 & H1). rewrite H1. cbn [bind].
        pose proof (enc_edge_rel _ _ _ _ _ _ H1) as Rl.
        destruct (proj1 (encR_inv g WF) _ _ _ _ _ Rl ND1 R1 He) as [ND2 R2].
        destruct (proj1 (encR_struct g) _ _ _ _ _ Rl) as (ext & -> & _ & _).
        destruct (IHr (tb1 ++ ext) ND2 R2 (Forall_inv_tail Hes)) as (b2 & tb3 & H2).
        { rewrite app_length; lia. }
        rewrite H2. cbn [bind]. eauto. }
    destruct (K es (tb ++ [a]) ND1 R1 Hr) as (b & tb' & H).
    { rewrite app_length; cbn [length]; lia. }
    rewrite H. cbn [bind]. eauto.
Qed.

(* 1. termination on cyclic graphs: fuel |g|+1 suffices *)
Theorem C10_encode_terminates : forall g root, wf_graph g -> root < nlen g ->
  exists b tb, encode_graph (S (length g)) g root = Ok (b, tb).
Proof.
  intros g root WF Hr. unfold encode_graph.
  apply enc_total; auto; [constructor|constructor|cbn [length]; lia].
Qed.

(* ------------------------------------------------------------------ *)
(* the final table                                                      *)

Lemma encode_graph_hd f g root b tb :
  encode_graph f g root = Ok (b, tb) -> exists ext, tb = root :: ext.
Proof.
  intros H. apply enc_edge_rel in H. inversion H as [? ? ? id E|? ? ? l es b' ? E G Hes]; subst.
  - discriminate E.
  - destruct (proj2 (encR_struct g) _ _ _ _ _ Hes) as (ext & -> & _). exists ext. reflexivity.
Qed.

(* 2. each object is written once, numbered in order of first encounter *)
Theorem C10_table : forall f g root b tb, wf_graph g -> root < nlen g ->
  encode_graph f g root = Ok (b, tb) ->
  NoDup tb /\ hd_error tb = Some root /\ (forall a, In a tb <-> reachable g root a).
Proof.
  intros f g root b tb WF Hr H.
  destruct (encode_graph_hd _ _ _ _ _ H) as (ext0 & Hhd).
  apply enc_edge_rel in H.
  destruct (proj1 (encR_inv g WF) _ _ _ _ _ H) as [ND _];
    [constructor|constructor|exact Hr|].
  destruct (proj1 (encR_struct g) _ _ _ _ _ H) as (ext & Hext & Iroot & C).
  cbn [app] in Hext. subst ext.
  split; [exact ND|]. split; [rewrite Hhd; reflexivity|].
  intros a. split.
  - intros Ha. eapply (proj1 (encR_reach g root)); eauto.
    + constructor.
    + intros x [].
  - induction 1 as [|a l es e Ra IHa G He].
    + exact Iroot.
    + eapply C; eauto.
Qed.

(* ------------------------------------------------------------------ *)
(* round trip                                                           *)

Definition max_deg (g : graph) : nat := list_max (map (fun nd : node => length (snd nd)) g).

Lemma max_deg_ok g : Forall (fun nd : node => (length (snd nd) <= max_deg g)%nat) g.
Proof.
  unfold max_deg.
  assert (H : Forall (fun k => (k <= list_max (map (fun nd : node => length (snd nd)) g))%nat)
                     (map (fun nd : node => length (snd nd)) g)).
  { apply list_max_le. lia. }
  apply Forall_forall. intros nd Hnd. rewrite Forall_forall in H. apply H.
  apply in_map_iff. exists nd. auto.
Qed.

(* explicit decoder fuel: encoder fuel plus the maximal out-degree (dec_edges counts its
   fuel down once per list element, enc_edges does not) *)
Theorem C10_roundtrip_fuel : forall f g root b tb s fd, wf_graph g -> root < nlen g ->
  encode_graph f g root = Ok (b, tb) -> (f + max_deg g <= fd)%nat ->
  decode_graph fd (b ++ s) = Ok (0, s, renumber g tb).
Proof.
  intros f g root b tb s fd WF Hr H Hfd.
  destruct (encode_graph_hd _ _ _ _ _ H) as (ext0 & Hhd).
  apply enc_edge_rel in H. unfold decode_graph.
  rewrite (proj1 (dec_sim g (max_deg g) WF (max_deg_ok g)) _ _ _ _ _ H
             (NoDup_nil _) (Forall_nil _) Hr tb eq_refl fd [] s Hfd eq_refl).
  cbn [app]. rewrite renumber_entry. do 2 f_equal. f_equal.
  rewrite Hhd. apply ref_pos_hd.
Qed.

(* 3. round trip *)
Theorem C10_roundtrip : forall f g root b tb s, wf_graph g -> root < nlen g ->
  encode_graph f g root = Ok (b, tb) ->
  exists f', decode_graph f' (b ++ s) = Ok (0, s, renumber g tb).
Proof.
  intros f g root b tb s WF Hr H. exists (f + max_deg g)%nat.
  eapply C10_roundtrip_fuel; eauto.
Qed.

(* 4. renumbering is an isomorphism on the table *)
Theorem C10_iso : forall g tb a, NoDup tb -> In a tb ->
  (forall a', In a' tb -> ref_pos tb a = ref_pos tb a' -> a = a') /\
  nth_error (renumber g tb) (N.to_nat (ref_pos tb a)) =
    Some (match get_node g a with Some (l, es) => (l, map (ref_pos tb) es) | None => (0, []) end).
Proof.
  intros g tb a _ Ha. split.
  - intros a' Ha' E. pose proof (ref_pos_nth a tb Ha) as H1.
    pose proof (ref_pos_nth a' tb Ha') as H2. rewrite E in H1. congruence.
  - unfold renumber. erewrite map_nth_error by (apply ref_pos_nth; exact Ha). reflexivity.
Qed.

(* 5. an id that was never introduced is an error *)
Theorem C10_invalid_ref : forall fuel r inp h, 0 < r -> nlen h < r -> r < 2^32 ->
  dec_edge (S fuel) (write_var_u32 r ++ inp) h = Err (EInvalidRefId r).
Proof.
  intros fuel r inp h H0 Hh Hr. rewrite dec_edge_ref by assumption.
  destruct (N.leb_spec r (nlen h)); [lia|reflexivity].
Qed.

(* 6. a later offer of a known object writes only its id *)
Theorem C10_known_offer : forall fuel g a tb id, ref_id a tb = Some id ->
  enc_edge (S fuel) g a tb = Ok (write_var_u32 id, tb).
Proof. intros fuel g a tb id H. cbn [enc_edge]. rewrite H. reflexivity. Qed.

Print Assumptions C10_encode_terminates.
Print Assumptions C10_table.
Print Assumptions C10_roundtrip.
Print Assumptions C10_roundtrip_fuel.
Print Assumptions C10_iso.
Print Assumptions C10_invalid_ref.
Print Assumptions C10_known_offer.
