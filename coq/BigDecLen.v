(* BigDecLen.v — BigDecimal text: how long the rendered text is, against the number of digits of
   the integer, and how many digits the integer read from a text can have. *)
From Coq Require Import NArith ZArith List Bool Lia DecimalN DecimalPos DecimalFacts.
From Coq Require Import ZifyBool ZifyN ZifyNat.
From Desert Require Import Outcome IO IOProofs Types Calendar Codec BigDec BigDecLemmas.
Import ListNotations.
Open Scope Z_scope.

(* ---- the number of digits of n ------------------------------------------------------------ *)

Lemma dstep_lower : forall acc b, (acc * 10 <= dstep acc b)%N.
Proof. intros. unfold dstep. lia. Qed.

Lemma dval_acc_lower : forall D acc, (acc * 10 ^ nlen D <= dval_acc D acc)%N.
Proof.
  induction D as [|b D IH]; intros acc.
  - cbn [nlen]. unfold dval_acc. cbn [fold_left]. rewrite N.pow_0_r. lia.
  - rewrite dval_acc_cons. cbn [nlen]. rewrite N.pow_succ_r'.
    pose proof (IH (dstep acc b)) as H. pose proof (dstep_lower acc b) as Hs.
    assert (Hp : (0 < 10 ^ nlen D)%N) by (apply N.neq_0_lt_0, N.pow_nonzero; discriminate).
    nia.
Qed.

Lemma nzhead_shape : forall d,
  match Decimal.nzhead d with Decimal.D0 _ => False | _ => True end.
Proof. induction d; cbn [Decimal.nzhead]; auto. Qed.

Lemma to_uint_unorm : forall n, N.to_uint n = Decimal.unorm (N.to_uint n).
Proof.
  intros n. pose proof (DecimalN.Unsigned.to_of (N.to_uint n)) as H.
  rewrite DecimalN.Unsigned.of_to in H. exact H.
Qed.

Lemma digits_of_shape : forall n,
  digits_of n = [48%N] \/ exists b r, digits_of n = b :: r /\ (49 <= b)%N.
Proof.
  intros n. unfold digits_of. rewrite to_uint_unorm. unfold Decimal.unorm.
  pose proof (nzhead_shape (N.to_uint n)) as Hs.
  destruct (Decimal.nzhead (N.to_uint n)); cbn [uint_bytes];
    [left; reflexivity | contradiction | right; eexists _, _; split; [reflexivity|lia] ..].
Qed.

Lemma digits_of_lower : forall n, n <> 0%N -> (10 ^ (nlen (digits_of n) - 1) <= n)%N.
Proof.
  intros n Hn. pose proof (dval_digits_of n) as Hv.
  destruct (digits_of_shape n) as [H|(b & r & H & Hb)]; rewrite H in Hv |- *.
  - exfalso. apply Hn. rewrite <- Hv. reflexivity.
  - unfold dval in Hv. rewrite dval_acc_cons in Hv.
    pose proof (dval_acc_lower r (dstep 0 b)) as Hl. rewrite Hv in Hl.
    cbn [nlen]. replace (N.succ (nlen r) - 1)%N with (nlen r) by lia.
    assert (Hp : (0 < 10 ^ nlen r)%N) by (apply N.neq_0_lt_0, N.pow_nonzero; discriminate).
    assert (Hd : (1 <= dstep 0 b)%N) by (unfold dstep; lia).
    nia.
Qed.

Lemma digits_of_len : forall n k, (1 <= k)%N -> (n < 10 ^ k)%N -> (nlen (digits_of n) <= k)%N.
Proof.
  intros n k Hk Hn. destruct (N.eq_dec n 0) as [->|Hn0].
  - change (digits_of 0) with [48%N]. cbn [nlen]. lia.
  - pose proof (digits_of_lower n Hn0) as Hl.
    destruct (N.le_gt_cases (nlen (digits_of n)) k) as [H|H]; [exact H|]. exfalso.
    assert (Hm : (10 ^ k <= 10 ^ (nlen (digits_of n) - 1))%N)
      by (apply N.pow_le_mono_r; [discriminate | lia]).
    lia.
Qed.

(* ---- the length of the rendered text ---------------------------------------------------- *)

Lemma signed_plus_len : forall x, Z.abs x <= 2 ^ 63 -> (length (signed_plus x) <= 20)%nat.
Proof.
  intros x Hx. unfold signed_plus. cbn [length].
  assert (Hd : (nlen (digits_of (Z.abs_N x)) <= 19)%N).
  { apply digits_of_len; [lia|]. change (10 ^ 19)%N with 10000000000000000000%N.
    change (2 ^ 63) with 9223372036854775808 in Hx. lia. }
  rewrite nlen_length in Hd. lia.
Qed.

Lemma zeros_len : forall k, 0 <= k -> length (zeros k) = Z.to_nat k.
Proof. intros. unfold zeros. apply repeat_length. Qed.

Lemma bd_render_len_nat : forall i s, is_i64 s = true ->
  (length (bd_render i s) <= length (digits_of (Z.abs_N i)) + 24)%nat.
Proof.
  intros i s Hs.
  pose proof (digits_of_nonnil (Z.abs_N i)) as Han.
  pose proof (is_i64_range s Hs) as Hr.
  cbv beta zeta delta [bd_render].
  remember (digits_of (Z.abs_N i)) as a eqn:Ea. clear Ea.
  remember (Z.of_nat (length a)) as len eqn:Elen.
  pose proof (length_nonnil a Han) as Hlen. rewrite <- Elen in Hlen.
  rewrite sgn_if. rewrite app_length.
  assert (Hsg : (length (sgn (i <? 0)%Z) <= 1)%nat) by (destruct (i <? 0); cbn [sgn length]; lia).
  remember (if (0 <=? s) && (len <=? s) then s - len else 0) as lead0 eqn:Elead.
  remember (if (s <=? 0) && negb (s =? i64_min) then - s else 0) as trail0 eqn:Etrail.
  unfold i64_min in Etrail.
  destruct (5 <? lead0) eqn:C1.
  { destruct ((0 <=? s) && (len <=? s)) eqn:Cl; subst lead0; b2p; [|lia].
    pose proof (signed_plus_len (len - s - 1) ltac:(lia)) as Hsp.
    destruct a as [|d [|d2 r]]; [congruence| |];
      rewrite app_length; cbn [length] in *; lia. }
  destruct (15 <? trail0) eqn:C2.
  { destruct ((s <=? 0) && negb (s =? - 2 ^ 63)) eqn:Ct; subst trail0; b2p; [|lia].
    pose proof (signed_plus_len (- s) ltac:(lia)) as Hsp.
    rewrite app_length; cbn [length]; lia. }
  destruct (s <=? 0) eqn:C3.
  { destruct (20 <? - s) eqn:C4; b2p.
    - pose proof (signed_plus_len (- s) ltac:(lia)) as Hsp.
      rewrite app_length; cbn [length]; lia.
    - rewrite app_length, zeros_len by lia. lia. }
  destruct (s <? len) eqn:C5; b2p.
  - rewrite app_length. cbn [length]. rewrite firstn_length, skipn_length. lia.
  - assert (Hl5 : s - len <= 5).
    { destruct ((0 <=? s) && (len <=? s)) eqn:Cl; subst lead0; b2p; lia. }
    cbn [length]. rewrite app_length, zeros_len by lia. lia.
Qed.

Lemma bd_render_len_tight : forall i s, is_i64 s = true ->
  (nlen (bd_render i s) <= nlen (digits_of (Z.abs_N i)) + 24)%N.
Proof.
  intros i s Hs. pose proof (bd_render_len_nat i s Hs) as H. rewrite !nlen_length. lia.
Qed.

Lemma bd_render_len : forall i s, is_i64 s = true ->
  (nlen (bd_render i s) <= nlen (digits_of (Z.abs_N i)) + 40)%N.
Proof. intros i s Hs. pose proof (bd_render_len_tight i s Hs). lia. Qed.

(* ---- the digits of a parsed integer --------------------------------------------------------- *)

Lemma pow10_pos : forall k, (0 < 10 ^ k)%N.
Proof. intros. apply N.neq_0_lt_0, N.pow_nonzero. discriminate. Qed.

Lemma pow10_mono : forall a b, (a <= b)%N -> (10 ^ a <= 10 ^ b)%N.
Proof. intros. apply N.pow_le_mono_r; [discriminate | assumption]. Qed.

Lemma parse_digits_upper : forall D acc n,
  parse_digits D acc = Some n -> (n < (acc + 1) * 10 ^ nlen D)%N.
Proof.
  induction D as [|b D IH]; intros acc n H.
  - cbn [parse_digits] in H. injection H as <-. cbn [nlen]. rewrite N.pow_0_r. lia.
  - cbn [parse_digits] in H. cbn [nlen]. rewrite N.pow_succ_r'.
    pose proof (pow10_pos (nlen D)) as Hp.
    destruct (b =? c_us)%N.
    + apply IH in H. nia.
    + destruct (is_digit b) eqn:Hd; [|discriminate].
      apply IH in H. unfold is_digit in Hd.
      assert (Hb : (acc * 10 + (b - 48) + 1 <= (acc + 1) * 10)%N) by lia.
      nia.
Qed.

Lemma biguint_parse_upper : forall s n,
  biguint_parse s = Some n -> (n < 10 ^ nlen s)%N /\ (1 <= nlen s)%N.
Proof.
  intros s n H. unfold biguint_parse in H.
  set (s' := match s with
             | b :: tail => if (b =? c_plus)%N && negb (starts_with c_plus tail) then tail else s
             | [] => s
             end) in H.
  assert (Hle : (nlen s' <= nlen s)%N).
  { unfold s'. destruct s as [|b tail]; [lia|].
    destruct ((b =? c_plus)%N && negb (starts_with c_plus tail)); cbn [nlen]; lia. }
  destruct s' as [|b r] eqn:Es'; [discriminate|].
  destruct (b =? c_us)%N; [discriminate|].
  apply parse_digits_upper in H. rewrite N.add_0_l, N.mul_1_l in H.
  pose proof (pow10_mono _ _ Hle) as Hm. cbn [nlen] in Hle. split; lia.
Qed.

Lemma bigint_parse_upper : forall s i,
  bigint_parse s = Some i -> (Z.abs_N i < 10 ^ nlen s)%N /\ (1 <= nlen s)%N.
Proof.
  intros s i H. unfold bigint_parse in H.
  assert (G : option_map Z.of_N (biguint_parse s) = Some i ->
              (Z.abs_N i < 10 ^ nlen s)%N /\ (1 <= nlen s)%N).
  { intros H0. destruct (biguint_parse s) as [n|] eqn:Eb; [|discriminate].
    cbn [option_map] in H0. injection H0 as <-. apply biguint_parse_upper in Eb.
    destruct Eb as [E1 E2]. split; [lia | exact E2]. }
  destruct s as [|b tail]; [apply G; exact H|].
  destruct (b =? c_minus)%N; [|apply G; exact H].
  destruct (biguint_parse (if starts_with c_plus tail then b :: tail else tail)) as [n|] eqn:Eb;
    [|discriminate].
  injection H as <-. apply biguint_parse_upper in Eb. destruct Eb as [E1 E2].
  match type of E2 with (1 <= nlen ?x)%N =>
    assert (Hle : (nlen x <= nlen (b :: tail))%N)
      by (destruct (starts_with c_plus tail); cbn [nlen]; lia) end.
  pose proof (pow10_mono _ _ Hle) as Hm. split; lia.
Qed.

Lemma split_at_len : forall p bs x y,
  split_at p bs = Some (x, y) -> (nlen x + nlen y + 1 = nlen bs)%N.
Proof.
  induction bs as [|b r IH]; intros x y H; cbn [split_at] in H; [discriminate|].
  destruct (p b).
  - injection H as <- <-. cbn [nlen]. lia.
  - destruct (split_at p r) as [[x' y']|] eqn:E; [|discriminate].
    injection H as <- <-. specialize (IH _ _ eq_refl). cbn [nlen]. lia.
Qed.

Lemma bd_parse_upper : forall bs i s,
  bd_parse bs = Some (i, s) -> (Z.abs_N i < 10 ^ nlen bs)%N /\ (1 <= nlen bs)%N.
Proof.
  intros bs i s. unfold bd_parse.
  match goal with |- match ?X with _ => _ end = _ -> _ =>
    assert (HX : forall base ex, X = Some (base, ex) -> (nlen base <= nlen bs)%N);
    [|destruct X as [[base ex]|]; [specialize (HX base ex eq_refl)|discriminate]] end.
  { intros base ex.
    destruct (split_at (fun b => (b =? c_e)%N || (b =? c_E)%N) bs) as [[b0 e0]|] eqn:Es.
    - destruct (i128_parse e0); [|discriminate]. intros H. injection H as <- _.
      apply split_at_len in Es. lia.
    - intros H. injection H as <- _. lia. }
  destruct base as [|b0 base']; [discriminate|].
  match goal with |- (let '(_, _) := ?X in _) = _ -> _ =>
    assert (HY : forall dg off, X = (dg, off) -> (nlen dg <= nlen (b0 :: base'))%N);
    [|destruct X as [digits off]; specialize (HY digits off eq_refl)] end.
  { intros dg off.
    destruct (split_at (fun b => (b =? c_dot)%N) (b0 :: base')) as [[lead trail]|] eqn:Es.
    - apply split_at_len in Es.
      destruct trail; intros H; injection H as <- _; rewrite ?nlen_app; lia.
    - intros H. injection H as <- _. lia. }
  cbv zeta.
  destruct (is_i64 (off - ex)); [|discriminate].
  destruct (bigint_parse digits) as [i'|] eqn:Eb; [|discriminate].
  intros H. injection H as <- _. apply bigint_parse_upper in Eb. destruct Eb as [E1 E2].
  assert (Hle : (nlen digits <= nlen bs)%N) by lia.
  pose proof (pow10_mono _ _ Hle) as Hm. split; lia.
Qed.

Lemma bd_parse_len : forall bs p, bd_parse bs = Some p ->
  (nlen (digits_of (Z.abs_N (fst (bd_norm p)))) <= nlen bs + 15)%N.
Proof.
  intros bs [i s] H. apply bd_parse_upper in H. destruct H as [Hi Hb].
  pose proof (pow10_mono (nlen bs) (nlen bs + 15) ltac:(lia)) as Hm.
  apply digits_of_len; [lia|].
  unfold bd_norm. destruct ((-15 <=? s) && (s <? 0)) eqn:Hc; cbn [fst]; [|lia].
  b2p. rewrite N.pow_add_r.
  assert (Hp : 0 < 10 ^ (- s) <= 10 ^ 15).
  { split; [apply Z.pow_pos_nonneg; lia | apply Z.pow_le_mono_r; lia]. }
  change (10 ^ 15) with 1000000000000000 in Hp.
  change (10 ^ 15)%N with 1000000000000000%N.
  pose proof (pow10_pos (nlen bs)) as Hq.
  apply N2Z.inj_lt. rewrite N2Z.inj_abs_N, Z.abs_mul, N2Z.inj_mul.
  rewrite (Z.abs_eq (10 ^ (- s))) by lia.
  assert (Hi' : Z.abs i < Z.of_N (10 ^ nlen bs)) by lia.
  change (Z.of_N 1000000000000000) with 1000000000000000.
  nia.
Qed.

Print Assumptions bd_render_len.
Print Assumptions bd_parse_len.
