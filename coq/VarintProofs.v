(* VarintProofs.v — C11: the var-int writer/reader pair as written in the Rust is a
   bijection with minimal length, equals LEB128, and zig-zag is the closed form. *)
From Coq Require Import NArith ZArith List Lia Bool.
From Coq Require Import ZifyBool ZifyN.
From Desert Require Import Bits Outcome IO.
Import ListNotations.
Open Scope N_scope.

Ltac Zify.zify_post_hook ::= Z.div_mod_to_equations.

(* ---------- the reference: LEB128, two lines ---------- *)
Fixpoint leb128 (fuel : nat) (v : N) : bytes :=
  match fuel with
  | O => [v]
  | S f => if v <? 128 then [v] else (v mod 128 + 128) :: leb128 f (v / 128)
  end.
(* a u32 needs at most 5 groups of 7 bits *)
Definition leb128_u32 (v : N) : bytes := leb128 4 v.

(* ---------- the writer in arithmetic ---------- *)
Lemma as_u8_cont_low v : as_u8 (N.lor (N.land v 127) 128) = v mod 128 + 128.
Proof.
  unfold as_u8. rewrite N_lor_128_mod256, N_land_127.
  rewrite N.mod_mod by discriminate. reflexivity.
Qed.

Lemma as_u8_cont v : as_u8 (N.lor v 128) = v mod 128 + 128.
Proof. unfold as_u8. apply N_lor_128_mod256. Qed.

Lemma write_var_u32_arith v :
  write_var_u32 v =
    if v / 2^7 =? 0 then [v mod 256]
    else if v / 2^14 =? 0 then [v mod 128 + 128; (v / 2^7) mod 256]
    else if v / 2^21 =? 0 then [v mod 128 + 128; (v / 2^7) mod 128 + 128; (v / 2^14) mod 256]
    else if v / 2^28 =? 0 then
      [v mod 128 + 128; (v / 2^7) mod 128 + 128; (v / 2^14) mod 128 + 128; (v / 2^21) mod 256]
    else
      [v mod 128 + 128; (v / 2^7) mod 128 + 128; (v / 2^14) mod 128 + 128;
       (v / 2^21) mod 128 + 128; (v / 2^28) mod 256].
Proof.
  unfold write_var_u32. rewrite !N_shiftr_div, !as_u8_cont_low, !as_u8_cont.
  unfold as_u8. reflexivity.
Qed.

Theorem write_var_u32_is_leb128 v : v < 2^32 -> write_var_u32 v = leb128_u32 v.
Proof.
  intros Hv. rewrite write_var_u32_arith. unfold leb128_u32, leb128.
  change (2^7) with 128. change (2^14) with 16384. change (2^21) with 2097152.
  change (2^28) with 268435456. change (2^32) with 4294967296 in Hv.
  destruct (v / 128 =? 0) eqn:E1.
  { assert (v <? 128 = true) as -> by lia. f_equal. lia. }
  assert (v <? 128 = false) as -> by lia.
  destruct (v / 16384 =? 0) eqn:E2.
  { assert (v / 128 <? 128 = true) as -> by lia. do 2 f_equal. lia. }
  assert (v / 128 <? 128 = false) as -> by lia.
  assert (D2: v / 128 / 128 = v / 16384) by lia.
  destruct (v / 2097152 =? 0) eqn:E3.
  { rewrite D2. assert (v / 16384 <? 128 = true) as -> by lia. do 3 f_equal. lia. }
  rewrite D2. assert (v / 16384 <? 128 = false) as -> by lia.
  assert (D3: v / 16384 / 128 = v / 2097152) by lia.
  destruct (v / 268435456 =? 0) eqn:E4.
  { rewrite D3. assert (v / 2097152 <? 128 = true) as -> by lia. do 4 f_equal. lia. }
  rewrite D3. assert (v / 2097152 <? 128 = false) as -> by lia.
  assert (D4: v / 2097152 / 128 = v / 268435456) by lia.
  rewrite D4. do 5 f_equal. lia.
Qed.

(* ---------- length ---------- *)
Definition var_len (v : N) : N :=
  if v <? 2^7 then 1 else if v <? 2^14 then 2 else if v <? 2^21 then 3
  else if v <? 2^28 then 4 else 5.

Theorem write_var_u32_length v : nlen (write_var_u32 v) = var_len v.
Proof.
  rewrite write_var_u32_arith. unfold var_len.
  change (2^7) with 128. change (2^14) with 16384. change (2^21) with 2097152.
  change (2^28) with 268435456.
  destruct (v / 128 =? 0) eqn:E1; [assert (v <? 128 = true) as -> by lia; reflexivity|].
  assert (v <? 128 = false) as -> by lia.
  destruct (v / 16384 =? 0) eqn:E2; [assert (v <? 16384 = true) as -> by lia; reflexivity|].
  assert (v <? 16384 = false) as -> by lia.
  destruct (v / 2097152 =? 0) eqn:E3; [assert (v <? 2097152 = true) as -> by lia; reflexivity|].
  assert (v <? 2097152 = false) as -> by lia.
  destruct (v / 268435456 =? 0) eqn:E4; [assert (v <? 268435456 = true) as -> by lia; reflexivity|].
  assert (v <? 268435456 = false) as -> by lia. reflexivity.
Qed.

(* var_len is the minimal number of 7-bit groups: ceil(bits/7) clamped to [1,5] *)
Theorem var_len_minimal v : v < 2^32 ->
  1 <= var_len v <= 5 /\ v < 2 ^ (7 * var_len v) /\ (1 < var_len v -> 2 ^ (7 * (var_len v - 1)) <= v).
Proof.
  intros Hv. unfold var_len.
  destruct (v <? 2^7) eqn:E1; [cbn; lia|].
  destruct (v <? 2^14) eqn:E2; [cbn; lia|].
  destruct (v <? 2^21) eqn:E3; [cbn; lia|].
  destruct (v <? 2^28) eqn:E4; [cbn; lia|].
  cbn. change (2^32) with 4294967296 in Hv. lia.
Qed.

(* ---------- continuation bits ---------- *)
Fixpoint continuation_ok (bs : bytes) : bool :=
  match bs with
  | [] => false
  | [b] => b <? 128
  | b :: r => (128 <=? b) && (b <? 256) && continuation_ok r
  end.

Theorem write_var_u32_continuation v : v < 2^32 -> continuation_ok (write_var_u32 v) = true.
Proof.
  intros Hv. rewrite write_var_u32_arith.
  change (2^7) with 128. change (2^14) with 16384. change (2^21) with 2097152.
  change (2^28) with 268435456. change (2^32) with 4294967296 in Hv.
  destruct (v / 128 =? 0) eqn:E1; [cbn; lia|].
  destruct (v / 16384 =? 0) eqn:E2; [cbn; lia|].
  destruct (v / 2097152 =? 0) eqn:E3; [cbn; lia|].
  destruct (v / 268435456 =? 0) eqn:E4; [cbn; lia|].
  cbn. lia.
Qed.

Theorem write_var_u32_bytes_lt_256 v : Forall (fun b => b < 256) (write_var_u32 v).
Proof.
  rewrite write_var_u32_arith.
  change (2^7) with 128. change (2^14) with 16384. change (2^21) with 2097152.
  change (2^28) with 268435456.
  destruct (v / 128 =? 0); [repeat constructor; lia|].
  destruct (v / 16384 =? 0); [repeat constructor; lia|].
  destruct (v / 2097152 =? 0); [repeat constructor; lia|].
  destruct (v / 268435456 =? 0); repeat constructor; lia.
Qed.

(* ---------- the reader, byte by byte ---------- *)
Lemma land127_low m : m < 128 -> N.land m 127 = m.
Proof. intros. rewrite N_land_127. apply N.mod_small. assumption. Qed.
Lemma land127_high m : m < 128 -> N.land (m + 128) 127 = m.
Proof. intros. rewrite N_land_127. lia. Qed.
Lemma cont_low m : m < 128 -> (N.land m 128 =? 0) = true.
Proof. intros. rewrite N_land_low_128 by assumption. reflexivity. Qed.
Lemma cont_high m : m < 128 -> (N.land (m + 128) 128 =? 0) = false.
Proof. intros. rewrite N_land_high_128 by assumption. reflexivity. Qed.

Lemma lor_shift7 r m : r < 2^7 -> N.lor r (N.shiftl m 7) = r + m * 2^7.
Proof. apply N_lor_low_shiftl. Qed.

Section ListReader.
  Notation rd := (read_var_u32 list_reader).

  Lemma read1 a0 s : a0 < 128 -> rd (a0 :: s) = Ok (a0, s).
  Proof.
    intros H0. unfold read_var_u32. cbn [list_reader r_u8 bind].
    rewrite cont_low, land127_low by assumption. reflexivity.
  Qed.

  Lemma read2 a0 a1 s : a0 < 128 -> a1 < 128 ->
    rd (a0 + 128 :: a1 :: s) = Ok (a0 + a1 * 2^7, s).
  Proof.
    intros H0 H1. unfold read_var_u32. cbn [list_reader r_u8 bind].
    rewrite cont_high, land127_high by assumption.
    rewrite cont_low, land127_low by assumption.
    rewrite N_lor_low_shiftl by (cbn; lia). reflexivity.
  Qed.

  Lemma read3 a0 a1 a2 s : a0 < 128 -> a1 < 128 -> a2 < 128 ->
    rd (a0 + 128 :: a1 + 128 :: a2 :: s) = Ok (a0 + a1 * 2^7 + a2 * 2^14, s).
  Proof.
    intros H0 H1 H2. unfold read_var_u32. cbn [list_reader r_u8 bind].
    rewrite !cont_high, !land127_high by assumption.
    rewrite cont_low, land127_low by assumption.
    rewrite (N_lor_low_shiftl a0) by (cbn; lia).
    rewrite N_lor_low_shiftl by (cbn; lia). reflexivity.
  Qed.

  Lemma read4 a0 a1 a2 a3 s : a0 < 128 -> a1 < 128 -> a2 < 128 -> a3 < 128 ->
    rd (a0 + 128 :: a1 + 128 :: a2 + 128 :: a3 :: s) =
      Ok (a0 + a1 * 2^7 + a2 * 2^14 + a3 * 2^21, s).
  Proof.
    intros H0 H1 H2 H3. unfold read_var_u32. cbn [list_reader r_u8 bind].
    rewrite !cont_high, !land127_high by assumption.
    rewrite cont_low, land127_low by assumption.
    rewrite (N_lor_low_shiftl a0) by (cbn; lia).
    rewrite (N_lor_low_shiftl _ a2) by (cbn; lia).
    rewrite N_lor_low_shiftl by (cbn; lia). reflexivity.
  Qed.

  Lemma read5 a0 a1 a2 a3 a4 s : a0 < 128 -> a1 < 128 -> a2 < 128 -> a3 < 128 -> a4 < 16 ->
    rd (a0 + 128 :: a1 + 128 :: a2 + 128 :: a3 + 128 :: a4 :: s) =
      Ok (a0 + a1 * 2^7 + a2 * 2^14 + a3 * 2^21 + a4 * 2^28, s).
  Proof.
    intros H0 H1 H2 H3 H4. unfold read_var_u32. cbn [list_reader r_u8 bind].
    rewrite !cont_high, !land127_high by assumption.
    rewrite (land127_low a4) by lia.
    rewrite (N_lor_low_shiftl a0) by (cbn; lia).
    rewrite (N_lor_low_shiftl _ a2) by (cbn; lia).
    rewrite (N_lor_low_shiftl _ a3) by (cbn; lia).
    rewrite N_shiftl_mul.
    rewrite (N.mod_small (a4 * 2^28)) by (cbn; lia).
    rewrite <- (N_shiftl_mul a4 28) at 1.
    rewrite N_lor_low_shiftl by (cbn; lia). reflexivity.
  Qed.

  Theorem var_u32_roundtrip_list v s : v < 2^32 ->
    rd (write_var_u32 v ++ s) = Ok (v, s).
  Proof.
    intros Hv. rewrite write_var_u32_arith.
    change (2^32) with 4294967296 in Hv.
    change (2^7) with 128. change (2^14) with 16384. change (2^21) with 2097152.
    change (2^28) with 268435456.
    destruct (v / 128 =? 0) eqn:E1.
    { cbn [app]. rewrite N.mod_small by lia. apply read1. lia. }
    destruct (v / 16384 =? 0) eqn:E2.
    { cbn [app]. rewrite (N.mod_small (v / 128)) by lia.
      rewrite read2 by lia. do 2 f_equal. cbn. lia. }
    destruct (v / 2097152 =? 0) eqn:E3.
    { cbn [app]. rewrite (N.mod_small (v / 16384)) by lia.
      rewrite read3 by lia. do 2 f_equal. cbn. lia. }
    destruct (v / 268435456 =? 0) eqn:E4.
    { cbn [app]. rewrite (N.mod_small (v / 2097152)) by lia.
      rewrite read4 by lia. do 2 f_equal. cbn. lia. }
    cbn [app]. rewrite (N.mod_small (v / 268435456)) by lia.
    rewrite read5 by lia. do 2 f_equal. cbn. lia.
  Qed.
End ListReader.

(* ---------- zig-zag ---------- *)
Lemma to_unsigned_nonneg z : (0 <= z < 2^32)%Z -> to_unsigned 32 z = Z.to_N z.
Proof. intros H. unfold to_unsigned. rewrite Z.mod_small by (cbn; lia). reflexivity. Qed.
Lemma to_unsigned_neg z : (-2^32 <= z < 0)%Z -> to_unsigned 32 z = Z.to_N (z + 2^32).
Proof.
  intros H. unfold to_unsigned. f_equal. change (Z.of_N 32) with 32%Z. lia.
Qed.

Theorem zigzag32_closed z : (-2^31 <= z < 2^31)%Z ->
  zigzag32 z = Z.to_N (if (0 <=? z)%Z then 2 * z else -2 * z - 1)%Z.
Proof.
  intros Hz. unfold zigzag32. rewrite Z.shiftr_div_pow2 by lia.
  rewrite N_shiftl_mul. change (2^1) with 2.
  destruct (0 <=? z)%Z eqn:E.
  - assert (z / 2^31 = 0)%Z as -> by lia.
    rewrite to_unsigned_nonneg by lia.
    change (to_unsigned 32 0) with 0. rewrite N.lxor_0_r.
    change (2^32) with 4294967296. lia.
  - assert (z / 2^31 = -1)%Z as -> by lia.
    change (to_unsigned 32 (-1)) with (N.ones 32).
    rewrite to_unsigned_neg by lia.
    rewrite N_lxor_ones_low; [| lia | apply N.mod_lt; discriminate].
    rewrite N_ones_32. change (2^32) with 4294967296. lia.
Qed.

Theorem zigzag32_range z : (-2^31 <= z < 2^31)%Z -> zigzag32 z < 2^32.
Proof. intros H. rewrite zigzag32_closed by assumption. destruct (0 <=? z)%Z eqn:E; lia. Qed.

Theorem unzigzag_zigzag z : (-2^31 <= z < 2^31)%Z -> unzigzag32 (zigzag32 z) = z.
Proof.
  intros Hz. rewrite zigzag32_closed by assumption. unfold unzigzag32.
  rewrite N_land_1, N_shiftr_div. change (2^1) with 2.
  destruct (0 <=? z)%Z eqn:E.
  - assert (Z.to_N (2 * z) mod 2 = 0) as -> by lia.
    change (to_unsigned 32 (- Z.of_N 0)) with 0. rewrite N.lxor_0_r.
    unfold to_signed. change (2 ^ (32 - 1)) with 2147483648.
    assert (Z.to_N (2 * z) / 2 <? 2147483648 = true) as -> by lia. lia.
  - assert (Z.to_N (-2 * z - 1) mod 2 = 1) as -> by lia.
    change (to_unsigned 32 (- Z.of_N 1)) with (N.ones 32).
    rewrite N_lxor_ones_low; [| lia | change (2^32) with 4294967296; lia].
    rewrite N_ones_32. unfold to_signed. change (2 ^ (32 - 1)) with 2147483648.
    assert (4294967295 - Z.to_N (-2 * z - 1) / 2 <? 2147483648 = false) as -> by lia.
    change (2 ^ Z.of_N 32)%Z with 4294967296%Z. lia.
Qed.

(* the zig-zag image of u32 is all of i32: unzigzag is total into range and injective back *)
Theorem zigzag_unzigzag r : r < 2^32 -> zigzag32 (unzigzag32 r) = r /\ (-2^31 <= unzigzag32 r < 2^31)%Z.
Proof.
  intros Hr. change (2^32) with 4294967296 in Hr.
  assert (R: (-2^31 <= unzigzag32 r < 2^31)%Z /\
             unzigzag32 r = (if (r mod 2 =? 0)%N then Z.of_N (r / 2)%N else - Z.of_N (r / 2)%N - 1)%Z).
  { unfold unzigzag32. rewrite N_land_1, N_shiftr_div. change (2^1) with 2.
    assert (Hm: r mod 2 < 2) by (apply N.mod_lt; discriminate).
    destruct (r mod 2 =? 0) eqn:E.
    - assert (r mod 2 = 0) as -> by lia.
      change (to_unsigned 32 (- Z.of_N 0)) with 0. rewrite N.lxor_0_r.
      unfold to_signed. change (2 ^ (32 - 1)) with 2147483648.
      assert (r / 2 <? 2147483648 = true) as -> by lia. lia.
    - assert (r mod 2 = 1) as -> by lia.
      change (to_unsigned 32 (- Z.of_N 1)) with (N.ones 32).
      rewrite N_lxor_ones_low; [| lia | change (2^32) with 4294967296; lia].
      rewrite N_ones_32. unfold to_signed. change (2 ^ (32 - 1)) with 2147483648.
      assert (4294967295 - r / 2 <? 2147483648 = false) as -> by lia.
      change (2 ^ Z.of_N 32)%Z with 4294967296%Z. lia. }
  destruct R as [R1 R2]. split; [|exact R1].
  rewrite zigzag32_closed by exact R1. rewrite R2.
  destruct (r mod 2 =? 0) eqn:E.
  - assert ((0 <=? Z.of_N (r / 2))%Z = true) as -> by lia. lia.
  - assert ((0 <=? - Z.of_N (r / 2) - 1)%Z = false) as -> by lia. lia.
Qed.

Theorem var_i32_roundtrip_list z s : (-2^31 <= z < 2^31)%Z ->
  read_var_i32 list_reader (write_var_i32 z ++ s) = Ok (z, s).
Proof.
  intros Hz. unfold read_var_i32, write_var_i32.
  rewrite var_u32_roundtrip_list by (apply zigzag32_range; assumption).
  cbn [bind]. rewrite unzigzag_zigzag by assumption. reflexivity.
Qed.

(* small magnitudes stay short: |z| < 64 is one byte, and so on *)
Theorem write_var_i32_length z : (-2^31 <= z < 2^31)%Z ->
  nlen (write_var_i32 z) =
    var_len (Z.to_N (if (0 <=? z)%Z then 2 * z else -2 * z - 1)%Z).
Proof.
  intros Hz. unfold write_var_i32. rewrite write_var_u32_length, zigzag32_closed by assumption.
  reflexivity.
Qed.

(* ---------- through every source ---------- *)
From Desert Require Import IOProofs.

Lemma osim_ok_inv {S A} (inv : S -> Prop) (view : S -> bytes) (m : outcome (A * S)) a l :
  osim inv view m (Ok (a, l)) -> exists s', m = Ok (a, s') /\ inv s' /\ view s' = l.
Proof.
  destruct m as [[a' s']| | |]; cbn; intros H; try contradiction.
  destruct H as (-> & Hi & Hv). eauto.
Qed.

Theorem var_u32_roundtrip_src {S} (R : reader S) inv view :
  refines R inv view ->
  forall v s rest, v < 2^32 -> inv s -> view s = write_var_u32 v ++ rest ->
  exists s', read_var_u32 R s = Ok (v, s') /\ inv s' /\ view s' = rest.
Proof.
  intros RF v s rest Hv Hi Hview.
  pose proof (read_var_u32_sim R inv view RF s Hi) as H.
  rewrite Hview, var_u32_roundtrip_list in H by exact Hv.
  apply osim_ok_inv in H. exact H.
Qed.

Theorem var_i32_roundtrip_src {S} (R : reader S) inv view :
  refines R inv view ->
  forall z s rest, (-2^31 <= z < 2^31)%Z -> inv s -> view s = write_var_i32 z ++ rest ->
  exists s', read_var_i32 R s = Ok (z, s') /\ inv s' /\ view s' = rest.
Proof.
  intros RF z s rest Hz Hi Hview.
  pose proof (read_var_i32_sim R inv view RF s Hi) as H.
  rewrite Hview, var_i32_roundtrip_list in H by exact Hz.
  apply osim_ok_inv in H. exact H.
Qed.
