(* EvolutionEnum.v — C03 on the constructors of an enum: the variant-level corollary of
   `EvolutionTop.c03_top_fuel`.

   An enum value is written as  00 ++ var_u32(constructor index) ++ record bytes of the variant
   (enc_enum / dec_enum); each variant carries its own record metadata, hence its own evolution
   steps.  Here one variant (at ANY position `nlen pre` of the declaration) evolves along a
   history H: its metadata is `decl_at H kw` in the writer's declaration and `decl_at H kr` in the
   reader's; everything else (type name, variant names, #[sorted_constructors], the other
   variants, transient or not, with arbitrary metadata) is the same on both sides.

   c03_variant_fuel / c03_variant: for ALL legal neutral histories, ALL version pairs, ALL
   well-formed values of the variant, ALL suffixes and region stacks, ALL positions of the variant,
   sorted or not: the reader obtains exactly `expected H kw kr` under the same declaration index,
   or exactly the documented error; the suffix is left in place when `framed`.

   Hypotheses beyond those of c03_top_fuel: NONE.
     - the evolving variant is not transient: built into `enum_with` (v_transient = false); a
       transient constructor cannot be written at all (C13_transient_ser), so nothing is lost;
     - "constructor index < 2^32" and "the writer finds the variant" are consequences of the
       encoder's success (C13_layout), not hypotheses;
     - no condition on names: the reader's case list is the writer's with the metadata of the
       variant declared at position j replaced (`cases_of_enum_with`), because the stable sort
       by name never looks at `v_rec`; duplicates among the names are harmless.
   Fuel: the enum wrapper costs one unit on each side, hence `S (S f)` where c03_top_fuel has
   `S f`, and the reader needs `S (S f) + opt_depth (decl_at H kr)`. *)
From Coq Require Import NArith ZArith List Lia Bool.
From Coq Require Import ZifyBool ZifyN ZifyNat.
From Desert Require Import Bits Outcome IO IOProofs VarintProofs Types Codec CodecWf CodecLemmas
  CodecRt History RecordRt RecordChunkedSpec RecordChunked EvolutionSpec Evolution
  MonoProofs CodecRt2 PropLemmas EvolutionTop MiscProofs.
Import ListNotations.
Open Scope N_scope.

(* ================================================================== *)
(* 0. the enum: variants pre ++ [vname { m }] ++ post                   *)

Definition enum_with (vname : name) (pre post : list variant) (sorted : bool) (m : rmeta) : emeta :=
  mkE sorted (pre ++ mkV vname false m :: post).

(* ================================================================== *)
(* 1. the case list does not depend on the metadata of the variants     *)

(* replace the record metadata of the variant declared at position j *)
Definition set_rec (j : N) (m : rmeta) (x : N * variant) : N * variant :=
  if fst x =? j then (fst x, mkV (v_name (snd x)) (v_transient (snd x)) m) else x.

Lemma set_rec_fst j m x : fst (set_rec j m x) = fst x.
Proof. unfold set_rec. destruct (fst x =? j); reflexivity. Qed.

Lemma set_rec_name j m x : v_name (snd (set_rec j m x)) = v_name (snd x).
Proof. unfold set_rec. destruct (fst x =? j); reflexivity. Qed.

Lemma insert_variant_set_rec j m x : forall l,
  insert_variant (set_rec j m x) (map (set_rec j m) l) = map (set_rec j m) (insert_variant x l).
Proof.
  induction l as [|y l IH]; cbn [map insert_variant]; [reflexivity|].
  rewrite !set_rec_name. destruct (bytes_leb (v_name (snd y)) (v_name (snd x))); cbn [map].
  - rewrite IH. reflexivity.
  - reflexivity.
Qed.

Lemma sort_fold_set_rec j m l : forall acc,
  fold_left (fun acc x => insert_variant x acc) (map (set_rec j m) l) (map (set_rec j m) acc)
  = map (set_rec j m) (fold_left (fun acc x => insert_variant x acc) l acc).
Proof.
  induction l as [|x l IH]; intros acc; cbn [map fold_left]; [reflexivity|].
  rewrite insert_variant_set_rec. apply IH.
Qed.

(* the stable sort by name commutes with a change of metadata *)
Lemma sort_variants_set_rec j m l :
  sort_variants (map (set_rec j m) l) = map (set_rec j m) (sort_variants l).
Proof. unfold sort_variants. exact (sort_fold_set_rec j m l []). Qed.

Lemma number_from_set_rec_id j m (l : list variant) : forall i,
  j < i \/ i + nlen l <= j -> map (set_rec j m) (number_from i l) = number_from i l.
Proof.
  induction l as [|v l IH]; intros i Hi; cbn [number_from map]; [reflexivity|].
  cbn [nlen] in Hi. rewrite IH by lia. unfold set_rec. cbn [fst].
  assert (i =? j = false) as -> by lia. reflexivity.
Qed.

Lemma number_from_enum_with vname pre post m m0 :
  number_from 0 (pre ++ mkV vname false m :: post)
  = map (set_rec (nlen pre) m) (number_from 0 (pre ++ mkV vname false m0 :: post)).
Proof.
  rewrite !number_from_app, map_app. cbn [number_from map].
  rewrite !number_from_set_rec_id by lia.
  unfold set_rec at 1. cbn [fst snd v_name v_transient]. rewrite N.add_0_l, N.eqb_refl. reflexivity.
Qed.

(* the reader's case list is the writer's, with the metadata of the evolving variant replaced:
   same constructor indices, same declaration indices, same names, same transient flags *)
Lemma cases_of_enum_with vname pre post sorted m m0 :
  cases_of (enum_with vname pre post sorted m)
  = map (set_rec (nlen pre) m) (cases_of (enum_with vname pre post sorted m0)).
Proof.
  unfold cases_of, enum_with. cbn [e_sorted e_variants].
  rewrite (number_from_enum_with vname pre post m m0).
  destruct sorted; [apply sort_variants_set_rec | reflexivity].
Qed.

(* the constructor index found by the writer is a position of the case list *)
Lemma case_index_nth_cases cs tag : forall i idx var,
  case_index cs tag i = Some (idx, var) ->
  i <= idx /\ nth_error cs (N.to_nat (idx - i)) = Some (tag, var).
Proof.
  induction cs as [|[d v] cs IH]; intros i idx var Hc; cbn [case_index] in Hc; [discriminate|].
  destruct (d =? tag) eqn:Ed.
  - apply N.eqb_eq in Ed. subst d. injection Hc as <- <-. rewrite N.sub_diag. split; [lia|reflexivity].
  - apply IH in Hc as [Hle Hn]. split; [lia|].
    replace (N.to_nat (idx - i)) with (Datatypes.S (N.to_nat (idx - (i + 1)))) by lia. exact Hn.
Qed.

Lemma nth_error_middle {A} (pre post : list A) x :
  nth_error (pre ++ x :: post) (N.to_nat (nlen pre)) = Some x.
Proof.
  rewrite nlen_length, Nat2N.id, nth_error_app2 by lia. rewrite Nat.sub_diag. reflexivity.
Qed.

(* the writer's case for declaration index j is the evolving variant; the reader has, at the same
   constructor index, the same variant with the reader's metadata *)
Lemma variant_case vname pre post sorted mw mr idx var :
  case_index (cases_of (enum_with vname pre post sorted mw)) (nlen pre) 0 = Some (idx, var) ->
  var = mkV vname false mw /\
  nth_error (cases_of (enum_with vname pre post sorted mr)) (N.to_nat idx)
  = Some (nlen pre, mkV vname false mr).
Proof.
  intros Hc.
  assert (Hvar : var = mkV vname false mw).
  { pose proof (case_index_nth _ _ _ _ Hc) as Hn. unfold enum_with in Hn. cbn [e_variants] in Hn.
    rewrite nth_error_middle in Hn. injection Hn as <-. reflexivity. }
  split; [exact Hvar|]. subst var.
  apply case_index_nth_cases in Hc as [_ Hn]. rewrite N.sub_0_r in Hn.
  rewrite (cases_of_enum_with vname pre post sorted mr mw).
  rewrite (map_nth_error _ _ _ Hn). unfold set_rec. cbn [fst snd v_name v_transient].
  rewrite N.eqb_refl. reflexivity.
Qed.

(* ================================================================== *)
(* 2. the enum wrapper around the record codecs                         *)

Lemma enc_named_enum f nm m v st :
  enc (S f) [mkD nm (DEnum m)] (TNamed 0) v st
  = enc_enum (enc f [mkD nm (DEnum m)]) nm m v st.
Proof. reflexivity. Qed.

Lemma dec_named_enum f nm m s :
  dec a_ops (S f) [mkD nm (DEnum m)] (TNamed 0) s
  = dec_enum a_ops (dec a_ops f [mkD nm (DEnum m)]) nm m s.
Proof. reflexivity. Qed.

Lemma wf_named_enum f nm m tag vs :
  wf_val (S f) [mkD nm (DEnum m)] (TNamed 0) (VNode tag vs)
  = match nth_error (e_variants m) (N.to_nat tag) with
    | Some var => wf_fields (wf_val f [mkD nm (DEnum m)]) (r_fields (v_rec var)) vs
    | None => false
    end.
Proof. reflexivity. Qed.

(* a record all of whose field types are neutral is decoded the same way in every environment *)
Lemma dec_record_neutral_env {St Rg} (D : dops St Rg) g E1 E2 m s :
  Forall (fun fl => nty (f_ty fl)) (r_fields m) ->
  dec_record D (dec D g E1) m s = dec_record D (dec D g E2) m s.
Proof.
  intros HP. apply ole_antisym; apply (dec_record_mono_on nty nty_opt); try exact HP;
    intros t Ht s0; apply dec_ole_neutral; auto.
Qed.

(* the reader, once the writer's constructor index is known to select the variant *)
Lemma dec_enum_variant decf tyname m idx d var b s k st :
  idx < 2 ^ 32 -> nth_error (cases_of m) (N.to_nat idx) = Some (d, var) -> v_transient var = false ->
  dec_enum a_ops decf tyname m (mkA ((0 :: write_var_u32 idx ++ b) ++ s) k st)
  = '(v, s) <- dec_record a_ops decf (v_rec var) (mkA (b ++ s) k st) ;;
    match v with VNode _ vs => Ok (VNode d vs, s) | _ => Err EIllTyped end.
Proof.
  intros Hi Hn Ht. rewrite <- app_comm_cons, <- app_assoc.
  rewrite dec_enum_open by exact Hi.
  rewrite (read_cases_hit decf tyname idx (cases_of m) 0 _ d var)
    by (rewrite ?N.sub_0_r; auto; lia).
  rewrite Ht. unfold in_chunk, adi. cbn [ad_inputs].
  destruct (dec_record a_ops decf (v_rec var) (mkA (b ++ s) k st)) as [[v s1]| | |]; reflexivity.
Qed.

(* ================================================================== *)
(* 3. C03 on a variant                                                  *)

Theorem c03_variant_fuel : forall f H kw kr nm vname pre post sorted vw st b st' s k f',
  legal H = true -> history_neutral H = true ->
  (kw <= length (h_steps H))%nat -> (kr <= length (h_steps H))%nat ->
  let j := nlen pre in   (* declaration index of the evolving variant *)
  let Ew := [mkD nm (DEnum (enum_with vname pre post sorted (decl_at H kw)))] in
  let Er := [mkD nm (DEnum (enum_with vname pre post sorted (decl_at H kr)))] in
  wf_val (S (S f)) Ew (TNamed 0) (VNode j vw) = true ->
  enc (S (S f)) Ew (TNamed 0) (VNode j vw) st = Ok (b, st') ->
  (S (S f) + opt_depth (decl_at H kr) <= f')%nat ->
  match expected H kw kr vw with
  | Ok vs => exists rest st'',
      dec a_ops f' Er (TNamed 0) (mkA (b ++ s) k st) = Ok (VNode j vs, mkA rest k st'') /\
      (framed H kw kr = true -> rest = s)
  | Err e => dec a_ops f' Er (TNamed 0) (mkA (b ++ s) k st) = Err e
  | _ => False
  end.
Proof.
  intros f H kw kr nm vname pre post sorted vw st b st' s k f' Hl Hn Hkw Hkr j Ew Er Hv He Hf'.
  subst Ew Er.
  set (mw := decl_at H kw) in *. set (mr := decl_at H kr) in *.
  set (Mw := enum_with vname pre post sorted mw) in *.
  set (Mr := enum_with vname pre post sorted mr) in *.
  pose proof (decl_at_good H kw Hn) as Gw. pose proof (decl_at_good H kr Hn) as Gr.
  fold mw in Gw. fold mr in Gr.
  (* the writer: 00, the constructor index, the record bytes of the variant *)
  rewrite enc_named_enum in He.
  apply C13_layout in He as (idx & var & b' & Hc & _ & Hidx & Hrec & ->).
  destruct (variant_case vname pre post sorted mw mr idx var Hc) as [-> Hnth].
  cbn [v_rec] in Hrec.
  (* the value is well-formed for the record declaration of the variant *)
  rewrite wf_named_enum in Hv. unfold Mw, enum_with, j in Hv. cbn [e_variants] in Hv.
  rewrite nth_error_middle in Hv. cbn [v_rec] in Hv. fold Mw in Hv.
  assert (Hv' : wf_val (S (S f)) [mkD nm (DRecord mw)] (TNamed 0) (VNode 0 vw) = true).
  { rewrite wf_named_record. eapply (wf_fields_impl_on good_ty); [|exact Gw|exact Hv].
    intros t v [Ht _] Hw. eapply wf_val_neutral_mono; [|exact Ht|exact Hw]. lia. }
  (* and is written the same way by it *)
  assert (He' : enc (S (S f)) [mkD nm (DRecord mw)] (TNamed 0) (VNode 0 vw) st = Ok (b', st')).
  { rewrite enc_named_record. rewrite <- Hrec.
    apply (enc_record_mono_on good_ty); [|exact Gw|rewrite Hrec; discriminate].
    intros t [Ht _] v0 st0. apply enc_ole_neutral; [lia | exact Ht]. }
  destruct f' as [|g]; [lia|].
  pose proof (c03_top_fuel (S f) H kw kr nm vw st b' st' s k (S g) Hl Hn Hkw Hkr Hv' He' Hf') as C.
  fold mr in C. rewrite dec_named_record in C.
  (* the reader: same constructor index, the variant with the reader's metadata *)
  rewrite dec_named_enum.
  rewrite (dec_enum_variant _ nm Mr idx j (mkV vname false mr) b' s k st Hidx Hnth eq_refl).
  cbn [v_rec].
  rewrite (dec_record_neutral_env a_ops g [mkD nm (DEnum Mr)] [mkD nm (DRecord mr)] mr).
  2:{ eapply Forall_impl; [|exact Gr]. intros fl [Hfl _]. exact Hfl. }
  destruct (expected H kw kr vw) as [vs|e|p|]; try contradiction.
  - destruct C as (rest & st'' & Hd & Hrest). exists rest, st''. split; [|exact Hrest].
    rewrite Hd. reflexivity.
  - rewrite C. reflexivity.
Qed.

Theorem c03_variant : forall f H kw kr nm vname pre post sorted vw st b st' s k,
  legal H = true -> history_neutral H = true ->
  (kw <= length (h_steps H))%nat -> (kr <= length (h_steps H))%nat ->
  let j := nlen pre in
  let Ew := [mkD nm (DEnum (enum_with vname pre post sorted (decl_at H kw)))] in
  let Er := [mkD nm (DEnum (enum_with vname pre post sorted (decl_at H kr)))] in
  wf_val (S (S f)) Ew (TNamed 0) (VNode j vw) = true ->
  enc (S (S f)) Ew (TNamed 0) (VNode j vw) st = Ok (b, st') ->
  exists f',   (* enough decoder fuel; more never hurts (dec_mono) *)
  match expected H kw kr vw with
  | Ok vs => exists rest st'',
      dec a_ops f' Er (TNamed 0) (mkA (b ++ s) k st) = Ok (VNode j vs, mkA rest k st'') /\
      (framed H kw kr = true -> rest = s)
  | Err e => dec a_ops f' Er (TNamed 0) (mkA (b ++ s) k st) = Err e
  | _ => False
  end.
Proof.
  intros f H kw kr nm vname pre post sorted vw st b st' s k Hl Hn Hkw Hkr j Ew Er Hv He.
  exists (S (S f) + opt_depth (decl_at H kr))%nat.
  exact (c03_variant_fuel f H kw kr nm vname pre post sorted vw st b st' s k _
           Hl Hn Hkw Hkr Hv He (le_n _)).
Qed.

(* ================================================================== *)
(* 4. non-vacuity:  enum T { A, B { x: u8 } },  B evolves by FieldAdded("y", 7u16)  *)

Module Demo.
  Definition nA : name := [65].  Definition nB : name := [66].
  Definition nx : name := [120]. Definition ny : name := [121].
  Definition nT : name := [84].

  Definition HB : history :=
    mkH [mkField nx (TPrim PU8) false None] [HAdd (mkField ny (TPrim PU16) false None) (VN 7)].
  Definition vA : variant := mkV nA false (mkR [] []).
  Definition Ev (sorted : bool) (k : nat) : env :=
    [mkD nT (DEnum (enum_with nB [vA] [] sorted (decl_at HB k)))].

  Definition suffix : bytes := [9; 9].

  (* the hypotheses of the theorem are satisfiable *)
  Example demo_hyps :
    legal HB = true /\ history_neutral HB = true /\
    wf_val 3 (Ev false 0) (TNamed 0) (VNode 1 [VN 5]) = true /\
    wf_val 3 (Ev false 1) (TNamed 0) (VNode 1 [VN 5; VN 300]) = true /\
    expected HB 0 1 [VN 5] = Ok [VN 5; VN 7] /\
    expected HB 1 0 [VN 5; VN 300] = Ok [VN 5] /\
    framed HB 0 1 = true /\ framed HB 1 0 = true.
  Proof. vm_compute. repeat split; reflexivity. Qed.

  (* version-0 bytes of B { x: 5 } read by version 1: B { x: 5, y: 7 } *)
  Example demo_old_to_new : forall sorted,
    match enc 3 (Ev sorted 0) (TNamed 0) (VNode 1 [VN 5]) [] with
    | Ok (b, _) =>
        b = [0; 1; 0; 5] /\
        dec a_ops 3 (Ev sorted 1) (TNamed 0) (mkA (b ++ suffix) [] [])
        = Ok (VNode 1 [VN 5; VN 7], mkA suffix [] [])
    | _ => False
    end.
  Proof. intros [|]; vm_compute; split; reflexivity. Qed.

  (* version-1 bytes of B { x: 5, y: 300 } read by version 0: B { x: 5 }, the suffix is left *)
  Example demo_new_to_old : forall sorted,
    match enc 3 (Ev sorted 1) (TNamed 0) (VNode 1 [VN 5; VN 300]) [] with
    | Ok (b, _) =>
        b = [0; 1; 1; 2; 4; 5; 1; 44] /\
        dec a_ops 3 (Ev sorted 0) (TNamed 0) (mkA (b ++ suffix) [] [])
        = Ok (VNode 1 [VN 5], mkA suffix [] [])
    | _ => False
    end.
  Proof. intros [|]; vm_compute; split; reflexivity. Qed.

  (* the same two facts obtained from the theorem *)
  Example demo_from_theorem : forall b st',
    enc 3 (Ev true 0) (TNamed 0) (VNode 1 [VN 5]) [] = Ok (b, st') ->
    exists rest st'',
      dec a_ops 3 (Ev true 1) (TNamed 0) (mkA (b ++ suffix) [] []) =
        Ok (VNode 1 [VN 5; VN 7], mkA rest [] st'') /\ rest = suffix.
  Proof.
    intros b st' He.
    pose proof (c03_variant_fuel 1 HB 0 1 nT nB [vA] [] true [VN 5] [] b st' suffix [] 3
                  eq_refl eq_refl (le_S _ _ (le_n 0)) (le_n 1) eq_refl He (le_n 3)) as C.
    change (expected HB 0 1 [VN 5]) with (@Ok (list val) [VN 5; VN 7]) in C.
    destruct C as (rest & st'' & Hd & Hrest). exists rest, st''. split; [exact Hd|].
    apply Hrest. reflexivity.
  Qed.
End Demo.

Print Assumptions c03_variant_fuel.
Print Assumptions c03_variant.
