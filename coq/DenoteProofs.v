(* DenoteProofs.v — what the reference decoder (layer A) accepts: C06 "denotes".
   Everything stated here is fully proved (no axioms; see the Print Assumptions at the end).

   Part 1  the decoder only produces well-formed values ("never invents content")
     decA_wf_all   dec a_ops f E t s = Ok (v, s')  ->  for every large enough fuel g,
                   wf_val g E t v = true  and  normv g E t v = v;  the string table of s' holds
                   valid UTF-8, the unread bytes are bytes, the region stack is as it was found
     decA_wf       the same with "exists g" (the form asked for)
     Hypotheses: wf_env E, wf_ty E t, bytes_ok (a_cur s), strs_ok (a_strs s)  (wf_env_rt E is not
     needed; nothing is assumed about the region stack), and
       defaults_wf E : every #[transient(default)] value is a well-formed value of its field's
                       type, and every FieldAdded default of a written field is a well-formed
                       value of the field's type that is its own normal form.
     defaults_wf is necessary: the decoder hands these values out without looking at them
     (bad_transient_default_*, bad_added_default_* below are the counterexamples).

   Part 2  every accepted input denotes a value that the format can write
     decA_reencode   any environment: for the decoded v there is g0 such that for every fuel
                     g >= g0 and EVERY string table st, enc g E t v st is
                       Ok (b, st2)            and then dec of b ++ r2 from st gives v again, or
                       Err ELengthTooLarge    a length / chunk size over the format's limit, or
                       Err (EUnknownFieldRef n), or
                       Panic POverflow        (the string-id counter: some enc_dedup call on an
                                              extension of st that already holds 2^31-1 strings),
                     and never Fuel.
                     In particular never EIllTyped, EUnsupportedCharacter (decoded chars are
                     < 65536), ESerTransientCtor (the decoder rejects transient constructors).
     decA_reencode'  with Forall mo_ok_decl E (MiscProofs) the EUnknownFieldRef case disappears.
                     wf_env does NOT imply it: bad_env3 below is a well-formed environment all
                     of whose inputs decode to a value the writer refuses.
     decA_denotes    the statement asked for, for environments WITHOUT evolution steps
                     (nosteps E: every record / variant has r_steps = []; the inputs may still
                     carry evolution headers, unknown-length sequences, over-long var-ints ...):
                       nlen (c ++ r) + nlen st + 64 < 2^31  ->
                       exists g b st2, enc g E t v st = Ok (b, st2) /\
                         forall r2 k2, dec a_ops g E t (mkA (b ++ r2) k2 st) = Ok (v, mkA r2 k2 st2)
     Hypotheses of Part 2 beyond those of Part 1: wf_env_rt E (for PropLemmas.roundtrip);
       decA_reencode:  defaults_enc E = defaults_wf E + the FieldAdded defaults have a shape the
                       writer accepts (eov: chars < 65536, no transient constructor, ...)
       decA_denotes:   nosteps E, defaults_wf E, and the size hypothesis above (the 64 is room for
                       a BigDecimal, whose canonical text can be up to 40 bytes longer than the
                       text that was read: prim_small, BigDecLen.v).  No hypothesis on
                       the lengths of the strings already in the table st is needed, and none on
                       zero-width element types: a known count is < 2^31 because negative counts
                       are rejected and a var_i32 is < 2^31; an unknown-length sequence spends
                       one byte per element.
     Why decA_denotes stops at nosteps E: with evolution steps the canonical encoding is not
     bounded by the input (FieldAdded defaults and removed optional fields cost no input bytes,
     the header is written for every step whatever the stored version was, a string given
     literally twice is re-written as a 5-byte id), and the writer checks the BYTE SIZE of every
     chunk against i32::MAX and interns the names of removed fields in the string table; so
     neither ELengthTooLarge nor Panic POverflow can be excluded from nlen input + nlen st < 2^31
     alone.  decA_reencode' is what remains true there.

   Method: a Hoare logic over successful runs of the decoder (hoare / hoare_ad / hoare_c) whose
   postcondition carries a lower bound w on the bytes consumed; the predicate on decoded values
   GV t w v says: at every large enough fuel v is well-formed, is its own normal form, satisfies
   eov (the shape / fuel / size conditions under which enc only fails on a size limit), and --
   without evolution steps -- the writer adds at most ew <= w strings to its table.
   eov_eok and eov_accepts are the two facts about the writer.

   Other observations recorded on the way
   - wf_val is not monotone in its fuel (wf_val_not_monotone below: the map clause compares
     keys normalised at a smaller fuel than the one at which it checks them, so a map of maps
     can pass at fuel 4 and fail from fuel 5 on).  This is why the defaults are required to be
     well-formed "at every large enough fuel", and why decA_wf_all is the meaningful form of
     Part 1: "exists g, wf_val g E t v = true" alone would be a weak statement.
   - sets and maps: collect() (dedup_vals / map_collect) leaves no duplicate w.r.t. val_eqb, and
     decoded elements are their own normal forms, so wf_val's no-duplicates clause holds. *)
From Coq Require Import NArith ZArith List Lia Bool Permutation.
From Coq Require Import ZifyBool ZifyN ZifyNat.
From Desert Require Import Bits Outcome IO IOProofs VarintProofs Types Calendar BigDec Codec CodecWf CodecLemmas
  BigDecLemmas BigDecLen ChronoLemmas TotalProofs MonoProofs CodecRt RecordRt RecordChunkedSpec CodecRt2 PropLemmas MiscProofs.
Import ListNotations.
Open Scope N_scope.

Ltac Zify.zify_post_hook ::= Z.div_mod_to_equations.

(* ================================================================== *)
(*                           definitions                               *)
(* ================================================================== *)

Definition bytes_ok (l : list N) : Prop := Forall (fun b => b < 256) l.
Definition strs_ok (st : strtab) : Prop := Forall (fun s => utf8_valid s = true) st.

(* no declaration of the environment has evolution steps *)
Definition nosteps_decl (d : tdecl) : Prop :=
  match d_body d with
  | DRecord m => r_steps m = []
  | DEnum m => Forall (fun v => r_steps (v_rec v) = []) (e_variants m)
  end.
Definition nosteps (E : env) : Prop := Forall nosteps_decl E.

Definition sumN (l : list N) : N := fold_right N.add 0 l.

(* a length the writer accepts: below 2^31, or at most the bound L on the input *)
Definition small (L n : N) : Prop := n < 2 ^ 31 \/ n <= L.

(* ---------- "the canonical writer accepts this value" ---------- *)
(* sizes of leaves; st0 is the string table the writer starts from *)
Definition prim_small (st0 : strtab) (L : N) (p : prim) (v : val) : Prop :=
  match p, v with
  | (PString | PBytes), VB bs => small L (nlen bs)
  | PDedupString, VB bs => In bs st0 \/ small L (nlen bs)
  | PBigInt, VZ z => small L (nlen (bigint_to_be z))
  (* the rendered text is at most 40 bytes longer than the text that was read *)
  | PBigDecimal, VNode 0 [VZ i; VZ sc] => nlen (bd_render i sc) <= L + 40
  | _, _ => True
  end.

Definition char_bmp (p : prim) (v : val) : Prop :=
  match p, v with PChar, VN c => c < 65536 | _, _ => True end.

Definition eov_prim (E : env) (st0 : strtab) (L : N) (p : prim) (v : val) : Prop :=
  wf_prim_val p v = true /\ char_bmp p v /\ (nosteps E -> prim_small st0 L p v).

Fixpoint eov_fields (ev : ty -> val -> Prop) (fs : list field) (vs : list val) : Prop :=
  match fs, vs with
  | [], [] => True
  | f :: fs', x :: vs' =>
      match f_transient f with Some _ => True | None => ev (f_ty f) x end /\ eov_fields ev fs' vs'
  | _, _ => False
  end.

(* shape, fuel and size conditions under which `enc g E t v` can only fail on a size limit
   (and, when the environment has no evolution steps, does not fail at all) *)
Fixpoint eov (E : env) (st0 : strtab) (L : N) (g : nat) (t : ty) (v : val) {struct g} : Prop :=
  match g with
  | O => False
  | S g' =>
      match t with
      | TPrim p => eov_prim E st0 L p v
      | TOption t' =>
          match v with
          | VNode 0 [] => True
          | VNode 1 [x] => eov E st0 L g' t' x
          | _ => False
          end
      | TResult r e =>
          match v with
          | VNode 0 [x] => eov E st0 L g' e x
          | VNode 1 [x] => eov E st0 L g' r x
          | _ => False
          end
      | TTuple ts =>
          match v with
          | VNode 0 vs => eov_fields (eov E st0 L g') (tuple_fields ts 0) vs
          | _ => False
          end
      | TSeq k e =>
          if byte_path k e then
            match v with VB bs => nosteps E -> small L (nlen bs) | _ => False end
          else
            match v with
            | VNode 0 vs =>
                (length vs <= g')%nat /\ (nosteps E -> small L (nlen vs)) /\
                Forall (eov E st0 L g' e) vs
            | _ => False
            end
      | TMap _ kt vt =>
          match v with
          | VNode 0 vs =>
              (length vs <= g')%nat /\ (nosteps E -> small L (nlen vs)) /\
              Forall (eov E st0 L g' (TTuple [kt; vt])) vs
          | _ => False
          end
      | TWrap _ t' => eov E st0 L g' t' v
      | TPhantom => v = VNode 0 []
      | TNamed n =>
          match lookup_decl E n with
          | None => False
          | Some d =>
              match d_body d, v with
              | DRecord m, VNode 0 vs => eov_fields (eov E st0 L g') (r_fields m) vs
              | DEnum m, VNode tag vs =>
                  match case_index (cases_of m) tag 0 with
                  | Some (idx, var) =>
                      v_transient var = false /\ idx < 2 ^ 32 /\
                      eov_fields (eov E st0 L g') (r_fields (v_rec var)) vs
                  | None => False
                  end
              | _, _ => False
              end
          end
      end
  end.

(* ---------- how many strings the writer may add to its table ---------- *)
Definition ew_prim (p : prim) : N := match p with PDedupString => 1 | _ => 0 end.

Fixpoint ew_fields (ewf : ty -> val -> N) (fs : list field) (vs : list val) : N :=
  match fs, vs with
  | f :: fs', x :: vs' =>
      match f_transient f with Some _ => 0 | None => ewf (f_ty f) x end + ew_fields ewf fs' vs'
  | _, _ => 0
  end.

Fixpoint ew (E : env) (g : nat) (t : ty) (v : val) {struct g} : N :=
  match g with
  | O => 0
  | S g' =>
      match t with
      | TPrim p => ew_prim p
      | TOption t' => match v with VNode 1 [x] => ew E g' t' x | _ => 0 end
      | TResult r e =>
          match v with
          | VNode 0 [x] => ew E g' e x
          | VNode 1 [x] => ew E g' r x
          | _ => 0
          end
      | TTuple ts =>
          match v with VNode 0 vs => ew_fields (ew E g') (tuple_fields ts 0) vs | _ => 0 end
      | TSeq k e =>
          if byte_path k e then 0
          else match v with VNode 0 vs => sumN (map (ew E g' e) vs) | _ => 0 end
      | TMap _ kt vt =>
          match v with VNode 0 vs => sumN (map (ew E g' (TTuple [kt; vt])) vs) | _ => 0 end
      | TWrap _ t' => ew E g' t' v
      | TPhantom => 0
      | TNamed n =>
          match lookup_decl E n with
          | None => 0
          | Some d =>
              match d_body d, v with
              | DRecord m, VNode 0 vs => ew_fields (ew E g') (r_fields m) vs
              | DEnum m, VNode tag vs =>
                  match nth_error (e_variants m) (N.to_nat tag) with
                  | Some var => ew_fields (ew E g') (r_fields (v_rec var)) vs
                  | None => 0
                  end
              | _, _ => 0
              end
          end
      end
  end.

(* ---------- the defaults of a declaration ---------- *)
(* the decoder produces the declared default of a transient field, and the FieldAdded default
   of a field that the stored version does not have, without looking at them *)
Definition wf_default (E : env) (t : ty) (d : val) : Prop :=
  exists g0, forall g, (g0 <= g)%nat -> wf_val g E t d = true.
(* EO: whether the default must also be acceptable to the writer (Part 2) *)
Definition good_default (EO : Prop) (E : env) (t : ty) (d : val) : Prop :=
  exists g0, forall g, (g0 <= g)%nat ->
    wf_val g E t d = true /\ normv g E t d = d /\ (EO -> forall st0 L, eov E st0 L g t d).

Definition rmeta_defaults_ok (EO : Prop) (E : env) (m : rmeta) : Prop :=
  forall f, In f (r_fields m) ->
    match f_transient f with
    | Some d => wf_default E (f_ty f) d
    | None => forall d, field_default (r_steps m) (f_name f) None = Some d -> good_default EO E (f_ty f) d
    end.

Definition defaults_ok (EO : Prop) (E : env) : Prop :=
  forall d, In d E ->
    match d_body d with
    | DRecord m => rmeta_defaults_ok EO E m
    | DEnum m => forall v, In v (e_variants m) -> rmeta_defaults_ok EO E (v_rec v)
    end.

(* Part 1 needs: every transient default is a well-formed value of its field's type, and every
   FieldAdded default of a written field is a well-formed value that is its own normal form *)
Definition defaults_wf (E : env) : Prop := defaults_ok False E.
(* Part 2 needs in addition: the FieldAdded defaults have a shape the writer accepts *)
Definition defaults_enc (E : env) : Prop := defaults_ok True E.

(* ================================================================== *)
(*                         arithmetic lemmas                           *)
(* ================================================================== *)

Lemma bytes_ok_split n l : bytes_ok l -> bytes_ok (ntake n l) /\ bytes_ok (ndrop n l).
Proof.
  unfold bytes_ok. intros H. rewrite <- (ntake_ndrop_app n l) in H.
  apply Forall_app in H. exact H.
Qed.

Lemma of_be_lt bs : bytes_ok bs -> of_be bs < 256 ^ nlen bs.
Proof.
  induction 1 as [|x l Hx Hl IH].
  - cbn. lia.
  - rewrite of_be_cons. cbn [nlen]. rewrite N.pow_succ_r'. nia.
Qed.

Lemma to_signed_range bits u :
  0 < bits -> u < 2 ^ bits ->
  (- 2 ^ (Z.of_N bits - 1) <= to_signed bits u < 2 ^ (Z.of_N bits - 1))%Z.
Proof.
  intros Hb Hu. unfold to_signed.
  assert (E: (2 ^ Z.of_N bits = 2 * 2 ^ (Z.of_N bits - 1))%Z).
  { rewrite <- Z.pow_succ_r by lia. f_equal. lia. }
  assert (E2: Z.of_N (2 ^ (bits - 1)) = (2 ^ (Z.of_N bits - 1))%Z).
  { rewrite N2Z.inj_pow. f_equal. lia. }
  assert (E3: Z.of_N (2 ^ bits) = (2 ^ Z.of_N bits)%Z) by (rewrite N2Z.inj_pow; reflexivity).
  assert (P: (0 < 2 ^ (Z.of_N bits - 1))%Z) by (apply Z.pow_pos_nonneg; lia).
  destruct (u <? 2 ^ (bits - 1)) eqn:C; lia.
Qed.

Lemma lor_lt a b n : a < 2 ^ n -> b < 2 ^ n -> N.lor a b < 2 ^ n.
Proof.
  intros Ha Hb.
  destruct (N.eq_dec a 0) as [->|Na]; [rewrite N.lor_0_l; exact Hb|].
  destruct (N.eq_dec b 0) as [->|Nb]; [rewrite N.lor_0_r; exact Ha|].
  assert (N.lor a b <> 0) by (intros H; apply N.lor_eq_0_iff in H; tauto).
  apply N.log2_lt_pow2; [lia|]. rewrite N.log2_lor.
  apply N.log2_lt_pow2 in Ha; [|lia]. apply N.log2_lt_pow2 in Hb; [|lia]. lia.
Qed.

Lemma land127_lt b : N.land b 127 < 128.
Proof. rewrite N_land_127. apply N.mod_lt. discriminate. Qed.

Lemma shiftl_lt x k n : x < 2 ^ n -> N.shiftl x k < 2 ^ (n + k).
Proof.
  intros H. rewrite N_shiftl_mul, N.pow_add_r.
  apply N.mul_lt_mono_pos_r; [|exact H]. apply N.neq_0_lt_0, N.pow_nonzero. discriminate.
Qed.

Lemma pow2_le_32 a n : n <= 32 -> a < 2 ^ n -> a < 2 ^ 32.
Proof.
  intros Hn Ha. eapply N.lt_le_trans; [exact Ha|]. apply N.pow_le_mono_r; [discriminate | exact Hn].
Qed.

(* BigInt: the minimal encoding of what k bytes denote has at most max 1 k bytes *)
Lemma bigint_nbytes_le z k :
  1 <= k -> (- 2 ^ (Z.of_N (8 * k) - 1) <= z < 2 ^ (Z.of_N (8 * k) - 1))%Z ->
  bigint_nbytes z <= k.
Proof.
  intros Hk Hz. unfold bigint_nbytes.
  set (m := Z.to_N (if (z <? 0)%Z then (- z - 1)%Z else z)).
  assert (Hm : m < 2 ^ (8 * k - 1)).
  { apply N2Z.inj_lt. rewrite N2Z.inj_pow.
    replace (Z.of_N (8 * k - 1)) with (Z.of_N (8 * k) - 1)%Z by lia.
    unfold m. destruct (z <? 0)%Z eqn:Ez; rewrite Z2N.id by lia; lia. }
  destruct (m =? 0) eqn:E0.
  - change (0 / 8) with 0. lia.
  - assert (N.log2 m < 8 * k - 1) by (apply N.log2_lt_pow2; lia).
    assert ((N.log2 m + 1) / 8 <= k - 1).
    { apply N.lt_succ_r. apply N.div_lt_upper_bound; lia. }
    lia.
Qed.

Lemma bigint_of_be_range b0 r :
  bytes_ok (b0 :: r) ->
  let k := nlen (b0 :: r) in
  (- 2 ^ (Z.of_N (8 * k) - 1) <= bigint_of_be (b0 :: r) < 2 ^ (Z.of_N (8 * k) - 1))%Z.
Proof.
  intros Hok k. inversion Hok as [|? ? Hb0 Hr]; subst.
  pose proof (of_be_lt r Hr) as Hlt.
  assert (Hu : of_be (b0 :: r) = b0 * 256 ^ nlen r + of_be r) by apply of_be_cons.
  assert (Hk : k = nlen r + 1) by (unfold k; cbn [nlen]; lia).
  assert (Hp : 256 ^ k = 256 * 256 ^ nlen r).
  { rewrite Hk, N.pow_add_r. change (256 ^ 1) with 256. lia. }
  assert (Hpos : 0 < 256 ^ nlen r) by (apply N.neq_0_lt_0, N.pow_nonzero; discriminate).
  assert (Hhalf : (2 ^ (Z.of_N (8 * k) - 1) = Z.of_N (128 * 256 ^ nlen r))%Z).
  { rewrite pow256. change 128 with (2 ^ 7). rewrite <- N.pow_add_r, N2Z.inj_pow. f_equal. lia. }
  assert (Hfull : (2 ^ Z.of_N (8 * k) = Z.of_N (256 ^ k))%Z) by (rewrite pow256, N2Z.inj_pow; reflexivity).
  unfold bigint_of_be. fold k. rewrite Hhalf, Hfull, Hp, Hu.
  destruct (b0 <? 128) eqn:Eb; nia.
Qed.

Lemma bigint_roundtrip_len bs :
  bytes_ok bs -> nlen (bigint_to_be (bigint_of_be bs)) <= N.max 1 (nlen bs).
Proof.
  intros Hok. unfold bigint_to_be. rewrite nlen_be_bytes, N2Nat.id.
  destruct bs as [|b0 r].
  - cbn [bigint_of_be nlen]. unfold bigint_nbytes. cbn. lia.
  - pose proof (bigint_of_be_range b0 r Hok) as Hr. cbv zeta in Hr.
    assert (1 <= nlen (b0 :: r)) by (cbn [nlen]; lia).
    pose proof (bigint_nbytes_le _ _ H Hr). lia.
Qed.

(* ---------- small list facts ---------- *)
Lemma sumN_app a b : sumN (a ++ b) = sumN a + sumN b.
Proof. unfold sumN. induction a as [|x a IH]; cbn [app fold_right]; lia. Qed.

Lemma sum_set_nth {A} (f : A -> N) : forall (l : list A) i x y,
  nth_error l i = Some x ->
  sumN (map f (set_nth l i y)) + f x = sumN (map f l) + f y.
Proof.
  induction l as [|z l IH]; intros i x y H; [destruct i; discriminate|].
  destruct i as [|i]; cbn [nth_error] in H; cbn [set_nth map sumN fold_right].
  - injection H as ->. lia.
  - specialize (IH i x y H). unfold sumN in IH. lia.
Qed.

Lemma nlen_le_length {A} (l : list A) (n : nat) : (length l <= n)%nat -> nlen l <= N.of_nat n.
Proof. rewrite nlen_length. lia. Qed.

(* ================================================================== *)
(*      collect(): sets and maps built by the decoder are duplicate-free *)
(* ================================================================== *)

Lemma dedup_vals_Forall (P : val -> Prop) : forall l seen, Forall P l -> Forall P (dedup_vals seen l).
Proof.
  induction l as [|x l IH]; intros seen H; cbn [dedup_vals]; [constructor|].
  inversion H as [|? ? Hx Hl]; subst. destruct (existsb (val_eqb x) seen); [apply IH; exact Hl|].
  constructor; [exact Hx | apply IH; exact Hl].
Qed.

Lemma dedup_vals_sum (f : val -> N) : forall l seen,
  sumN (map f (dedup_vals seen l)) <= sumN (map f l).
Proof.
  induction l as [|x l IH]; intros seen; cbn [dedup_vals map]; [unfold sumN; cbn; lia|].
  destruct (existsb (val_eqb x) seen); cbn [map].
  - specialize (IH seen). unfold sumN in *. cbn [fold_right]. lia.
  - specialize (IH (x :: seen)). unfold sumN in *. cbn [fold_right]. lia.
Qed.

Lemma dedup_vals_length : forall l seen, (length (dedup_vals seen l) <= length l)%nat.
Proof.
  induction l as [|x l IH]; intros seen; cbn [dedup_vals length]; [lia|].
  destruct (existsb (val_eqb x) seen); cbn [length].
  - specialize (IH seen). lia.
  - specialize (IH (x :: seen)). lia.
Qed.

Lemma dedup_vals_fresh : forall l seen,
  vals_nodup (dedup_vals seen l) = true /\
  Forall (fun y => existsb (val_eqb y) seen = false) (dedup_vals seen l).
Proof.
  induction l as [|x l IH]; intros seen; cbn [dedup_vals]; [split; [reflexivity | constructor]|].
  destruct (existsb (val_eqb x) seen) eqn:Ex; [apply IH|].
  destruct (IH (x :: seen)) as [Hnd Hfr]. split.
  - cbn [vals_nodup]. rewrite Hnd, andb_true_r. apply negb_true_iff.
    destruct (existsb (val_eqb x) (dedup_vals (x :: seen) l)) eqn:Ey; [|reflexivity].
    apply existsb_exists in Ey as (y & Hy & Hxy).
    rewrite Forall_forall in Hfr. specialize (Hfr y Hy). cbn [existsb] in Hfr.
    apply orb_false_iff in Hfr as [Hfr _]. rewrite val_eqb_sym in Hfr. congruence.
  - constructor; [exact Ex|].
    eapply Forall_impl; [|exact Hfr]. cbv beta. intros y Hy. cbn [existsb] in Hy.
    apply orb_false_iff in Hy as [_ Hy]. exact Hy.
Qed.

Lemma dedup_vals_nodup_true l : vals_nodup (dedup_vals [] l) = true.
Proof. apply dedup_vals_fresh. Qed.

Lemma map_id_Forall {A} (f : A -> A) l : Forall (fun x => f x = x) l -> map f l = l.
Proof. induction 1 as [|x l Hx Hl IH]; cbn [map]; [reflexivity|]. rewrite Hx, IH. reflexivity. Qed.

(* maps *)
Definition psum (fk fv : val -> N) (l : list (val * val)) : N :=
  sumN (map (fun kv => fk (fst kv) + fv (snd kv)) l).

Lemma map_insert_Forall (P : val * val -> Prop) k v : forall acc,
  Forall P acc -> (forall k' v', P (k', v') -> P (k', v)) -> P (k, v) -> Forall P (map_insert k v acc).
Proof.
  induction acc as [|[k' v'] acc IH]; intros Ha Hrep Hkv; cbn [map_insert]; [constructor; [exact Hkv | constructor]|].
  inversion Ha as [|? ? H1 H2]; subst. destruct (val_eqb k' k).
  - constructor; [eapply Hrep; exact H1 | exact H2].
  - constructor; [exact H1 | apply IH; assumption].
Qed.

Lemma map_insert_keys k v : forall acc,
  vals_nodup (map fst acc) = true -> vals_nodup (map fst (map_insert k v acc)) = true.
Proof.
  induction acc as [|[k' v'] acc IH]; intros Hnd; cbn [map_insert]; [reflexivity|].
  cbn [map fst vals_nodup] in Hnd. apply andb_true_iff in Hnd as [H1 H2].
  destruct (val_eqb k' k) eqn:Ek.
  - cbn [map fst vals_nodup]. rewrite H1, H2. reflexivity.
  - cbn [map fst vals_nodup]. rewrite (IH H2), andb_true_r.
    apply negb_true_iff. apply negb_true_iff in H1.
    assert (G : forall acc0, existsb (val_eqb k') (map fst acc0) = false ->
                             existsb (val_eqb k') (map fst (map_insert k v acc0)) = false).
    { induction acc0 as [|[k2 v2] acc0 IH0]; intros H0; cbn [map_insert map fst existsb].
      - rewrite Ek. reflexivity.
      - cbn [map fst existsb] in H0. apply orb_false_iff in H0 as [Ha Hb].
        destruct (val_eqb k2 k); cbn [map fst existsb]; rewrite Ha; cbn [orb]; [exact Hb | apply IH0; exact Hb]. }
    apply G. exact H1.
Qed.

Lemma map_insert_sum fk fv k v : forall acc,
  psum fk fv (map_insert k v acc) <= psum fk fv acc + fk k + fv v.
Proof.
  unfold psum, sumN.
  induction acc as [|[k' v'] acc IH]; cbn [map_insert map fold_right fst snd]; [lia|].
  destruct (val_eqb k' k); cbn [map fold_right fst snd]; lia.
Qed.

Lemma map_insert_length k v : forall acc, (length (map_insert k v acc) <= S (length acc))%nat.
Proof.
  induction acc as [|[k' v'] acc IH]; cbn [map_insert length]; [lia|].
  destruct (val_eqb k' k); cbn [length]; lia.
Qed.

Section MapCollect.
  Variables (Pk Pv : val -> Prop) (fk fv : val -> N).
  Definition pairP (it : val) : Prop := exists k x, it = VNode 0 [k; x] /\ Pk k /\ Pv x.
  Definition pairW (it : val) : N := match it with VNode _ [k; x] => fk k + fv x | _ => 0 end.

  Lemma map_collect_spec : forall items acc,
    Forall pairP items ->
    Forall (fun kv => Pk (fst kv) /\ Pv (snd kv)) acc ->
    vals_nodup (map fst acc) = true ->
    Forall (fun kv => Pk (fst kv) /\ Pv (snd kv)) (map_collect items acc) /\
    vals_nodup (map fst (map_collect items acc)) = true /\
    psum fk fv (map_collect items acc) <= psum fk fv acc + sumN (map pairW items) /\
    (length (map_collect items acc) <= length acc + length items)%nat.
  Proof.
    induction items as [|it items IH]; intros acc Hit Hacc Hnd; cbn [map_collect].
    - split; [exact Hacc|]. split; [exact Hnd|]. unfold sumN. cbn. split; lia.
    - inversion Hit as [|? ? (k & x & -> & Hk & Hx) Hits]; subst. cbn [pair_of].
      destruct (IH (map_insert k x acc) Hits) as (H1 & H2 & H3 & H4).
      + apply map_insert_Forall; [exact Hacc | | ].
        * cbn [fst snd]. intros k' v' [Ha _]. split; [exact Ha | exact Hx].
        * cbn [fst snd]. split; assumption.
      + apply map_insert_keys. exact Hnd.
      + split; [exact H1|]. split; [exact H2|].
        pose proof (map_insert_sum fk fv k x acc) as Hs.
        pose proof (map_insert_length k x acc) as Hl.
        cbn [map pairW length]. unfold sumN in *. cbn [fold_right]. split; lia.
  Qed.
End MapCollect.

Lemma vals_nodup_map_keys (l : list (val * val)) :
  map key_of (map (fun kv => VNode 0 [fst kv; snd kv]) l) = map fst l.
Proof. rewrite map_map. apply map_ext. intros [k v]. reflexivity. Qed.

(* ================================================================== *)
(*            the case list of an enum names each variant once          *)
(* ================================================================== *)
Lemma number_from_fst_ge {A} (l : list A) : forall i x, In x (map fst (number_from i l)) -> i <= x.
Proof.
  induction l as [|y l IH]; intros i x H; cbn [number_from map fst] in H; [destruct H|].
  destruct H as [<-|H]; [lia|]. apply IH in H. lia.
Qed.

Lemma number_from_fst_nodup {A} (l : list A) : forall i, NoDup (map fst (number_from i l)).
Proof.
  induction l as [|y l IH]; intros i; cbn [number_from map fst]; constructor.
  - intros H. apply number_from_fst_ge in H. lia.
  - apply IH.
Qed.

Lemma cases_of_fst_nodup m : NoDup (map fst (cases_of m)).
Proof.
  eapply Permutation_NoDup; [|apply (number_from_fst_nodup (e_variants m) 0)].
  apply Permutation_map. symmetry. apply cases_of_perm.
Qed.

Lemma case_index_at : forall pre d (var : variant) rest i,
  NoDup (map fst (pre ++ (d, var) :: rest)) ->
  case_index (pre ++ (d, var) :: rest) d i = Some (i + nlen pre, var).
Proof.
  induction pre as [|[d0 v0] pre IH]; intros d var rest i Hnd; cbn [app case_index nlen].
  - rewrite N.eqb_refl. f_equal. f_equal. lia.
  - cbn [app map fst] in Hnd. inversion Hnd as [|? ? Hn Hnd']; subst.
    destruct (d0 =? d) eqn:Ed.
    + apply N.eqb_eq in Ed. subst d0. exfalso. apply Hn. rewrite map_app. apply in_or_app. right. left. reflexivity.
    + rewrite (IH d var rest (i + 1) Hnd'). f_equal. f_equal. lia.
Qed.

(* ================================================================== *)
(*        the decoder: a Hoare logic over accepted inputs              *)
(* ================================================================== *)

Section Den.
  Variable E : env.
  Variable st0 : strtab.       (* the string table at the start *)
  Variable L : N.              (* every region the decoder reads from is at most L bytes long *)

  Notation NS := (nosteps E).

  Definition rg_ok (l : bytes) : Prop := bytes_ok l /\ nlen l <= L.
  Definition str_ok1 (x : bytes) : Prop := utf8_valid x = true /\ (In x st0 \/ nlen x <= L).
  Definition sinv (s : astate) : Prop := rg_ok (a_cur s) /\ Forall str_ok1 (a_strs s).

  (* on success: the invariant, the region stack as found, and a lower bound w on the number
     of bytes consumed from the current region, with P w a *)
  Definition post {A} (P : N -> A -> Prop) (s : astate) (r : A * astate) : Prop :=
    sinv (snd r) /\ a_stack (snd r) = a_stack s /\
    exists w, P w (fst r) /\ w + nlen (a_cur (snd r)) <= nlen (a_cur s).

  Definition hoare {A} (P : N -> A -> Prop) (m : outcome (A * astate)) (s : astate) : Prop :=
    sinv s -> match m with Ok r => post P s r | _ => True end.

  Lemma hoare_bind {A B} (P : N -> A -> Prop) (Q : N -> B -> Prop) (m : outcome (A * astate))
      (k : A * astate -> outcome (B * astate)) s :
    hoare P m s ->
    (forall a s' w, P w a -> sinv s' -> a_stack s' = a_stack s ->
       w + nlen (a_cur s') <= nlen (a_cur s) -> w <= L ->
       hoare (fun w' b => Q (w + w') b) (k (a, s')) s') ->
    hoare Q (bind m k) s.
  Proof.
    intros Hm Hk Hs. destruct m as [[a s1]| | |]; cbn [bind]; auto.
    destruct (Hm Hs) as (Hs1 & Hst & w & Pw & Hw). cbn [fst snd] in *.
    assert (HwL : w <= L) by (destruct Hs as [[_ HL] _]; lia).
    specialize (Hk a s1 w Pw Hs1 Hst Hw HwL Hs1).
    destruct (k (a, s1)) as [[b s2]| | |]; auto.
    destruct Hk as (Hs2 & Hst2 & w' & Qw & Hw'). unfold post. cbn [fst snd] in *.
    split; [exact Hs2|]. split; [congruence|]. exists (w + w'). split; [exact Qw | lia].
  Qed.

  Lemma hoare_ok {A} (P : N -> A -> Prop) a s : P 0 a -> hoare P (Ok (a, s)) s.
  Proof. intros H Hs. split; [exact Hs|]. split; [reflexivity|]. exists 0. split; [exact H | cbn [snd]; lia]. Qed.

  Lemma hoare_weaken {A} (P Q : N -> A -> Prop) m s :
    hoare P m s -> (forall w a, P w a -> Q w a) -> hoare Q m s.
  Proof.
    intros H HPQ Hs. specialize (H Hs). destruct m as [[a s1]| | |]; auto.
    destruct H as (H1 & H2 & w & Pw & Hw). split; [exact H1|]. split; [exact H2|]. exists w. auto.
  Qed.

  Lemma hoare_err {A} (P : N -> A -> Prop) e s : hoare P (Err e) s.
  Proof. intros _. exact I. Qed.
  Lemma hoare_fuel {A} (P : N -> A -> Prop) s : hoare P Fuel s.
  Proof. intros _. exact I. Qed.

  (* ---------------------------------------------------------------- *)
  (* primitive reads *)

  Lemma r_u8_h s : hoare (fun w b => w = 1 /\ b < 256) (r_u8 a_reader s) s.
  Proof.
    intros [[Hb Hl] Hst]. aops. destruct s as [cur stk strs]. cbn [a_cur a_strs] in *.
    destruct cur as [|b r]; cbn [bind]; [exact I|].
    inversion Hb as [|? ? Hb0 Hbr]; subst. cbn [nlen] in Hl.
    unfold a_with_cur, post, sinv. cbn [fst snd a_cur a_strs a_stack bind].
    split; [|split; [reflexivity|]].
    - split; [split; [exact Hbr | lia] | exact Hst].
    - exists 1. cbn [nlen]. split; [auto | lia].
  Qed.

  Lemma r_bytes_h n s :
    hoare (fun w bs => w = n /\ nlen bs = n /\ rg_ok bs) (r_bytes a_reader n s) s.
  Proof.
    intros [[Hb Hl] Hst]. aops. destruct s as [cur stk strs]. cbn [a_cur a_strs] in *.
    destruct (n <=? nlen cur) eqn:Hn; cbn [bind]; [|exact I].
    destruct (bytes_ok_split n cur Hb) as [Ht Hd].
    unfold a_with_cur, post, sinv. cbn [fst snd a_cur a_strs a_stack].
    split; [|split; [reflexivity|]].
    - split; [split; [exact Hd | rewrite nlen_ndrop; lia] | exact Hst].
    - exists n. rewrite nlen_ndrop.
      split; [|lia]. split; [reflexivity|]. rewrite nlen_ntake by lia.
      split; [reflexivity|]. split; [exact Ht | rewrite nlen_ntake by lia; lia].
  Qed.

  Lemma read_be_h k s : hoare (fun w n => w = k /\ n < 256 ^ k) (read_be a_reader k s) s.
  Proof.
    unfold read_be. eapply hoare_bind; [apply r_bytes_h|].
    intros bs s1 w (-> & Hlen & Hok & _) _ _ _ _. cbv beta iota.
    apply hoare_ok. split; [lia|]. rewrite <- Hlen. apply of_be_lt. exact Hok.
  Qed.

  Lemma read_i8_h s : hoare (fun w z => w = 1 /\ (-128 <= z < 128)%Z) (read_i8 a_reader s) s.
  Proof.
    unfold read_i8. eapply hoare_bind; [apply r_u8_h|].
    intros b s1 w (-> & Hb) _ _ _ _. cbv beta iota.
    apply hoare_ok. split; [lia|].
    apply (to_signed_range 8 b); [lia | exact Hb].
  Qed.

  Lemma read_signed_h k bits s :
    0 < bits -> 2 ^ bits = 256 ^ k ->
    hoare (fun w z => w = k /\ (- 2 ^ (Z.of_N bits - 1) <= z < 2 ^ (Z.of_N bits - 1))%Z)
          (read_signed a_reader k bits s) s.
  Proof.
    intros Hb Hp. unfold read_signed. eapply hoare_bind; [apply read_be_h|].
    intros u s1 w (-> & Hu) _ _ _ _. cbv beta iota.
    apply hoare_ok. split; [lia|]. apply to_signed_range; [exact Hb | rewrite Hp; exact Hu].
  Qed.

  Lemma read_var_u32_h s : hoare (fun w n => 1 <= w /\ n < 2 ^ 32) (read_var_u32 a_reader s) s.
  Proof.
    unfold read_var_u32.
    eapply hoare_bind; [apply r_u8_h|]. intros b1 s1 w1 (-> & _) _ _ _ _. cbv beta iota zeta.
    pose proof (land127_lt b1) as H1.
    destruct (N.land b1 128 =? 0).
    { apply hoare_ok. split; [lia|]. apply (pow2_le_32 _ 7); [lia | exact H1]. }
    eapply hoare_bind; [apply r_u8_h|]. intros b2 s2 w2 (-> & _) _ _ _ _. cbv beta iota zeta.
    pose proof (land127_lt b2) as H2.
    assert (R2 : N.lor (N.land b1 127) (N.shiftl (N.land b2 127) 7) < 2 ^ 14).
    { apply lor_lt; [apply (N.lt_le_trans _ (2 ^ 7)); [exact H1 | apply N.pow_le_mono_r; lia]|].
      apply (shiftl_lt _ 7 7). exact H2. }
    destruct (N.land b2 128 =? 0).
    { apply hoare_ok. split; [lia|]. apply (pow2_le_32 _ 14); [lia | exact R2]. }
    eapply hoare_bind; [apply r_u8_h|]. intros b3 s3 w3 (-> & _) _ _ _ _. cbv beta iota zeta.
    pose proof (land127_lt b3) as H3.
    assert (R3 : N.lor (N.lor (N.land b1 127) (N.shiftl (N.land b2 127) 7))
                       (N.shiftl (N.land b3 127) 14) < 2 ^ 21).
    { apply lor_lt; [apply (N.lt_le_trans _ (2 ^ 14)); [exact R2 | apply N.pow_le_mono_r; lia]|].
      apply (shiftl_lt _ 14 7). exact H3. }
    destruct (N.land b3 128 =? 0).
    { apply hoare_ok. split; [lia|]. apply (pow2_le_32 _ 21); [lia | exact R3]. }
    eapply hoare_bind; [apply r_u8_h|]. intros b4 s4 w4 (-> & _) _ _ _ _. cbv beta iota zeta.
    pose proof (land127_lt b4) as H4.
    assert (R4 : N.lor (N.lor (N.lor (N.land b1 127) (N.shiftl (N.land b2 127) 7))
                              (N.shiftl (N.land b3 127) 14))
                       (N.shiftl (N.land b4 127) 21) < 2 ^ 28).
    { apply lor_lt; [apply (N.lt_le_trans _ (2 ^ 21)); [exact R3 | apply N.pow_le_mono_r; lia]|].
      apply (shiftl_lt _ 21 7). exact H4. }
    destruct (N.land b4 128 =? 0).
    { apply hoare_ok. split; [lia|]. apply (pow2_le_32 _ 28); [lia | exact R4]. }
    eapply hoare_bind; [apply r_u8_h|]. intros b5 s5 w5 (-> & _) _ _ _ _. cbv beta iota zeta.
    apply hoare_ok. split; [lia|].
    apply lor_lt; [apply (pow2_le_32 _ 28); [lia | exact R4]|].
    apply N.mod_lt. apply N.pow_nonzero. discriminate.
  Qed.

  Lemma read_var_i32_h s :
    hoare (fun w z => 1 <= w /\ (- 2 ^ 31 <= z < 2 ^ 31)%Z) (read_var_i32 a_reader s) s.
  Proof.
    unfold read_var_i32. eapply hoare_bind; [apply read_var_u32_h|].
    intros r s1 w (Hw & Hr) _ _ _ _. cbv beta iota.
    apply hoare_ok. split; [lia|]. apply zigzag_unzigzag. exact Hr.
  Qed.

  Lemma dec_utf8_h bs s :
    hoare (fun w v => w = 0 /\ v = VB bs /\ utf8_valid bs = true) (dec_utf8 bs s) s.
  Proof.
    unfold dec_utf8. destruct (utf8_valid bs) eqn:Hu; [|apply hoare_err].
    apply hoare_ok. auto.
  Qed.

  Definition is_str (w : N) (v : val) : Prop :=
    1 <= w /\ exists bs, v = VB bs /\ utf8_valid bs = true /\ nlen bs <= L.

  Lemma dec_string_h s : hoare is_str (dec_string a_ops s) s.
  Proof.
    unfold dec_string. change (d_rd a_ops) with a_reader.
    eapply hoare_bind; [apply read_var_i32_h|]. intros id s1 w1 (Hw1 & _) _ _ _ _. cbv beta iota.
    eapply hoare_bind; [apply r_bytes_h|]. intros bs s2 w2 (-> & Hlen & Hok & HL) _ _ _ _. cbv beta iota.
    eapply hoare_weaken; [apply dec_utf8_h|].
    intros w v (-> & -> & Hu). split; [lia|]. exists bs. auto.
  Qed.

  Definition is_dstr (w : N) (v : val) : Prop :=
    1 <= w /\ exists bs, v = VB bs /\ utf8_valid bs = true /\ (In bs st0 \/ nlen bs <= L).

  Lemma str_get_In st id bs : str_get st id = Some bs -> In bs st.
  Proof.
    unfold str_get. destruct (id <=? 0)%Z; [discriminate|]. destruct (_ <? _)%Z; [discriminate|].
    apply nth_error_In.
  Qed.

  Lemma str_store_ok bs st : str_ok1 bs -> Forall str_ok1 st -> Forall str_ok1 (str_store bs st).
  Proof.
    intros Hb Hst. unfold str_store. destruct (str_id bs st); [exact Hst|].
    apply Forall_app. split; [exact Hst | constructor; [exact Hb | constructor]].
  Qed.

  Lemma dec_dedup_h s : hoare is_dstr (dec_dedup a_ops s) s.
  Proof.
    unfold dec_dedup. change (d_rd a_ops) with a_reader.
    eapply hoare_bind; [apply read_var_i32_h|]. intros c s1 w1 (Hw1 & _) Hs1 _ _ _. cbv beta iota.
    destruct (c <? 0)%Z.
    - destruct (c =? - 2 ^ 31)%Z; [apply hoare_err|].
      cbn [a_ops d_str_get].
      destruct (str_get (a_strs s1) (- c)) as [bs|] eqn:Hg; [|apply hoare_err].
      apply hoare_ok. split; [lia|]. exists bs. split; [reflexivity|].
      apply str_get_In in Hg. destruct Hs1 as [_ Hst]. rewrite Forall_forall in Hst.
      apply (Hst bs Hg).
    - eapply hoare_bind; [apply r_bytes_h|]. intros bs s2 w2 (-> & Hlen & Hok & HL) _ _ _ _. cbv beta iota.
      eapply hoare_bind; [apply dec_utf8_h|]. intros v s3 w3 (-> & -> & Hu) _ _ _ _. cbv beta iota.
      intros Hs3. cbn [a_ops d_str_store]. unfold post, sinv. cbn [fst snd a_cur a_strs a_stack].
      split; [|split; [reflexivity|]].
      + destruct Hs3 as [Hc Hst]. split; [exact Hc|]. apply str_store_ok; [|exact Hst].
        split; [exact Hu | right; exact HL].
      + exists 0. split; [|lia]. split; [lia|]. exists bs. auto.
  Qed.

  Definition is_bytes (w : N) (v : val) : Prop := 1 <= w /\ exists bs, v = VB bs /\ rg_ok bs.

  Lemma dec_bytes_h s : hoare is_bytes (dec_bytes a_ops s) s.
  Proof.
    unfold dec_bytes. change (d_rd a_ops) with a_reader.
    eapply hoare_bind; [apply read_var_u32_h|]. intros len s1 w1 (Hw1 & _) _ _ _ _. cbv beta iota.
    eapply hoare_bind; [apply r_bytes_h|]. intros bs s2 w2 (-> & Hlen & Hok) _ _ _ _. cbv beta iota.
    apply hoare_ok. split; [lia|]. exists bs. auto.
  Qed.

  (* ---------------------------------------------------------------- *)
  (* features/chrono.rs *)

  Lemma dec_small_h lo hi s :
    hoare (fun _ v => exists n, v = VN n /\ (lo <=? n) && (n <=? hi) = true) (dec_small a_ops lo hi s) s.
  Proof.
    unfold dec_small. change (d_rd a_ops) with a_reader.
    eapply hoare_bind; [apply read_i8_h|]. intros z s1 w1 _ _ _ _ _. cbv beta iota.
    destruct ((Z.of_N lo <=? z) && (z <=? Z.of_N hi))%Z eqn:Hz; [|apply hoare_err].
    apply hoare_ok. exists (Z.to_N z). split; [reflexivity | lia].
  Qed.

  Lemma dec_offset_h s :
    hoare (fun _ v => exists z, v = VZ z /\ valid_offset z = true) (dec_offset a_ops s) s.
  Proof.
    unfold dec_offset. change (d_rd a_ops) with a_reader.
    eapply hoare_bind; [apply r_u8_h|]. intros t s1 w1 _ _ _ _ _. cbv beta iota.
    destruct (t =? 0); [|apply hoare_err].
    eapply hoare_bind; [apply read_var_i32_h|]. intros z s2 w2 _ _ _ _ _. cbv beta iota.
    destruct (valid_offset z) eqn:Hv; [|apply hoare_err].
    apply hoare_ok. eauto.
  Qed.

  Lemma dec_tz_h s :
    hoare (fun _ v => exists nm, v = VB nm /\ tz_known nm = true) (dec_tz a_ops s) s.
  Proof.
    unfold dec_tz. change (d_rd a_ops) with a_reader.
    eapply hoare_bind; [apply r_u8_h|]. intros t s1 w1 _ _ _ _ _. cbv beta iota.
    destruct (t =? 1); [|apply hoare_err].
    eapply hoare_bind; [apply dec_string_h|]. intros v s2 w2 (_ & bs & -> & _) _ _ _ _. cbv beta iota.
    destruct (tz_known bs) eqn:Hk; [|apply hoare_err].
    apply hoare_ok. eauto.
  Qed.

  Lemma dec_ndate_h s : hoare (fun _ v => wf_ndate v = true) (dec_ndate a_ops s) s.
  Proof.
    unfold dec_ndate. change (d_rd a_ops) with a_reader.
    eapply hoare_bind; [apply read_var_u32_h|]. intros y s1 w1 _ _ _ _ _. cbv beta iota.
    eapply hoare_bind; [apply r_u8_h|]. intros m s2 w2 _ _ _ _ _. cbv beta iota.
    eapply hoare_bind; [apply r_u8_h|]. intros d s3 w3 _ _ _ _ _. cbv beta iota zeta.
    destruct (valid_ymd (to_signed 32 y) m d) eqn:Hv; [|apply hoare_err].
    apply hoare_ok. cbn [wf_ndate]. exact Hv.
  Qed.

  Lemma dec_ntime_h s : hoare (fun _ v => wf_ntime v = true) (dec_ntime a_ops s) s.
  Proof.
    unfold dec_ntime. change (d_rd a_ops) with a_reader.
    eapply hoare_bind; [apply r_u8_h|]. intros h s1 w1 _ _ _ _ _. cbv beta iota.
    eapply hoare_bind; [apply r_u8_h|]. intros mi s2 w2 _ _ _ _ _. cbv beta iota.
    eapply hoare_bind; [apply r_u8_h|]. intros sec s3 w3 _ _ _ _ _. cbv beta iota.
    eapply hoare_bind; [apply read_var_u32_h|]. intros ns s4 w4 _ _ _ _ _. cbv beta iota.
    destruct (valid_hmsn h mi sec ns) eqn:Hv; [|apply hoare_err].
    apply hoare_ok. cbn [wf_ntime]. exact Hv.
  Qed.

  Lemma dec_ndt_h s : hoare (fun _ v => wf_ndt v = true) (dec_ndt a_ops s) s.
  Proof.
    unfold dec_ndt.
    eapply hoare_bind; [apply dec_ndate_h|]. intros d s1 w1 Hd _ _ _ _. cbv beta iota.
    eapply hoare_bind; [apply dec_ntime_h|]. intros t s2 w2 Ht _ _ _ _. cbv beta iota.
    apply hoare_ok. cbn [wf_ndt]. rewrite Hd, Ht. reflexivity.
  Qed.

  (* ---------------------------------------------------------------- *)
  (* primitives *)

  Definition GP (p : prim) (w : N) (v : val) : Prop := eov_prim E st0 L p v /\ ew_prim p <= w.

  Lemma GP_intro p w v :
    wf_prim_val p v = true -> char_bmp p v -> (NS -> prim_small st0 L p v) -> ew_prim p <= w -> GP p w v.
  Proof. intros. split; [split; [|split]|]; assumption. Qed.

  Ltac gp := apply hoare_ok; apply GP_intro; [ | exact I | intros _; exact I | cbn [ew_prim]; lia ].

  Lemma dec_prim_h p s : supported_prim p = true -> hoare (GP p) (dec_prim a_ops p s) s.
  Proof.
    intros Hp. destruct p; try discriminate Hp; clear Hp; unfold dec_prim; change (d_rd a_ops) with a_reader.
    - (* u8 *)
      eapply hoare_bind; [apply r_u8_h|]. intros b s1 w1 (_ & Hb) _ _ _ _. cbv beta iota. gp.
      cbn [wf_prim_val prim_bits]. change (2 ^ 8) with 256. lia.
    - (* i8 *)
      eapply hoare_bind; [apply read_i8_h|]. intros z s1 w1 (_ & Hz) _ _ _ _. cbv beta iota. gp.
      cbn [wf_prim_val prim_bits]. change (2 ^ (Z.of_N 8 - 1))%Z with 128%Z. lia.
    - (* u16 *)
      eapply hoare_bind; [apply read_be_h|]. intros n s1 w1 (_ & Hn) _ _ _ _. cbv beta iota. gp.
      cbn [wf_prim_val prim_bits]. apply N.ltb_lt. exact Hn.
    - (* i16 *)
      eapply hoare_bind; [apply (read_signed_h 2 16); [lia | reflexivity]|].
      intros z s1 w1 (_ & Hz) _ _ _ _. cbv beta iota. gp.
      cbn [wf_prim_val prim_bits]. lia.
    - (* u32 *)
      eapply hoare_bind; [apply read_be_h|]. intros n s1 w1 (_ & Hn) _ _ _ _. cbv beta iota. gp.
      cbn [wf_prim_val prim_bits]. apply N.ltb_lt. exact Hn.
    - (* i32 *)
      eapply hoare_bind; [apply (read_signed_h 4 32); [lia | reflexivity]|].
      intros z s1 w1 (_ & Hz) _ _ _ _. cbv beta iota. gp.
      cbn [wf_prim_val prim_bits]. lia.
    - (* u64 *)
      eapply hoare_bind; [apply read_be_h|]. intros n s1 w1 (_ & Hn) _ _ _ _. cbv beta iota. gp.
      cbn [wf_prim_val prim_bits]. apply N.ltb_lt. exact Hn.
    - (* i64 *)
      eapply hoare_bind; [apply (read_signed_h 8 64); [lia | reflexivity]|].
      intros z s1 w1 (_ & Hz) _ _ _ _. cbv beta iota. gp.
      cbn [wf_prim_val prim_bits]. lia.
    - (* u128 *)
      eapply hoare_bind; [apply read_be_h|]. intros n s1 w1 (_ & Hn) _ _ _ _. cbv beta iota. gp.
      cbn [wf_prim_val prim_bits]. apply N.ltb_lt. exact Hn.
    - (* i128 *)
      eapply hoare_bind; [apply (read_signed_h 16 128); [lia | reflexivity]|].
      intros z s1 w1 (_ & Hz) _ _ _ _. cbv beta iota. gp.
      cbn [wf_prim_val prim_bits]. lia.
    - (* f32 *)
      eapply hoare_bind; [apply read_be_h|]. intros n s1 w1 (_ & Hn) _ _ _ _. cbv beta iota. gp.
      cbn [wf_prim_val prim_bits]. apply N.ltb_lt. exact Hn.
    - (* f64 *)
      eapply hoare_bind; [apply read_be_h|]. intros n s1 w1 (_ & Hn) _ _ _ _. cbv beta iota. gp.
      cbn [wf_prim_val prim_bits]. apply N.ltb_lt. exact Hn.
    - (* bool *)
      eapply hoare_bind; [apply r_u8_h|]. intros b s1 w1 _ _ _ _ _. cbv beta iota. gp.
      cbn [wf_prim_val]. destruct (b =? 0); reflexivity.
    - (* unit *)
      gp. reflexivity.
    - (* char *)
      eapply hoare_bind; [apply read_be_h|]. intros c s1 w1 (_ & Hc) _ _ _ _. cbv beta iota.
      change (256 ^ 2) with 65536 in Hc.
      destruct (in_range 55296 57343 c) eqn:Hr; [apply hoare_err|].
      apply hoare_ok. apply GP_intro; [ | exact Hc | intros _; exact I | cbn [ew_prim]; lia ].
      cbn [wf_prim_val]. rewrite Hr. cbn [negb]. rewrite andb_true_r. lia.
    - (* String *)
      eapply hoare_weaken; [apply dec_string_h|]. intros w v (Hw & bs & -> & Hu & Hl).
      apply GP_intro; [exact Hu | exact I | intros _; right; exact Hl | cbn [ew_prim]; lia].
    - (* DeduplicatedString *)
      eapply hoare_weaken; [apply dec_dedup_h|]. intros w v (Hw & bs & -> & Hu & Hl).
      apply GP_intro; [exact Hu | exact I | | cbn [ew_prim]; lia].
      intros _. cbn [prim_small]. destruct Hl as [Hl|Hl]; [left; exact Hl | right; right; exact Hl].
    - (* Duration *)
      eapply hoare_bind; [apply read_be_h|]. intros secs s1 w1 _ _ _ _ _. cbv beta iota.
      eapply hoare_bind; [apply read_be_h|]. intros nanos s2 w2 _ _ _ _ _. cbv beta iota zeta.
      destruct (secs + nanos / 1000000000 <? 2 ^ 64) eqn:Hs; [|apply hoare_err]. gp.
      cbn [wf_prim_val]. rewrite Hs. cbn [andb]. apply N.ltb_lt. apply N.mod_lt. discriminate.
    - (* Bytes *)
      eapply hoare_weaken; [apply dec_bytes_h|]. intros w v (Hw & bs & -> & _ & Hl).
      apply GP_intro; [reflexivity | exact I | intros _; right; exact Hl | cbn [ew_prim]; lia].
    - (* Uuid *)
      eapply hoare_bind; [apply r_bytes_h|]. intros bs s1 w1 (_ & Hlen & _) _ _ _ _. cbv beta iota. gp.
      cbn [wf_prim_val]. lia.
    - (* BigInt *)
      eapply hoare_bind; [apply dec_bytes_h|]. intros v s1 w1 (Hw & bs & -> & Hok & Hl) _ _ _ _. cbv beta iota.
      apply hoare_ok. apply GP_intro; [reflexivity | exact I | | cbn [ew_prim]; lia].
      intros _. cbn [prim_small]. pose proof (bigint_roundtrip_len bs Hok) as Hb.
      unfold small. change (2 ^ 31) with 2147483648.
      destruct (nlen bs =? 0) eqn:E0; [left | right]; lia.
    - (* BigDecimal *)
      eapply hoare_bind; [apply dec_string_h|].
      intros v s1 w1 (Hw & bs & -> & Hu & Hl) _ _ _ _. cbv beta iota.
      destruct (bd_parse bs) as [p|] eqn:Hbp; [|apply hoare_err].
      assert (Hn : bd_normal (fst (bd_norm p)) (snd (bd_norm p)) = true).
      { destruct p as [i sc]. apply bd_norm_normal. eapply bd_parse_scale. exact Hbp. }
      apply hoare_ok. apply GP_intro; [exact Hn | exact I | | cbn [ew_prim]; lia].
      intros _. cbn [prim_small].
      pose proof (bd_render_len_tight (fst (bd_norm p)) (snd (bd_norm p)) (bd_normal_i64 _ _ Hn)) as Hr.
      pose proof (bd_parse_len bs p Hbp) as Hq. lia.
    - (* Weekday *)
      eapply hoare_weaken; [apply dec_small_h|]. intros w v (n & -> & Hn).
      apply GP_intro; [exact Hn | exact I | intros _; exact I | cbn [ew_prim]; lia].
    - (* Month *)
      eapply hoare_weaken; [apply dec_small_h|]. intros w v (n & -> & Hn).
      apply GP_intro; [exact Hn | exact I | intros _; exact I | cbn [ew_prim]; lia].
    - (* FixedOffset *)
      eapply hoare_weaken; [apply dec_offset_h|]. intros w v (z & -> & Hz).
      apply GP_intro; [exact Hz | exact I | intros _; exact I | cbn [ew_prim]; lia].
    - (* Tz *)
      eapply hoare_weaken; [apply dec_tz_h|]. intros w v (nm & -> & Hk).
      apply GP_intro; [exact Hk | exact I | intros _; exact I | cbn [ew_prim]; lia].
    - (* DateTime<Utc> *)
      eapply hoare_bind; [apply (read_signed_h 8 64); [lia | reflexivity]|].
      intros secs s1 w1 _ _ _ _ _. cbv beta iota.
      eapply hoare_bind; [apply read_be_h|]. intros nanos s2 w2 _ _ _ _ _. cbv beta iota.
      destruct (valid_ts secs nanos) eqn:Hv; [|apply hoare_err]. gp. exact Hv.
    - (* NaiveDate *)
      eapply hoare_weaken; [apply dec_ndate_h|]. intros w v Hv.
      apply GP_intro; [exact Hv | destruct v; exact I | intros _; destruct v; exact I | cbn [ew_prim]; lia].
    - (* NaiveTime *)
      eapply hoare_weaken; [apply dec_ntime_h|]. intros w v Hv.
      apply GP_intro; [exact Hv | destruct v; exact I | intros _; destruct v; exact I | cbn [ew_prim]; lia].
    - (* NaiveDateTime *)
      eapply hoare_weaken; [apply dec_ndt_h|]. intros w v Hv.
      apply GP_intro; [exact Hv | destruct v; exact I | intros _; destruct v; exact I | cbn [ew_prim]; lia].
    - (* DateTime<Local> *)
      eapply hoare_weaken; [apply dec_ndt_h|]. intros w v Hv.
      apply GP_intro; [exact Hv | destruct v; exact I | intros _; destruct v; exact I | cbn [ew_prim]; lia].
    - (* DateTime<FixedOffset> *)
      eapply hoare_bind; [apply dec_ndt_h|]. intros dt s1 w1 Hdt _ _ _ _. cbv beta iota.
      eapply hoare_bind; [apply dec_offset_h|]. intros off s2 w2 (z & -> & Hz) _ _ _ _. cbv beta iota.
      destruct (valid_local_with_offset (ndt_secs_of dt) z) eqn:Hv; [|apply hoare_err]. gp.
      cbn [wf_prim_val]. rewrite Hdt, Hz, Hv. reflexivity.
    - (* DateTime<Tz> *)
      eapply hoare_bind; [apply dec_ndt_h|]. intros dt s1 w1 Hdt _ _ _ _. cbv beta iota.
      eapply hoare_bind; [apply dec_tz_h|]. intros tz s2 w2 (nm & -> & Hk) _ _ _ _. cbv beta iota. gp.
      cbn [wf_prim_val]. rewrite Hdt, Hk. reflexivity.
    - (* var_u32 *)
      eapply hoare_bind; [apply read_var_u32_h|]. intros n s1 w1 (_ & Hn) _ _ _ _. cbv beta iota. gp.
      cbn [wf_prim_val]. apply N.ltb_lt. exact Hn.
    - (* var_i32 *)
      eapply hoare_bind; [apply read_var_i32_h|]. intros z s1 w1 (_ & Hz) _ _ _ _. cbv beta iota. gp.
      cbn [wf_prim_val]. lia.
  Qed.

  (* whether the FieldAdded defaults are also required to be acceptable to the writer *)
  Variable EO : Prop.

  (* ---------------------------------------------------------------- *)
  (* the predicate on decoded values: for every large enough fuel the value is well-formed,
     is its own normal form, is accepted by the writer, and (without evolution steps) makes
     the writer add at most w strings to its table *)

  Definition GV1 (g : nat) (t : ty) (x : val) : Prop :=
    wf_val g E t x = true /\ normv g E t x = x /\ (EO -> eov E st0 L g t x).

  Definition GV (t : ty) (w : N) (v : val) : Prop :=
    exists g0, forall g, (g0 <= g)%nat -> GV1 g t v /\ (NS -> ew E g t v <= w).

  Definition GVl (e : ty) (w : N) (xs : list val) : Prop :=
    exists g0, forall g, (g0 <= g)%nat ->
      Forall (GV1 g e) xs /\ (NS -> sumN (map (ew E g e) xs) <= w).

  Lemma GV_mono t w w' v : GV t w v -> w <= w' -> GV t w' v.
  Proof.
    intros [g0 H] Hw. exists g0. intros g Hg. destruct (H g Hg) as [H1 H2].
    split; [exact H1|]. intros Hn. specialize (H2 Hn). lia.
  Qed.

  Lemma GVl_mono e w w' xs : GVl e w xs -> w <= w' -> GVl e w' xs.
  Proof.
    intros [g0 H] Hw. exists g0. intros g Hg. destruct (H g Hg) as [H1 H2].
    split; [exact H1|]. intros Hn. specialize (H2 Hn). lia.
  Qed.

  Lemma GVl_nil e w : GVl e w [].
  Proof. exists O. intros g _. split; [constructor|]. intros _. unfold sumN. cbn. lia. Qed.

  Lemma GVl_cons e w1 w2 x xs : GV e w1 x -> GVl e w2 xs -> GVl e (w1 + w2) (x :: xs).
  Proof.
    intros [g1 H1] [g2 H2]. exists (Nat.max g1 g2). intros g Hg.
    destruct (H1 g ltac:(lia)) as [A1 A2]. destruct (H2 g ltac:(lia)) as [B1 B2].
    split; [constructor; assumption|]. intros Hn. specialize (A2 Hn). specialize (B2 Hn).
    cbn [map]. unfold sumN in *. cbn [fold_right]. lia.
  Qed.

  Lemma GV_prim p w v : GP p w v -> GV (TPrim p) w v.
  Proof.
    intros [Hp Hw]. exists 1%nat. intros g Hg. destruct g as [|g]; [lia|].
    split; [|intros _; exact Hw].
    split; [exact (proj1 Hp)|]. split; [destruct v; reflexivity | intros _; exact Hp].
  Qed.

  (* ---------------------------------------------------------------- *)
  (* sequences *)
  Section Seq.
    Variable d : astate -> outcome (val * astate).
    Variable e : ty.
    Hypothesis Hd : forall s, hoare (GV e) (d s) s.

    Lemma dec_known_h : forall fuel n s,
      hoare (fun w xs => GVl e w xs /\ nlen xs = n /\ (length xs <= fuel)%nat) (dec_known fuel d n s) s.
    Proof.
      induction fuel as [|fl IH]; intros n s; cbn [dec_known].
      - destruct (n =? 0) eqn:En; [|apply hoare_fuel].
        apply hoare_ok. split; [apply GVl_nil|]. cbn [nlen length]. lia.
      - destruct (n =? 0) eqn:En.
        { apply hoare_ok. split; [apply GVl_nil|]. cbn [nlen length]. lia. }
        eapply hoare_bind; [apply Hd|]. intros x s1 w1 Hx _ _ _ _. cbv beta iota.
        eapply hoare_bind; [apply IH|]. intros xs s2 w2 (Hxs & Hn & Hl) _ _ _ _. cbv beta iota.
        apply hoare_ok. split; [|cbn [nlen length]; lia].
        eapply GVl_mono; [apply GVl_cons; eassumption | lia].
    Qed.

    Lemma dec_unknown_h : forall fuel s,
      hoare (fun w xs => GVl e w xs /\ nlen xs + 1 <= w /\ (length xs < fuel)%nat)
            (dec_unknown a_ops fuel d s) s.
    Proof.
      induction fuel as [|fl IH]; intros s; cbn [dec_unknown]; [apply hoare_fuel|].
      change (d_rd a_ops) with a_reader.
      eapply hoare_bind; [apply r_u8_h|]. intros tag s1 w0 (-> & _) _ _ _ _. cbv beta iota.
      destruct (tag =? 0).
      { apply hoare_ok. split; [apply GVl_nil|]. cbn [nlen length]. lia. }
      destruct (tag =? 1); [|apply hoare_err].
      eapply hoare_bind; [apply Hd|]. intros x s2 w1 Hx _ _ _ _. cbv beta iota.
      eapply hoare_bind; [apply IH|]. intros xs s3 w2 (Hxs & Hn & Hl) _ _ _ _. cbv beta iota.
      apply hoare_ok. split; [|cbn [nlen length]; lia].
      eapply GVl_mono; [apply GVl_cons; eassumption | lia].
    Qed.

    Lemma as_usize_small n : (0 <= n < 2 ^ 31)%Z -> as_usize n = Z.to_N n.
    Proof.
      intros H. unfold as_usize. change (2 ^ 31)%Z with 2147483648%Z in H.
      change (2 ^ 64)%Z with 18446744073709551616%Z. rewrite Z.mod_small by lia. reflexivity.
    Qed.

    Lemma dec_seq_items_h fuel s :
      hoare (fun w xs => GVl e w xs /\ (nlen xs < 2 ^ 31 \/ nlen xs <= w) /\ (length xs <= fuel)%nat)
            (dec_seq_items a_ops fuel d s) s.
    Proof.
      unfold dec_seq_items. change (d_rd a_ops) with a_reader.
      assert (H : hoare (fun w xs => GVl e w xs /\ (nlen xs < 2 ^ 31 \/ nlen xs <= w) /\ (length xs <= fuel)%nat)
                    (bind (read_var_i32 a_reader s)
                       (fun '(n, s) => if (n =? -1)%Z then dec_unknown a_ops fuel d s
                                       else if (n <? 0)%Z then Err EDeserializationFailure
                                       else dec_known fuel d (as_usize n) s)) s).
      { eapply hoare_bind; [apply read_var_i32_h|]. intros n s1 w0 (Hw0 & Hn) _ _ _ _. cbv beta iota.
        destruct (n =? -1)%Z.
        - eapply hoare_weaken; [apply dec_unknown_h|]. cbv beta.
          intros w xs (H1 & H2 & H3). split; [eapply GVl_mono; [exact H1 | lia]|].
          split; [right; lia | lia].
        - destruct (n <? 0)%Z eqn:En; [apply hoare_err|].
          eapply hoare_weaken; [apply dec_known_h|]. cbv beta.
          intros w xs (H1 & H2 & H3). split; [eapply GVl_mono; [exact H1 | lia]|].
          split; [|exact H3]. left. rewrite H2, as_usize_small by lia.
          change (2 ^ 31)%Z with 2147483648%Z in Hn. change (2 ^ 31) with 2147483648. lia. }
      intros Hs. specialize (H Hs).
      destruct (read_var_i32 a_reader s) as [[n s1]| | |]; cbn [bind] in H; try exact I. exact H.
    Qed.
  End Seq.

  (* ---------------------------------------------------------------- *)
  (* the AdtDeserializer: regions waiting in `ad_inputs` are part of the input *)

  Definition ad_ok (ad : @adt_de bytes) : Prop :=
    Forall rg_ok (ad_inputs ad) /\ (forall i, ad_ctor ad = Some i -> i < 2 ^ 32).
  Definition adw (ad : @adt_de bytes) : N := sumN (map nlen (ad_inputs ad)).

  Definition post_ad {A} (P : N -> A -> Prop) (ad : @adt_de bytes) (s : astate)
      (r : A * @adt_de bytes * astate) : Prop :=
    sinv (snd r) /\ a_stack (snd r) = a_stack s /\ ad_ok (snd (fst r)) /\
    nlen (a_cur (snd r)) <= nlen (a_cur s) /\
    exists w, P w (fst (fst r)) /\
      w + nlen (a_cur (snd r)) + adw (snd (fst r)) <= nlen (a_cur s) + adw ad.

  Definition hoare_ad {A} (P : N -> A -> Prop) (ad : @adt_de bytes)
      (m : outcome (A * @adt_de bytes * astate)) (s : astate) : Prop :=
    sinv s -> ad_ok ad -> match m with Ok r => post_ad P ad s r | _ => True end.

  Lemma hoare_ad_bind {A B} (P : N -> A -> Prop) (Q : N -> B -> Prop) ad
      (m : outcome (A * @adt_de bytes * astate))
      (k : A * @adt_de bytes * astate -> outcome (B * @adt_de bytes * astate)) s :
    hoare_ad P ad m s ->
    (forall a ad1 s1 w, P w a -> hoare_ad (fun w' b => Q (w + w') b) ad1 (k (a, ad1, s1)) s1) ->
    hoare_ad Q ad (bind m k) s.
  Proof.
    intros Hm Hk Hs Ha. destruct m as [[[a ad1] s1]| | |]; cbn [bind]; auto.
    destruct (Hm Hs Ha) as (Hs1 & Hst & Ha1 & Hc & w & Pw & Hw). cbn [fst snd] in *.
    specialize (Hk a ad1 s1 w Pw Hs1 Ha1).
    destruct (k (a, ad1, s1)) as [[[b ad2] s2]| | |]; auto.
    destruct Hk as (Hs2 & Hst2 & Ha2 & Hc2 & w' & Qw & Hw'). unfold post_ad. cbn [fst snd] in *.
    split; [exact Hs2|]. split; [congruence|]. split; [exact Ha2|]. split; [lia|].
    exists (w + w'). split; [exact Qw | lia].
  Qed.

  Lemma hoare_ad_ok {A} (P : N -> A -> Prop) a ad s : P 0 a -> hoare_ad P ad (Ok (a, ad, s)) s.
  Proof.
    intros H Hs Ha. unfold post_ad. cbn [fst snd]. split; [exact Hs|]. split; [reflexivity|].
    split; [exact Ha|]. split; [lia|]. exists 0. split; [exact H | lia].
  Qed.

  Lemma hoare_ad_weaken {A} (P Q : N -> A -> Prop) ad m s :
    hoare_ad P ad m s -> (forall w a, P w a -> Q w a) -> hoare_ad Q ad m s.
  Proof.
    intros H HPQ Hs Ha. specialize (H Hs Ha). destruct m as [[[a ad1] s1]| | |]; auto.
    destruct H as (H1 & H2 & H3 & H4 & w & Pw & Hw). unfold post_ad.
    split; [exact H1|]. split; [exact H2|]. split; [exact H3|]. split; [exact H4|]. exists w. auto.
  Qed.

  (* the same computation started from an AdtDeserializer with the same regions *)
  Lemma hoare_ad_change {A} (P : N -> A -> Prop) ad ad1 m s :
    ad_inputs ad1 = ad_inputs ad -> ad_ctor ad1 = ad_ctor ad ->
    hoare_ad P ad1 m s -> hoare_ad P ad m s.
  Proof.
    intros Hi Hc H Hs Ha.
    assert (Ha1 : ad_ok ad1) by (destruct Ha as [A1 A2]; split; [rewrite Hi; exact A1 | rewrite Hc; exact A2]).
    specialize (H Hs Ha1). destruct m as [[[a ad2] s2]| | |]; auto.
    unfold post_ad, adw in *. rewrite Hi in H. exact H.
  Qed.

  Lemma in_chunk_h {A} (P : N -> A -> Prop) ad chunk (body : astate -> outcome (A * astate)) s :
    (forall s, hoare P (body s) s) -> hoare_ad P ad (in_chunk a_ops ad chunk body s) s.
  Proof.
    intros Hb Hs Ha. unfold in_chunk. destruct (ad_inputs ad) as [|i0 ir] eqn:Hi.
    - specialize (Hb s Hs). destruct (body s) as [[a s1]| | |]; cbn [bind]; auto.
      destruct Hb as (Hs1 & Hst & w & Pw & Hw). unfold post_ad. cbn [fst snd] in *.
      split; [exact Hs1|]. split; [exact Hst|]. split; [exact Ha|]. split; [lia|].
      exists w. split; [exact Pw | lia].
    - rewrite <- Hi.
      destruct (nth_error (ad_inputs ad) (N.to_nat chunk)) as [rg|] eqn:Hn; [|exact I].
      cbn [a_ops d_push d_pop bind].
      assert (Hrg : rg_ok rg).
      { destruct Ha as [Ha _]. rewrite Forall_forall in Ha. apply Ha. eapply nth_error_In. exact Hn. }
      assert (Hs1 : sinv (mkA rg (a_cur s :: a_stack s) (a_strs s))).
      { destruct Hs as [Hc Hst]. split; [exact Hrg | exact Hst]. }
      specialize (Hb _ Hs1).
      destruct (body (mkA rg (a_cur s :: a_stack s) (a_strs s))) as [[a s2]| | |]; cbn [bind]; auto.
      destruct Hb as (Hs2 & Hst2 & w & Pw & Hw). cbn [fst snd a_stack a_cur] in *.
      rewrite Hst2. cbn [bind]. unfold post_ad. cbn [fst snd a_stack a_cur a_strs].
      destruct Hs as [Hc Hstr]. destruct Hs2 as [Hc2 Hstr2].
      split; [split; [exact Hc | exact Hstr2]|]. split; [reflexivity|].
      split; [|split; [lia|]].
      + destruct Ha as [Ha1 Ha2]. split; [|exact Ha2].
        unfold ad_set_input. cbn [ad_inputs]. apply set_nth_Forall; [exact Ha1 | exact Hc2].
      + exists w. split; [exact Pw|]. unfold adw, ad_set_input. cbn [ad_inputs].
        pose proof (sum_set_nth (A:=bytes) (@nlen N) (ad_inputs ad) (N.to_nat chunk) rg (a_cur s2) Hn) as HS.
        match goal with |- _ + _ + ?X <= _ + ?Y =>
          match type of HS with ?X' + _ = ?Y' + _ => change X' with X in HS; change Y' with Y in HS end end.
        lia.
  Qed.

  Lemma ad_record_index_same (ad : @adt_de bytes) chunk fp ad1 :
    ad_record_index ad chunk = Ok (fp, ad1) ->
    ad_inputs ad1 = ad_inputs ad /\ ad_ctor ad1 = ad_ctor ad.
  Proof.
    unfold ad_record_index. destruct (nth_error _ _); [|discriminate].
    destruct (_ <? _)%Z; [discriminate|]. intros H. injection H as _ <-. split; reflexivity.
  Qed.

  (* ---------------------------------------------------------------- *)
  (* fields *)
  Lemma GV_none t' w : GV (TOption t') w VNone.
  Proof.
    exists 1%nat. intros g Hg. destruct g as [|g]; [lia|]. split; [|intros _; cbn [ew VNone]; lia].
    split; [reflexivity|]. split; [reflexivity | intros _; exact I].
  Qed.

  Lemma GV_some t' w x : GV t' w x -> GV (TOption t') w (VSome x).
  Proof.
    intros [g0 H]. exists (S g0). intros g Hg. destruct g as [|g]; [lia|].
    destruct (H g ltac:(lia)) as ((H1 & H2 & H3) & H4). unfold VSome.
    split; [|intros Hn; cbn [ew]; exact (H4 Hn)].
    split; [cbn [wf_val]; exact H1|]. split; [|intros HO; cbn [eov]; exact (H3 HO)].
    change (normv (S g) E (TOption t') (VNode 1 [x])) with (VNode 1 [normv g E t' x]).
    rewrite H2. reflexivity.
  Qed.

  Section Field.
    Variable steps : list step.
    Variable d : astate -> outcome (val * astate).

    Lemma read_field_h t n dflt ad s :
      (forall s, hoare (GV t) (d s) s) ->
      (forall dv, dflt = Some dv -> GV t 0 dv) ->
      hoare_ad (GV t) ad (read_field a_ops steps d n dflt ad s) s.
    Proof.
      intros Hd Hdf. unfold read_field.
      destruct (mem_name n (ad_removed ad)); [intros _ _; exact I|]. cbv zeta.
      destruct (ad_record_index ad _) as [[fp ad1]| | |] eqn:Hri; cbn [bind]; try (intros _ _; exact I).
      apply ad_record_index_same in Hri as [Hi Hc].
      eapply hoare_ad_change; [exact Hi | exact Hc|].
      destruct (ad_stored ad1 <? _).
      - destruct dflt as [dv|]; [|intros _ _; exact I]. apply hoare_ad_ok. apply Hdf. reflexivity.
      - apply in_chunk_h. intros s0. change (d_rd a_ops) with a_reader.
        destruct (mem_pos fp (ad_mo ad1)); [|apply Hd].
        eapply hoare_bind; [apply r_u8_h|]. intros b s1 w1 _ _ _ _ _. cbv beta iota.
        destruct (b =? 0); [apply hoare_err|].
        eapply hoare_weaken; [apply Hd|]. intros w v Hv. eapply GV_mono; [exact Hv | lia].
    Qed.

    Lemma read_optional_field_h t' n dflt ad s :
      (forall s, hoare (GV t') (d s) s) ->
      (forall dv, dflt = Some dv -> GV (TOption t') 0 dv) ->
      hoare_ad (GV (TOption t')) ad (read_optional_field a_ops steps d n dflt ad s) s.
    Proof.
      intros Hd Hdf. unfold read_optional_field.
      destruct (mem_name n (ad_removed ad)); [apply hoare_ad_ok; apply GV_none|]. cbv zeta.
      destruct (ad_record_index ad _) as [[fp ad1]| | |] eqn:Hri; cbn [bind]; try (intros _ _; exact I).
      apply ad_record_index_same in Hri as [Hi Hc].
      eapply hoare_ad_change; [exact Hi | exact Hc|].
      destruct (ad_stored ad1 <? match field_generation steps n with Some c => c | None => 0 end).
      - destruct dflt as [dv|]; [|intros _ _; exact I]. apply hoare_ad_ok. apply Hdf. reflexivity.
      - apply in_chunk_h. intros s0. change (d_rd a_ops) with a_reader.
        destruct (ad_stored ad1 <? _).
        + eapply hoare_bind; [apply Hd|]. intros x s1 w1 Hx _ _ _ _. cbv beta iota.
          apply hoare_ok. apply GV_some. eapply GV_mono; [exact Hx | lia].
        + eapply hoare_bind; [apply r_u8_h|]. intros tag s1 w1 _ _ _ _ _. cbv beta iota.
          destruct (tag =? 0); [apply hoare_ok; apply GV_none|].
          destruct (tag =? 1); [|apply hoare_err].
          eapply hoare_bind; [apply Hd|]. intros x s2 w2 Hx _ _ _ _. cbv beta iota.
          apply hoare_ok. apply GV_some. eapply GV_mono; [exact Hx | lia].
    Qed.
  End Field.

  (* field lists *)
  Definition GF (fs : list field) (w : N) (vs : list val) : Prop :=
    exists g0, forall g, (g0 <= g)%nat ->
      wf_fields (wf_val g E) fs vs = true /\ norm_fields (normv g E) fs vs = vs /\
      (EO -> eov_fields (eov E st0 L g) fs vs) /\ (NS -> ew_fields (ew E g) fs vs <= w).

  Lemma GF_mono fs w w' vs : GF fs w vs -> w <= w' -> GF fs w' vs.
  Proof.
    intros [g0 H] Hw. exists g0. intros g Hg. destruct (H g Hg) as (H1 & H2 & H3 & H4).
    split; [exact H1|]. split; [exact H2|]. split; [exact H3|]. intros Hn. specialize (H4 Hn). lia.
  Qed.

  Lemma GF_nil w : GF [] w [].
  Proof.
    exists O. intros g _. split; [reflexivity|]. split; [reflexivity|]. split; [intros _; exact I|].
    intros _. cbn [ew_fields]. lia.
  Qed.

  Lemma GF_cons_written f fs w1 w2 v vs :
    f_transient f = None -> GV (f_ty f) w1 v -> GF fs w2 vs -> GF (f :: fs) (w1 + w2) (v :: vs).
  Proof.
    intros Htr [g1 H1] [g2 H2]. exists (Nat.max g1 g2). intros g Hg.
    destruct (H1 g ltac:(lia)) as ((A1 & A2 & A3) & A4).
    destruct (H2 g ltac:(lia)) as (B1 & B2 & B3 & B4).
    cbn [wf_fields norm_fields eov_fields ew_fields]. rewrite Htr, A1, A2, B1, B2.
    split; [reflexivity|]. split; [reflexivity|]. split; [intros HO; split; [exact (A3 HO) | exact (B3 HO)]|].
    intros Hn. specialize (A4 Hn). specialize (B4 Hn). lia.
  Qed.

  Lemma GF_cons_transient f fs w dv vs :
    f_transient f = Some dv -> wf_default E (f_ty f) dv -> GF fs w vs -> GF (f :: fs) w (dv :: vs).
  Proof.
    intros Htr [g1 H1] [g2 H2]. exists (Nat.max g1 g2). intros g Hg.
    specialize (H1 g ltac:(lia)). destruct (H2 g ltac:(lia)) as (B1 & B2 & B3 & B4).
    cbn [wf_fields norm_fields eov_fields ew_fields]. rewrite Htr, H1, B1, B2.
    split; [reflexivity|]. split; [reflexivity|]. split; [intros HO; split; [exact I | exact (B3 HO)]|].
    intros Hn. specialize (B4 Hn). lia.
  Qed.

  Definition field_def_ok (steps : list step) (f : field) : Prop :=
    match f_transient f with
    | Some dv => wf_default E (f_ty f) dv
    | None => forall dv, field_default steps (f_name f) None = Some dv -> good_default EO E (f_ty f) dv
    end.

  Lemma good_default_GV steps t n dv :
    (NS -> steps = []) -> field_default steps n None = Some dv -> good_default EO E t dv -> GV t 0 dv.
  Proof.
    intros Hns Hfd [g0 H]. exists g0. intros g Hg. destruct (H g Hg) as (H1 & H2 & H3).
    split; [split; [exact H1 | split; [exact H2 | intros HO; apply H3; exact HO]]|].
    intros Hn. rewrite (Hns Hn) in Hfd. cbn [field_default] in Hfd. discriminate.
  Qed.

  Section Fields.
    Variable decf : ty -> astate -> outcome (val * astate).
    Hypothesis HD : forall t, wf_ty E t = true -> forall s, hoare (GV t) (decf t s) s.
    Variable steps : list step.
    Hypothesis Hns : NS -> steps = [].

    Lemma read_fields_h : forall fs ad s,
      forallb (fun f => wf_ty E (f_ty f)) fs = true ->
      Forall (field_def_ok steps) fs ->
      hoare_ad (GF fs) ad (read_fields a_ops decf steps fs ad s) s.
    Proof.
      induction fs as [|f fs IH]; intros ad s Hty Hdef; cbn [read_fields].
      - apply hoare_ad_ok. apply GF_nil.
      - cbn [forallb] in Hty. apply andb_true_iff in Hty as [Hf Hty].
        inversion Hdef as [|? ? Hdf Hdefs]; subst. unfold field_def_ok in Hdf.
        destruct (f_transient f) as [dflt|] eqn:Etr.
        + cbn [bind].
          eapply hoare_ad_bind; [apply IH; assumption|].
          intros vs ad1 s1 w Hvs. cbv beta iota.
          apply hoare_ad_ok. rewrite N.add_0_r. apply GF_cons_transient; assumption.
        + cbv zeta.
          eapply hoare_ad_bind with (P := GV (f_ty f)).
          * destruct (f_opt f).
            -- destruct (f_ty f) as [ |t'| | | | | | | ] eqn:Ety; try (intros _ _; exact I).
               apply read_optional_field_h; [apply HD; exact Hf|].
               intros dv Hdv. eapply good_default_GV; [exact Hns | exact Hdv | apply Hdf; exact Hdv].
            -- apply read_field_h; [apply HD; exact Hf|].
               intros dv Hdv. eapply good_default_GV; [exact Hns | exact Hdv | apply Hdf; exact Hdv].
          * intros v ad1 s1 w1 Hv. cbv beta iota.
            eapply hoare_ad_bind; [apply IH; assumption|].
            intros vs ad2 s2 w2 Hvs. cbv beta iota.
            apply hoare_ad_ok. rewrite N.add_0_r. apply GF_cons_written; assumption.
    Qed.
  End Fields.

  (* ---------------------------------------------------------------- *)
  (* the evolution header *)
  Lemma d_take_h n s : hoare (fun w rg => rg_ok rg /\ nlen rg <= w) (d_take a_ops n s) s.
  Proof.
    intros [[Hb Hl] Hst]. cbn [a_ops d_take]. destruct (n <=? nlen (a_cur s)) eqn:Hn; [|exact I].
    destruct (bytes_ok_split n (a_cur s) Hb) as [Ht Hd].
    unfold a_with_cur, post, sinv. cbn [fst snd a_cur a_strs a_stack].
    split; [|split; [reflexivity|]].
    - split; [split; [exact Hd | rewrite nlen_ndrop; lia] | exact Hst].
    - exists n. rewrite nlen_ndrop, nlen_ntake by lia.
      split; [|lia]. split; [|lia]. split; [exact Ht | rewrite nlen_ntake by lia; lia].
  Qed.

  Lemma dec_sstep_h s : hoare (fun _ _ => True) (dec_sstep a_ops s) s.
  Proof.
    unfold dec_sstep. change (d_rd a_ops) with a_reader.
    eapply hoare_bind; [apply read_var_i32_h|]. intros code s1 w1 _ _ _ _ _. cbv beta iota.
    destruct (code =? 0)%Z; [apply hoare_ok; exact I|].
    destruct (code =? -1)%Z.
    - eapply hoare_bind; [apply read_i8_h|]. intros b s2 w2 _ _ _ _ _. cbv beta iota.
      destruct (b <? 0)%Z; [|apply hoare_ok; exact I].
      destruct (b =? -128)%Z; [apply hoare_err | apply hoare_ok; exact I].
    - destruct (code =? -2)%Z; [|apply hoare_ok; exact I].
      eapply hoare_bind; [apply dec_dedup_h|]. intros v s2 w2 _ _ _ _ _. cbv beta iota.
      destruct v; try apply hoare_err. apply hoare_ok. exact I.
  Qed.

  Lemma dec_ssteps_h : forall n s, hoare (fun _ _ => True) (dec_ssteps a_ops n s) s.
  Proof.
    induction n as [|n IH]; intros s; cbn [dec_ssteps]; [apply hoare_ok; exact I|].
    eapply hoare_bind; [apply dec_sstep_h|]. intros x s1 w1 _ _ _ _ _. cbv beta iota.
    eapply hoare_bind; [apply IH|]. intros xs s2 w2 _ _ _ _ _. cbv beta iota.
    apply hoare_ok. exact I.
  Qed.

  Definition rgs_ok (w : N) (r : list bytes * list (N * N) * list name) : Prop :=
    Forall rg_ok (fst (fst r)) /\ sumN (map nlen (fst (fst r))) <= w.

  Lemma rg_ok_nil : rg_ok [].
  Proof. split; [constructor | cbn [nlen]; lia]. Qed.

  Lemma take_chunks_h : forall ss idx s, hoare rgs_ok (take_chunks a_ops ss idx s) s.
  Proof.
    induction ss as [|x r IH]; intros idx s; cbn [take_chunks].
    - apply hoare_ok. split; [constructor | unfold sumN; cbn; lia].
    - destruct x.
      + eapply hoare_bind; [apply d_take_h|]. intros rg s1 w1 (Hrg & Hw1) _ _ _ _. cbv beta iota.
        eapply hoare_bind; [apply IH|]. intros [[inputs mo] rem] s2 w2 (Hi & Hw2) _ _ _ _. cbv beta iota.
        apply hoare_ok. unfold rgs_ok in *. cbn [fst snd map] in *.
        split; [constructor; assumption|]. unfold sumN in *. cbn [fold_right]. lia.
      + eapply hoare_bind; [apply IH|]. intros [[inputs mo] rem] s2 w2 (Hi & Hw2) _ _ _ _. cbv beta iota.
        apply hoare_ok. unfold rgs_ok in *. cbn [fst snd map a_ops d_empty] in *.
        split; [constructor; [apply rg_ok_nil | assumption]|]. unfold sumN in *. cbn [fold_right nlen]. lia.
      + eapply hoare_bind; [apply IH|]. intros [[inputs mo] rem] s2 w2 (Hi & Hw2) _ _ _ _. cbv beta iota.
        apply hoare_ok. unfold rgs_ok in *. cbn [fst snd map a_ops d_empty] in *.
        split; [constructor; [apply rg_ok_nil | assumption]|]. unfold sumN in *. cbn [fold_right nlen]. lia.
      + eapply hoare_bind; [apply IH|]. intros [[inputs mo] rem] s2 w2 (Hi & Hw2) _ _ _ _. cbv beta iota.
        apply hoare_ok. unfold rgs_ok in *. cbn [fst snd map a_ops d_empty] in *.
        split; [constructor; [apply rg_ok_nil | assumption]|]. unfold sumN in *. cbn [fold_right nlen]. lia.
  Qed.

  Definition ad_fresh (w : N) (ad : @adt_de bytes) : Prop := ad_ok ad /\ adw ad <= w.

  Lemma ad_open_h steps s : hoare ad_fresh (ad_open a_ops steps s) s.
  Proof.
    unfold ad_open. change (d_rd a_ops) with a_reader.
    eapply hoare_bind; [apply r_u8_h|]. intros stored s1 w1 _ _ _ _ _. cbv beta iota.
    destruct (stored =? 0).
    - apply hoare_ok. unfold ad_fresh, ad_ok, adw, ad_new_v0. cbn [ad_inputs ad_ctor map].
      split; [split; [constructor | discriminate] | unfold sumN; cbn; lia].
    - unfold ad_new.
      eapply hoare_bind; [apply dec_ssteps_h|]. intros ss s2 w2 _ _ _ _ _. cbv beta iota.
      eapply hoare_bind; [apply take_chunks_h|]. intros [[inputs mo] rem] s3 w3 (Hi & Hw3) _ _ _ _. cbv beta iota.
      apply hoare_ok. unfold ad_fresh, ad_ok, adw. cbn [ad_inputs ad_ctor fst] in *.
      split; [split; [exact Hi | discriminate] | lia].
  Qed.

  (* ---------------------------------------------------------------- *)
  (* records *)
  Definition is_rec (fs : list field) (w : N) (v : val) : Prop := exists vs, v = VNode 0 vs /\ GF fs w vs.

  Lemma dec_record_h decf m :
    (forall t, wf_ty E t = true -> forall s, hoare (GV t) (decf t s) s) ->
    forallb (fun f => wf_ty E (f_ty f)) (r_fields m) = true ->
    Forall (field_def_ok (r_steps m)) (r_fields m) ->
    (NS -> r_steps m = []) ->
    forall s, hoare (is_rec (r_fields m)) (dec_record a_ops decf m s) s.
  Proof.
    intros HD Hty Hdef Hns s. unfold dec_record.
    destruct (255 <=? version_of (r_steps m)); [intros _; exact I|].
    eapply hoare_bind; [apply ad_open_h|]. intros ad s1 w0 [Hao Haw] _ _ _ _. cbv beta iota.
    intros Hs1.
    pose proof (read_fields_h decf HD (r_steps m) Hns (r_fields m) ad s1 Hty Hdef Hs1 Hao) as H.
    destruct (read_fields a_ops decf (r_steps m) (r_fields m) ad s1) as [[[vs ad2] s2]| | |]; cbn [bind]; auto.
    destruct H as (Hs2 & Hst & _ & Hc & w & Hw & Hle). unfold post. cbn [fst snd] in *.
    split; [exact Hs2|]. split; [exact Hst|].
    exists (nlen (a_cur s1) - nlen (a_cur s2)). split; [|lia].
    exists vs. split; [reflexivity|]. eapply GF_mono; [exact Hw | lia].
  Qed.

  (* ---------------------------------------------------------------- *)
  (* enums *)
  Lemma read_ctor_idx_h ad s : hoare_ad (fun _ i => i < 2 ^ 32) ad (read_ctor_idx a_ops ad s) s.
  Proof.
    unfold read_ctor_idx. destruct (ad_ctor ad) as [i|] eqn:Hc.
    - intros Hs Ha. apply hoare_ad_ok; [|exact Hs | exact Ha]. destruct Ha as [_ Ha]. apply Ha. exact Hc.
    - intros Hs Ha.
      pose proof (in_chunk_h (fun _ i => i < 2 ^ 32) ad 0 (read_var_u32 (d_rd a_ops)) s) as H.
      assert (Hb : forall s, hoare (fun _ i : N => i < 2 ^ 32) (read_var_u32 (d_rd a_ops) s) s).
      { intros s'. eapply hoare_weaken; [apply read_var_u32_h|]. intros w i [_ Hi]. exact Hi. }
      specialize (H Hb Hs Ha).
      destruct (in_chunk a_ops ad 0 (read_var_u32 (d_rd a_ops)) s) as [[[i ad1] s1]| | |]; cbn [bind]; auto.
      destruct H as (H1 & H2 & [H3 H3'] & H4 & w & Pw & Hw). unfold post_ad. cbn [fst snd] in *.
      split; [exact H1|]. split; [exact H2|].
      split; [split; [exact H3 | cbn [ad_ctor]; intros j Hj; injection Hj as <-; exact Pw]|].
      split; [exact H4|]. exists w. split; [exact Pw|]. unfold adw in *. cbn [ad_inputs]. exact Hw.
  Qed.

  Definition is_enum (m : emeta) (w : N) (v : val) : Prop :=
    exists tag vs idx var, v = VNode tag vs /\
      case_index (cases_of m) tag 0 = Some (idx, var) /\ v_transient var = false /\ idx < 2 ^ 32 /\
      nth_error (e_variants m) (N.to_nat tag) = Some var /\ GF (r_fields (v_rec var)) w vs.

  Definition hoare_c (P : N -> val -> Prop) (ad : @adt_de bytes) (m : outcome (val * astate)) (s : astate) : Prop :=
    sinv s -> ad_ok ad ->
    match m with
    | Ok r => sinv (snd r) /\ a_stack (snd r) = a_stack s /\
              nlen (a_cur (snd r)) <= nlen (a_cur s) /\
              exists w, P w (fst r) /\ w + nlen (a_cur (snd r)) <= nlen (a_cur s) + adw ad
    | _ => True
    end.

  Definition variant_ok (var : variant) : Prop :=
    forallb (fun f => wf_ty E (f_ty f)) (r_fields (v_rec var)) = true /\
    Forall (field_def_ok (r_steps (v_rec var))) (r_fields (v_rec var)) /\
    (NS -> r_steps (v_rec var) = []).

  Lemma read_cases_h decf tyname m :
    (forall t, wf_ty E t = true -> forall s, hoare (GV t) (decf t s) s) ->
    (forall var, In var (e_variants m) -> variant_ok var) ->
    forall cs pre idx ad s,
      cases_of m = pre ++ cs -> nlen pre = idx ->
      hoare_c (is_enum m) ad (read_cases a_ops decf tyname cs idx ad s) s.
  Proof.
    intros HD Hvar. induction cs as [|[decl_idx var] cs IH]; intros pre idx ad s Hcs Hidx Hs Ha; cbn [read_cases].
    - destruct (read_ctor_idx a_ops ad s) as [[[i ad1] s1]| | |]; cbn [bind]; exact I.
    - pose proof (read_ctor_idx_h ad s Hs Ha) as Hr.
      destruct (read_ctor_idx a_ops ad s) as [[[i ad1] s1]| | |]; cbn [bind]; auto.
      destruct Hr as (Hs1 & Hst1 & Ha1 & Hc1 & w1 & Hi & Hw1). cbn [fst snd] in *.
      destruct (i =? idx) eqn:Ei.
      + apply N.eqb_eq in Ei. subst i.
        destruct (v_transient var) eqn:Etr; [exact I|].
        assert (Hin : In (decl_idx, var) (cases_of m)) by (rewrite Hcs; apply in_or_app; right; left; reflexivity).
        pose proof (cases_of_In m _ Hin) as Hinv. cbn [snd] in Hinv.
        destruct (Hvar var Hinv) as (Hty & Hdef & Hns).
        pose proof (in_chunk_h (is_rec (r_fields (v_rec var))) ad1 0 (dec_record a_ops decf (v_rec var)) s1
                      (dec_record_h decf (v_rec var) HD Hty Hdef Hns) Hs1 Ha1) as Hk.
        destruct (in_chunk a_ops ad1 0 (dec_record a_ops decf (v_rec var)) s1) as [[[v ad2] s2]| | |]; cbn [bind]; auto.
        unfold post_ad in Hk. cbn [fst snd] in Hk.
        destruct Hk as (Hs2 & Hst2 & _ & Hc2 & w2 & (vs & -> & Hvs) & Hw2). cbn [fst snd] in *.
        split; [exact Hs2|]. split; [congruence|]. split; [lia|].
        exists w2. split; [|lia].
        exists decl_idx, vs, idx, var. split; [reflexivity|].
        split; [|split; [exact Etr | split; [exact Hi | split; [apply cases_of_nth; exact Hin | exact Hvs]]]].
        rewrite Hcs. rewrite <- Hidx. apply (case_index_at pre decl_idx var cs 0).
        rewrite <- Hcs. apply cases_of_fst_nodup.
      + assert (Hk : hoare_c (is_enum m) ad1 (read_cases a_ops decf tyname cs (idx + 1) ad1 s1) s1).
        { apply (IH (pre ++ [(decl_idx, var)])); [rewrite <- app_assoc; exact Hcs|].
          rewrite nlen_app. cbn [nlen]. lia. }
        specialize (Hk Hs1 Ha1).
        destruct (read_cases a_ops decf tyname cs (idx + 1) ad1 s1) as [[v s2]| | |]; auto.
        destruct Hk as (Hs2 & Hst2 & Hc2 & w2 & Pw & Hw2). cbn [fst snd] in *.
        split; [exact Hs2|]. split; [congruence|]. split; [lia|]. exists w2. split; [exact Pw | lia].
  Qed.

  Lemma dec_enum_h decf tyname m :
    (forall t, wf_ty E t = true -> forall s, hoare (GV t) (decf t s) s) ->
    (forall var, In var (e_variants m) -> variant_ok var) ->
    forall s, hoare (is_enum m) (dec_enum a_ops decf tyname m s) s.
  Proof.
    intros HD Hvar s. unfold dec_enum.
    eapply hoare_bind; [apply ad_open_h|]. intros ad s1 w0 [Hao Haw] _ _ _ _. cbv beta iota.
    intros Hs1.
    pose proof (read_cases_h decf tyname m HD Hvar (cases_of m) [] 0 ad s1 eq_refl eq_refl Hs1 Hao) as H.
    destruct (read_cases a_ops decf tyname (cases_of m) 0 ad s1) as [[v s2]| | |]; auto.
    destruct H as (Hs2 & Hst & Hc & w & Pw & Hw). unfold post. cbn [fst snd] in *.
    split; [exact Hs2|]. split; [exact Hst|].
    exists (nlen (a_cur s1) - nlen (a_cur s2)). split; [|lia].
    destruct Pw as (tag & vs & idx & var & Hv & H1 & H2 & H3 & H4 & H5).
    exists tag, vs, idx, var. repeat (split; [assumption|]). eapply GF_mono; [exact H5 | lia].
  Qed.

  (* ---------------------------------------------------------------- *)
  (* from the parts of a value to the value *)

  Lemma GV_res0 r e w x : GV e w x -> GV (TResult r e) w (VNode 0 [x]).
  Proof.
    intros [g0 H]. exists (S g0). intros g Hg. destruct g as [|g]; [lia|].
    destruct (H g ltac:(lia)) as ((H1 & H2 & H3) & H4).
    split; [|intros Hn; cbn [ew]; exact (H4 Hn)].
    split; [cbn [wf_val]; exact H1|]. split; [|intros HO; cbn [eov]; exact (H3 HO)].
    change (normv (S g) E (TResult r e) (VNode 0 [x])) with (VNode 0 [normv g E e x]).
    rewrite H2. reflexivity.
  Qed.

  Lemma GV_res1 r e w x : GV r w x -> GV (TResult r e) w (VNode 1 [x]).
  Proof.
    intros [g0 H]. exists (S g0). intros g Hg. destruct g as [|g]; [lia|].
    destruct (H g ltac:(lia)) as ((H1 & H2 & H3) & H4).
    split; [|intros Hn; cbn [ew]; exact (H4 Hn)].
    split; [cbn [wf_val]; exact H1|]. split; [|intros HO; cbn [eov]; exact (H3 HO)].
    change (normv (S g) E (TResult r e) (VNode 1 [x])) with (VNode 1 [normv g E r x]).
    rewrite H2. reflexivity.
  Qed.

  Lemma GV_wrap wk t' w v : GV t' w v -> GV (TWrap wk t') w v.
  Proof.
    intros [g0 H]. exists (S g0). intros g Hg. destruct g as [|g]; [lia|].
    destruct (H g ltac:(lia)) as ((H1 & H2 & H3) & H4).
    split; [|intros Hn; cbn [ew]; exact (H4 Hn)].
    split; [cbn [wf_val]; exact H1|]. split; [rewrite normv_wrap; exact H2 | intros HO; cbn [eov]; exact (H3 HO)].
  Qed.

  Lemma GV_phantom w : GV TPhantom w VUnit.
  Proof.
    exists 1%nat. intros g Hg. destruct g as [|g]; [lia|]. split; [|intros _; cbn [ew]; lia].
    split; [reflexivity|]. split; [reflexivity | intros _; reflexivity].
  Qed.

  Lemma GV_tuple ts w v : is_rec (tuple_fields ts 0) w v -> GV (TTuple ts) w v.
  Proof.
    intros (vs & -> & [g0 H]). exists (S g0). intros g Hg. destruct g as [|g]; [lia|].
    destruct (H g ltac:(lia)) as (H1 & H2 & H3 & H4).
    split; [|intros Hn; cbn [ew]; exact (H4 Hn)].
    split; [cbn [wf_val tuple_meta r_fields]; exact H1|].
    split; [|intros HO; cbn [eov]; exact (H3 HO)].
    rewrite normv_tuple. cbn [tuple_meta r_fields]. rewrite H2. reflexivity.
  Qed.

  Lemma GV_bytes k e w bs :
    byte_path k e = true -> rg_ok bs ->
    match k with KArray n => nlen bs = n | _ => True end ->
    GV (TSeq k e) w (VB bs).
  Proof.
    intros Hbp [_ Hl] Hk. exists 1%nat. intros g Hg. destruct g as [|g]; [lia|].
    split; [|intros _; cbn [ew]; rewrite Hbp; lia].
    split; [|split].
    - cbn [wf_val]. rewrite Hbp. destruct k; try reflexivity. lia.
    - reflexivity.
    - intros _. cbn [eov]. rewrite Hbp. intros _. right. exact Hl.
  Qed.

  Lemma GV_seq k e w xs fuel :
    byte_path k e = false -> GVl e w xs -> (length xs <= fuel)%nat -> small L (nlen xs) ->
    match k with
    | KArray n => nlen xs = n
    | KHashSet | KBTreeSet => vals_nodup xs = true
    | _ => True
    end ->
    GV (TSeq k e) w (VNode 0 xs).
  Proof.
    intros Hbp [g0 H] Hf Hsm Hk. exists (S (Nat.max g0 fuel)). intros g Hg. destruct g as [|g]; [lia|].
    destruct (H g ltac:(lia)) as [H1 H2].
    assert (Hn : map (normv g E e) xs = xs).
    { apply map_id_Forall. eapply Forall_impl; [|exact H1]. cbv beta. intros x Hx. apply Hx. }
    split; [|intros Hns; cbn [ew]; rewrite Hbp; exact (H2 Hns)].
    split; [|split].
    - cbn [wf_val]. rewrite Hbp. apply andb_true_iff. split.
      + apply forallb_forall. intros x Hx. rewrite Forall_forall in H1. apply (H1 x Hx).
      + destruct k; try reflexivity; try (rewrite Hn; exact Hk). lia.
    - rewrite normv_seq, Hbp, Hn. reflexivity.
    - intros HO. cbn [eov]. rewrite Hbp. split; [lia|]. split; [intros _; exact Hsm|].
      eapply Forall_impl; [|exact H1]. cbv beta. intros x Hx. apply Hx. exact HO.
  Qed.

  (* pairs *)
  Lemma GV1_pair g kt vt it :
    GV1 (S g) (TTuple [kt; vt]) it ->
    exists k x, it = VNode 0 [k; x] /\ GV1 g kt k /\ GV1 g vt x.
  Proof.
    intros (H1 & H2 & H3). cbn [wf_val tuple_meta tuple_fields r_fields] in H1.
    destruct it as [| | |tag l]; try discriminate H1. destruct tag; try discriminate H1.
    destruct l as [|k [|x [|? ?]]]; cbn [wf_fields f_ty] in H1; try discriminate H1.
    - destruct (wf_val g E kt k); discriminate H1.
    - apply andb_true_iff in H1 as [Hk Hx]. rewrite andb_true_r in Hx.
      rewrite normv_tuple in H2. cbn [tuple_meta tuple_fields r_fields norm_fields f_transient f_ty] in H2.
      injection H2 as Nk Nx.
      exists k, x. split; [reflexivity|].
      split; (split; [assumption|]; split; [assumption|]); intros HO; specialize (H3 HO);
        cbn [eov tuple_fields eov_fields f_transient f_ty] in H3; tauto.
    - destruct (wf_val g E kt k); [destruct (wf_val g E vt x)|]; discriminate H1.
  Qed.

  Lemma ew_pair g kt vt k x :
    ew E (S g) (TTuple [kt; vt]) (VNode 0 [k; x]) = ew E g kt k + (ew E g vt x + 0).
  Proof. reflexivity. Qed.

  Lemma ew_map g mk kt vt vs :
    ew E (S g) (TMap mk kt vt) (VNode 0 vs) = sumN (map (ew E g (TTuple [kt; vt])) vs).
  Proof. reflexivity. Qed.

  Lemma small_le n m : small L n -> m <= n -> small L m.
  Proof. unfold small. intros [H|H] Hm; [left | right]; lia. Qed.

  Lemma GV_map mk kt vt w items fuel :
    GVl (TTuple [kt; vt]) w items -> (length items <= fuel)%nat -> small L (nlen items) ->
    GV (TMap mk kt vt) w
       (VNode 0 (map (fun kv => VNode 0 [fst kv; snd kv]) (map_collect items []))).
  Proof.
    intros [g0 H] Hf Hsm. exists (S (S (Nat.max g0 fuel))). intros g Hg.
    destruct g as [|g1]; [lia|]. destruct g1 as [|g2]; [lia|].
    set (res := map_collect items []).
    (* the items are pairs, at every large enough fuel *)
    assert (HP : forall g, (g0 <= g)%nat ->
              Forall (pairP (GV1 g kt) (GV1 g vt)) items /\
              (NS -> sumN (map (pairW (ew E g kt) (ew E g vt)) items) <= w)).
    { intros g Hg0. destruct (H (S g) ltac:(lia)) as [A B]. split.
      - eapply Forall_impl; [|exact A]. cbv beta. intros it Hit. apply GV1_pair. exact Hit.
      - intros Hn. specialize (B Hn).
        assert (Heq : map (pairW (ew E g kt) (ew E g vt)) items = map (ew E (S g) (TTuple [kt; vt])) items).
        { apply map_ext_in. intros it Hit. rewrite Forall_forall in A.
          destruct (GV1_pair g kt vt it (A it Hit)) as (k & x & -> & _). rewrite ew_pair. cbn [pairW]. lia. }
        rewrite Heq. exact B. }
    destruct (HP (S g2) ltac:(lia)) as [P1 _]. destruct (HP g2 ltac:(lia)) as [P2 W2].
    destruct (map_collect_spec (GV1 (S g2) kt) (GV1 (S g2) vt) (fun _ => 0) (fun _ => 0) items [] P1
                ltac:(constructor) eq_refl) as (R1 & Rnd & _ & Rlen).
    destruct (map_collect_spec (GV1 g2 kt) (GV1 g2 vt) (ew E g2 kt) (ew E g2 vt) items [] P2
                ltac:(constructor) eq_refl) as (R2 & _ & Rsum & _).
    fold res in R1, Rnd, Rlen, R2, Rsum. cbn [length] in Rlen.
    assert (Hnorm : map (normv (S g2) E (TTuple [kt; vt])) (map (fun kv => VNode 0 [fst kv; snd kv]) res)
                    = map (fun kv => VNode 0 [fst kv; snd kv]) res).
    { rewrite map_map. apply map_ext_in. intros [k x] Hkx. cbn [fst snd].
      rewrite Forall_forall in R2. destruct (R2 _ Hkx) as [(_ & Nk & _) (_ & Nx & _)]. cbn [fst snd] in *.
      rewrite normv_tuple. cbn [tuple_meta tuple_fields r_fields norm_fields f_transient f_ty].
      rewrite Nk, Nx. reflexivity. }
    split; [split; [|split]|].
    - cbn [wf_val]. apply andb_true_iff. split.
      + apply forallb_forall. intros y Hy. apply in_map_iff in Hy as ([k x] & <- & Hkx). cbn [fst snd].
        rewrite Forall_forall in R1. destruct (R1 _ Hkx) as [(Wk & _) (Wx & _)]. cbn [fst snd] in *.
        change (wf_val (S g2) E kt k && wf_val (S g2) E vt x = true). rewrite Wk, Wx. reflexivity.
      + rewrite <- map_map with (g := key_of) (f := normv (S g2) E (TTuple [kt; vt])).
        rewrite Hnorm, vals_nodup_map_keys. exact Rnd.
    - rewrite normv_map, Hnorm. reflexivity.
    - intros HO. cbn [eov]. rewrite map_length. split; [lia|]. split.
      + intros _. eapply small_le; [exact Hsm|]. rewrite !nlen_length, map_length. lia.
      + apply Forall_forall. intros y Hy. apply in_map_iff in Hy as ([k x] & <- & Hkx). cbn [fst snd].
        rewrite Forall_forall in R2. destruct (R2 _ Hkx) as [(_ & _ & Ek) (_ & _ & Ex)]. cbn [fst snd] in *.
        cbn [eov tuple_fields eov_fields f_transient f_ty]. auto.
    - intros Hn. rewrite ew_map, map_map.
      assert (Heq : map (fun kv => ew E (S g2) (TTuple [kt; vt]) (VNode 0 [fst kv; snd kv])) res
                    = map (fun kv => ew E g2 kt (fst kv) + ew E g2 vt (snd kv)) res).
      { apply map_ext. intros [k x]. rewrite ew_pair. cbn [fst snd]. lia. }
      rewrite Heq. unfold psum in Rsum. specialize (W2 Hn). unfold sumN in *. cbn [map fold_right] in Rsum. lia.
  Qed.

  Lemma GV_record n d m w v :
    lookup_decl E n = Some d -> d_body d = DRecord m -> is_rec (r_fields m) w v -> GV (TNamed n) w v.
  Proof.
    intros Hl Hb (vs & -> & [g0 H]). exists (S g0). intros g Hg. destruct g as [|g]; [lia|].
    destruct (H g ltac:(lia)) as (H1 & H2 & H3 & H4).
    split; [|intros Hn; cbn [ew]; rewrite Hl, Hb; exact (H4 Hn)].
    split; [cbn [wf_val]; rewrite Hl, Hb; exact H1|].
    split; [|intros HO; cbn [eov]; rewrite Hl, Hb; exact (H3 HO)].
    rewrite normv_named, Hl, Hb, H2. reflexivity.
  Qed.

  Lemma GV_enum n d m w v :
    lookup_decl E n = Some d -> d_body d = DEnum m -> is_enum m w v -> GV (TNamed n) w v.
  Proof.
    intros Hl Hb (tag & vs & idx & var & -> & Hci & Htr & Hidx & Hnth & [g0 H]).
    exists (S g0). intros g Hg. destruct g as [|g]; [lia|].
    destruct (H g ltac:(lia)) as (H1 & H2 & H3 & H4).
    split; [|intros Hn; cbn [ew]; rewrite Hl, Hb, Hnth; exact (H4 Hn)].
    split; [cbn [wf_val]; rewrite Hl, Hb, Hnth; exact H1|].
    split; [|intros HO; cbn [eov]; rewrite Hl, Hb, Hci; auto].
    rewrite normv_named, Hl, Hb, Hnth, H2. reflexivity.
  Qed.

  (* ---------------------------------------------------------------- *)
  (* the fuel induction *)
  Hypothesis HE : wf_env E = true.
  Hypothesis HDf : defaults_ok EO E.

  Lemma tuple_def_ok ts : forall i, Forall (field_def_ok []) (tuple_fields ts i).
  Proof.
    induction ts as [|t ts IH]; intros i; cbn [tuple_fields]; constructor; [|apply IH].
    unfold field_def_ok. cbn [f_transient f_name field_default]. intros dv Hdv. discriminate.
  Qed.

  Lemma rmeta_field_def_ok m : rmeta_defaults_ok EO E m -> Forall (field_def_ok (r_steps m)) (r_fields m).
  Proof. intros H. apply Forall_forall. intros f Hf. exact (H f Hf). Qed.

  Theorem decA_GV : forall f t, wf_ty E t = true -> forall s, hoare (GV t) (dec a_ops f E t s) s.
  Proof.
    induction f as [|f IH]; intros t Ht s; cbn [dec]; [apply hoare_fuel|].
    destruct t as [p | t' | r e | ts | k e | mk kt vt | wk t' | | n].
    - (* prim *)
      eapply hoare_weaken; [apply dec_prim_h; exact Ht|]. intros w v Hv. apply GV_prim. exact Hv.
    - (* option *)
      cbn [wf_ty] in Ht. change (d_rd a_ops) with a_reader.
      eapply hoare_bind; [apply r_u8_h|]. intros tag s1 w1 _ _ _ _ _. cbv beta iota.
      destruct (tag =? 0); [apply hoare_ok; apply GV_none|].
      destruct (tag =? 1); [|apply hoare_err].
      eapply hoare_bind; [apply IH; exact Ht|]. intros x s2 w2 Hx _ _ _ _. cbv beta iota.
      apply hoare_ok. apply GV_some. eapply GV_mono; [exact Hx | lia].
    - (* result *)
      cbn [wf_ty] in Ht. apply andb_true_iff in Ht as [Hr He]. change (d_rd a_ops) with a_reader.
      eapply hoare_bind; [apply r_u8_h|]. intros tag s1 w1 _ _ _ _ _. cbv beta iota.
      destruct (tag =? 0).
      { eapply hoare_bind; [apply IH; exact He|]. intros x s2 w2 Hx _ _ _ _. cbv beta iota.
        apply hoare_ok. apply GV_res0. eapply GV_mono; [exact Hx | lia]. }
      destruct (tag =? 1); [|apply hoare_err].
      eapply hoare_bind; [apply IH; exact Hr|]. intros x s2 w2 Hx _ _ _ _. cbv beta iota.
      apply hoare_ok. apply GV_res1. eapply GV_mono; [exact Hx | lia].
    - (* tuple *)
      eapply hoare_weaken; [|intros w v; apply GV_tuple].
      pose proof (tuple_meta_ok E ts Ht) as (_ & _ & Hf).
      apply (dec_record_h (dec a_ops f E) (tuple_meta ts) IH Hf (tuple_def_ok ts 0)). reflexivity.
    - (* sequences *)
      cbn [wf_ty] in Ht. destruct (byte_path k e) eqn:Hbp.
      + eapply hoare_bind; [apply dec_bytes_h|]. intros v s1 w1 (_ & bs & -> & Hok) _ _ _ _. cbv beta iota.
        destruct k; try (apply hoare_ok; apply GV_bytes; [exact Hbp | exact Hok | exact I]).
        destruct (nlen bs =? n) eqn:En; [|apply hoare_err].
        apply hoare_ok. apply GV_bytes; [exact Hbp | exact Hok | lia].
      + eapply hoare_bind; [apply (dec_seq_items_h _ e (IH e Ht))|].
        intros items s1 w1 (Hit & Hlen & Hfl) _ _ _ HwL. cbv beta iota.
        assert (Hsm : small L (nlen items)) by (unfold small; destruct Hlen; [left | right]; lia).
        destruct k; cbn [collect bind].
        * apply hoare_ok. rewrite N.add_0_r. eapply GV_seq; eauto.
        * apply hoare_ok. rewrite N.add_0_r. eapply GV_seq; eauto.
        * apply hoare_ok. rewrite N.add_0_r. eapply GV_seq; eauto.
        * apply hoare_ok. rewrite N.add_0_r.
          destruct Hit as [g0 Hit].
          eapply (GV_seq _ _ _ _ f Hbp).
          -- exists g0. intros g Hg. destruct (Hit g Hg) as [A B]. split; [apply dedup_vals_Forall; exact A|].
             intros Hn. specialize (B Hn). pose proof (dedup_vals_sum (ew E g e) items []). lia.
          -- pose proof (dedup_vals_length items []). lia.
          -- eapply small_le; [exact Hsm|]. rewrite !nlen_length. pose proof (dedup_vals_length items []). lia.
          -- apply dedup_vals_nodup_true.
        * apply hoare_ok. rewrite N.add_0_r.
          destruct Hit as [g0 Hit].
          eapply (GV_seq _ _ _ _ f Hbp).
          -- exists g0. intros g Hg. destruct (Hit g Hg) as [A B]. split; [apply dedup_vals_Forall; exact A|].
             intros Hn. specialize (B Hn). pose proof (dedup_vals_sum (ew E g e) items []). lia.
          -- pose proof (dedup_vals_length items []). lia.
          -- eapply small_le; [exact Hsm|]. rewrite !nlen_length. pose proof (dedup_vals_length items []). lia.
          -- apply dedup_vals_nodup_true.
        * destruct (nlen items =? n) eqn:En; cbn [bind]; [|apply hoare_err].
          apply hoare_ok. rewrite N.add_0_r. eapply GV_seq; eauto. lia.
    - (* maps *)
      cbn [wf_ty] in Ht.
      assert (Htt : wf_ty E (TTuple [kt; vt]) = true).
      { apply andb_true_iff in Ht as [H1 H2]. cbn [wf_ty forallb nlen]. rewrite H1, H2. reflexivity. }
      eapply hoare_bind; [apply (dec_seq_items_h _ (TTuple [kt; vt]) (IH _ Htt))|].
      intros items s1 w1 (Hit & Hlen & Hfl) _ _ _ HwL. cbv beta iota.
      assert (Hsm : small L (nlen items)) by (unfold small; destruct Hlen; [left | right]; lia).
      apply hoare_ok. rewrite N.add_0_r. eapply GV_map; eauto.
    - (* wrappers *)
      cbn [wf_ty] in Ht. eapply hoare_weaken; [apply IH; exact Ht|]. intros w v. apply GV_wrap.
    - (* PhantomData *)
      apply hoare_ok. apply GV_phantom.
    - (* declared types *)
      cbn [wf_ty] in Ht. destruct (lookup_decl E n) as [d|] eqn:Hl; [|discriminate Ht].
      pose proof Hl as Hin. unfold lookup_decl in Hin. apply nth_error_In in Hin.
      pose proof HE as HEd. unfold wf_env in HEd. rewrite forallb_forall in HEd. specialize (HEd d Hin).
      unfold wf_decl in HEd. pose proof (HDf d Hin) as Hdd.
      assert (Hnd : NS -> nosteps_decl d).
      { intros Hn. unfold nosteps in Hn. rewrite Forall_forall in Hn. apply Hn. exact Hin. }
      unfold nosteps_decl in Hnd.
      destruct (d_body d) as [m|m] eqn:Hb.
      + eapply hoare_weaken; [|intros w v; apply (GV_record n d m w v Hl Hb)].
        pose proof (wf_rmeta_ok E m HEd) as (_ & _ & Hf).
        apply (dec_record_h (dec a_ops f E) m IH Hf (rmeta_field_def_ok m Hdd) Hnd).
      + eapply hoare_weaken; [|intros w v; apply (GV_enum n d m w v Hl Hb)].
        apply (dec_enum_h (dec a_ops f E) (d_name d) m IH).
        intros var Hvar. rewrite forallb_forall in HEd.
        pose proof (wf_rmeta_ok E _ (HEd var Hvar)) as (_ & _ & Hf).
        split; [exact Hf|]. split; [apply rmeta_field_def_ok; apply Hdd; exact Hvar|].
        intros Hn. specialize (Hnd Hn). rewrite Forall_forall in Hnd. apply Hnd. exact Hvar.
  Qed.
End Den.

(* ================================================================== *)
(*            Part 1: the decoder only produces well-formed values      *)
(* ================================================================== *)

(* the strong form: at every large enough fuel *)
Theorem decA_wf_all : forall f E t s v s',
  wf_env E = true -> wf_ty E t = true -> defaults_wf E ->
  bytes_ok (a_cur s) -> strs_ok (a_strs s) ->
  dec a_ops f E t s = Ok (v, s') ->
  (exists g0, forall g, (g0 <= g)%nat -> wf_val g E t v = true /\ normv g E t v = v) /\
  strs_ok (a_strs s') /\ bytes_ok (a_cur s') /\ a_stack s' = a_stack s.
Proof.
  intros f E t s v s' HE Ht HDf Hb Hst Hd.
  pose proof (decA_GV E (a_strs s) (nlen (a_cur s)) False HE HDf f t Ht s) as H.
  assert (Hs : sinv (a_strs s) (nlen (a_cur s)) s).
  { split; [split; [exact Hb | lia]|]. apply Forall_forall. intros x Hx. split.
    - unfold strs_ok in Hst. rewrite Forall_forall in Hst. apply Hst. exact Hx.
    - left. exact Hx. }
  specialize (H Hs). rewrite Hd in H. destruct H as ([[Hb' _] Hst'] & Hstk & w & [g0 Hg] & _). cbn [fst snd] in *.
  split; [|split; [|split; [exact Hb' | exact Hstk]]].
  - exists g0. intros g Hle. destruct (Hg g Hle) as ((H1 & H2 & _) & _). split; assumption.
  - eapply Forall_impl; [|exact Hst']. cbv beta. intros x [Hx _]. exact Hx.
Qed.

Theorem decA_wf : forall f E t s v s',
  wf_env E = true -> wf_env_rt E = true -> wf_ty E t = true -> defaults_wf E ->
  bytes_ok (a_cur s) -> strs_ok (a_strs s) ->
  dec a_ops f E t s = Ok (v, s') ->
  exists g, wf_val g E t v = true /\ normv g E t v = v /\ strs_ok (a_strs s') /\ bytes_ok (a_cur s').
Proof.
  intros f E t s v s' HE _ Ht HDf Hb Hst Hd.
  destruct (decA_wf_all f E t s v s' HE Ht HDf Hb Hst Hd) as ([g0 Hg] & H3 & H4 & _).
  destruct (Hg g0 (le_n _)) as [H1 H2]. exists g0. auto.
Qed.

(* ================================================================== *)
(*   the writer on accepted values, I: it can only fail on a size limit *)
(* ================================================================== *)

(* not Fuel, and no error other than ELengthTooLarge / EUnknownFieldRef; panics are
   classified by MiscProofs.C17_enc_panic_only_string_ids *)
Definition eok {A} (m : outcome A) : Prop :=
  match m with
  | Ok _ => True
  | Err e => e = ELengthTooLarge \/ exists n, e = EUnknownFieldRef n
  | Panic _ => True
  | Fuel => False
  end.

Lemma eok_bind {A B} (m : outcome A) (k : A -> outcome B) :
  eok m -> (forall a, m = Ok a -> eok (k a)) -> eok (bind m k).
Proof. destruct m as [a| | |]; cbn [bind eok]; auto. Qed.

Lemma enc_string_eok bs st : eok (enc_string bs st).
Proof. unfold enc_string. destruct (_ <? _); cbn [eok]; auto. Qed.

Lemma enc_bytes_eok bs st : eok (enc_bytes bs st).
Proof. unfold enc_bytes. destruct (_ <? _); cbn [eok]; auto. Qed.

Lemma enc_dedup_eok bs st : eok (enc_dedup bs st).
Proof.
  unfold enc_dedup. destruct (str_id bs st).
  - destruct (_ <? _); exact I.
  - destruct (_ <? _); [apply enc_string_eok | exact I].
Qed.

Lemma of_opt_eok o st : o <> None -> eok (of_opt o st).
Proof. destruct o; [intros _; exact I | congruence]. Qed.

Lemma some_neq {A} (o : option A) : (exists b, o = Some b) -> o <> None.
Proof. intros [b ->]. discriminate. Qed.

Lemma enc_prim_eok p v st : wf_prim_val p v = true -> char_bmp p v -> eok (enc_prim p v st).
Proof.
  intros Hwf Hc.
  destruct p; unfold wf_prim_val in Hwf;
    try (destruct v as [n|z|bs|tag vs]; try discriminate Hwf; exact I).
  - (* unit *)
    destruct v as [n|z|bs|tag vs]; try discriminate Hwf.
    destruct tag; try discriminate Hwf. destruct vs; try discriminate Hwf. exact I.
  - (* char *)
    destruct v as [n|z|bs|tag vs]; try discriminate Hwf. cbn [char_bmp] in Hc.
    unfold enc_prim. assert (n <? 65536 = true) as -> by lia. exact I.
  - (* String *)
    destruct v as [n|z|bs|tag vs]; try discriminate Hwf. apply enc_string_eok.
  - (* DeduplicatedString *)
    destruct v as [n|z|bs|tag vs]; try discriminate Hwf. apply enc_dedup_eok.
  - (* Duration *)
    destruct v as [n|z|bs|tag vs]; try discriminate Hwf. destruct tag; try discriminate Hwf.
    destruct vs as [|[secs| | |] [|[nanos| | |] [|? ?]]]; try discriminate Hwf. exact I.
  - (* Bytes *)
    destruct v as [n|z|bs|tag vs]; try discriminate Hwf. apply enc_bytes_eok.
  - (* BigInt *)
    destruct v as [n|z|bs|tag vs]; try discriminate Hwf. apply enc_bytes_eok.
  - (* BigDecimal *)
    destruct v as [n|z|bs|tag vs]; try discriminate Hwf. destruct tag; try discriminate Hwf.
    destruct vs as [|[|i| |] [|[|sc| |] [|? ?]]]; try discriminate Hwf.
    unfold enc_prim. apply enc_string_eok.
  - (* Tz *)
    destruct v as [n|z|bs|tag vs]; try discriminate Hwf. unfold enc_prim.
    rewrite (tz_known_enc_string bs st Hwf). exact I.
  - (* DateTime<Utc> *)
    destruct v as [n|z|bs|tag vs]; try discriminate Hwf. destruct tag; try discriminate Hwf.
    destruct vs as [|[|secs| |] [|[nanos| | |] [|? ?]]]; try discriminate Hwf. exact I.
  - (* NaiveDate *)
    unfold enc_prim. apply of_opt_eok, some_neq, wf_ndate_enc.
    destruct v; exact Hwf.
  - (* NaiveTime *)
    unfold enc_prim. apply of_opt_eok, some_neq, wf_ntime_enc.
    destruct v; exact Hwf.
  - (* NaiveDateTime *)
    unfold enc_prim. apply of_opt_eok, some_neq, wf_ndt_enc.
    destruct v; exact Hwf.
  - (* DateTime<Local> *)
    unfold enc_prim. apply of_opt_eok, some_neq, wf_ndt_enc.
    destruct v; exact Hwf.
  - (* DateTime<FixedOffset> *)
    destruct v as [n|z|bs|tag vs]; try discriminate Hwf. destruct tag; try discriminate Hwf.
    destruct vs as [|dt [|[|off| |] [|? ?]]]; try discriminate Hwf.
    apply andb_true_iff in Hwf as [Hwf _]. apply andb_true_iff in Hwf as [Hdt _].
    destruct (wf_ndt_enc dt Hdt) as [b Hb]. unfold enc_prim. rewrite Hb. exact I.
  - (* DateTime<Tz> *)
    destruct v as [n|z|bs|tag vs]; try discriminate Hwf. destruct tag; try discriminate Hwf.
    destruct vs as [|dt [|[| |nm|] [|? ?]]]; try discriminate Hwf.
    apply andb_true_iff in Hwf as [Hdt Hk].
    destruct (wf_ndt_enc dt Hdt) as [b Hb]. unfold enc_prim. rewrite Hb. cbn [of_opt bind].
    rewrite (tz_known_enc_string nm st Hk). exact I.
Qed.

Lemma enc_items_eok (e : encoder) : forall vs fuel st,
  (length vs <= fuel)%nat -> Forall (fun x => forall st, eok (e x st)) vs -> eok (enc_items fuel e vs st).
Proof.
  induction vs as [|x vs IH]; intros fuel st Hf Hall; [destruct fuel; exact I|].
  destruct fuel as [|fl]; [cbn [length] in Hf; lia|]. cbn [enc_items].
  inversion Hall as [|? ? Hx Hvs]; subst. cbn [length] in Hf.
  apply eok_bind; [apply Hx|]. intros [b1 st1] _.
  apply eok_bind; [apply IH; [lia | exact Hvs]|]. intros [b2 st2] _. exact I.
Qed.

Lemma enc_seq_eok (e : encoder) vs fuel st :
  (length vs <= fuel)%nat -> Forall (fun x => forall st, eok (e x st)) vs -> eok (enc_seq fuel e vs st).
Proof.
  intros Hf Hall. unfold enc_seq. destruct (_ <? _); [|cbn [eok]; auto].
  apply eok_bind; [apply enc_items_eok; assumption|]. intros [b st1] _. exact I.
Qed.

Lemma enc_fields_v0_eok (encf : ty -> encoder) (ev : ty -> val -> Prop) :
  (forall t x, ev t x -> forall st, eok (encf t x st)) ->
  forall fs vs st, eov_fields ev fs vs -> eok (enc_fields_v0 encf fs vs st).
Proof.
  intros He. induction fs as [|f fs IH]; intros [|x vs] st Hv; cbn [eov_fields] in Hv; try contradiction.
  - exact I.
  - destruct Hv as [Hx Hv]. cbn [enc_fields_v0]. destruct (f_transient f); [apply IH; exact Hv|].
    apply eok_bind; [apply He; exact Hx|]. intros [b1 st1] _.
    apply eok_bind; [apply IH; exact Hv|]. intros [b2 st2] _. exact I.
Qed.

Lemma enc_fields_chunked_eok (encf : ty -> encoder) (ev : ty -> val -> Prop) steps :
  (forall t x, ev t x -> forall st, eok (encf t x st)) ->
  forall fs vs ss st, eov_fields ev fs vs -> eok (enc_fields_chunked encf steps fs vs ss st).
Proof.
  intros He. induction fs as [|f fs IH]; intros [|x vs] ss st Hv; cbn [eov_fields] in Hv; try contradiction.
  - exact I.
  - destruct Hv as [Hx Hv]. cbn [enc_fields_chunked]. destruct (f_transient f); [apply IH; exact Hv|].
    cbv zeta. apply eok_bind; [apply He; exact Hx|]. intros [b1 st1] _.
    destruct (app_nth _ _ b1); [|exact I].
    apply eok_bind; [|intros ss1 _; apply IH; exact Hv].
    unfold ser_record_index. destruct (assoc_N _ _); [destruct (_ <? _)|]; exact I.
Qed.

Lemma prerender_names_eok : forall s all st, eok (prerender_names s all st).
Proof.
  induction s as [|x r IH]; intros all st; cbn [prerender_names]; [exact I|].
  destruct x as [n dflt|n|n|n]; try destruct (in_removed all n);
    repeat first [ exact I | apply enc_dedup_eok | apply IH
                 | apply eok_bind; [| intros [? ?] _] ].
Qed.

Lemma chunk_size_entry_eok chunks i : eok (chunk_size_entry chunks i).
Proof. unfold chunk_size_entry. destruct (nth_error _ _); [destruct (_ <? _)|]; cbn [eok]; auto. Qed.

Lemma header_entries_eok : forall steps pre ss i, eok (header_entries steps pre ss i).
Proof.
  induction steps as [|s r IH]; intros pre ss i; cbn [header_entries]; [exact I|].
  destruct pre as [|p pr]; [exact I|].
  apply eok_bind.
  - destruct s as [n dflt|n|n|n].
    + apply chunk_size_entry_eok.
    + destruct (assoc_name n (ss_idx ss)) as [[c pos]|].
      * apply eok_bind; [|intros; exact I]. unfold field_position_byte.
        destruct (c =? 0); [|exact I]. cbv zeta. destruct (_ =? _)%Z; exact I.
      * destruct p; cbn [eok]; eauto.
    + destruct p; exact I.
    + destruct p; exact I.
  - intros e _. apply eok_bind; [apply IH|]. intros; exact I.
Qed.

Lemma enc_record_eok (encf : ty -> encoder) (ev : ty -> val -> Prop) m :
  (forall t x, ev t x -> forall st, eok (encf t x st)) ->
  forall vs st, eov_fields ev (r_fields m) vs -> eok (enc_record encf m vs st).
Proof.
  intros He vs st Hv. unfold enc_record. destruct (r_steps m) as [|s0 steps0] eqn:Es.
  - apply eok_bind; [eapply enc_fields_v0_eok; eassumption|]. intros [b st1] _. exact I.
  - cbv zeta. destruct (255 <=? _); [exact I|].
    apply eok_bind; [apply prerender_names_eok|]. intros [pre st1] _.
    apply eok_bind; [eapply enc_fields_chunked_eok; eassumption|]. intros [ss st2] _.
    apply eok_bind; [apply chunk_size_entry_eok|]. intros e0 _.
    apply eok_bind; [apply header_entries_eok|]. intros hdr _. exact I.
Qed.

Theorem eov_eok : forall E st0 L g t v, eov E st0 L g t v -> forall st, eok (enc g E t v st).
Proof.
  intros E st0 L. induction g as [|g IH]; intros t v Hv st; [destruct Hv|].
  destruct t as [p | t' | r e | ts | k e | mk kt vt | wk t' | | n]; cbn [eov] in Hv; cbn [enc].
  - destruct Hv as (H1 & H2 & _). apply enc_prim_eok; assumption.
  - destruct v as [| | |tag vs]; try contradiction.
    destruct tag as [|[?|?|]]; try contradiction.
    + destruct vs; [exact I | contradiction].
    + destruct vs as [|x [|? ?]]; try contradiction.
      apply eok_bind; [apply IH; exact Hv|]. intros [b st1] _. exact I.
  - destruct v as [| | |tag vs]; try contradiction.
    destruct tag as [|[?|?|]]; try contradiction; destruct vs as [|x [|? ?]]; try contradiction.
    + apply eok_bind; [apply IH; exact Hv|]. intros [b st1] _. exact I.
    + apply eok_bind; [apply IH; exact Hv|]. intros [b st1] _. exact I.
  - destruct v as [| | |tag vs]; try contradiction. destruct tag; try contradiction.
    eapply enc_record_eok; [|exact Hv]. intros t x Hx st1. apply IH. exact Hx.
  - destruct (byte_path k e).
    + destruct v; try contradiction. apply enc_bytes_eok.
    + destruct v as [| | |tag vs]; try contradiction. destruct tag; try contradiction.
      destruct Hv as (Hl & _ & Hall). apply enc_seq_eok; [exact Hl|].
      eapply Forall_impl; [|exact Hall]. cbv beta. intros x Hx st1. apply IH. exact Hx.
  - destruct v as [| | |tag vs]; try contradiction. destruct tag; try contradiction.
    destruct Hv as (Hl & _ & Hall). apply enc_seq_eok; [exact Hl|].
    eapply Forall_impl; [|exact Hall]. cbv beta. intros x Hx st1. apply IH. exact Hx.
  - apply IH. exact Hv.
  - subst v. exact I.
  - destruct (lookup_decl E n) as [d|]; [|contradiction].
    destruct (d_body d) as [m|m].
    + destruct v as [| | |tag vs]; try contradiction. destruct tag; try contradiction.
      eapply enc_record_eok; [|exact Hv]. intros t x Hx st1. apply IH. exact Hx.
    + destruct v as [| | |tag vs]; try contradiction. unfold enc_enum.
      destruct (case_index (cases_of m) tag 0) as [[idx var]|]; [|contradiction].
      destruct Hv as (Htr & Hidx & Hv). rewrite Htr.
      assert (2 ^ 32 <=? idx = false) as -> by lia.
      apply eok_bind; [|intros [b st1] _; exact I].
      eapply enc_record_eok; [|exact Hv]. intros t x Hx st1. apply IH. exact Hx.
Qed.

(* ================================================================== *)
(*   the writer on accepted values, II: without evolution steps it succeeds *)
(* ================================================================== *)

Lemma str_find_In s : forall st i, In s st -> str_find s st i <> None.
Proof.
  induction st as [|x st IH]; intros i H; [destruct H|]. cbn [str_find].
  destruct (bytes_eqb x s) eqn:Ex; [discriminate|].
  destruct H as [->|H]; [rewrite bytes_eqb_refl in Ex; discriminate | apply IH; exact H].
Qed.

Section EncOk.
  Variable E : env.
  Variable st0 : strtab.
  Variable L : N.
  Hypothesis HNS : nosteps E.
  Hypothesis HL : L + 64 < 2 ^ 31.

  (* the encoder `e` accepts `x`, starting from any extension of st0 with room for w more strings *)
  Definition accepts (e : encoder) (w : N) (x : val) : Prop :=
    forall st1, ext_of st0 st1 -> nlen st1 + w < 2 ^ 31 ->
      exists b st2, e x st1 = Ok (b, st2) /\ ext_of st1 st2 /\ nlen st2 <= nlen st1 + w.

  Lemma small_lt n : small L n -> n < 2 ^ 31.
  Proof. unfold small. intros [H|H]; lia. Qed.

  Lemma accepts_ok (e : encoder) w x b :
    (forall st, e x st = Ok (b st, st)) -> accepts e w x.
  Proof.
    intros H st1 _ _. exists (b st1), st1. split; [apply H|]. split; [apply ext_of_refl | lia].
  Qed.

  Lemma enc_string_ok bs st : nlen bs < 2 ^ 31 -> enc_string bs st = Ok (write_var_i32 (Z.of_N (nlen bs)) ++ bs, st).
  Proof. intros H. unfold enc_string. assert (nlen bs <? 2 ^ 31 = true) as -> by lia. reflexivity. Qed.

  Lemma enc_bytes_ok bs st : nlen bs < 2 ^ 31 -> enc_bytes bs st = Ok (write_var_u32 (nlen bs) ++ bs, st).
  Proof.
    intros H. unfold enc_bytes.
    assert (nlen bs <? 2 ^ 32 = true) as ->; [|reflexivity].
    change (2 ^ 31) with 2147483648 in H. change (2 ^ 32) with 4294967296. lia.
  Qed.

  Lemma enc_prim_accepts p v :
    wf_prim_val p v = true -> char_bmp p v -> prim_small st0 L p v -> accepts (enc_prim p) (ew_prim p) v.
  Proof.
    intros Hwf Hc Hsm.
    destruct p; unfold wf_prim_val in Hwf;
      try (destruct v as [n|z|bs|tag vs]; try discriminate Hwf;
           eapply accepts_ok; intros st; reflexivity).
    - (* unit *)
      destruct v as [n|z|bs|tag vs]; try discriminate Hwf.
      destruct tag; try discriminate Hwf. destruct vs; try discriminate Hwf.
      eapply accepts_ok; intros st; reflexivity.
    - (* char *)
      destruct v as [n|z|bs|tag vs]; try discriminate Hwf. cbn [char_bmp] in Hc.
      eapply accepts_ok. intros st. unfold enc_prim. assert (n <? 65536 = true) as -> by lia. reflexivity.
    - (* String *)
      destruct v as [n|z|bs|tag vs]; try discriminate Hwf. cbn [prim_small] in Hsm.
      eapply accepts_ok. intros st. unfold enc_prim. apply enc_string_ok. apply small_lt. exact Hsm.
    - (* DeduplicatedString *)
      destruct v as [n|z|bs|tag vs]; try discriminate Hwf. cbn [prim_small] in Hsm.
      intros st1 Hext Hroom. cbn [ew_prim] in *. unfold enc_prim, enc_dedup.
      destruct (str_id bs st1) as [id|] eqn:Eid.
      + unfold str_id in Eid. apply str_find_bound in Eid.
        assert (id <? 2 ^ 31 = true) as -> by lia.
        eexists _, st1. split; [reflexivity|]. split; [apply ext_of_refl | lia].
      + assert (nlen st1 + 1 <? 2 ^ 31 = true) as -> by lia.
        assert (Hlen : nlen bs < 2 ^ 31).
        { destruct Hsm as [Hin|Hsm]; [|apply small_lt; exact Hsm].
          exfalso. destruct Hext as [x ->]. unfold str_id in Eid.
          apply (str_find_In bs (st0 ++ x) 1); [apply in_or_app; left; exact Hin | exact Eid]. }
        rewrite enc_string_ok by exact Hlen.
        eexists _, _. split; [reflexivity|]. split; [exists [bs]; reflexivity|].
        rewrite nlen_app. cbn [nlen]. lia.
    - (* Duration *)
      destruct v as [n|z|bs|tag vs]; try discriminate Hwf. destruct tag; try discriminate Hwf.
      destruct vs as [|[secs| | |] [|[nanos| | |] [|? ?]]]; try discriminate Hwf.
      eapply accepts_ok; intros st; reflexivity.
    - (* Bytes *)
      destruct v as [n|z|bs|tag vs]; try discriminate Hwf. cbn [prim_small] in Hsm.
      eapply accepts_ok. intros st. unfold enc_prim. apply enc_bytes_ok. apply small_lt. exact Hsm.
    - (* BigInt *)
      destruct v as [n|z|bs|tag vs]; try discriminate Hwf. cbn [prim_small] in Hsm.
      eapply accepts_ok. intros st. unfold enc_prim. apply enc_bytes_ok. apply small_lt. exact Hsm.
    - (* BigDecimal *)
      destruct v as [n|z|bs|tag vs]; try discriminate Hwf. destruct tag; try discriminate Hwf.
      destruct vs as [|[|i| |] [|[|sc| |] [|? ?]]]; try discriminate Hwf. cbn [prim_small] in Hsm.
      eapply accepts_ok. intros st. unfold enc_prim. apply enc_string_ok. lia.
    - (* Tz *)
      destruct v as [n|z|bs|tag vs]; try discriminate Hwf.
      eapply accepts_ok. intros st. unfold enc_prim. rewrite (tz_known_enc_string bs st Hwf). reflexivity.
    - (* DateTime<Utc> *)
      destruct v as [n|z|bs|tag vs]; try discriminate Hwf. destruct tag; try discriminate Hwf.
      destruct vs as [|[|secs| |] [|[nanos| | |] [|? ?]]]; try discriminate Hwf.
      eapply accepts_ok; intros st; reflexivity.
    - (* NaiveDate *)
      assert (Hw : wf_ndate v = true) by (destruct v; exact Hwf).
      destruct (wf_ndate_enc v Hw) as [b Hb].
      eapply accepts_ok. intros st. unfold enc_prim. rewrite Hb. reflexivity.
    - (* NaiveTime *)
      assert (Hw : wf_ntime v = true) by (destruct v; exact Hwf).
      destruct (wf_ntime_enc v Hw) as [b Hb].
      eapply accepts_ok. intros st. unfold enc_prim. rewrite Hb. reflexivity.
    - (* NaiveDateTime *)
      assert (Hw : wf_ndt v = true) by (destruct v; exact Hwf).
      destruct (wf_ndt_enc v Hw) as [b Hb].
      eapply accepts_ok. intros st. unfold enc_prim. rewrite Hb. reflexivity.
    - (* DateTime<Local> *)
      assert (Hw : wf_ndt v = true) by (destruct v; exact Hwf).
      destruct (wf_ndt_enc v Hw) as [b Hb].
      eapply accepts_ok. intros st. unfold enc_prim. rewrite Hb. reflexivity.
    - (* DateTime<FixedOffset> *)
      destruct v as [n|z|bs|tag vs]; try discriminate Hwf. destruct tag; try discriminate Hwf.
      destruct vs as [|dt [|[|off| |] [|? ?]]]; try discriminate Hwf.
      apply andb_true_iff in Hwf as [Hwf _]. apply andb_true_iff in Hwf as [Hdt _].
      destruct (wf_ndt_enc dt Hdt) as [b Hb].
      eapply accepts_ok. intros st. unfold enc_prim. rewrite Hb. reflexivity.
    - (* DateTime<Tz> *)
      destruct v as [n|z|bs|tag vs]; try discriminate Hwf. destruct tag; try discriminate Hwf.
      destruct vs as [|dt [|[| |nm|] [|? ?]]]; try discriminate Hwf.
      apply andb_true_iff in Hwf as [Hdt Hk].
      destruct (wf_ndt_enc dt Hdt) as [b Hb].
      eapply accepts_ok. intros st. unfold enc_prim. rewrite Hb. cbn [of_opt bind].
      rewrite (tz_known_enc_string nm st Hk). reflexivity.
  Qed.

  Lemma accepts_bind (e1 e2 : encoder) w1 w2 x1 x2 (st1 : strtab) :
    accepts e1 w1 x1 -> accepts e2 w2 x2 ->
    ext_of st0 st1 -> nlen st1 + (w1 + w2) < 2 ^ 31 ->
    exists b1 sta b2 stb, e1 x1 st1 = Ok (b1, sta) /\ e2 x2 sta = Ok (b2, stb) /\
      ext_of st1 stb /\ nlen stb <= nlen st1 + (w1 + w2).
  Proof.
    intros H1 H2 Hext Hroom.
    destruct (H1 st1 Hext ltac:(lia)) as (b1 & sta & E1 & X1 & N1).
    destruct (H2 sta (ext_of_trans _ _ _ Hext X1) ltac:(lia)) as (b2 & stb & E2 & X2 & N2).
    exists b1, sta, b2, stb. split; [exact E1|]. split; [exact E2|].
    split; [eapply ext_of_trans; eassumption | lia].
  Qed.

  Lemma enc_items_accepts (e : encoder) (wf : val -> N) : forall vs fuel,
    (length vs <= fuel)%nat -> Forall (fun x => accepts e (wf x) x) vs ->
    accepts (fun v => enc_items fuel e match v with VNode _ l => l | _ => [] end) (sumN (map wf vs)) (VNode 0 vs).
  Proof.
    induction vs as [|x vs IH]; intros fuel Hf Hall st1 Hext Hroom.
    - exists [], st1. split; [destruct fuel; reflexivity|]. split; [apply ext_of_refl | lia].
    - destruct fuel as [|fl]; [cbn [length] in Hf; lia|]. cbn [length] in Hf.
      inversion Hall as [|? ? Hx Hvs]; subst.
      cbn [map] in Hroom |- *. change (sumN (wf x :: map wf vs)) with (wf x + sumN (map wf vs)) in *.
      destruct (accepts_bind e _ _ _ x (VNode 0 vs) st1 Hx (IH fl ltac:(lia) Hvs) Hext Hroom)
        as (b1 & sta & b2 & stb & E1 & E2 & X & Nn).
      cbn [enc_items]. rewrite E1. cbn [bind]. rewrite E2. cbn [bind].
      eexists _, _. split; [reflexivity|]. split; assumption.
  Qed.

  Lemma enc_seq_accepts (e : encoder) (wf : val -> N) vs fuel :
    (length vs <= fuel)%nat -> nlen vs < 2 ^ 31 -> Forall (fun x => accepts e (wf x) x) vs ->
    forall st1, ext_of st0 st1 -> nlen st1 + sumN (map wf vs) < 2 ^ 31 ->
      exists b st2, enc_seq fuel e vs st1 = Ok (b, st2) /\ ext_of st1 st2 /\
                    nlen st2 <= nlen st1 + sumN (map wf vs).
  Proof.
    intros Hf Hn Hall st1 Hext Hroom. unfold enc_seq.
    assert (nlen vs <? 2 ^ 31 = true) as -> by lia.
    destruct (enc_items_accepts e wf vs fuel Hf Hall st1 Hext Hroom) as (b & st2 & Eb & X & Nn).
    cbv beta iota in Eb. rewrite Eb. cbn [bind]. eexists _, _. split; [reflexivity|]. split; assumption.
  Qed.

  Lemma enc_fields_v0_accepts (encf : ty -> encoder) (ev : ty -> val -> Prop) (ewf : ty -> val -> N) :
    (forall t x, ev t x -> accepts (encf t) (ewf t x) x) ->
    forall fs vs, eov_fields ev fs vs ->
    forall st1, ext_of st0 st1 -> nlen st1 + ew_fields ewf fs vs < 2 ^ 31 ->
      exists b st2, enc_fields_v0 encf fs vs st1 = Ok (b, st2) /\ ext_of st1 st2 /\
                    nlen st2 <= nlen st1 + ew_fields ewf fs vs.
  Proof.
    intros He. induction fs as [|f fs IH]; intros [|x vs] Hv st1 Hext Hroom; cbn [eov_fields] in Hv; try contradiction.
    - exists [], st1. split; [reflexivity|]. split; [apply ext_of_refl | cbn [ew_fields]; lia].
    - destruct Hv as [Hx Hv]. cbn [enc_fields_v0 ew_fields] in *.
      destruct (f_transient f).
      + rewrite N.add_0_l in *. apply IH; assumption.
      + destruct (He _ _ Hx st1 Hext ltac:(lia)) as (b1 & sta & E1 & X1 & N1).
        destruct (IH vs Hv sta (ext_of_trans _ _ _ Hext X1) ltac:(lia)) as (b2 & stb & E2 & X2 & N2).
        rewrite E1. cbn [bind]. rewrite E2. cbn [bind].
        eexists _, _. split; [reflexivity|]. split; [eapply ext_of_trans; eassumption | lia].
  Qed.

  Lemma enc_record_accepts (encf : ty -> encoder) (ev : ty -> val -> Prop) (ewf : ty -> val -> N) m :
    r_steps m = [] ->
    (forall t x, ev t x -> accepts (encf t) (ewf t x) x) ->
    forall vs, eov_fields ev (r_fields m) vs ->
    forall st1, ext_of st0 st1 -> nlen st1 + ew_fields ewf (r_fields m) vs < 2 ^ 31 ->
      exists b st2, enc_record encf m vs st1 = Ok (b, st2) /\ ext_of st1 st2 /\
                    nlen st2 <= nlen st1 + ew_fields ewf (r_fields m) vs.
  Proof.
    intros Hs He vs Hv st1 Hext Hroom. unfold enc_record. rewrite Hs.
    destruct (enc_fields_v0_accepts encf ev ewf He (r_fields m) vs Hv st1 Hext Hroom) as (b & st2 & Eb & X & Nn).
    rewrite Eb. cbn [bind]. eexists _, _. split; [reflexivity|]. split; assumption.
  Qed.

  Theorem eov_accepts : forall g t v, eov E st0 L g t v -> accepts (enc g E t) (ew E g t v) v.
  Proof.
    induction g as [|g IH]; intros t v Hv; [destruct Hv|].
    destruct t as [p | t' | r e | ts | k e | mk kt vt | wk t' | | n]; cbn [eov] in Hv.
    - destruct Hv as (H1 & H2 & H3). cbn [ew]. intros st1. cbn [enc].
      apply (enc_prim_accepts p v H1 H2 (H3 HNS)).
    - destruct v as [| | |tag vs]; try contradiction.
      destruct tag as [|[?|?|]]; try contradiction.
      + destruct vs; [|contradiction]. eapply accepts_ok. intros st. reflexivity.
      + destruct vs as [|x [|? ?]]; try contradiction.
        intros st1 Hext Hroom. cbn [ew] in *.
        destruct (IH _ _ Hv st1 Hext Hroom) as (b & st2 & Eb & X & Nn).
        cbn [enc]. rewrite Eb. cbn [bind]. eexists _, _. split; [reflexivity|]. split; assumption.
    - destruct v as [| | |tag vs]; try contradiction.
      destruct tag as [|[?|?|]]; try contradiction; destruct vs as [|x [|? ?]]; try contradiction;
        intros st1 Hext Hroom; cbn [ew] in *;
        destruct (IH _ _ Hv st1 Hext Hroom) as (b & st2 & Eb & X & Nn);
        cbn [enc]; rewrite Eb; cbn [bind]; (eexists _, _; split; [reflexivity|]; split; assumption).
    - destruct v as [| | |tag vs]; try contradiction. destruct tag; try contradiction.
      intros st1 Hext Hroom. cbn [ew enc] in *.
      apply (enc_record_accepts (enc g E) (eov E st0 L g) (ew E g) (tuple_meta ts) eq_refl IH vs Hv st1 Hext Hroom).
    - intros st1 Hext Hroom. cbn [ew enc] in *. destruct (byte_path k e).
      + destruct v; try contradiction. rewrite enc_bytes_ok by (apply small_lt, Hv, HNS).
        eexists _, _. split; [reflexivity|]. split; [apply ext_of_refl | lia].
      + destruct v as [| | |tag vs]; try contradiction. destruct tag; try contradiction.
        destruct Hv as (Hl & Hsm & Hall).
        apply (enc_seq_accepts (enc g E e) (ew E g e) vs g Hl (small_lt _ (Hsm HNS))); [|exact Hext | exact Hroom].
        eapply Forall_impl; [|exact Hall]. cbv beta. intros x Hx. apply IH. exact Hx.
    - intros st1 Hext Hroom. cbn [ew enc] in *.
      destruct v as [| | |tag vs]; try contradiction. destruct tag; try contradiction.
      destruct Hv as (Hl & Hsm & Hall).
      apply (enc_seq_accepts (enc g E (TTuple [kt; vt])) (ew E g (TTuple [kt; vt])) vs g Hl (small_lt _ (Hsm HNS)));
        [|exact Hext | exact Hroom].
      eapply Forall_impl; [|exact Hall]. cbv beta. intros x Hx. apply IH. exact Hx.
    - intros st1 Hext Hroom. cbn [ew enc] in *. apply IH; assumption.
    - subst v. eapply accepts_ok. intros st. reflexivity.
    - intros st1 Hext Hroom. cbn [ew enc] in *.
      destruct (lookup_decl E n) as [d|] eqn:Hl; [|contradiction].
      assert (Hnd : nosteps_decl d).
      { unfold lookup_decl in Hl. apply nth_error_In in Hl. unfold nosteps in HNS.
        rewrite Forall_forall in HNS. apply HNS. exact Hl. }
      unfold nosteps_decl in Hnd.
      destruct (d_body d) as [m|m].
      + destruct v as [| | |tag vs]; try contradiction. destruct tag; try contradiction.
        apply (enc_record_accepts (enc g E) (eov E st0 L g) (ew E g) m Hnd IH vs Hv st1 Hext Hroom).
      + destruct v as [| | |tag vs]; try contradiction. unfold enc_enum.
        destruct (case_index (cases_of m) tag 0) as [[idx var]|] eqn:Hci; [|contradiction].
        destruct Hv as (Htr & Hidx & Hv). rewrite Htr.
        assert (2 ^ 32 <=? idx = false) as -> by lia.
        pose proof (case_index_nth _ _ _ _ Hci) as Hnth. rewrite Hnth in Hroom |- *.
        assert (Hs : r_steps (v_rec var) = []).
        { rewrite Forall_forall in Hnd. apply Hnd. eapply nth_error_In. exact Hnth. }
        destruct (enc_record_accepts (enc g E) (eov E st0 L g) (ew E g) (v_rec var) Hs IH vs Hv st1 Hext Hroom)
          as (b & st2 & Eb & X & Nn).
        rewrite Eb. cbn [bind]. eexists _, _. split; [reflexivity|]. split; assumption.
  Qed.
End EncOk.

(* ================================================================== *)
(*     Part 2: every accepted input denotes a value the format writes   *)
(* ================================================================== *)

(* any environment: re-encoding the decoded value v with enough fuel, from ANY string table,
   either succeeds -- and then that canonical encoding denotes v again -- or stops on a size
   limit of the format: a length over i32::MAX / u32::MAX (ELengthTooLarge; this includes the
   byte size of a chunk of a record with evolution steps), or the overflow of the string-id
   counter (Panic POverflow), or -- only if some FieldMadeOptional step names a field that is
   neither written nor removed, see decA_reencode' -- UnknownFieldReferenceInEvolutionStep.
   It never runs out of fuel, and never fails with EIllTyped, EUnsupportedCharacter or
   ESerTransientCtor. *)
Theorem decA_reencode : forall f E t s v s',
  wf_env E = true -> wf_env_rt E = true -> wf_ty E t = true -> defaults_enc E ->
  bytes_ok (a_cur s) -> strs_ok (a_strs s) ->
  dec a_ops f E t s = Ok (v, s') ->
  exists g0, forall g, (g0 <= g)%nat -> forall st,
    match enc g E t v st with
    | Ok (b, st2) => forall r2 k2, dec a_ops g E t (mkA (b ++ r2) k2 st) = Ok (v, mkA r2 k2 st2)
    | Err e => e = ELengthTooLarge \/ exists n, e = EUnknownFieldRef n
    | Panic p => p = POverflow /\
                 exists bs x, enc_dedup bs (st ++ x) = Panic POverflow /\ 2 ^ 31 - 1 <= nlen st + nlen x
    | Fuel => False
    end.
Proof.
  intros f E t s v s' HE HR Ht HDf Hb Hst Hd.
  pose proof (decA_GV E (a_strs s) (nlen (a_cur s)) True HE HDf f t Ht s) as H.
  assert (Hs : sinv (a_strs s) (nlen (a_cur s)) s).
  { split; [split; [exact Hb | lia]|]. apply Forall_forall. intros x Hx. split.
    - unfold strs_ok in Hst. rewrite Forall_forall in Hst. apply Hst. exact Hx.
    - left. exact Hx. }
  specialize (H Hs). rewrite Hd in H. destruct H as (_ & _ & w & [g0 Hg] & _). cbn [fst snd] in *.
  exists g0. intros g Hle st. destruct (Hg g Hle) as ((H1 & H2 & H3) & _).
  pose proof (eov_eok E _ _ g t v (H3 I) st) as Hok.
  destruct (enc g E t v st) as [[b st2]|e|p|] eqn:He; cbn [eok] in Hok.
  - intros r2 k2. rewrite <- H2. apply roundtrip; assumption.
  - exact Hok.
  - eapply C17_enc_panic_origin; eassumption.
  - exact Hok.
Qed.

Corollary decA_reencode' : forall f E t s v s',
  wf_env E = true -> wf_env_rt E = true -> wf_ty E t = true -> defaults_enc E -> Forall mo_ok_decl E ->
  bytes_ok (a_cur s) -> strs_ok (a_strs s) ->
  dec a_ops f E t s = Ok (v, s') ->
  exists g0, forall g, (g0 <= g)%nat -> forall st,
    match enc g E t v st with
    | Ok (b, st2) => forall r2 k2, dec a_ops g E t (mkA (b ++ r2) k2 st) = Ok (v, mkA r2 k2 st2)
    | Err e => e = ELengthTooLarge
    | Panic p => p = POverflow
    | Fuel => False
    end.
Proof.
  intros f E t s v s' HE HR Ht HDf Hmo Hb Hst Hd.
  destruct (decA_reencode f E t s v s' HE HR Ht HDf Hb Hst Hd) as [g0 H]. exists g0. intros g Hg st.
  specialize (H g Hg st). pose proof (C14_enc_no_unknown_ref g E Hmo t v st) as Hn.
  destruct (enc g E t v st) as [[b st2]|e|p|]; [exact H | | | exact H].
  - destruct H as [H|[n H]]; [exact H|]. subst e. exfalso. exact (Hn n eq_refl).
  - exact (proj1 H).
Qed.

(* without evolution steps there are no FieldAdded defaults *)
Lemma defaults_wf_nosteps E : nosteps E -> defaults_wf E -> defaults_enc E.
Proof.
  intros HNS H d Hd. specialize (H d Hd).
  assert (Hnd : nosteps_decl d) by (unfold nosteps in HNS; rewrite Forall_forall in HNS; apply HNS; exact Hd).
  unfold nosteps_decl in Hnd.
  assert (G : forall m, r_steps m = [] -> rmeta_defaults_ok False E m -> rmeta_defaults_ok True E m).
  { intros m Hs Hm f Hf. specialize (Hm f Hf). destruct (f_transient f); [exact Hm|].
    intros dv Hdv. rewrite Hs in Hdv. cbn [field_default] in Hdv. discriminate. }
  destruct (d_body d) as [m|m]; [apply G; assumption|].
  intros v Hv. apply G; [|apply H; exact Hv]. rewrite Forall_forall in Hnd. apply Hnd. exact Hv.
Qed.

(* environments without evolution steps: the canonical writer accepts the decoded value *)
Theorem decA_denotes : forall f E t c r k st v st',
  wf_env E = true -> wf_env_rt E = true -> wf_ty E t = true ->
  defaults_wf E -> nosteps E ->
  bytes_ok (c ++ r) -> strs_ok st -> nlen (c ++ r) + nlen st + 64 < 2 ^ 31 ->
  dec a_ops f E t (mkA (c ++ r) k st) = Ok (v, mkA r k st') ->
  exists g b st2,
    enc g E t v st = Ok (b, st2) /\
    forall r2 k2, dec a_ops g E t (mkA (b ++ r2) k2 st) = Ok (v, mkA r2 k2 st2).
Proof.
  intros f E t c r k st v st' HE HR Ht HDf HNS Hb Hst Hlen Hd.
  pose proof (decA_GV E st (nlen (c ++ r)) True HE (defaults_wf_nosteps E HNS HDf) f t Ht (mkA (c ++ r) k st)) as H.
  assert (Hs : sinv st (nlen (c ++ r)) (mkA (c ++ r) k st)).
  { split; cbn [a_cur a_strs]; [split; [exact Hb | lia]|]. apply Forall_forall. intros x Hx. split.
    - unfold strs_ok in Hst. rewrite Forall_forall in Hst. apply Hst. exact Hx.
    - left. exact Hx. }
  specialize (H Hs). rewrite Hd in H. destruct H as (_ & _ & w & [g0 Hg] & Hw). cbn [fst snd a_cur] in *.
  destruct (Hg g0 (le_n _)) as ((H1 & H2 & H3) & H4). specialize (H4 HNS).
  assert (HL : nlen (c ++ r) + 64 < 2 ^ 31) by lia.
  destruct (eov_accepts E st (nlen (c ++ r)) HNS HL g0 t v (H3 I) st (ext_of_refl st) ltac:(lia))
    as (b & st2 & He & _ & _).
  exists g0, b, st2. split; [exact He|].
  intros r2 k2. rewrite <- H2. apply roundtrip; assumption.
Qed.

(* ---------- the side condition on defaults, in two frequent cases ---------- *)
Lemma defaults_ok_nil EO : defaults_ok EO [].
Proof. intros d []. Qed.

Lemma nosteps_nil : nosteps [].
Proof. constructor. Qed.

(* ================================================================== *)
(*                         non-vacuity                                  *)
(* ================================================================== *)

(* Vec<Option<bool>> in the unknown-length form: the marker -1 as an over-long var-int
   (0x81 0x00), two flagged items Some(true) -- with the bool byte 7 -- and None, terminator *)
Definition ex_ty : ty := TSeq KVec (TOption (TPrim PBool)).
Definition ex_in : bytes := [129; 0; 1; 1; 7; 1; 0; 0].
Definition ex_val : val := VNode 0 [VNode 1 [VN 1]; VNode 0 []].
Definition ex_canon : bytes := [4; 1; 1; 0].

Example ex_lenient_decode : dec a_ops 10 [] ex_ty (mkA ex_in [] []) = Ok (ex_val, mkA [] [] []).
Proof. vm_compute. reflexivity. Qed.
Example ex_canonical_encode : enc 10 [] ex_ty ex_val [] = Ok (ex_canon, []).
Proof. vm_compute. reflexivity. Qed.
Example ex_canonical_decode : dec a_ops 10 [] ex_ty (mkA ex_canon [] []) = Ok (ex_val, mkA [] [] []).
Proof. vm_compute. reflexivity. Qed.
Example ex_differ : ex_in <> ex_canon.
Proof. discriminate. Qed.

(* the hypotheses of decA_denotes hold for it *)
Example ex_denotes : exists g b st2,
  enc g [] ex_ty ex_val [] = Ok (b, st2) /\
  forall r2 k2, dec a_ops g [] ex_ty (mkA (b ++ r2) k2 []) = Ok (ex_val, mkA r2 k2 st2).
Proof.
  apply (decA_denotes 10 [] ex_ty ex_in [] [] [] ex_val []);
    first [ solve [apply defaults_ok_nil] | solve [apply nosteps_nil] | solve [vm_compute; reflexivity]
          | solve [unfold strs_ok; constructor]
          | solve [unfold bytes_ok, ex_in; cbn [app]; repeat constructor] ].
Qed.

(* a set with a repeated element, and a de-duplicated string given twice in full *)
Definition ex2_ty : ty := TSeq KHashSet (TPrim PDedupString).
Definition ex2_in : bytes := [6; 2; 97; 2; 97; 2; 98].       (* {"a", "a", "b"}, no back reference *)
Definition ex2_val : val := VNode 0 [VB [97]; VB [98]].
Example ex2_lenient_decode :
  dec a_ops 10 [] ex2_ty (mkA ex2_in [] []) = Ok (ex2_val, mkA [] [] [[97]; [98]]).
Proof. vm_compute. reflexivity. Qed.
Example ex2_canonical_encode : enc 10 [] ex2_ty ex2_val [] = Ok ([4; 2; 97; 2; 98], [[97]; [98]]).
Proof. vm_compute. reflexivity. Qed.

(* evolution: a record whose field b : Option<u8> was added with default None; an input of
   version 0 is accepted, the canonical writer renders version 1 with its header *)
Definition ex3_env : env :=
  [mkD [82] (DRecord (mkR [mkField [97] (TPrim PU8) false None;
                           mkField [98] (TOption (TPrim PU8)) true None]
                          [SAdded [98] (VNode 0 [])]))].
Definition ex3_val : val := VNode 0 [VN 5; VNode 0 []].
Example ex3_old_version_decode :
  dec a_ops 5 ex3_env (TNamed 0) (mkA [0; 5] [] []) = Ok (ex3_val, mkA [] [] []).
Proof. vm_compute. reflexivity. Qed.
Example ex3_canonical_encode : enc 5 ex3_env (TNamed 0) ex3_val [] = Ok ([1; 2; 2; 5; 0], []).
Proof. vm_compute. reflexivity. Qed.
Example ex3_canonical_decode :
  dec a_ops 5 ex3_env (TNamed 0) (mkA [1; 2; 2; 5; 0] [] []) = Ok (ex3_val, mkA [] [] []).
Proof. vm_compute. reflexivity. Qed.

Example ex3_defaults : defaults_enc ex3_env.
Proof.
  intros d [<-|[]]. cbn [d_body]. intros f [<-|[<-|[]]]; cbn [f_transient f_name f_ty r_steps].
  - intros dv Hdv. vm_compute in Hdv. discriminate.
  - intros dv Hdv. vm_compute in Hdv. injection Hdv as <-.
    exists 1%nat. intros g Hg. destruct g as [|g]; [lia|].
    split; [reflexivity|]. split; [reflexivity|]. intros _ st0 L. exact I.
Qed.

Example ex3_mo_ok : Forall mo_ok_decl ex3_env.
Proof.
  constructor; [|constructor]. intros n H. cbn [r_steps In] in H. destruct H as [H|[]]. discriminate.
Qed.

(* the hypotheses of decA_reencode' hold for it *)
Example ex3_reencode : exists g0, forall g, (g0 <= g)%nat -> forall st,
  match enc g ex3_env (TNamed 0) ex3_val st with
  | Ok (b, st2) =>
      forall r2 k2, dec a_ops g ex3_env (TNamed 0) (mkA (b ++ r2) k2 st) = Ok (ex3_val, mkA r2 k2 st2)
  | Err e => e = ELengthTooLarge
  | Panic p => p = POverflow
  | Fuel => False
  end.
Proof.
  apply (decA_reencode' 5 ex3_env (TNamed 0) (mkA [0; 5] [] []) ex3_val (mkA [] [] []));
    first [ solve [reflexivity] | solve [apply ex3_defaults] | solve [apply ex3_mo_ok]
          | solve [unfold strs_ok; constructor]
          | solve [unfold bytes_ok; cbn [a_cur]; repeat constructor] ].
Qed.

(* findings: the decoder hands out declared defaults unchecked.  A transient field of type u8
   whose declared default is 300: every input of the record decodes to a value that is not
   well-formed, hence the hypothesis defaults_ok of decA_wf. *)
Definition bad_env : env :=
  [mkD [82] (DRecord (mkR [mkField [97] (TPrim PU8) false (Some (VN 300))] []))].
Example bad_transient_default_decodes :
  dec a_ops 5 bad_env (TNamed 0) (mkA [0] [] []) = Ok (VNode 0 [VN 300], mkA [] [] []).
Proof. vm_compute. reflexivity. Qed.
Example bad_transient_default_not_wf : forall g, wf_val g bad_env (TNamed 0) (VNode 0 [VN 300]) = false.
Proof. intros [|[|g]]; reflexivity. Qed.
Example bad_env_wf : wf_env bad_env = true /\ wf_env_rt bad_env = true /\ wf_ty bad_env (TNamed 0) = true.
Proof. repeat split; reflexivity. Qed.

(* the same for a FieldAdded default, produced when the stored version predates the field *)
Definition bad_env2 : env :=
  [mkD [82] (DRecord (mkR [mkField [97] (TPrim PU8) false None] [SAdded [97] (VN 300)]))].
Example bad_added_default_decodes :
  dec a_ops 5 bad_env2 (TNamed 0) (mkA [0] [] []) = Ok (VNode 0 [VN 300], mkA [] [] []).
Proof. vm_compute. reflexivity. Qed.
Example bad_added_default_not_wf : forall g, wf_val g bad_env2 (TNamed 0) (VNode 0 [VN 300]) = false.
Proof. intros [|[|g]]; reflexivity. Qed.
Example bad_env2_wf : wf_env bad_env2 = true /\ wf_env_rt bad_env2 = true /\ wf_ty bad_env2 (TNamed 0) = true.
Proof. repeat split; reflexivity. Qed.

(* finding: wf_env does not imply mo_ok_decl.  A FieldMadeOptional step for a field that the
   record neither writes nor removed: every input is accepted, and the writer refuses every
   value of the type with UnknownFieldReferenceInEvolutionStep *)
Definition bad_env3 : env := [mkD [82] (DRecord (mkR [] [SMadeOptional [120]]))].
Example bad_env3_wf : wf_env bad_env3 = true /\ wf_env_rt bad_env3 = true /\ wf_ty bad_env3 (TNamed 0) = true.
Proof. repeat split; reflexivity. Qed.
Example bad_env3_decodes : dec a_ops 5 bad_env3 (TNamed 0) (mkA [0] [] []) = Ok (VNode 0 [], mkA [] [] []).
Proof. vm_compute. reflexivity. Qed.
Example bad_env3_not_writable : forall g st, (2 <= g)%nat ->
  enc g bad_env3 (TNamed 0) (VNode 0 []) st = Err (EUnknownFieldRef [120]).
Proof. intros [|[|g]] st H; try lia. reflexivity. Qed.

(* observation: wf_val is not monotone in its fuel.  A map whose keys are maps whose keys are
   records with a transient field: at fuel 4 the two keys are compared un-normalised and
   differ, from fuel 5 on they are normalised and collide.  Hence "well-formed at every large
   enough fuel" (decA_wf_all, wf_default, good_default) rather than "at some fuel". *)
Definition nm_env : env :=
  [mkD [82] (DRecord (mkR [mkField [97] (TPrim PU8) false (Some (VN 0))] []))].
Definition nm_ty : ty := TMap KHashMap (TMap KBTreeMap (TNamed 0) (TPrim PU8)) (TPrim PU8).
Definition nm_inner (a : N) : val := VNode 0 [VNode 0 [VNode 0 [VN a]; VN 0]].
Definition nm_val : val := VNode 0 [VNode 0 [nm_inner 1; VN 0]; VNode 0 [nm_inner 2; VN 0]].
Example wf_val_not_monotone :
  wf_val 4 nm_env nm_ty nm_val = true /\ wf_val 5 nm_env nm_ty nm_val = false /\
  wf_val 6 nm_env nm_ty nm_val = false.
Proof. repeat split; vm_compute; reflexivity. Qed.

Print Assumptions decA_wf_all.
Print Assumptions decA_wf.
Print Assumptions decA_reencode.
Print Assumptions decA_reencode'.
Print Assumptions decA_denotes.
