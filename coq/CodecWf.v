(* CodecWf.v — well-formedness of declarations and values, and the normal form of a value
   (transient fields reset to their declared defaults).  Definitions only. *)
From Coq Require Import NArith ZArith List Bool.
From Desert Require Import Outcome IO Types Calendar BigDec Codec.
Import ListNotations.
Open Scope N_scope.

(* prims whose codecs are modelled so far *)
Definition supported_prim (p : prim) : bool :=
  match p with
  | PU8 | PI8 | PU16 | PI16 | PU32 | PI32 | PU64 | PI64 | PU128 | PI128 | PF32 | PF64
  | PBool | PUnit | PChar | PString | PDedupString | PDuration | PBytes | PUuid | PBigInt => true
  | PWeekday | PMonth | PFixedOffset | PTz | PDateTimeUtc | PNaiveDate | PNaiveTime | PNaiveDateTime
  | PDateTimeLocal | PDateTimeFixed | PDateTimeTz => true
  | PVarU32 | PVarI32 => true
  (* BigDecimal: the decimal text the bigdecimal crate renders and parses (BigDec.v) *)
  | PBigDecimal => true
  end.

Fixpoint wf_ty (E : env) (t : ty) : bool :=
  match t with
  | TPrim p => supported_prim p
  | TOption t' => wf_ty E t'
  | TResult r e => wf_ty E r && wf_ty E e
  | TTuple ts => (1 <=? nlen ts) && (nlen ts <=? 8) && forallb (wf_ty E) ts
  | TSeq _ e => wf_ty E e
  | TMap _ k v => wf_ty E k && wf_ty E v
  | TWrap _ t' => wf_ty E t'
  | TPhantom => true
  | TNamed n => match lookup_decl E n with Some _ => true | None => false end
  end.

Fixpoint names_nodup (l : list name) : bool :=
  match l with
  | [] => true
  | x :: r => negb (existsb (bytes_eqb x) r) && names_nodup r
  end.

Definition is_some {A} (o : option A) : bool := match o with Some _ => true | None => false end.

Definition wf_field (E : env) (steps : list step) (f : field) : bool :=
  wf_ty E (f_ty f) &&
  (* an Option-spelled field has an Option type *)
  (if f_opt f then match f_ty f with TOption _ => true | _ => false end else true) &&
  match f_transient f with
  | Some _ => true
  | None =>
      (* a field that is written is not named by a FieldRemoved / FieldMadeTransient step *)
      negb (in_removed steps (f_name f)) &&
      (* a field with a FieldMadeOptional step is spelled Option (the macro's name-based detection) *)
      (f_opt f || negb (is_some (made_optional_at steps (f_name f))))
  end.

Definition wf_rmeta (E : env) (m : rmeta) : bool :=
  (version_of (r_steps m) <? 255) &&
  (nlen (r_fields m) <=? 127) &&
  names_nodup (map f_name (r_fields m)) &&
  forallb (wf_field E (r_steps m)) (r_fields m).

Definition wf_decl (E : env) (d : tdecl) : bool :=
  match d_body d with
  | DRecord m => wf_rmeta E m
  | DEnum m => forallb (fun v => wf_rmeta E (v_rec v)) (e_variants m)
  end.

Definition wf_env (E : env) : bool := forallb (wf_decl E) E.

(* ---------- values ---------- *)
Definition prim_bits (p : prim) : N :=
  match p with
  | PU8 | PI8 => 8 | PU16 | PI16 => 16 | PU32 | PI32 | PF32 => 32
  | PU64 | PI64 | PF64 => 64 | PU128 | PI128 => 128 | _ => 0
  end.

Definition wf_ndate (v : val) : bool :=
  match v with VNode 0 [VZ y; VN m; VN d] => valid_ymd y m d | _ => false end.
Definition wf_ntime (v : val) : bool :=
  match v with VNode 0 [VN h; VN mi; VN sec; VN ns] => valid_hmsn h mi sec ns | _ => false end.
Definition wf_ndt (v : val) : bool :=
  match v with VNode 0 [d; t] => wf_ndate d && wf_ntime t | _ => false end.

Definition wf_prim_val (p : prim) (v : val) : bool :=
  match p, v with
  | (PU8 | PU16 | PU32 | PU64 | PU128 | PF32 | PF64), VN n => n <? 2 ^ prim_bits p
  | (PI8 | PI16 | PI32 | PI64 | PI128), VZ z =>
      ((- 2 ^ (Z.of_N (prim_bits p) - 1) <=? z) && (z <? 2 ^ (Z.of_N (prim_bits p) - 1)))%Z
  | PBool, VN n => n <? 2
  | PUnit, VNode 0 [] => true
  | PChar, VN c => (c <? 1114112) && negb (in_range 55296 57343 c)
  | (PString | PDedupString), VB bs => utf8_valid bs
  | PDuration, VNode 0 [VN s; VN n] => (s <? 2 ^ 64) && (n <? 1000000000)
  | PBytes, VB _ => true
  | PUuid, VB bs => nlen bs =? 16
  | PBigInt, VZ _ => true
  | PBigDecimal, VNode 0 [VZ i; VZ sc] => bd_normal i sc
  | PWeekday, VN n => (1 <=? n) && (n <=? 7)
  | PMonth, VN n => (1 <=? n) && (n <=? 12)
  | PFixedOffset, VZ z => valid_offset z
  | PTz, VB nm => tz_known nm
  | PDateTimeUtc, VNode 0 [VZ secs; VN nanos] => valid_ts secs nanos
  | PNaiveDate, v => wf_ndate v
  | PNaiveTime, v => wf_ntime v
  | (PNaiveDateTime | PDateTimeLocal), v => wf_ndt v
  | PDateTimeFixed, VNode 0 [dt; VZ off] =>
      wf_ndt dt && valid_offset off && valid_local_with_offset (ndt_secs_of dt) off
  | PDateTimeTz, VNode 0 [dt; VB nm] => wf_ndt dt && tz_known nm
  | PVarU32, VN n => n <? 2 ^ 32
  | PVarI32, VZ z => ((- 2 ^ 31 <=? z) && (z <? 2 ^ 31))%Z
  | _, _ => false
  end.

(* ---------- field lists against value lists ---------- *)
Fixpoint wf_fields (w : ty -> val -> bool) (fs : list field) (vs : list val) : bool :=
  match fs, vs with
  | [], [] => true
  | fl :: fs', x :: vs' => w (f_ty fl) x && wf_fields w fs' vs'
  | _, _ => false
  end.

Fixpoint norm_fields (nv : ty -> val -> val) (fs : list field) (vs : list val) : list val :=
  match fs, vs with
  | fl :: fs', x :: vs' =>
      match f_transient fl with
      | Some d => d :: norm_fields nv fs' vs'
      | None => nv (f_ty fl) x :: norm_fields nv fs' vs'
      end
  | _, _ => vs
  end.

(* ---------- normal form: transient fields take their declared defaults ---------- *)
Fixpoint normv (f : nat) (E : env) (t : ty) (v : val) {struct f} : val :=
  match f with
  | O => v
  | S f' =>
      match t, v with
      | TOption t', VNode 1 [x] => VNode 1 [normv f' E t' x]
      | TResult r e, VNode 0 [x] => VNode 0 [normv f' E e x]
      | TResult r e, VNode 1 [x] => VNode 1 [normv f' E r x]
      | TTuple ts, VNode 0 vs => VNode 0 (norm_fields (normv f' E) (r_fields (tuple_meta ts)) vs)
      | TSeq k e, VNode 0 vs => if byte_path k e then v else VNode 0 (map (normv f' E e) vs)
      | TMap _ kt vt, VNode 0 vs => VNode 0 (map (normv f' E (TTuple [kt; vt])) vs)
      | TWrap _ t', _ => normv f' E t' v
      | TNamed n, VNode tag vs =>
          match lookup_decl E n with
          | None => v
          | Some d =>
              match d_body d with
              | DRecord m => VNode tag (norm_fields (normv f' E) (r_fields m) vs)
              | DEnum m =>
                  match nth_error (e_variants m) (N.to_nat tag) with
                  | Some var => VNode tag (norm_fields (normv f' E) (r_fields (v_rec var)) vs)
                  | None => v
                  end
              end
          end
      | _, _ => v
      end
  end.

Fixpoint vals_nodup (l : list val) : bool :=
  match l with
  | [] => true
  | x :: r => negb (existsb (val_eqb x) r) && vals_nodup r
  end.

Definition key_of (x : val) : val := match x with VNode _ (k :: _) => k | _ => x end.

(* value-level side conditions Rust's own types enforce, by fuel like the codecs *)
Fixpoint wf_val (f : nat) (E : env) (t : ty) (v : val) {struct f} : bool :=
  match f with
  | O => false
  | S f' =>
      match t with
      | TPrim p => wf_prim_val p v
      | TOption t' =>
          match v with
          | VNode 0 [] => true
          | VNode 1 [x] => wf_val f' E t' x
          | _ => false
          end
      | TResult r e =>
          match v with
          | VNode 0 [x] => wf_val f' E e x
          | VNode 1 [x] => wf_val f' E r x
          | _ => false
          end
      | TTuple ts =>
          match v with
          | VNode 0 vs => wf_fields (wf_val f' E) (r_fields (tuple_meta ts)) vs
          | _ => false
          end
      | TSeq k e =>
          if byte_path k e then
            match v with
            | VB bs => match k with KArray n => nlen bs =? n | _ => true end
            | _ => false
            end
          else
            match v with
            | VNode 0 vs =>
                forallb (wf_val f' E e) vs &&
                match k with
                | KArray n => nlen vs =? n
                | KHashSet | KBTreeSet => vals_nodup (map (normv f' E e) vs)
                | _ => true
                end
            | _ => false
            end
      | TMap _ kt vt =>
          match v with
          | VNode 0 vs =>
              forallb (fun kv => match kv with
                                 | VNode 0 [k; x] => wf_val f' E kt k && wf_val f' E vt x
                                 | _ => false end) vs &&
              vals_nodup (map (fun kv => key_of (normv f' E (TTuple [kt; vt]) kv)) vs)
          | _ => false
          end
      | TWrap _ t' => wf_val f' E t' v
      | TPhantom => match v with VNode 0 [] => true | _ => false end
      | TNamed n =>
          match lookup_decl E n with
          | None => false
          | Some d =>
              match d_body d, v with
              | DRecord m, VNode 0 vs => wf_fields (wf_val f' E) (r_fields m) vs
              | DEnum m, VNode tag vs =>
                  match nth_error (e_variants m) (N.to_nat tag) with
                  | Some var => wf_fields (wf_val f' E) (r_fields (v_rec var)) vs
                  | None => false
                  end
              | _, _ => false
              end
          end
      end
  end.

