(* CompressProofs.v — C16: compressed blocks round-trip and are correctly framed.
   deflate / inflate are oracles (Section variables); the only assumed law is
   inflate (deflate l d) = Some d, and it is used ONLY by the two round-trip theorems
   (C16_roundtrip_list, C16_roundtrip_src).  C16_frame, C16_truncated, C16_reserve hold
   for arbitrary deflate / inflate. *)
From Coq Require Import NArith ZArith List Lia Bool.
From Coq Require Import ZifyBool ZifyN ZifyNat.
From Desert Require Import Bits Outcome IO IOProofs VarintProofs Compress.
Import ListNotations.
Open Scope N_scope.

(* ---------- list helpers: a cut inside a concatenation ---------- *)
Lemma ntake_app_le {A} j (a b : list A) : j <= nlen a -> ntake j (a ++ b) = ntake j a.
Proof.
  unfold ntake. rewrite nlen_length. intros H. rewrite firstn_app.
  replace (N.to_nat j - length a)%nat with 0%nat by lia.
  cbn [firstn]. apply app_nil_r.
Qed.

Lemma ntake_app_ge {A} j (a b : list A) :
  nlen a <= j -> ntake j (a ++ b) = a ++ ntake (j - nlen a) b.
Proof.
  unfold ntake. rewrite nlen_length. intros H. rewrite firstn_app.
  rewrite firstn_all2 by lia. f_equal. f_equal. lia.
Qed.

(* ---------- a strict prefix of a var-int is an error ---------- *)
Lemma continuation_prefix_high bs n :
  continuation_ok bs = true -> (n < length bs)%nat ->
  Forall (fun b => 128 <= b < 256) (firstn n bs).
Proof.
  revert n. induction bs as [|b r IH]; intros n HC HL.
  - cbn in HL. lia.
  - destruct n as [|n]; [constructor|].
    cbn [firstn]. destruct r as [|b' r'].
    + cbn in HL. lia.
    + cbn [continuation_ok] in HC.
      apply andb_prop in HC. destruct HC as [HC1 HC2].
      apply andb_prop in HC1. destruct HC1 as [H1 H2].
      constructor; [lia|]. apply IH; [exact HC2|]. cbn [length] in HL |- *. lia.
Qed.

Lemma high_cont b : 128 <= b < 256 -> (N.land b 128 =? 0) = false.
Proof.
  intros Hb. replace b with ((b - 128) + 128) by lia. apply cont_high. lia.
Qed.

Lemma read_var_u32_all_high l :
  Forall (fun b => 128 <= b < 256) l -> (length l < 5)%nat ->
  read_var_u32 list_reader l = Err EInputEnded.
Proof.
  intros F L.
  destruct l as [|b0 [|b1 [|b2 [|b3 [|b4 l]]]]]; cbn [length] in L; try lia;
    rewrite ?Forall_cons_iff in F;
    unfold read_var_u32; cbn [list_reader r_u8 bind].
  - reflexivity.
  - destruct F as (H0 & _). rewrite (high_cont b0) by exact H0. reflexivity.
  - destruct F as (H0 & H1 & _).
    rewrite (high_cont b0) by exact H0. rewrite (high_cont b1) by exact H1. reflexivity.
  - destruct F as (H0 & H1 & H2 & _).
    rewrite (high_cont b0) by exact H0. rewrite (high_cont b1) by exact H1.
    rewrite (high_cont b2) by exact H2. reflexivity.
  - destruct F as (H0 & H1 & H2 & H3 & _).
    rewrite (high_cont b0) by exact H0. rewrite (high_cont b1) by exact H1.
    rewrite (high_cont b2) by exact H2. rewrite (high_cont b3) by exact H3. reflexivity.
Qed.

Lemma var_len_le_5 v : var_len v <= 5.
Proof.
  unfold var_len.
  destruct (v <? 2^7); [lia|]. destruct (v <? 2^14); [lia|].
  destruct (v <? 2^21); [lia|]. destruct (v <? 2^28); lia.
Qed.

Theorem read_var_u32_truncated v j :
  v < 2^32 -> j < nlen (write_var_u32 v) ->
  read_var_u32 list_reader (ntake j (write_var_u32 v)) = Err EInputEnded.
Proof.
  intros Hv Hj.
  pose proof (write_var_u32_continuation v Hv) as HC.
  pose proof (var_len_le_5 v) as H5. rewrite <- write_var_u32_length in H5.
  revert Hj HC H5. generalize (write_var_u32 v) as bs. intros bs Hj HC H5.
  rewrite nlen_length in Hj, H5.
  apply read_var_u32_all_high.
  - unfold ntake. apply continuation_prefix_high; [exact HC|lia].
  - unfold ntake. rewrite firstn_length. lia.
Qed.

Section CompressProofs.
  Variable deflate : N -> bytes -> bytes.
  Variable inflate : bytes -> option bytes.

  (* ---------- 1. frame layout ---------- *)
  Theorem C16_frame : forall l d, nlen d < 2^32 -> nlen (deflate l d) < 2^32 ->
    write_compressed deflate l d =
      write_var_u32 (nlen d) ++ write_var_u32 (nlen (deflate l d)) ++ deflate l d.
  Proof.
    intros l d Hd Hz. unfold write_compressed, as_u32.
    rewrite (N.mod_small (nlen d)) by exact Hd.
    rewrite (N.mod_small (nlen (deflate l d))) by exact Hz.
    reflexivity.
  Qed.

  (* the writer as repaired (F18): for EVERY block and level, either the frame with the TRUE lengths - the very
     bytes of the unchecked writer - or LengthTooLarge, exactly when a length does not fit 32 bits *)
  Theorem C16_frame_checked : forall l d,
    match write_compressed_checked deflate l d with
    | Ok b => nlen d < 2^32 /\ nlen (deflate l d) < 2^32 /\
              b = write_var_u32 (nlen d) ++ write_var_u32 (nlen (deflate l d)) ++ deflate l d /\
              b = write_compressed deflate l d
    | Err e => e = ELengthTooLarge /\ (2^32 <= nlen d \/ 2^32 <= nlen (deflate l d))
    | Panic _ | Fuel => False
    end.
  Proof.
    intros l d. unfold write_compressed_checked.
    destruct (nlen d <? 2 ^ 32) eqn:Hd.
    - apply N.ltb_lt in Hd. cbv zeta.
      destruct (nlen (deflate l d) <? 2 ^ 32) eqn:Hz.
      + apply N.ltb_lt in Hz. repeat split; try assumption. symmetry. apply C16_frame; assumption.
      + apply N.ltb_ge in Hz. split; [reflexivity | right; exact Hz].
    - apply N.ltb_ge in Hd. split; [reflexivity | left; exact Hd].
  Qed.

  (* ---------- the reader on a well-formed prefix (no law on inflate) ---------- *)
  Lemma read_compressed_frame_list u z s :
    u < 2^32 -> nlen z < 2^32 ->
    read_compressed inflate list_reader (write_var_u32 u ++ write_var_u32 (nlen z) ++ z ++ s) =
      match inflate z with
      | Some d => Ok (d, s, N.min u 65536)
      | None => Err EDecompressionFailure
      end.
  Proof.
    intros Hu Hz. unfold read_compressed.
    rewrite var_u32_roundtrip_list by exact Hu. cbn [bind].
    rewrite var_u32_roundtrip_list by exact Hz. cbn [bind].
    cbn [list_reader r_bytes]. rewrite nlen_app.
    assert (nlen z <=? nlen z + nlen s = true) as -> by lia.
    cbn [bind]. rewrite ntake_app_exact, ndrop_app_exact. reflexivity.
  Qed.

  (* ---------- 4. every strict prefix of a frame is an error ---------- *)
  Theorem C16_truncated : forall l d j, nlen d < 2^32 -> nlen (deflate l d) < 2^32 ->
    j < nlen (write_compressed deflate l d) ->
    is_err (read_compressed inflate list_reader (ntake j (write_compressed deflate l d))) = true.
  Proof.
    intros l d j Hd Hz Hj. rewrite C16_frame in * by assumption.
    set (z := deflate l d) in *.
    set (A := write_var_u32 (nlen d)) in *.
    set (B := write_var_u32 (nlen z)) in *.
    rewrite !nlen_app in Hj.
    unfold read_compressed.
    destruct (j <? nlen A) eqn:C1.
    { (* the cut is inside the first length *)
      rewrite ntake_app_le by lia.
      unfold A. rewrite read_var_u32_truncated by (fold A; lia || exact Hd).
      reflexivity. }
    rewrite ntake_app_ge by lia.
    unfold A at 1. rewrite var_u32_roundtrip_list by exact Hd. cbn [bind].
    destruct (j - nlen A <? nlen B) eqn:C2.
    { (* inside the second length *)
      rewrite ntake_app_le by lia.
      unfold B. rewrite read_var_u32_truncated by (fold B; lia || exact Hz).
      reflexivity. }
    (* inside the compressed bytes *)
    rewrite ntake_app_ge by lia.
    unfold B at 1. rewrite var_u32_roundtrip_list by exact Hz. cbn [bind].
    cbn [list_reader r_bytes].
    rewrite nlen_ntake by lia.
    assert (nlen z <=? j - nlen A - nlen B = false) as -> by lia.
    reflexivity.
  Qed.

  (* ---------- lifting read_compressed through a refining source ---------- *)
  Section LiftCompressed.
    Context {S : Type} (R : reader S) (inv : S -> Prop) (view : S -> bytes)
            (RF : refines R inv view).

    Definition csim (m : outcome (bytes * S * N)) (m' : outcome (bytes * bytes * N)) : Prop :=
      match m, m' with
      | Ok (d, s, r), Ok (d', l, r') => d = d' /\ r = r' /\ inv s /\ view s = l
      | Err e, Err e' => e = e'
      | _, _ => False
      end.

    Lemma read_compressed_sim s0 : inv s0 ->
      csim (read_compressed inflate R s0) (read_compressed inflate list_reader (view s0)).
    Proof.
      intros Hi0. unfold read_compressed.
      pose proof (read_var_u32_sim R inv view RF s0 Hi0) as H1.
      destruct (read_var_u32 R s0) as [[u s1]|e1|p1|];
        destruct (read_var_u32 list_reader (view s0)) as [[u' l1]|e1'|p1'|];
        cbn [osim] in H1; try contradiction; cbn [bind]; [|exact H1].
      destruct H1 as (-> & Hi1 & <-).
      pose proof (read_var_u32_sim R inv view RF s1 Hi1) as H2.
      destruct (read_var_u32 R s1) as [[c s2]|e2|p2|];
        destruct (read_var_u32 list_reader (view s1)) as [[c' l2]|e2'|p2'|];
        cbn [osim] in H2; try contradiction; cbn [bind]; [|exact H2].
      destruct H2 as (-> & Hi2 & <-).
      pose proof (rf_bytes R inv view RF c' s2 Hi2) as H3.
      destruct (r_bytes R c' s2) as [[z s3]|e3|p3|];
        destruct (r_bytes list_reader c' (view s2)) as [[z' l3]|e3'|p3'|];
        cbn [osim] in H3; try contradiction; cbn [bind]; [|exact H3].
      destruct H3 as (-> & Hi3 & <-).
      destruct (inflate z') as [d|]; cbn [csim]; auto.
    Qed.

    (* ---------- 5. the reservation is at most 64 KiB; nothing panics ---------- *)
    Theorem C16_reserve_gen : forall s0, inv s0 ->
      match read_compressed inflate R s0 with
      | Ok (_, _, reserve) => reserve <= 65536
      | Err _ => True
      | Panic _ | Fuel => False
      end.
    Proof.
      intros s0 Hi0. unfold read_compressed.
      pose proof (read_var_u32_sim R inv view RF s0 Hi0) as H1.
      destruct (read_var_u32 R s0) as [[u s1]|e1|p1|];
        destruct (read_var_u32 list_reader (view s0)) as [[u' l1]|e1'|p1'|];
        cbn [osim] in H1; try contradiction; cbn [bind]; [|exact I].
      destruct H1 as (-> & Hi1 & <-).
      pose proof (read_var_u32_sim R inv view RF s1 Hi1) as H2.
      destruct (read_var_u32 R s1) as [[c s2]|e2|p2|];
        destruct (read_var_u32 list_reader (view s1)) as [[c' l2]|e2'|p2'|];
        cbn [osim] in H2; try contradiction; cbn [bind]; [|exact I].
      destruct H2 as (-> & Hi2 & <-).
      pose proof (rf_bytes R inv view RF c' s2 Hi2) as H3.
      destruct (r_bytes R c' s2) as [[z s3]|e3|p3|];
        destruct (r_bytes list_reader c' (view s2)) as [[z' l3]|e3'|p3'|];
        cbn [osim] in H3; try contradiction; cbn [bind]; [|exact I].
      destruct (inflate z) as [d|]; [|exact I].
      apply N.le_min_r.
    Qed.
  End LiftCompressed.

  Theorem C16_reserve : forall {S} (R : reader S) inv view, refines R inv view ->
    forall s0, inv s0 ->
    match read_compressed inflate R s0 with
    | Ok (_, _, reserve) => reserve <= 65536
    | Err _ => True
    | Panic _ | Fuel => False
    end.
  Proof. intros S R inv view RF. exact (C16_reserve_gen R inv view RF). Qed.

  (* ---------- the one law of the oracle; used only below ---------- *)
  Hypothesis inflate_deflate : forall l d, inflate (deflate l d) = Some d.

  (* ---------- 2. round trip on the reference source ---------- *)
  Theorem C16_roundtrip_list : forall l d s, nlen d < 2^32 -> nlen (deflate l d) < 2^32 ->
    read_compressed inflate list_reader (write_compressed deflate l d ++ s) =
      Ok (d, s, N.min (nlen d) 65536).
  Proof.
    intros l d s Hd Hz. rewrite C16_frame by assumption.
    rewrite <- !app_assoc.
    rewrite read_compressed_frame_list by assumption.
    rewrite inflate_deflate. reflexivity.
  Qed.

  (* ---------- 3. round trip through every refining source ---------- *)
  Theorem C16_roundtrip_src : forall {S} (R : reader S) inv view, refines R inv view ->
    forall l d s0 rest, nlen d < 2^32 -> nlen (deflate l d) < 2^32 -> inv s0 ->
    view s0 = write_compressed deflate l d ++ rest ->
    exists s1, read_compressed inflate R s0 = Ok (d, s1, N.min (nlen d) 65536) /\
               inv s1 /\ view s1 = rest.
  Proof.
    intros S R inv view RF l d s0 rest Hd Hz Hi0 Hview.
    pose proof (read_compressed_sim R inv view RF s0 Hi0) as H.
    rewrite Hview, C16_roundtrip_list in H by assumption.
    destruct (read_compressed inflate R s0) as [[[d' s1] r]|e|p|];
      cbn [csim] in H; try contradiction.
    destruct H as (-> & -> & Hi1 & Hv1).
    exists s1. auto.
  Qed.
End CompressProofs.

(* ---------- instances: the three modelled Rust sources ---------- *)
Corollary C16_roundtrip_slice deflate inflate :
  (forall l d, inflate (deflate l d) = Some d) ->
  forall l d s0 rest, nlen d < 2^32 -> nlen (deflate l d) < 2^32 -> si_inv s0 ->
  si_view s0 = write_compressed deflate l d ++ rest ->
  exists s1, read_compressed inflate slice_reader s0 = Ok (d, s1, N.min (nlen d) 65536) /\
             si_inv s1 /\ si_view s1 = rest.
Proof. intros H. exact (C16_roundtrip_src deflate inflate H slice_reader _ _ slice_refines). Qed.

Corollary C16_roundtrip_owned deflate inflate :
  (forall l d, inflate (deflate l d) = Some d) ->
  forall l d s0 rest, nlen d < 2^32 -> nlen (deflate l d) < 2^32 -> oi_inv s0 ->
  oi_view s0 = write_compressed deflate l d ++ rest ->
  exists s1, read_compressed inflate owned_reader s0 = Ok (d, s1, N.min (nlen d) 65536) /\
             oi_inv s1 /\ oi_view s1 = rest.
Proof. intros H. exact (C16_roundtrip_src deflate inflate H owned_reader _ _ owned_refines). Qed.

Corollary C16_roundtrip_ctx deflate inflate :
  (forall l d, inflate (deflate l d) = Some d) ->
  forall l d s0 rest, nlen d < 2^32 -> nlen (deflate l d) < 2^32 -> rc_inv s0 ->
  rc_view s0 = write_compressed deflate l d ++ rest ->
  exists s1, read_compressed inflate ctx_reader s0 = Ok (d, s1, N.min (nlen d) 65536) /\
             rc_inv s1 /\ rc_view s1 = rest.
Proof. intros H. exact (C16_roundtrip_src deflate inflate H ctx_reader _ _ ctx_refines). Qed.

Check C16_frame.
Check C16_frame_checked.
Check C16_roundtrip_list.
Check C16_roundtrip_src.
Check C16_truncated.
Check C16_reserve.
Print Assumptions C16_frame.
Print Assumptions C16_frame_checked.
Print Assumptions C16_roundtrip_list.
Print Assumptions C16_roundtrip_src.
Print Assumptions C16_truncated.
Print Assumptions C16_reserve.
