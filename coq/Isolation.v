(* Isolation.v — C18: process-wide state and call isolation (definitions only).
   The only process-wide mutable-once state of the library is the lazily initialised
   AdtMetadata of each derived type (lazy_static / std::sync::Once; desert_macro/src/lib.rs:204-216,
   306-318, adt/mod.rs:15-18); every top-level call builds a fresh context and so a fresh State
   (lib.rs:27-44). A call is modelled as a sequence of atomic steps: first-use initialisation of
   the metadata cells it needs, then the body, which reads the metadata from the cells. *)
From Coq Require Import NArith ZArith List Bool.
From Desert Require Import Outcome IO Types Codec CodecB.
Import ListNotations.
Open Scope N_scope.

(* the evolution steps a metadata cell holds: for a record its steps, for an enum one per variant *)
Definition decl_steps (d : tdecl) : list (list step) :=
  match d_body d with
  | DRecord m => [r_steps m]
  | DEnum m => map (fun v => r_steps (v_rec v)) (e_variants m)
  end.

Inductive cell := Uninit | Ready (m : list (list step)).
Definition proc := list cell.

Definition proc_init (E : env) : proc := map (fun _ => Uninit) E.

(* Once: the first toucher installs the value computed from the declaration; later touches see it *)
Fixpoint touch (E : env) (p : proc) (n : nat) : proc :=
  match E, p, n with
  | d :: _, c :: r, O => (match c with Uninit => Ready (decl_steps d) | Ready m => Ready m end) :: r
  | _ :: E', c :: r, S n' => c :: touch E' r n'
  | _, _, _ => p
  end.

(* the declaration environment as the running code sees it: steps come from the cells *)
Definition with_steps (d : tdecl) (ms : list (list step)) : tdecl :=
  match d_body d, ms with
  | DRecord m, [s] => mkD (d_name d) (DRecord (mkR (r_fields m) s))
  | DEnum m, _ =>
      mkD (d_name d)
          (DEnum (mkE (e_sorted m)
                      (map (fun vs => mkV (v_name (fst vs)) (v_transient (fst vs))
                                          (mkR (r_fields (v_rec (fst vs))) (snd vs)))
                           (combine (e_variants m) ms))))
  | _, _ => d
  end.

Fixpoint env_seen (E : env) (p : proc) : env :=
  match E, p with
  | d :: E', Ready m :: p' => with_steps d m :: env_seen E' p'
  (* a cell that was never initialised holds nothing: reading it yields no declaration at all *)
  | d :: E', Uninit :: p' => mkD [] (DRecord (mkR [] [])) :: env_seen E' p'
  | _, _ => E
  end.

(* a top-level call and what it returns *)
Inductive call :=
| CEnc (fuel : nat) (t : ty) (v : val)          (* desert::serialize* *)
| CDec (fuel : nat) (t : ty) (bs : bytes).      (* desert::deserialize *)

Inductive result :=
| REnc (r : outcome bytes)
| RDec (r : outcome (val * N)).

(* fresh context, fresh State: the string table starts empty *)
Definition run_call (E : env) (c : call) : result :=
  match c with
  | CEnc f t v => REnc (omap fst (enc f E t v []))
  | CDec f t bs => RDec (omap (fun x => (fst (fst x), snd (fst x))) (decodeB f E t bs []))
  end.

(* the same call in a fresh process, alone *)
Definition pure_result (E : env) (c : call) : result := run_call E c.

(* atomic steps of a call: touch every declaration (in any fixed order), then run *)
Inductive mop := MTouch (n : nat) | MRun (c : call).
Definition call_ops (E : env) (c : call) : list mop :=
  map MTouch (seq 0 (length E)) ++ [MRun c].

(* a thread is the list of micro-steps it still has to perform; a configuration is the process
   state, the threads, and the results produced so far (thread index, result) *)
Record config := mkCfg { cf_proc : proc; cf_threads : list (list mop); cf_out : list (nat * result) }.

Definition threads_of (E : env) (progs : list (list call)) : list (list mop) :=
  map (fun calls => flat_map (call_ops E) calls) progs.

Fixpoint set_thread (ts : list (list mop)) (i : nat) (t : list mop) : list (list mop) :=
  match ts, i with
  | [], _ => []
  | _ :: r, O => t :: r
  | x :: r, S i' => x :: set_thread r i' t
  end.

(* thread i performs its next micro-step (no-op if it has none) *)
Definition step (E : env) (cfg : config) (i : nat) : config :=
  match nth_error (cf_threads cfg) i with
  | Some (MTouch n :: rest) =>
      mkCfg (touch E (cf_proc cfg) n) (set_thread (cf_threads cfg) i rest) (cf_out cfg)
  | Some (MRun c :: rest) =>
      mkCfg (cf_proc cfg) (set_thread (cf_threads cfg) i rest)
            (cf_out cfg ++ [(i, run_call (env_seen E (cf_proc cfg)) c)])
  | _ => cfg
  end.

(* an arbitrary interleaving: the schedule says which thread moves next *)
Definition exec (E : env) (sched : list nat) (cfg : config) : config := fold_left (step E) sched cfg.

Definition start (E : env) (progs : list (list call)) : config :=
  mkCfg (proc_init E) (threads_of E progs) [].

(* every cell is untouched or holds exactly what its declaration says *)
Definition proc_inv (E : env) (p : proc) : Prop :=
  Forall2 (fun d c => c = Uninit \/ c = Ready (decl_steps d)) E p.
