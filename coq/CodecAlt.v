(* CodecAlt.v — the OTHER legal encodings of the format (C04 converse, C12): the same encoder
   as Codec.enc, except that every sequence outside the byte layout and every map is written in
   the unknown-length form (-1, then (1 item)*, then 0) that the Rust writer emits only for
   iterators without an exact size hint and that Scala desert emits for lists.  Generated from
   the text of Codec.enc; definitions only, used to produce inputs for the implementation's decoder
   (the decoder-side theorems are C12_unknown_form / C12_forms_agree). *)
From Coq Require Import NArith ZArith List Bool.
From Desert Require Import Outcome IO Types Codec.
Import ListNotations.
Open Scope N_scope.

Fixpoint enc_u (f : nat) (E : env) (t : ty) (v : val) (st : strtab) {struct f} : enc_result :=
  match f with
  | O => Fuel
  | S f' =>
      match t with
      | TPrim p => enc_prim p v st
      | TOption t' =>
          match v with
          | VNode 0 [] => Ok ([0], st)
          | VNode 1 [x] => '(b, st) <- enc_u f' E t' x st ;; Ok (1 :: b, st)
          | _ => Err EIllTyped
          end
      | TResult r e =>
          match v with
          | VNode 0 [x] => '(b, st) <- enc_u f' E e x st ;; Ok (0 :: b, st)
          | VNode 1 [x] => '(b, st) <- enc_u f' E r x st ;; Ok (1 :: b, st)
          | _ => Err EIllTyped
          end
      | TTuple ts =>
          match v with
          | VNode 0 vs => enc_record (enc_u f' E) (tuple_meta ts) vs st
          | _ => Err EIllTyped
          end
      | TSeq k e =>
          if byte_path k e then
            match v with VB bs => enc_bytes bs st | _ => Err EIllTyped end
          else
            match v with
            | VNode 0 vs => enc_seq_unknown f' (enc_u f' E e) vs st
            | _ => Err EIllTyped
            end
      | TMap _ kt vt =>
          match v with
          | VNode 0 vs => enc_seq_unknown f' (enc_u f' E (TTuple [kt; vt])) vs st
          | _ => Err EIllTyped
          end
      | TWrap _ t' => enc_u f' E t' v st
      | TPhantom => match v with VNode 0 [] => Ok ([], st) | _ => Err EIllTyped end
      | TNamed n =>
          match lookup_decl E n with
          | None => Err EIllTyped
          | Some d =>
              match d_body d with
              | DRecord m =>
                  match v with
                  | VNode 0 vs => enc_record (enc_u f' E) m vs st
                  | _ => Err EIllTyped
                  end
              | DEnum m => enc_enum (enc_u f' E) (d_name d) m v st
              end
          end
      end
  end.

