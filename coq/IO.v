(* IO.v — model of binary_output.rs and binary_input.rs (definitions only).
   src: desert_core/src/binary_output.rs, desert_core/src/binary_input.rs,
        desert_core/src/deserializer/mod.rs:27-121,436-477 (context source, regions) *)
From Coq Require Import NArith ZArith List Bool.
From Desert Require Import Outcome.
Import ListNotations.
Open Scope N_scope.

(* ------------------------------------------------------------------ *)
(* lengths and slicing with N indices (never build a huge unary nat)   *)

Fixpoint nlen {A} (l : list A) : N :=
  match l with [] => 0 | _ :: r => N.succ (nlen r) end.

Definition ntake {A} (n : N) (l : list A) : list A := firstn (N.to_nat n) l.
Definition ndrop {A} (n : N) (l : list A) : list A := skipn (N.to_nat n) l.

(* ------------------------------------------------------------------ *)
(* fixed-width integers                                                 *)

Definition usize_lim : N := 2 ^ 64.

Fixpoint be_bytes (k : nat) (v : N) : bytes :=
  match k with
  | O => []
  | S k' => (v / 256 ^ N.of_nat k') mod 256 :: be_bytes k' v
  end.

Definition of_be (bs : bytes) : N := fold_left (fun acc b => acc * 256 + b) bs 0.

(* two's complement views, `bits` wide *)
Definition to_unsigned (bits : N) (z : Z) : N := Z.to_N (z mod 2 ^ Z.of_N bits).
Definition to_signed (bits : N) (u : N) : Z :=
  if u <? 2 ^ (bits - 1) then Z.of_N u else (Z.of_N u - 2 ^ Z.of_N bits)%Z.

(* ------------------------------------------------------------------ *)
(* var-ints, as written                                                 *)

(* `x as u8` *)
Definition as_u8 (x : N) : N := x mod 256.

(* binary_output.rs:57-88 — the value is a u32 *)
Definition write_var_u32 (value : N) : bytes :=
  if N.shiftr value 7 =? 0 then
    [as_u8 value]
  else if N.shiftr value 14 =? 0 then
    [as_u8 (N.lor (N.land value 127) 128); as_u8 (N.shiftr value 7)]
  else if N.shiftr value 21 =? 0 then
    [as_u8 (N.lor (N.land value 127) 128);
     as_u8 (N.lor (N.shiftr value 7) 128);
     as_u8 (N.shiftr value 14)]
  else if N.shiftr value 28 =? 0 then
    [as_u8 (N.lor (N.land value 127) 128);
     as_u8 (N.lor (N.shiftr value 7) 128);
     as_u8 (N.lor (N.shiftr value 14) 128);
     as_u8 (N.shiftr value 21)]
  else
    [as_u8 (N.lor (N.land value 127) 128);
     as_u8 (N.lor (N.shiftr value 7) 128);
     as_u8 (N.lor (N.shiftr value 14) 128);
     as_u8 (N.lor (N.shiftr value 21) 128);
     as_u8 (N.shiftr value 28)].

(* binary_output.rs:90-93 — ((value << 1) ^ (value >> 31)) as u32 on an i32:
   wrapping shift left, arithmetic shift right, xor of the two bit patterns *)
Definition zigzag32 (value : Z) : N :=
  let shl1 := (N.shiftl (to_unsigned 32 value) 1) mod 2 ^ 32 in
  let sar31 := to_unsigned 32 (Z.shiftr value 31) in
  N.lxor shl1 sar31.

Definition write_var_i32 (value : Z) : bytes := write_var_u32 (zigzag32 value).

(* binary_input.rs:97-100 — ((r >> 1) ^ (-((r & 1) as i32) as u32)) as i32 *)
Definition unzigzag32 (r : N) : Z :=
  let neg := to_unsigned 32 (- Z.of_N (N.land r 1)) in
  to_signed 32 (N.lxor (N.shiftr r 1) neg).

(* ------------------------------------------------------------------ *)
(* sinks                                                                *)

(* the two required methods of BinaryOutput *)
Inductive wop := WU8 (b : N) | WBytes (bs : bytes).

(* every method of BinaryOutput (write_compressed is in Compress.v) *)
Inductive oop :=
| OU8 (v : N) | OI8 (z : Z) | OU16 (v : N) | OI16 (z : Z) | OU32 (v : N) | OI32 (z : Z)
| OU64 (v : N) | OI64 (z : Z) | OU128 (v : N) | OI128 (z : Z)
| OF32 (bits : N) | OF64 (bits : N)
| OVarU32 (v : N) | OVarI32 (z : Z) | OBytes (bs : bytes).

(* the default-method bodies: which required methods each provided method calls *)
Definition expand (o : oop) : list wop :=
  match o with
  | OU8 v => [WU8 v]
  | OI8 z => [WU8 (to_unsigned 8 z)]
  | OU16 v => [WBytes (be_bytes 2 v)]
  | OI16 z => [WBytes (be_bytes 2 (to_unsigned 16 z))]
  | OU32 v => [WBytes (be_bytes 4 v)]
  | OI32 z => [WBytes (be_bytes 4 (to_unsigned 32 z))]
  | OU64 v => [WBytes (be_bytes 8 v)]
  | OI64 z => [WBytes (be_bytes 8 (to_unsigned 64 z))]
  | OU128 v => [WBytes (be_bytes 16 v)]
  | OI128 z => [WBytes (be_bytes 16 (to_unsigned 128 z))]
  | OF32 b => [WBytes (be_bytes 4 b)]
  | OF64 b => [WBytes (be_bytes 8 b)]
  | OVarU32 v =>
      (* one-byte form goes through write_u8, the others through write_bytes *)
      if N.shiftr v 7 =? 0 then [WU8 (as_u8 v)] else [WBytes (write_var_u32 v)]
  | OVarI32 z =>
      let v := zigzag32 z in
      if N.shiftr v 7 =? 0 then [WU8 (as_u8 v)] else [WBytes (write_var_u32 v)]
  | OBytes bs => [WBytes bs]
  end.

Definition wop_bytes (w : wop) : bytes := match w with WU8 b => [b] | WBytes bs => bs end.
Definition flat (ws : list wop) : bytes := flat_map wop_bytes ws.

Record sink (O : Type) := { k_u8 : N -> O -> O; k_bytes : bytes -> O -> O }.
Arguments k_u8 {O}. Arguments k_bytes {O}.

Definition run_wop {O} (k : sink O) (o : O) (w : wop) : O :=
  match w with WU8 b => k_u8 k b o | WBytes bs => k_bytes k bs o end.
Definition run_wops {O} (k : sink O) (ws : list wop) (o : O) : O := fold_left (run_wop k) ws o.
Definition run_oops {O} (k : sink O) (os : list oop) (o : O) : O :=
  run_wops k (flat_map expand os) o.

(* binary_output.rs:108-156 *)
Definition vec_sink : sink bytes :=
  {| k_u8 := fun b o => o ++ [b]; k_bytes := fun bs o => o ++ bs |}.
Definition bytesmut_sink : sink bytes :=
  {| k_u8 := fun b o => o ++ [b]; k_bytes := fun bs o => o ++ bs |}.
Definition size_sink : sink N :=
  {| k_u8 := fun _ n => n + 1; k_bytes := fun bs n => n + nlen bs |}.

(* serializer/mod.rs:24-83 — writes go to the top of buffer_stack when there is one *)
Record sctx (O : Type) := { sc_out : O; sc_bufs : list bytes }.
Arguments sc_out {O}. Arguments sc_bufs {O}.
Definition sctx_sink {O} (k : sink O) : sink (sctx O) :=
  {| k_u8 := fun b c =>
       match sc_bufs c with
       | top :: rest => {| sc_out := sc_out c; sc_bufs := k_u8 vec_sink b top :: rest |}
       | [] => {| sc_out := k_u8 k b (sc_out c); sc_bufs := [] |}
       end;
     k_bytes := fun bs c =>
       match sc_bufs c with
       | top :: rest => {| sc_out := sc_out c; sc_bufs := k_bytes vec_sink bs top :: rest |}
       | [] => {| sc_out := k_bytes k bs (sc_out c); sc_bufs := [] |}
       end |}.

(* a user-defined output is lawful when write_bytes is write_u8 of each byte *)
Definition lawful_sink {O} (k : sink O) : Prop :=
  forall bs o, k_bytes k bs o = fold_left (fun o b => k_u8 k b o) bs o.

(* ------------------------------------------------------------------ *)
(* sources                                                              *)

Record reader (S : Type) := {
  r_u8 : S -> outcome (N * S);
  r_bytes : N -> S -> outcome (bytes * S);    (* count is a usize: < 2^64 *)
  r_skip : N -> S -> outcome (unit * S) }.
Arguments r_u8 {S}. Arguments r_bytes {S}. Arguments r_skip {S}.

Definition uadd (a b : N) : outcome N :=
  if a + b <? usize_lim then Ok (a + b) else Panic POverflow.
Definition usub (a b : N) : outcome N :=
  if b <=? a then Ok (a - b) else Panic POverflow.
Definition checked_add (a b : N) : option N :=
  if a + b <? usize_lim then Some (a + b) else None.
(* data[i] *)
Definition index (data : bytes) (i : N) : outcome N :=
  if i <? nlen data then
    match nth_error data (N.to_nat i) with Some b => Ok b | None => Panic PIndex end
  else Panic PIndex.
(* &data[a..b] *)
Definition slice (data : bytes) (a b : N) : outcome bytes :=
  if (a <=? b) && (b <=? nlen data) then Ok (ntake (b - a) (ndrop a data)) else Panic PIndex.

(* --- default methods of BinaryInput, generic in the source --- *)
Section Defaults.
  Context {S : Type} (R : reader S).

  Definition read_be (k : N) (s : S) : outcome (N * S) :=
    '(bs, s) <- r_bytes R k s ;; Ok (of_be bs, s).

  Definition read_i8 (s : S) : outcome (Z * S) :=
    '(b, s) <- r_u8 R s ;; Ok (to_signed 8 b, s).
  Definition read_u16 := read_be 2.
  Definition read_u32 := read_be 4.
  Definition read_u64 := read_be 8.
  Definition read_u128 := read_be 16.
  Definition read_signed (k bits : N) (s : S) : outcome (Z * S) :=
    '(u, s) <- read_be k s ;; Ok (to_signed bits u, s).
  Definition read_i16 := read_signed 2 16.
  Definition read_i32 := read_signed 4 32.
  Definition read_i64 := read_signed 8 64.
  Definition read_i128 := read_signed 16 128.

  (* binary_input.rs:67-95, unrolled as written; on the fifth byte `<< 28` on a u32
     drops bits 4-6, and the continuation bit is not looked at *)
  Definition read_var_u32 (s : S) : outcome (N * S) :=
    '(b, s) <- r_u8 R s ;;
    let r := N.land b 127 in
    if N.land b 128 =? 0 then Ok (r, s) else
    '(b, s) <- r_u8 R s ;;
    let r := N.lor r (N.shiftl (N.land b 127) 7) in
    if N.land b 128 =? 0 then Ok (r, s) else
    '(b, s) <- r_u8 R s ;;
    let r := N.lor r (N.shiftl (N.land b 127) 14) in
    if N.land b 128 =? 0 then Ok (r, s) else
    '(b, s) <- r_u8 R s ;;
    let r := N.lor r (N.shiftl (N.land b 127) 21) in
    if N.land b 128 =? 0 then Ok (r, s) else
    '(b, s) <- r_u8 R s ;;
    let r := N.lor r ((N.shiftl (N.land b 127) 28) mod 2 ^ 32) in
    Ok (r, s).

  Definition read_var_i32 (s : S) : outcome (Z * S) :=
    '(r, s) <- read_var_u32 s ;; Ok (unzigzag32 r, s).
End Defaults.

(* --- the reference source: the bytes not yet read --- *)
Definition list_reader : reader bytes :=
  {| r_u8 := fun s => match s with [] => Err EInputEnded | b :: r => Ok (b, r) end;
     r_bytes := fun n s => if n <=? nlen s then Ok (ntake n s, ndrop n s) else Err EInputEnded;
     r_skip := fun n s => if n <=? nlen s then Ok (tt, ndrop n s) else Err EInputEnded |}.

(* --- SliceInput, binary_input.rs:115-157 --- *)
Record slice_input := { si_data : bytes; si_pos : N }.
Definition slice_reader : reader slice_input :=
  {| r_u8 := fun s =>
       if si_pos s =? nlen (si_data s) then Err EInputEnded else
       b <- index (si_data s) (si_pos s) ;;
       p <- uadd (si_pos s) 1 ;;
       Ok (b, {| si_data := si_data s; si_pos := p |});
     r_bytes := fun count s =>
       match checked_add (si_pos s) count with
       | Some e =>
           if e <=? nlen (si_data s) then
             bs <- slice (si_data s) (si_pos s) e ;;
             Ok (bs, {| si_data := si_data s; si_pos := e |})
           else Err EInputEnded
       | None => Err EInputEnded
       end;
     r_skip := fun count s =>
       match checked_add (si_pos s) count with
       | Some e =>
           if e <=? nlen (si_data s) then Ok (tt, {| si_data := si_data s; si_pos := e |})
           else Err EInputEnded
       | None => Err EInputEnded
       end |}.

(* --- OwnedInput, binary_input.rs:159-199 (a second transcription of the same logic) --- *)
Record owned_input := { oi_data : bytes; oi_pos : N }.
Definition owned_reader : reader owned_input :=
  {| r_u8 := fun s =>
       if oi_pos s =? nlen (oi_data s) then Err EInputEnded else
       b <- index (oi_data s) (oi_pos s) ;;
       p <- uadd (oi_pos s) 1 ;;
       Ok (b, {| oi_data := oi_data s; oi_pos := p |});
     r_bytes := fun count s =>
       match checked_add (oi_pos s) count with
       | Some e =>
           if e <=? nlen (oi_data s) then
             bs <- slice (oi_data s) (oi_pos s) e ;;
             Ok (bs, {| oi_data := oi_data s; oi_pos := e |})
           else Err EInputEnded
       | None => Err EInputEnded
       end;
     r_skip := fun count s =>
       match checked_add (oi_pos s) count with
       | Some e =>
           if e <=? nlen (oi_data s) then Ok (tt, {| oi_data := oi_data s; oi_pos := e |})
           else Err EInputEnded
       | None => Err EInputEnded
       end |}.

(* --- DeserializationContext as a source, deserializer/mod.rs:27-121,436-477 --- *)
Record region := { rg_start : N; rg_pos : N; rg_end : N; rg_delta : N }.   (* ResolvedInputRegion *)
Record iregion := { ir_start : N; ir_pos : N; ir_end : N }.                 (* InputRegion *)
Record rctx := { rc_input : bytes; rc_cur : region; rc_stack : list region }.

Definition rctx_new (input : bytes) : rctx :=
  {| rc_input := input;
     rc_cur := {| rg_start := 0; rg_pos := 0; rg_end := nlen input; rg_delta := 0 |};
     rc_stack := [] |}.

Definition set_pos (c : rctx) (p : N) : rctx :=
  {| rc_input := rc_input c;
     rc_cur := {| rg_start := rg_start (rc_cur c); rg_pos := p;
                  rg_end := rg_end (rc_cur c); rg_delta := rg_delta (rc_cur c) |};
     rc_stack := rc_stack c |}.

Definition ctx_reader : reader rctx :=
  {| r_u8 := fun c =>
       let cur := rc_cur c in
       a <- uadd (rg_start cur) (rg_pos cur) ;;
       if rg_end cur <=? a then Err EInputEnded else
       p <- uadd (rg_pos cur) 1 ;;
       b <- index (rc_input c) a ;;
       Ok (b, set_pos c p);
     r_bytes := fun count c =>
       let cur := rc_cur c in
       a <- uadd (rg_start cur) (rg_pos cur) ;;
       match checked_add a count with
       | Some e =>
           if e <=? rg_end cur then
             p <- uadd (rg_pos cur) count ;;
             bs <- slice (rc_input c) a e ;;
             Ok (bs, set_pos c p)
           else Err EInputEnded
       | None => Err EInputEnded
       end;
     r_skip := fun count c =>
       let cur := rc_cur c in
       a <- uadd (rg_start cur) (rg_pos cur) ;;
       match checked_add a count with
       | Some e =>
           if e <=? rg_end cur then
             p <- uadd (rg_pos cur) count ;;
             Ok (tt, set_pos c p)
           else Err EInputEnded
       | None => Err EInputEnded
       end |}.

(* deserializer/mod.rs:71-90 *)
Definition push_region (c : rctx) (r : iregion) : outcome rctx :=
  let cur := rc_cur c in
  s <- uadd (rg_start cur) (ir_start r) ;;
  e <- uadd (rg_start cur) (ir_end r) ;;
  Ok {| rc_input := rc_input c;
        rc_cur := {| rg_start := s; rg_pos := ir_pos r; rg_end := e; rg_delta := rg_start cur |};
        rc_stack := cur :: rc_stack c |}.

Definition unresolve (r : region) : outcome iregion :=
  s <- usub (rg_start r) (rg_delta r) ;;
  e <- usub (rg_end r) (rg_delta r) ;;
  Ok {| ir_start := s; ir_pos := rg_pos r; ir_end := e |}.

Definition pop_region (c : rctx) : outcome (iregion * rctx) :=
  r <- unresolve (rc_cur c) ;;
  match rc_stack c with
  | top :: rest => Ok (r, {| rc_input := rc_input c; rc_cur := top; rc_stack := rest |})
  | [] => Panic PUnwrap
  end.

Definition ctx_pos (c : rctx) : N := rg_pos (rc_cur c).

(* InputRegion::new / ::empty *)
Definition iregion_new (start length : N) : outcome iregion :=
  e <- uadd start length ;; Ok {| ir_start := start; ir_pos := 0; ir_end := e |}.
Definition iregion_empty : iregion := {| ir_start := 0; ir_pos := 0; ir_end := 0 |}.
