(* BigDecLemmas.v — BigDecimal text: what is rendered is ASCII, and parses back to the
   representative bd_norm keeps. *)
From Coq Require Import NArith ZArith List Bool Lia DecimalN DecimalPos DecimalFacts.
From Desert Require Import Outcome IO Types Calendar Codec BigDec.
Import ListNotations.
Open Scope Z_scope.

(* ---- digits ------------------------------------------------------------------------------ *)

Definition isdig (b : N) : Prop := (48 <= b <= 57)%N.

Lemma isdig_is_digit : forall b, isdig b -> is_digit b = true.
Proof.
  intros b [H1 H2]. unfold is_digit.
  apply andb_true_intro; split; apply N.leb_le; assumption.
Qed.

Lemma isdig_neq : forall b c, isdig b -> (c < 48 \/ 57 < c)%N -> (b =? c)%N = false.
Proof. intros b c [H1 H2] H. apply N.eqb_neq. lia. Qed.

Lemma isdig_us : forall b, isdig b -> (b =? c_us)%N = false.
Proof. intros. apply isdig_neq; auto. unfold c_us. lia. Qed.
Lemma isdig_plus : forall b, isdig b -> (b =? c_plus)%N = false.
Proof. intros. apply isdig_neq; auto. unfold c_plus. lia. Qed.
Lemma isdig_minus : forall b, isdig b -> (b =? c_minus)%N = false.
Proof. intros. apply isdig_neq; auto. unfold c_minus. lia. Qed.
Lemma isdig_dot : forall b, isdig b -> (b =? c_dot)%N = false.
Proof. intros. apply isdig_neq; auto. unfold c_dot. lia. Qed.
Lemma isdig_e : forall b, isdig b -> (b =? c_e)%N = false.
Proof. intros. apply isdig_neq; auto. unfold c_e. lia. Qed.
Lemma isdig_E : forall b, isdig b -> (b =? c_E)%N = false.
Proof. intros. apply isdig_neq; auto. unfold c_E. lia. Qed.

Definition dstep (acc b : N) : N := (acc * 10 + (b - 48))%N.
Definition dval_acc (D : bytes) (acc : N) : N := fold_left dstep D acc.
Definition dval (D : bytes) : N := dval_acc D 0%N.

Lemma dval_acc_app : forall D1 D2 acc, dval_acc (D1 ++ D2) acc = dval_acc D2 (dval_acc D1 acc).
Proof. intros. unfold dval_acc. apply fold_left_app. Qed.

Lemma dval_acc_cons : forall b D acc, dval_acc (b :: D) acc = dval_acc D (dstep acc b).
Proof. reflexivity. Qed.

Lemma parse_digits_dval : forall D acc, Forall isdig D -> parse_digits D acc = Some (dval_acc D acc).
Proof.
  induction D as [|b D IH]; intros acc H.
  - reflexivity.
  - inversion H; subst. cbn [parse_digits].
    rewrite isdig_us by assumption. rewrite isdig_is_digit by assumption.
    rewrite IH by assumption. reflexivity.
Qed.

Lemma parse_plain_dval : forall D acc, Forall isdig D -> parse_plain D acc = Some (dval_acc D acc).
Proof.
  induction D as [|b D IH]; intros acc H.
  - reflexivity.
  - inversion H; subst. cbn [parse_plain].
    rewrite isdig_is_digit by assumption.
    rewrite IH by assumption. reflexivity.
Qed.

Lemma uint_bytes_isdig : forall d, Forall isdig (uint_bytes d).
Proof.
  induction d; cbn [uint_bytes]; constructor; auto; unfold isdig; lia.
Qed.

Lemma dval_uint_acc : forall d acc,
  dval_acc (uint_bytes d) (Npos acc) = Npos (Pos.of_uint_acc d acc).
Proof.
  induction d; intros acc; cbn [uint_bytes Pos.of_uint_acc];
    try reflexivity; rewrite dval_acc_cons;
    match goal with
    | |- dval_acc _ ?x = N.pos (Pos.of_uint_acc _ ?y) =>
        replace x with (Npos y) by (unfold dstep; lia)
    end; apply IHd.
Qed.

Lemma dval_uint : forall d, dval (uint_bytes d) = Pos.of_uint d.
Proof.
  unfold dval.
  induction d; cbn [uint_bytes Pos.of_uint]; try reflexivity; rewrite dval_acc_cons;
    try (match goal with
    | |- dval_acc _ ?x = N.pos (Pos.of_uint_acc _ ?y) =>
        replace x with (Npos y) by (unfold dstep; lia)
    end; apply dval_uint_acc).
  replace (dstep 0 48) with 0%N by reflexivity. exact IHd.
Qed.

Lemma digits_of_isdig : forall n, Forall isdig (digits_of n).
Proof. intros. apply uint_bytes_isdig. Qed.

Lemma dval_digits_of : forall n, dval (digits_of n) = n.
Proof.
  intros n. unfold digits_of. rewrite dval_uint.
  change (Pos.of_uint (N.to_uint n)) with (N.of_uint (N.to_uint n)).
  apply DecimalN.Unsigned.of_to.
Qed.

Lemma uint_bytes_nil : forall d, uint_bytes d = [] -> d = Decimal.Nil.
Proof. destruct d; cbn [uint_bytes]; intros H; try discriminate; reflexivity. Qed.

Lemma digits_of_nonnil : forall n, digits_of n <> [].
Proof.
  intros n H. unfold digits_of in H. apply uint_bytes_nil in H.
  destruct n as [|p].
  - discriminate.
  - cbn [N.to_uint] in H. revert H. apply DecimalPos.Unsigned.to_uint_nonnil.
Qed.

Lemma zeros_isdig : forall k, Forall isdig (zeros k).
Proof.
  intros k. unfold zeros. induction (Z.to_nat k); cbn [repeat]; constructor; auto.
  unfold isdig, c_0. lia.
Qed.

Lemma zeros_length : forall k, 0 <= k -> Z.of_nat (length (zeros k)) = k.
Proof. intros. unfold zeros. rewrite repeat_length. lia. Qed.

Lemma dval_acc_repeat0 : forall n acc,
  dval_acc (repeat c_0 n) acc = (acc * 10 ^ N.of_nat n)%N.
Proof.
  induction n; intros acc.
  - cbn [repeat]. unfold dval_acc. cbn [fold_left]. change (N.of_nat 0) with 0%N.
    rewrite N.pow_0_r. lia.
  - cbn [repeat]. rewrite dval_acc_cons. rewrite IHn.
    rewrite Nat2N.inj_succ. rewrite N.pow_succ_r'. unfold dstep, c_0. lia.
Qed.

Lemma dval_acc_zeros : forall k acc, 0 <= k ->
  Z.of_N (dval_acc (zeros k) acc) = Z.of_N acc * 10 ^ k.
Proof.
  intros k acc Hk. unfold zeros. rewrite dval_acc_repeat0.
  rewrite N2Z.inj_mul, N2Z.inj_pow. rewrite nat_N_Z. rewrite Z2Nat.id by assumption.
  reflexivity.
Qed.

Lemma dval_acc_zeros0 : forall k, dval_acc (zeros k) 0%N = 0%N.
Proof. intros. unfold zeros. rewrite dval_acc_repeat0. lia. Qed.

(* ---- split_at ---------------------------------------------------------------------------- *)

Lemma split_at_none : forall p a, Forall (fun b => p b = false) a -> split_at p a = None.
Proof.
  induction a as [|b a IH]; intros H.
  - reflexivity.
  - inversion H; subst. cbn [split_at]. rewrite H2. rewrite IH by assumption. reflexivity.
Qed.

Lemma split_at_some : forall p a c r, Forall (fun b => p b = false) a -> p c = true ->
  split_at p (a ++ c :: r) = Some (a, r).
Proof.
  induction a as [|b a IH]; intros c r H Hc.
  - cbn [app split_at]. rewrite Hc. reflexivity.
  - inversion H; subst. cbn [app split_at]. rewrite H2. rewrite IH by assumption. reflexivity.
Qed.

(* ---- the shape of every rendered text ---------------------------------------------------- *)

Definition sgn (neg : bool) : bytes := if neg then [c_minus] else [].
Definition sgnz (neg : bool) (n : N) : Z := if neg then - Z.of_N n else Z.of_N n.
Definition dotpart (T : bytes) : bytes := match T with [] => [] | _ => c_dot :: T end.
Definition exppart (o : option (N * Z)) : bytes :=
  match o with None => [] | Some (c, x) => c :: signed_plus x end.
Definition exval (o : option (N * Z)) : Z := match o with None => 0 | Some (_, x) => x end.
Definition expok (o : option (N * Z)) : Prop :=
  match o with None => True | Some (c, x) => (c = c_e \/ c = c_E) /\ - 2 ^ 127 <= x < 2 ^ 127 end.

Definition pE (b : N) : bool := ((b =? c_e)%N || (b =? c_E)%N).
Definition pdot (b : N) : bool := (b =? c_dot)%N.

Lemma i128_parse_signed_plus : forall x, - 2 ^ 127 <= x < 2 ^ 127 ->
  i128_parse (signed_plus x) = Some x.
Proof.
  intros x Hx. unfold signed_plus, i128_parse.
  pose proof (digits_of_nonnil (Z.abs_N x)) as Hn.
  pose proof (digits_of_isdig (Z.abs_N x)) as Hd.
  pose proof (dval_digits_of (Z.abs_N x)) as Hv. unfold dval in Hv.
  destruct (x <? 0) eqn:Hneg.
  - change ((c_minus =? c_minus)%N) with true. cbv iota beta.
    destruct (digits_of (Z.abs_N x)) as [|d r] eqn:Ed; [congruence|].
    rewrite parse_plain_dval by assumption. rewrite Hv.
    apply Z.ltb_lt in Hneg.
    replace (- Z.of_N (Z.abs_N x)) with x by lia.
    replace ((- 2 ^ 127 <=? x) && (x <? 2 ^ 127)) with true; [reflexivity|].
    symmetry. apply andb_true_intro. split; [apply Z.leb_le | apply Z.ltb_lt]; lia.
  - change ((c_plus =? c_minus)%N) with false. change ((c_plus =? c_plus)%N) with true.
    cbv iota beta.
    destruct (digits_of (Z.abs_N x)) as [|d r] eqn:Ed; [congruence|].
    rewrite parse_plain_dval by assumption. rewrite Hv.
    apply Z.ltb_ge in Hneg.
    replace (Z.of_N (Z.abs_N x)) with x by lia.
    replace ((- 2 ^ 127 <=? x) && (x <? 2 ^ 127)) with true; [reflexivity|].
    symmetry. apply andb_true_intro. split; [apply Z.leb_le | apply Z.ltb_lt]; lia.
Qed.

Lemma bigint_parse_sgn : forall neg D, Forall isdig D -> D <> [] ->
  bigint_parse (sgn neg ++ D) = Some (sgnz neg (dval D)).
Proof.
  intros neg D Hd Hn. destruct D as [|d r]; [congruence|].
  assert (Hd0 : isdig d) by (inversion Hd; assumption).
  assert (Hbu : biguint_parse (d :: r) = Some (dval (d :: r))).
  { unfold biguint_parse. rewrite isdig_plus by assumption. cbn [andb].
    rewrite isdig_us by assumption. apply parse_digits_dval; assumption. }
  destruct neg; cbn [sgn app sgnz].
  - unfold bigint_parse. change ((c_minus =? c_minus)%N) with true. cbv iota.
    cbn [starts_with]. rewrite isdig_plus by assumption. rewrite Hbu. reflexivity.
  - unfold bigint_parse. rewrite isdig_minus by assumption. rewrite Hbu. reflexivity.
Qed.

Lemma count_non_us_digits : forall T, Forall isdig T -> count_non_us T = Z.of_nat (length T).
Proof.
  intros T H. unfold count_non_us. f_equal. f_equal.
  induction H as [|b T Hb HT IH]; [reflexivity|].
  cbn [filter]. rewrite isdig_us by assumption. cbn [negb]. rewrite IH. reflexivity.
Qed.

Lemma sgn_noE : forall neg, Forall (fun b => pE b = false) (sgn neg).
Proof. destruct neg; cbn [sgn]; repeat constructor. Qed.
Lemma sgn_nodot : forall neg, Forall (fun b => pdot b = false) (sgn neg).
Proof. destruct neg; cbn [sgn]; repeat constructor. Qed.
Lemma digits_noE : forall D, Forall isdig D -> Forall (fun b => pE b = false) D.
Proof.
  intros D H. eapply Forall_impl; [|exact H]. intros b Hb. unfold pE.
  rewrite isdig_e, isdig_E by assumption. reflexivity.
Qed.
Lemma digits_nodot : forall D, Forall isdig D -> Forall (fun b => pdot b = false) D.
Proof.
  intros D H. eapply Forall_impl; [|exact H]. intros b Hb. unfold pdot.
  apply isdig_dot; assumption.
Qed.
Lemma dotpart_noE : forall T, Forall isdig T -> Forall (fun b => pE b = false) (dotpart T).
Proof.
  intros T H. destruct T as [|t T]; cbn [dotpart]; [constructor|].
  constructor; [reflexivity|]. apply digits_noE; assumption.
Qed.

Definition form (neg : bool) (L T : bytes) (o : option (N * Z)) : bytes :=
  (sgn neg ++ L ++ dotpart T) ++ exppart o.

Lemma bd_parse_form : forall neg L T o,
  Forall isdig L -> Forall isdig T -> L <> [] -> expok o ->
  is_i64 (Z.of_nat (length T) - exval o) = true ->
  bd_parse (form neg L T o) = Some (sgnz neg (dval (L ++ T)), Z.of_nat (length T) - exval o).
Proof.
  intros neg L T o HL HT HLn Ho Hs.
  unfold bd_parse, form.
  fold pE. fold pdot.
  set (base := sgn neg ++ L ++ dotpart T).
  assert (HbE : Forall (fun b => pE b = false) base).
  { unfold base. apply Forall_app; split; [apply sgn_noE|].
    apply Forall_app; split; [apply digits_noE; assumption | apply dotpart_noE; assumption]. }
  assert (Hbn : base <> []).
  { unfold base. destruct L; [congruence|]. destruct neg; cbn [sgn app]; discriminate. }
  match goal with |- match ?X with _ => _ end = _ =>
    assert (Hsplit : X = Some (base, exval o)) end.
  { destruct o as [[c x]|]; cbn [exppart exval].
    - destruct Ho as [Hc Hx]. rewrite split_at_some; [|assumption|].
      + rewrite i128_parse_signed_plus by assumption. reflexivity.
      + destruct Hc; subst c; reflexivity.
    - rewrite List.app_nil_r. rewrite split_at_none by assumption. reflexivity. }
  rewrite Hsplit. clear Hsplit.
  destruct base as [|b0 base'] eqn:Eb; [congruence|]. rewrite <- Eb. clear Hbn.
  assert (Hdot : (let '(digits, off) :=
                    match split_at pdot base with
                    | Some (lead, []) => (lead, 0)
                    | Some (lead, (_ :: _) as trail) => (lead ++ trail, count_non_us trail)
                    | None => (base, 0)
                    end in
                  let scale := off - exval o in
                  if is_i64 scale
                  then match bigint_parse digits with Some i => Some (i, scale) | None => None end
                  else None) = Some (sgnz neg (dval (L ++ T)), Z.of_nat (length T) - exval o));
    [|exact Hdot].
  clear Eb. subst base.
  destruct T as [|t T'].
  - cbn [dotpart]. rewrite !List.app_nil_r. rewrite split_at_none.
    2:{ apply Forall_app; split; [apply sgn_nodot | apply digits_nodot; assumption]. }
    cbv zeta. cbn [length] in *. change (Z.of_nat 0) with 0 in *.
    rewrite Hs. rewrite bigint_parse_sgn by assumption. reflexivity.
  - cbn [dotpart]. rewrite List.app_assoc. rewrite split_at_some.
    2:{ apply Forall_app; split; [apply sgn_nodot | apply digits_nodot; assumption]. }
    2:{ reflexivity. }
    rewrite count_non_us_digits by assumption.
    cbv zeta. rewrite Hs. rewrite <- List.app_assoc. rewrite bigint_parse_sgn.
    + reflexivity.
    + apply Forall_app; split; assumption.
    + destruct L; [congruence|discriminate].
Qed.

Lemma bd_parse_form' : forall bs r sc neg L T o,
  bs = form neg L T o ->
  Forall isdig L -> Forall isdig T -> L <> [] -> expok o ->
  sc = Z.of_nat (length T) - exval o ->
  is_i64 sc = true ->
  r = (sgnz neg (dval (L ++ T)), sc) ->
  bd_parse bs = Some r.
Proof.
  intros bs r sc neg L T o -> HL HT HLn Ho -> Hs ->. apply bd_parse_form; assumption.
Qed.

(* ---- rendering, case by case --------------------------------------------------------------- *)

Lemma sgnz_abs : forall i, sgnz (i <? 0) (Z.abs_N i) = i.
Proof.
  intros; unfold sgnz; destruct (i <? 0) eqn:H;
    [apply Z.ltb_lt in H | apply Z.ltb_ge in H]; lia.
Qed.

Lemma sgnz_mul : forall neg n m p, Z.of_N n = Z.of_N m * p -> sgnz neg n = sgnz neg m * p.
Proof. intros neg n m p H. unfold sgnz. destruct neg; rewrite H; lia. Qed.

Lemma dotpart_ne : forall T, T <> [] -> dotpart T = c_dot :: T.
Proof. destruct T; [congruence|reflexivity]. Qed.

Lemma Forall_firstn' : forall (P : N -> Prop) n l, Forall P l -> Forall P (firstn n l).
Proof.
  induction n; intros l H; [constructor|].
  destruct l; [constructor|]. inversion H; subst. cbn [firstn]. constructor; auto.
Qed.

Lemma Forall_skipn' : forall (P : N -> Prop) n l, Forall P l -> Forall P (skipn n l).
Proof.
  induction n; intros l H; [exact H|].
  destruct l; [constructor|]. inversion H; subst. cbn [skipn]. auto.
Qed.

Lemma length_nonnil : forall (l : bytes), l <> [] -> 1 <= Z.of_nat (length l).
Proof. destruct l; [congruence|]. intros _. cbn [length]. lia. Qed.

Lemma nonnil_length : forall (l : bytes), 1 <= Z.of_nat (length l) -> l <> [].
Proof. destruct l; [cbn [length]; lia | discriminate]. Qed.

Lemma sgn_if : forall (neg : bool) (body : bytes), (if neg then c_minus :: body else body) = sgn neg ++ body.
Proof. destruct neg; reflexivity. Qed.

Ltac b2p :=
  repeat match goal with
  | H : _ && _ = true |- _ => apply andb_prop in H; destruct H
  | H : negb _ = true |- _ => apply negb_true_iff in H
  | H : negb _ = false |- _ => apply negb_false_iff in H
  | H : (_ <=? _) = true |- _ => apply Z.leb_le in H
  | H : (_ <=? _) = false |- _ => apply Z.leb_gt in H
  | H : (_ <? _) = true |- _ => apply Z.ltb_lt in H
  | H : (_ <? _) = false |- _ => apply Z.ltb_ge in H
  | H : (_ =? _) = true |- _ => apply Z.eqb_eq in H
  | H : (_ =? _) = false |- _ => apply Z.eqb_neq in H
  end.

Ltac form_eq :=
  unfold form; cbn [dotpart exppart app];
  rewrite ?List.app_nil_r; rewrite <- ?List.app_assoc; cbn [app]; reflexivity.

Lemma is_i64_range : forall s, is_i64 s = true -> - 2 ^ 63 <= s <= 2 ^ 63 - 1.
Proof.
  intros s Hs. unfold is_i64, i64_min, i64_max in Hs. b2p. lia.
Qed.

Lemma bd_norm_keep : forall i s, ~ (-15 <= s < 0) -> bd_norm (i, s) = (i, s).
Proof.
  intros i s H. unfold bd_norm. destruct ((-15 <=? s) && (s <? 0)) eqn:Hc; [|reflexivity].
  b2p. lia.
Qed.

Theorem bd_parse_render : forall i s, is_i64 s = true ->
  bd_parse (bd_render i s) = Some (bd_norm (i, s)).
Proof.
  intros i s Hs.
  pose proof (digits_of_nonnil (Z.abs_N i)) as Han.
  pose proof (digits_of_isdig (Z.abs_N i)) as Had.
  pose proof (dval_digits_of (Z.abs_N i)) as Hav.
  pose proof (sgnz_abs i) as Hsg.
  pose proof (is_i64_range s Hs) as Hr.
  cbv beta zeta delta [bd_render].
  remember (digits_of (Z.abs_N i)) as a eqn:Ea.
  remember (Z.of_nat (length a)) as len eqn:Elen.
  remember (i <? 0) as neg eqn:Eneg.
  pose proof (length_nonnil a Han) as Hlen. rewrite <- Elen in Hlen.
  rewrite sgn_if.
  remember (if (0 <=? s) && (len <=? s) then s - len else 0) as lead0 eqn:Elead.
  remember (if (s <=? 0) && negb (s =? i64_min) then - s else 0) as trail0 eqn:Etrail.
  unfold i64_min in Etrail.
  destruct (5 <? lead0) eqn:C1.
  { (* exponential *)
    destruct ((0 <=? s) && (len <=? s)) eqn:Cl; subst lead0; b2p; [|lia].
    rewrite bd_norm_keep by lia.
    destruct a as [|d [|d2 r]]; [congruence| |].
    - apply (bd_parse_form' _ _ s neg [d] [] (Some (c_E, len - s - 1))).
      + form_eq.
      + assumption.
      + constructor.
      + discriminate.
      + cbn [expok]. split; [auto|]. lia.
      + cbn [exval length] in *. lia.
      + assumption.
      + rewrite List.app_nil_r. rewrite Hav, Hsg. reflexivity.
    - apply (bd_parse_form' _ _ s neg [d] (d2 :: r) (Some (c_E, len - s - 1))).
      + form_eq.
      + inversion Had; subst. constructor; [assumption|constructor].
      + inversion Had; assumption.
      + discriminate.
      + cbn [expok]. split; [auto|]. lia.
      + cbn [exval]. cbn [length] in Elen. cbn [length]. lia.
      + assumption.
      + cbn [app]. rewrite Hav, Hsg. reflexivity. }
  destruct (15 <? trail0) eqn:C2.
  { (* dotless exponential *)
    destruct ((s <=? 0) && negb (s =? - 2 ^ 63)) eqn:Ct; subst trail0; b2p; [|lia].
    rewrite bd_norm_keep by lia.
    apply (bd_parse_form' _ _ s neg a [] (Some (c_e, - s))).
    - form_eq.
    - assumption.
    - constructor.
    - assumption.
    - cbn [expok]. split; [auto|]. lia.
    - cbn [exval length]. lia.
    - assumption.
    - rewrite List.app_nil_r. rewrite Hav, Hsg. reflexivity. }
  destruct (s <=? 0) eqn:C3.
  { destruct (20 <? - s) eqn:C4.
    - b2p. rewrite bd_norm_keep by lia.
      apply (bd_parse_form' _ _ s neg a [] (Some (c_e, - s))).
      + form_eq.
      + assumption.
      + constructor.
      + assumption.
      + cbn [expok]. split; [auto|]. lia.
      + cbn [exval length]. lia.
      + assumption.
      + rewrite List.app_nil_r. rewrite Hav, Hsg. reflexivity.
    - assert (Hs15 : - 15 <= s <= 0).
      { cbn [andb] in Etrail. destruct (s =? - 2 ^ 63) eqn:Ct; cbn [negb] in Etrail;
          subst trail0; b2p; lia. }
      clear Etrail C2. b2p.
      apply (bd_parse_form' _ _ 0 neg (a ++ zeros (- s)) [] None).
      + form_eq.
      + apply Forall_app; split; [assumption | apply zeros_isdig].
      + constructor.
      + destruct a; [congruence|discriminate].
      + exact I.
      + reflexivity.
      + reflexivity.
      + rewrite List.app_nil_r. unfold dval. rewrite dval_acc_app. fold (dval a).
        rewrite (sgnz_mul neg _ (dval a) (10 ^ (- s))).
        2:{ apply dval_acc_zeros. lia. }
        rewrite Hav, Hsg. unfold bd_norm.
        destruct ((-15 <=? s) && (s <? 0)) eqn:Hc; [reflexivity|].
        assert (s = 0).
        { apply andb_false_iff in Hc. destruct Hc; b2p; lia. }
        subst s. change (10 ^ (- 0)) with 1. rewrite Z.mul_1_r. reflexivity. }
  destruct (s <? len) eqn:C5.
  { b2p. rewrite bd_norm_keep by lia.
    assert (Hk : (Z.to_nat (len - s) <= length a)%nat) by lia.
    assert (Hsk : Z.of_nat (length (skipn (Z.to_nat (len - s)) a)) = s).
    { rewrite skipn_length. lia. }
    apply (bd_parse_form' _ _ s neg (firstn (Z.to_nat (len - s)) a)
             (skipn (Z.to_nat (len - s)) a) None).
    - unfold form. rewrite dotpart_ne by (apply nonnil_length; lia).
      cbn [exppart]. rewrite List.app_nil_r. reflexivity.
    - apply Forall_firstn'; assumption.
    - apply Forall_skipn'; assumption.
    - apply nonnil_length. rewrite firstn_length. lia.
    - exact I.
    - cbn [exval]. lia.
    - assumption.
    - rewrite firstn_skipn. rewrite Hav, Hsg. reflexivity. }
  { b2p. rewrite bd_norm_keep by lia.
    apply (bd_parse_form' _ _ s neg [c_0] (zeros (s - len) ++ a) None).
    - unfold form. rewrite dotpart_ne by (destruct (zeros (s - len)); destruct a; try congruence; discriminate).
      cbn [exppart app]. rewrite List.app_nil_r. reflexivity.
    - constructor; [unfold isdig, c_0; lia | constructor].
    - apply Forall_app; split; [apply zeros_isdig | assumption].
    - discriminate.
    - exact I.
    - cbn [exval]. rewrite app_length. rewrite Nat2Z.inj_add. rewrite zeros_length by lia. lia.
    - assumption.
    - cbn [app]. unfold dval. rewrite dval_acc_cons.
      change (dstep 0 c_0) with 0%N. rewrite dval_acc_app. rewrite dval_acc_zeros0.
      fold (dval a). rewrite Hav, Hsg. reflexivity. }
Qed.

(* ---- the text is ASCII ------------------------------------------------------------------- *)

Definition lt128 (b : N) : Prop := (b < 128)%N.

Lemma isdig_ascii : forall D, Forall isdig D -> Forall lt128 D.
Proof.
  intros D H. eapply Forall_impl; [|exact H]. intros b [H1 H2]. unfold lt128. lia.
Qed.

Lemma signed_plus_ascii : forall x, Forall lt128 (signed_plus x).
Proof.
  intros x. unfold signed_plus. constructor.
  - destruct (x <? 0); unfold lt128, c_minus, c_plus; lia.
  - apply isdig_ascii. apply digits_of_isdig.
Qed.

Lemma zeros_ascii : forall k, Forall lt128 (zeros k).
Proof. intros. apply isdig_ascii. apply zeros_isdig. Qed.

Ltac asc :=
  repeat first
    [ assumption
    | apply signed_plus_ascii
    | apply zeros_ascii
    | apply Forall_firstn'
    | apply Forall_skipn'
    | apply Forall_nil
    | apply Forall_app; split
    | apply Forall_cons
    | (unfold lt128, c_dot, c_E, c_e, c_0, c_minus; lia) ].

Lemma bd_render_ascii : forall i s, Forall (fun b => (b < 128)%N) (bd_render i s).
Proof.
  intros i s. change (Forall lt128 (bd_render i s)).
  pose proof (isdig_ascii _ (digits_of_isdig (Z.abs_N i))) as Ha.
  cbv beta zeta delta [bd_render].
  remember (digits_of (Z.abs_N i)) as a eqn:Ea. clear Ea.
  remember (Z.of_nat (length a)) as len eqn:Elen. clear Elen.
  rewrite sgn_if. apply Forall_app; split.
  { destruct (i <? 0); cbn [sgn]; asc. }
  match goal with |- context [if 5 <? ?x then _ else _] => destruct (5 <? x) end.
  { destruct a as [|d [|d2 r]]; [asc|asc|].
    inversion Ha; subst. asc. }
  match goal with |- context [if 15 <? ?x then _ else _] => destruct (15 <? x) end.
  { asc. }
  destruct (s <=? 0).
  { destruct (20 <? - s); asc. }
  destruct (s <? len); asc.
Qed.

Lemma utf8_valid_ascii : forall bs, Forall (fun b => (b < 128)%N) bs -> utf8_valid bs = true.
Proof.
  induction bs as [|b r IH]; intros H.
  - reflexivity.
  - inversion H; subst.
    assert (Hb : (b <? 128)%N = true) by (apply N.ltb_lt; assumption).
    cbn [utf8_valid]. rewrite Hb. apply IH. assumption.
Qed.

Lemma bd_render_utf8 : forall i s, utf8_valid (bd_render i s) = true.
Proof. intros. apply utf8_valid_ascii. apply bd_render_ascii. Qed.

(* ---- the representative -------------------------------------------------------------------- *)

Lemma bd_norm_idem : forall p, bd_norm (bd_norm p) = bd_norm p.
Proof.
  intros [i s]. unfold bd_norm at 2 3.
  destruct ((-15 <=? s) && (s <? 0)) eqn:Hc.
  - reflexivity.
  - unfold bd_norm. rewrite Hc. reflexivity.
Qed.

Lemma bd_norm_numeq : forall p, bd_numeq (bd_norm p) p.
Proof.
  intros [i s]. unfold bd_norm.
  destruct ((-15 <=? s) && (s <? 0)) eqn:Hc; unfold bd_numeq.
  - b2p. replace (Z.max 0 s) with 0 by lia.
    replace (0 - 0) with 0 by reflexivity. replace (0 - s) with (- s) by lia.
    rewrite Z.pow_0_r. apply Z.mul_1_r.
  - reflexivity.
Qed.

Lemma bd_norm_normal : forall i s, is_i64 s = true ->
  bd_normal (fst (bd_norm (i, s))) (snd (bd_norm (i, s))) = true.
Proof.
  intros i s Hs. unfold bd_norm.
  destruct ((-15 <=? s) && (s <? 0)) eqn:Hc; cbn [fst snd]; unfold bd_normal.
  - reflexivity.
  - rewrite Hs, Hc. reflexivity.
Qed.

Lemma bd_normal_norm : forall i s, bd_normal i s = true -> bd_norm (i, s) = (i, s).
Proof.
  intros i s H. unfold bd_normal in H. apply andb_prop in H. destruct H as [_ H].
  apply negb_true_iff in H. unfold bd_norm. rewrite H. reflexivity.
Qed.

Lemma bd_normal_i64 : forall i s, bd_normal i s = true -> is_i64 s = true.
Proof. intros i s H. unfold bd_normal in H. apply andb_prop in H. tauto. Qed.

Lemma bd_parse_scale : forall bs i s, bd_parse bs = Some (i, s) -> is_i64 s = true.
Proof.
  intros bs i s. unfold bd_parse.
  match goal with |- match ?X with _ => _ end = _ -> _ => destruct X as [[base ex]|] end;
    [|discriminate].
  destruct base as [|b0 base']; [discriminate|].
  match goal with |- (let '(_, _) := ?X in _) = _ -> _ => destruct X as [digits off] end.
  cbv zeta.
  destruct (is_i64 (off - ex)) eqn:Hi; [|discriminate].
  destruct (bigint_parse digits); [|discriminate].
  intros H. inversion H; subst. exact Hi.
Qed.

Lemma bd_roundtrip_normal : forall i s, bd_normal i s = true ->
  bd_parse (bd_render i s) = Some (i, s).
Proof.
  intros i s H. rewrite bd_parse_render by (eapply bd_normal_i64; eassumption).
  rewrite bd_normal_norm by assumption. reflexivity.
Qed.

Print Assumptions bd_parse_render.
Print Assumptions bd_render_utf8.
Print Assumptions bd_roundtrip_normal.
Print Assumptions bd_parse_scale.
