(* Props/C15.v — the byte stream is independent of the sink, the size calculation is exact,
   the three sources agree result by result. *)
From Coq Require Import NArith ZArith List.
From Desert Require Import Outcome IO IOProofs VarintProofs.
Import ListNotations.
Open Scope N_scope.

(* any sequence of calls of the provided BinaryOutput methods: Vec<u8> and BytesMut receive the
   same bytes, SizeCalculator their number *)
Theorem C15_sinks : forall os,
  run_oops vec_sink os [] = flat_map oop_bytes os /\
  run_oops bytesmut_sink os [] = flat_map oop_bytes os /\
  run_oops size_sink os 0 = nlen (flat_map oop_bytes os).
Proof. exact sinks_agree. Qed.

(* a user-defined output that implements write_bytes as write_u8 of each byte receives exactly
   those bytes, one by one *)
Theorem C15_user_sink : forall {O} (k : sink O) os o,
  lawful_sink k ->
  run_oops k os o = fold_left (fun o b => k_u8 k b o) (flat_map oop_bytes os) o.
Proof. exact @lawful_sink_agrees. Qed.

(* SerializationContext: with an empty buffer stack writes reach the sink unchanged; with a
   buffer pushed (a chunk of an evolved record being written) they go to that buffer only *)
Theorem C15_context_passthrough : forall {O} (k : sink O) ws o,
  run_wops (sctx_sink k) ws {| sc_out := o; sc_bufs := [] |} =
  {| sc_out := run_wops k ws o; sc_bufs := [] |}.
Proof. exact @run_wops_sctx_nobuf. Qed.

Theorem C15_context_buffered : forall {O} (k : sink O) ws o top rest,
  run_wops (sctx_sink k) ws {| sc_out := o; sc_bufs := top :: rest |} =
  {| sc_out := o; sc_bufs := (top ++ flat ws) :: rest |}.
Proof. exact @run_wops_sctx_buf. Qed.

(* the three sources refine one reference source, hence agree with each other on every
   sequence of primitive reads, including where InputEndedUnexpectedly is first reported *)
Theorem C15_slice_input : refines slice_reader si_inv si_view.
Proof. exact slice_refines. Qed.
Theorem C15_owned_input : refines owned_reader oi_inv oi_view.
Proof. exact owned_refines. Qed.
Theorem C15_context_input : refines ctx_reader rc_inv rc_view.
Proof. exact ctx_refines. Qed.

(* ... and so do all provided read methods built on them *)
Theorem C15_read_var_u32 : forall {S} (R : reader S) inv view, refines R inv view ->
  forall s, inv s -> osim inv view (read_var_u32 R s) (read_var_u32 list_reader (view s)).
Proof. exact @read_var_u32_sim. Qed.
Theorem C15_read_var_i32 : forall {S} (R : reader S) inv view, refines R inv view ->
  forall s, inv s -> osim inv view (read_var_i32 R s) (read_var_i32 list_reader (view s)).
Proof. exact @read_var_i32_sim. Qed.
Theorem C15_read_be : forall {S} (R : reader S) inv view, refines R inv view ->
  forall k s, inv s -> osim inv view (read_be R k s) (read_be list_reader k (view s)).
Proof. exact @read_be_sim. Qed.
Theorem C15_read_signed : forall {S} (R : reader S) inv view, refines R inv view ->
  forall k b s, inv s -> osim inv view (read_signed R k b s) (read_signed list_reader k b (view s)).
Proof. exact @read_signed_sim. Qed.

Example C15_example :
  run_oops vec_sink [OU16 513; OVarI32 (-3); OBytes [9; 9]; OI64 (-1)] [] =
    [2; 1; 5; 9; 9; 255; 255; 255; 255; 255; 255; 255; 255] /\
  run_oops size_sink [OU16 513; OVarI32 (-3); OBytes [9; 9]; OI64 (-1)] 0 = 13.
Proof. vm_compute. split; reflexivity. Qed.

Print Assumptions C15_sinks.
Print Assumptions C15_user_sink.
Print Assumptions C15_context_passthrough.
Print Assumptions C15_context_buffered.
Print Assumptions C15_slice_input.
Print Assumptions C15_owned_input.
Print Assumptions C15_context_input.
Print Assumptions C15_read_var_u32.
Print Assumptions C15_read_var_i32.
Print Assumptions C15_read_be.
Print Assumptions C15_read_signed.
