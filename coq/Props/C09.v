(* Props/C09.v — string de-duplication round-trips; repeats become short back-references. *)
From Coq Require Import NArith ZArith List.
From Desert Require Import Outcome IO Types Codec CodecB CodecWf CodecRt CodecRt2 PropLemmas.
Import ListNotations.
Open Scope N_scope.

(* the general statement: DeduplicatedString is a primitive of the type language and the string
   table is threaded through every codec, so ANY arrangement of deduplicated and plain strings -
   flat, in tuples, sequences, version-0 records, evolved records whose headers carry removed
   field names, nested - decodes to what was written, and the reader ends with the writer's
   table: writer and reader assigned identical ids in identical order *)
Theorem C09_roundtrip : forall f E t v st b st' s k,
  wf_env E = true -> wf_env_rt E = true -> wf_ty E t = true -> wf_val f E t v = true ->
  enc f E t v st = Ok (b, st') ->
  dec a_ops f E t (mkA (b ++ s) k st) = Ok (normv f E t v, mkA s k st').
Proof. exact roundtrip. Qed.

(* one string *)
Theorem C09_one : forall bs st b st' s k,
  utf8_valid bs = true -> enc_dedup bs st = Ok (b, st') ->
  dec_dedup a_ops (mkA (b ++ s) k st) = Ok (VB bs, mkA s k st').
Proof. exact rt_dedup. Qed.

(* the first occurrence is byte-for-byte a plain string ... *)
Theorem C09_first_is_plain : forall s st,
  str_id s st = None -> nlen st + 1 < 2 ^ 31 -> enc_dedup s st = enc_string s (st ++ [s]).
Proof. exact dedup_first_is_plain. Qed.
Theorem C09_plain_bytes_ignore_table : forall s st1 st2,
  omap fst (enc_string s st1) = omap fst (enc_string s st2).
Proof. exact enc_string_bytes_table_indep. Qed.

(* ... it gets the next id (ids from 1 in first-occurrence order) ... *)
Theorem C09_ids : forall s st, str_id s st = None -> str_id s (st ++ [s]) = Some (nlen st + 1).
Proof. exact dedup_new_id. Qed.

(* ... and every later occurrence is the zig-zag var-int of minus its id: at most five bytes
   whatever the string's length, table unchanged *)
Theorem C09_repeat : forall s st id, str_id s st = Some id -> id < 2 ^ 31 ->
  enc_dedup s st = Ok (write_var_i32 (- Z.of_N id), st) /\ nlen (write_var_i32 (- Z.of_N id)) <= 5.
Proof. exact dedup_repeat. Qed.

(* an id never introduced is an error *)
Theorem C09_unknown : forall id s k st, nlen st < id -> id < 2 ^ 31 ->
  dec_dedup a_ops (mkA (write_var_i32 (- Z.of_N id) ++ s) k st) = Err (EInvalidStringId (Z.of_N id)).
Proof. exact dedup_unknown_id. Qed.

(* non-vacuity: nested evolved records sharing a removed field name, with user dedup strings *)
Example C09_example_nested_headers :
  let inner := mkD [73] (DRecord (mkR [mkField [97] (TPrim PDedupString) false None] [SRemoved [122]])) in
  let outer := mkD [79] (DRecord (mkR [mkField [105] (TNamed 0) false None;
                                        mkField [98] (TPrim PDedupString) false None] [SRemoved [122]])) in
  let E := [inner; outer] in
  let v := VNode 0 [VNode 0 [VB [122]]; VB [117]] in
  wf_env E = true /\ wf_env_rt E = true /\ wf_val 6 E (TNamed 1) v = true /\
  match enc 6 E (TNamed 1) v [] with
  | Ok (b, st') => st' = [[122]; [117]] /\ decodeB 6 E (TNamed 1) b [] = Ok (v, 0, st')
  | _ => False end.
Proof. vm_compute. repeat split. Qed.

Print Assumptions C09_roundtrip.
Print Assumptions C09_one.
Print Assumptions C09_first_is_plain.
Print Assumptions C09_plain_bytes_ignore_table.
Print Assumptions C09_ids.
Print Assumptions C09_repeat.
Print Assumptions C09_unknown.
