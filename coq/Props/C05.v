(* Props/C05.v — decoding untrusted bytes is total.  Statements only.
   Layer B = the Rust as written (cursor arithmetic on usize with an explicit Panic outcome,
   region stack, index/slice/unwrap panics); layer A = the reference decoder on lists. *)
From Coq Require Import NArith ZArith List.
From Desert Require Import Outcome IO IOProofs Types Codec CodecB CodecWf TotalProofs SimProofs
  MonoProofs PropLemmas TermProofs SizeProofs SizeQuad.
Import ListNotations.
Open Scope N_scope.

(* every byte string, every well-formed type (built-in, derived, evolved), any fuel: the
   top-level decoder over the DeserializationContext model returns Ok or Err or runs out of
   model fuel — it never reaches a panic (overflow, index, slice, unwrap, assert, unreachable) *)
Theorem C05_total : forall f E t bs st,
  wf_env E = true -> wf_ty E t = true -> nlen bs < 2 ^ 64 ->
  is_panic (decodeB f E t bs st) = false.
Proof. exact decodeB_no_panic. Qed.

(* the same from any state of the reference decoder (any region stack, any string table) *)
Theorem C05_total_A : forall f E t s,
  wf_env E = true -> wf_ty E t = true -> is_panic (dec a_ops f E t s) = false.
Proof. exact decA_no_panic. Qed.

(* layer B is observationally the reference decoder: value, bytes left, string table, errors *)
Theorem C05_B_is_A : forall f E t bs st, nlen bs < 2 ^ 64 ->
  match decodeB f E t bs st, decodeA f E t bs st with
  | Ok (v, n, st1), Ok (v', rest, st1') => v = v' /\ n = nlen rest /\ st1 = st1'
  | Err e, Err e' => e = e'
  | Panic p, Panic p' => p = p'
  | Fuel, Fuel => True
  | _, _ => False
  end.
Proof. exact decodeB_decodeA. Qed.

(* the low-level readers: for EVERY requested count (the whole of N, in particular counts near
   usize::MAX) the three sources answer as the reference source does: bytes or
   InputEndedUnexpectedly, never an overflow or an out-of-range slice *)
Theorem C05_sources_slice : refines slice_reader si_inv si_view.
Proof. exact slice_refines. Qed.
Theorem C05_sources_owned : refines owned_reader oi_inv oi_view.
Proof. exact owned_refines. Qed.
Theorem C05_sources_context : refines ctx_reader rc_inv rc_view.
Proof. exact ctx_refines. Qed.

(* more fuel never changes an answer: the model's Fuel outcome is an artefact of writing a
   terminating Gallina function, not a behaviour; every non-Fuel answer is the answer *)
Theorem C05_fuel_monotone : forall f f' E t bs st r,
  (f <= f')%nat -> decodeB f E t bs st = r -> r <> Fuel -> decodeB f' E t bs st = r.
Proof. exact decodeB_mono. Qed.

(* TERMINATION. `Fuel` goes away: for every type and environment without sequences of zero-width
   elements (TermProofs.nzw_ty / nzw_env: no Vec<()>, [PhantomData; N], HashSet<Box<()>> ...), a
   fuel LINEAR in the number of unread bytes suffices (fuel_bound E t len =
   tdepth t + (len + 1) * S (env_depth E)): the reference decoder answers every input, of any
   length, after a number of nested calls and loop iterations bounded by the input length -
   recursive declarations included, because every record, tuple, option, result, sequence and
   enum reads at least one byte before it recurses, and chunk regions are no longer than what is
   left.  With C05_fuel_monotone this is the answer at every larger fuel, and with C05_B_is_A it
   is the answer of the cursor-level decoder. *)
Theorem C05_terminates_prompt : forall E t bs st f,
  wf_env E = true -> wf_ty E t = true -> nzw_env E = true -> nzw_ty t = true ->
  (fuel_bound E t (length bs) <= f)%nat -> decodeA f E t bs st <> Fuel.
Proof. exact decodeA_terminates_prompt_ge. Qed.

(* every successful decode of a type that is not zero-width moves the cursor forward, and leaves
   the enclosing regions alone: no loop can spin without consuming input *)
Theorem C05_progress : forall f E t s v s',
  wf_env E = true -> wf_ty E t = true -> zero_width t = false ->
  dec a_ops f E t s = Ok (v, s') ->
  (length (a_cur s') < length (a_cur s))%nat /\ a_stack s' = a_stack s.
Proof. exact decA_consumes_one. Qed.

(* without the restriction the decoder still terminates on every input, but the number of
   iterations is then governed by the decoded count (up to 2^31 - 1; negative counts other than
   the unknown-length marker are rejected), not by the input length: this is the known finding F14, exhibited on the model by
   C05_zero_width_spins (5 bytes of input, more than 1000 iterations) *)
Theorem C05_terminates : forall E t bs st,
  wf_env E = true -> wf_ty E t = true -> exists f, decodeA f E t bs st <> Fuel.
Proof. exact decodeA_terminates. Qed.

(* for EVERY type, zero-width element types included, fuel linear in the input plus 2^31 is
   enough: the decoded count, a non-negative i32 (hence below 2^31), is the only thing that can
   make a loop longer than the input (finding F14) *)
Theorem C05_terminates_bound : forall E t bs st f,
  (fuel_bound E t (length bs) + N.to_nat (2 ^ 31) <= f)%nat -> decodeA f E t bs st <> Fuel.
Proof. intros E t bs st f Hf. apply decodeA_terminates_bound. rewrite big_eq. exact Hf. Qed.

Example C05_zero_width_spins :
  dec a_ops 1000 [] (TSeq KVec (TPrim PUnit)) (mkA [254; 255; 255; 255; 15] [] []) = Fuel.
Proof. exact zero_width_needs_count_many_steps. Qed.

(* ALLOCATION: "never allocates more than a bounded multiple of the input length".  At the level of the model
   this is a statement about the SIZE of the decoded value (vsize: one per node, plus the bytes of every string
   and byte array).  It is FALSE as it stands: a back-reference to a de-duplicated string costs at most five
   bytes and yields a copy of the whole string - 184 bytes of input decode to a value of size 8182 - which is the
   known finding F30 (16 KB -> 64 MB on the implementation). *)
Theorem C05_size_refuted :
  let t := TSeq KVec (TPrim PDedupString) in
  exists input v s', dec a_ops 200 [] t (mkA input [] []) = Ok (v, s') /\
                     nlen input < 200 /\ 20 * nlen input < vsize v.
Proof. exact size_not_linear_with_dedup. Qed.

(* ... and it HOLDS for every type and every environment of declarations - recursive ones included, whatever
   their evolution steps and defaults - that reads no de-duplicated strings and has no sequences of zero-width
   elements (those cost no memory in Rust: a Vec<()> does not allocate): the decoded value is at most
   size_const E t times larger than the bytes consumed, where size_const is a constant of the declarations (the
   widest tuple, and per record its fields plus the sizes of its declared defaults).  From ANY accepted input,
   lenient forms included; the count, length and chunk-size fields of the input never buy memory. *)
Theorem C05_size_linear : forall f E t bs st v rest st',
  nzw_env E = true -> nzw_ty t = true -> no_dedup_env E = true -> no_dedup t = true ->
  decodeA f E t bs st = Ok (v, rest, st') ->
  vsize v <= size_const E t * (1 + (nlen bs - nlen rest)) /\
  vsize v <= size_const E t * (1 + nlen bs).
Proof. exact decodeA_size_linear. Qed.

Theorem C05_size_linear_anywhere : forall f E t s v s',
  nzw_env E = true -> nzw_ty t = true -> no_dedup_env E = true -> no_dedup t = true ->
  dec a_ops f E t s = Ok (v, s') ->
  vsize v <= size_const E t * (1 + (nlen (a_cur s) - nlen (a_cur s'))).
Proof. exact decA_size_linear. Qed.

(* ... and the blow-up of F30 is the worst there is: for EVERY type (de-duplicated strings allowed) the decoded value
   is at most size_const E t * (bytes consumed + 1) * (longest string a back-reference can return + 1), and the longest
   such string is either in the table the run starts with or was read from the input - from an empty table, at most
   quadratic in the input. *)
Theorem C05_size_quadratic : forall f E t bs v rest st',
  nzw_env E = true -> nzw_ty t = true ->
  decodeA f E t bs [] = Ok (v, rest, st') ->
  vsize v <= size_const E t * (1 + nlen bs) * (1 + nlen bs).
Proof. exact decodeA_size_quadratic_fresh. Qed.

Theorem C05_size_quadratic_anywhere : forall f E t s v s',
  nzw_env E = true -> nzw_ty t = true ->
  dec a_ops f E t s = Ok (v, s') ->
  vsize v <= size_const E t * (1 + (nlen (a_cur s) - nlen (a_cur s'))) * (1 + strs_bound s).
Proof. exact decA_size_quadratic. Qed.

(* non-vacuity: the recursive list of C05_prompt_example has constant 5; a record with a FieldAdded default and a
   transient default has constant 25 *)
Example C05_size_examples :
  (let E := [mkD [76] (DRecord (mkR [mkField [110] (TOption (TWrap KBox (TNamed 0))) true None;
                                     mkField [105] (TSeq KVec (TTuple [TPrim PU8])) false None] []))] in
   nzw_env E = true /\ no_dedup_env E = true /\ size_const E (TNamed 0) = 5) /\
  nlen dedup_bomb = 184.
Proof. vm_compute. repeat split. Qed.

(* non-vacuity of the prompt bound: a recursive declaration L { n: Option<Box<L>>, i: Vec<(u8,)> } *)
Example C05_prompt_example :
  let E := [mkD [76] (DRecord (mkR [mkField [110] (TOption (TWrap KBox (TNamed 0))) true None;
                                    mkField [105] (TSeq KVec (TTuple [TPrim PU8])) false None] []))] in
  wf_env E = true /\ nzw_env E = true /\ fuel_bound E (TNamed 0) 12 = 53%nat /\
  is_ok (decodeA 53 E (TNamed 0) [0; 1; 0; 0; 2; 0; 7; 0; 9; 0; 0; 0] []) = true.
Proof. vm_compute. repeat split. Qed.

(* non-vacuity: hostile inputs of DESIGN section 2.3 on the model *)
Example C05_example_hostile :
  (* String with length -1 *) is_err (decodeB 10 [] (TPrim PString) [1] []) = true /\
  (* Duration carry overflow *) is_err (decodeB 10 [] (TPrim PDuration) (repeat 255 12) []) = true /\
  (* [u32; 3] from a 2-element stream *)
  is_err (decodeB 10 [] (TSeq (KArray 3) (TPrim PU32)) [4; 0; 0; 0; 1; 0; 0; 0; 2] []) = true /\
  (* record header with position byte 0x80 *)
  is_err (decodeB 10 [] (TTuple [TPrim PU8]) [1; 1; 128; 0] []) = true /\
  (* record header with chunk size -3 *)
  is_err (decodeB 10 [] (TTuple [TPrim PU8]) [1; 5; 0] []) = true.
Proof. vm_compute. repeat split. Qed.

Print Assumptions C05_total.
Print Assumptions C05_total_A.
Print Assumptions C05_B_is_A.
Print Assumptions C05_sources_slice.
Print Assumptions C05_sources_owned.
Print Assumptions C05_sources_context.
Print Assumptions C05_fuel_monotone.
Print Assumptions C05_terminates_prompt.
Print Assumptions C05_progress.
Print Assumptions C05_terminates.
Print Assumptions C05_terminates_bound.
Print Assumptions C05_size_refuted.
Print Assumptions C05_size_linear.
Print Assumptions C05_size_linear_anywhere.
Print Assumptions C05_size_quadratic.
Print Assumptions C05_size_quadratic_anywhere.
