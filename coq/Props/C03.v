(* Props/C03.v — schema evolution: every writer/reader version pair gives the documented outcome.
   History.v defines histories, the declaration of each version (decl_at), the property's legality
   predicate (legal) and layer V (expected: what reader r must obtain from data of version w; no
   bytes). The theorem says the record writer of version kw and the record reader of version kr
   realise layer V, for ALL legal histories, ALL pairs (kw, kr), ALL values and ALL suffixes. *)
From Coq Require Import NArith ZArith List.
From Desert Require Import Outcome IO Types Codec CodecWf History RecordRt RecordChunkedSpec EvolutionSpec Evolution EvolutionTop EvolutionEnum.
Import ListNotations.
Open Scope N_scope.

Theorem C03_pairs :
  forall (E : env) (encf : ty -> encoder) (decf : ty -> adecoder)
         (w : ty -> val -> bool) (nv : ty -> val -> val),
    fields_neutral E encf decf w nv ->
    forall (H : history) (kw kr : nat) vw st b st' s k,
      legal H = true -> all_field_types_wf E H = true ->
      (kw <= length (h_steps H))%nat -> (kr <= length (h_steps H))%nat ->
      wf_fields w (r_fields (decl_at H kw)) vw = true ->
      enc_record encf (decl_at H kw) vw st = Ok (b, st') ->
      match expected H kw kr (norm_written nv (r_fields (decl_at H kw)) vw) with
      | Ok vs =>
          exists rest st'',
            dec_record a_ops decf (decl_at H kr) (mkA (b ++ s) k st) = Ok (VNode 0 vs, mkA rest k st'') /\
            (* no disturbance of the data that follows the record (DESIGN 9.1 excludes embedded
               version-0 data whose reader lacks a written field) *)
            (framed H kw kr = true -> rest = s)
      | Err e => dec_record a_ops decf (decl_at H kr) (mkA (b ++ s) k st) = Err e
      | _ => False
      end.
Proof. exact c03. Qed.

(* the same at the real codecs: a record type whose version-kw declaration writes and whose
   version-kr declaration reads, through enc / dec on a TNamed type, for field types that do not
   touch the string table (no DeduplicatedString, no nested declarations: DESIGN 9.4) *)
Theorem C03_pairs_top : forall f H kw kr nm vw st b st' s k,
  legal H = true -> history_neutral H = true ->
  (kw <= length (h_steps H))%nat -> (kr <= length (h_steps H))%nat ->
  let Ew := [mkD nm (DRecord (decl_at H kw))] in
  let Er := [mkD nm (DRecord (decl_at H kr))] in
  wf_val (S f) Ew (TNamed 0) (VNode 0 vw) = true ->
  enc (S f) Ew (TNamed 0) (VNode 0 vw) st = Ok (b, st') ->
  exists f',
  match expected H kw kr vw with
  | Ok vs => exists rest st'',
      dec a_ops f' Er (TNamed 0) (mkA (b ++ s) k st) = Ok (VNode 0 vs, mkA rest k st'') /\
      (framed H kw kr = true -> rest = s)
  | Err e => dec a_ops f' Er (TNamed 0) (mkA (b ++ s) k st) = Err e
  | _ => False
  end.
Proof. exact c03_top. Qed.

(* non-vacuity: a 5-step history that exercises every branch of `expected`; all 36 pairs computed
   by the model (value 1,"b",3 written by version 0, etc.) *)
Example C03_example_history :
  let f n t := mkField [n] t false None in
  let H := mkH [f 97 (TPrim PU8); f 98 (TPrim PString); f 99 (TPrim PI32)]
               [HAdd (f 100 (TPrim PU64)) (VN 7); HOpt [98]; HRem [99]; HTra [100] (VN 0);
                HAdd (mkField [101] (TOption (TPrim PU8)) true None) VNone] in
  legal H = true /\
  (* old data, new reader: added field takes its default, b is wrapped, c ignored *)
  expected H 0 3 [VN 1; VB [98]; VZ 3] = Ok [VN 1; VSome (VB [98]); VN 7] /\
  (* new data, old reader: b unwrapped, or the specific error when it is None *)
  expected H 2 1 [VN 1; VSome (VB [98]); VZ 3; VN 9] = Ok [VN 1; VB [98]; VZ 3; VN 9] /\
  expected H 2 1 [VN 1; VNone; VZ 3; VN 9] = Err (ENonOptionalNone [98]) /\
  (* a required field that was removed *)
  expected H 3 2 [VN 1; VNone; VN 9] = Err (EFieldRemoved [99]) /\
  (* made transient: the old reader sees it as removed, the new reader gets the default *)
  expected H 4 3 [VN 1; VNone; VN 9] = Err (EFieldRemoved [100]) /\
  expected H 3 4 [VN 1; VNone; VN 9] = Ok [VN 1; VNone; VN 0] /\
  framed H 0 3 = false /\ framed H 1 3 = true.
Proof. vm_compute. repeat split. Qed.

(* the same for the constructors of an ENUM: variant j of an enum - at any position, sorted or not,
   whatever the other variants are - written with version kw of its own history and read with
   version kr (each variant carries its own metadata and header; the constructor index is
   unaffected because only names enter the order) *)
Theorem C03_pairs_variant : forall f H kw kr nm vname pre post sorted vw st b st' s k,
  legal H = true -> history_neutral H = true ->
  (kw <= length (h_steps H))%nat -> (kr <= length (h_steps H))%nat ->
  let j := nlen pre in
  let Ew := [mkD nm (DEnum (enum_with vname pre post sorted (decl_at H kw)))] in
  let Er := [mkD nm (DEnum (enum_with vname pre post sorted (decl_at H kr)))] in
  wf_val (S (S f)) Ew (TNamed 0) (VNode j vw) = true ->
  enc (S (S f)) Ew (TNamed 0) (VNode j vw) st = Ok (b, st') ->
  exists f',
  match expected H kw kr vw with
  | Ok vs => exists rest st'',
      dec a_ops f' Er (TNamed 0) (mkA (b ++ s) k st) = Ok (VNode j vs, mkA rest k st'') /\
      (framed H kw kr = true -> rest = s)
  | Err e => dec a_ops f' Er (TNamed 0) (mkA (b ++ s) k st) = Err e
  | _ => False
  end.
Proof. exact c03_variant. Qed.

Print Assumptions C03_pairs.
Print Assumptions C03_pairs_variant.
Print Assumptions C03_pairs_top.
