(* Props/C07.v — encodings are self-delimiting: decode consumes exactly what encode produced. *)
From Coq Require Import NArith ZArith List.
From Desert Require Import Outcome IO Types Codec CodecB CodecWf TruncProofs CodecRt2 PropLemmas Inject.
From Desert Require Import History RecordRt RecordChunkedSpec EvolutionSpec C07Lemmas.
Import ListNotations.
Open Scope N_scope.

(* whatever follows the encoding is left exactly as it was: for ALL suffixes s *)
Theorem C07_suffix : forall f E t v st b st' s k,
  wf_env E = true -> wf_env_rt E = true -> wf_ty E t = true -> wf_val f E t v = true ->
  enc f E t v st = Ok (b, st') ->
  dec a_ops f E t (mkA (b ++ s) k st) = Ok (normv f E t v, mkA s k st').
Proof. exact roundtrip. Qed.

(* the code is prefix-free: no encoding of a type is a strict prefix of another encoding of that type *)
Theorem C07_prefix_free : forall f E t v v' st b r st1 st2,
  wf_env E = true -> wf_env_rt E = true -> wf_ty E t = true ->
  wf_val f E t v = true -> wf_val f E t v' = true ->
  enc f E t v st = Ok (b, st1) -> enc f E t v' st = Ok (b ++ r, st2) -> r = [].
Proof. exact enc_prefix_free. Qed.

(* values written one after another are read back one after another *)
Theorem C07_sequence : forall f E t1 t2 v1 v2 st b1 st1 b2 st2 s k,
  wf_env E = true -> wf_env_rt E = true ->
  wf_ty E t1 = true -> wf_val f E t1 v1 = true -> wf_ty E t2 = true -> wf_val f E t2 v2 = true ->
  enc f E t1 v1 st = Ok (b1, st1) -> enc f E t2 v2 st1 = Ok (b2, st2) ->
  exists s1, dec a_ops f E t1 (mkA (b1 ++ b2 ++ s) k st) = Ok (normv f E t1 v1, s1) /\
             dec a_ops f E t2 s1 = Ok (normv f E t2 v2, mkA s k st2).
Proof.
  intros f E t1 t2 v1 v2 st b1 st1 b2 st2 s k HE HR Ht1 Hv1 Ht2 Hv2 E1 E2.
  exists (mkA (b2 ++ s) k st1). split.
  - exact (roundtrip f E t1 v1 st b1 st1 (b2 ++ s) k HE HR Ht1 Hv1 E1).
  - exact (roundtrip f E t2 v2 st1 b2 st2 s k HE HR Ht2 Hv2 E2).
Qed.

(* for ANY accepted input (not only encoder output) the decoder consumed a prefix and nothing
   after that prefix influenced the result *)
Theorem C07_consumes_prefix : forall f E t bs st v rest st1,
  wf_env E = true -> wf_ty E t = true ->
  decodeA f E t bs st = Ok (v, rest, st1) -> exists c, bs = c ++ rest.
Proof. exact decodeA_consumes. Qed.

Theorem C07_suffix_independent : forall f E t c r k st v st',
  wf_env E = true -> wf_ty E t = true ->
  dec a_ops f E t (mkA (c ++ r) k st) = Ok (v, mkA r k st') ->
  forall r2, dec a_ops f E t (mkA (c ++ r2) k st) = Ok (v, mkA r2 k st').
Proof. exact decA_suffix. Qed.

(* the same across versions: a record written by version kw of a legal history and read by version
   kr leaves exactly the suffix whenever the pair is framed (stored version >= 1, or version 0
   whose reader knows every written field), all chunks the reader does not know being skipped *)
Theorem C07_cross_version :
  forall (E : env) (encf : ty -> encoder) (decf : ty -> adecoder)
         (w : ty -> val -> bool) (nv : ty -> val -> val),
    fields_neutral E encf decf w nv ->
    forall (H : history) (kw kr : nat) vw st b st' s k vs,
      legal H = true -> all_field_types_wf E H = true ->
      (kw <= length (h_steps H))%nat -> (kr <= length (h_steps H))%nat ->
      wf_fields w (r_fields (decl_at H kw)) vw = true ->
      enc_record encf (decl_at H kw) vw st = Ok (b, st') ->
      framed H kw kr = true ->
      expected H kw kr (norm_written nv (r_fields (decl_at H kw)) vw) = Ok vs ->
      exists st'',
        dec_record a_ops decf (decl_at H kr) (mkA (b ++ s) k st) = Ok (VNode 0 vs, mkA s k st'').
Proof. exact c07_cross_version. Qed.

Print Assumptions C07_prefix_free.
Print Assumptions C07_suffix.
Print Assumptions C07_cross_version.
Print Assumptions C07_sequence.
Print Assumptions C07_consumes_prefix.
Print Assumptions C07_suffix_independent.
