(* Props/C01.v — round-trip fidelity of every built-in codec, at any nesting.
   `t` ranges over ALL type expressions of the embedding without declarations (wf_ty [] t):
   every primitive modelled, Option, Result, tuples of arity 1..8, Vec / slice / LinkedList /
   HashSet / BTreeSet / [T; N] for every N, byte containers, maps, Box/Rc/Arc/&, PhantomData,
   nested to any depth.  `v` ranges over all values the Rust type can hold (wf_val).
   Primitives include the chrono codecs (features/chrono.rs), BigInt and BigDecimal
   (features/bigdecimal.rs; BigDec.v transcribes the decimal text the bigdecimal crate renders and
   parses) and the two public var-int writers. *)
From Coq Require Import NArith ZArith List.
From Desert Require Import Outcome IO Types Calendar BigDec BigDecLemmas Codec CodecB CodecWf CodecRt2 PropLemmas Inject.
Import ListNotations.
Open Scope N_scope.

(* decode(encode v ++ s) = v, leaving exactly s and the encoder's final string table; from any
   region stack k and any initial string table st; f is the fuel the encoder needed *)
Theorem C01_roundtrip : forall f t v st b st' s k,
  wf_ty [] t = true -> wf_val f [] t v = true ->
  enc f [] t v st = Ok (b, st') ->
  dec a_ops f [] t (mkA (b ++ s) k st) = Ok (v, mkA s k st').
Proof. exact roundtrip_builtin. Qed.

(* the same through the model of the Rust cursor machinery, at the public entry point *)
Theorem C01_roundtrip_impl : forall f f' E t v st b st' s,
  wf_env E = true -> wf_env_rt E = true -> wf_ty E t = true -> wf_val f E t v = true ->
  enc f E t v st = Ok (b, st') -> (f <= f')%nat -> nlen (b ++ s) < 2 ^ 64 ->
  decodeB f' E t (b ++ s) st = Ok (normv f E t v, nlen s, st').
Proof. exact roundtrip_decodeB. Qed.

Example C01_example_nested :
  let t := TSeq KVec (TOption (TTuple [TPrim PI128; TPrim PString])) in
  let v := VNode 0 [VSome (VNode 0 [VZ (-170141183460469231731687303715884105728); VB [226; 130; 172]]); VNone] in
  wf_ty [] t = true /\ wf_val 6 [] t v = true /\
  match enc 6 [] t v [] with
  | Ok (b, _) => decodeB 6 [] t (b ++ [255]) [] = Ok (v, 1, []) | _ => False end.
Proof. vm_compute. repeat split. Qed.

Example C01_example_one_tuple_and_byte_array :
  (match enc 3 [] (TTuple [TPrim PU8]) (VNode 0 [VN 5]) [] with
   | Ok (b, _) => b = [0; 5] /\ decodeB 3 [] (TTuple [TPrim PU8]) b [] = Ok (VNode 0 [VN 5], 0, [])
   | _ => False end) /\
  (match enc 3 [] (TSeq (KArray 4) (TPrim PU8)) (VB [1; 2; 3; 4]) [] with
   | Ok (b, _) => decodeB 3 [] (TSeq (KArray 4) (TPrim PU8)) b [] = Ok (VB [1; 2; 3; 4], 0, [])
   | _ => False end) /\
  (* f64 NaN with payload, compared by bits *)
  (match enc 2 [] (TPrim PF64) (VN 9221120237041090561) [] with
   | Ok (b, _) => decodeB 2 [] (TPrim PF64) b [] = Ok (VN 9221120237041090561, 0, [])
   | _ => False end).
Proof. vm_compute. repeat split. Qed.

(* non-vacuity for the chrono primitives and the var-int primitives: concrete values at the
   boundaries of what chrono accepts are well-formed, encode to these bytes, and decode back *)
Definition prim_rt (p : prim) (v : val) (bs : bytes) : Prop :=
  wf_prim_val p v = true /\
  enc_prim p v [] = Ok (bs, []) /\
  dec_prim a_ops p (mkA bs [] []) = Ok (v, mkA [] [] []).

Definition ex_budapest : bytes := [69; 117; 114; 111; 112; 101; 47; 66; 117; 100; 97; 112; 101; 115; 116].
(* 2024-02-29T12:34:56.789 *)
Definition ex_ndt : val :=
  VNode 0 [VNode 0 [VZ 2024; VN 2; VN 29]; VNode 0 [VN 12; VN 34; VN 56; VN 789000000]].
(* -262143-01-01T00:00:00 *)
Definition ex_ndt_min : val :=
  VNode 0 [VNode 0 [VZ (-262143); VN 1; VN 1]; VNode 0 [VN 0; VN 0; VN 0; VN 0]].

Example C01_chrono_values :
  prim_rt PNaiveDate (VNode 0 [VZ (-262143); VN 1; VN 1]) [129; 128; 240; 255; 15; 1; 1] /\
  prim_rt PNaiveDate (VNode 0 [VZ 262142; VN 12; VN 31]) [254; 255; 15; 12; 31] /\
  (* a leap second: 23:59:59 with nanosecond 1_999_999_999 *)
  prim_rt PNaiveTime (VNode 0 [VN 23; VN 59; VN 59; VN 1999999999]) [23; 59; 59; 255; 167; 214; 185; 7] /\
  prim_rt PDateTimeUtc (VNode 0 [VZ max_ts; VN 999999999])
          [0; 0; 7; 119; 154; 10; 107; 127; 59; 154; 201; 255] /\
  prim_rt PDateTimeUtc (VNode 0 [VZ min_ts; VN 0]) [255; 255; 248; 107; 115; 13; 238; 0; 0; 0; 0; 0] /\
  prim_rt PFixedOffset (VZ (-86399)) [0; 253; 197; 10] /\
  prim_rt PTz (VB ex_budapest) (1 :: 30 :: ex_budapest) /\
  prim_rt PWeekday (VN 7) [7] /\
  prim_rt PMonth (VN 12) [12] /\
  prim_rt PNaiveDateTime ex_ndt [232; 15; 2; 29; 12; 34; 56; 192; 222; 156; 248; 2] /\
  prim_rt PDateTimeLocal ex_ndt [232; 15; 2; 29; 12; 34; 56; 192; 222; 156; 248; 2] /\
  (* +03:30 *)
  prim_rt PDateTimeFixed (VNode 0 [ex_ndt; VZ 12600])
          [232; 15; 2; 29; 12; 34; 56; 192; 222; 156; 248; 2; 0; 240; 196; 1] /\
  prim_rt PDateTimeFixed (VNode 0 [ex_ndt_min; VZ 0]) [129; 128; 240; 255; 15; 1; 1; 0; 0; 0; 0; 0; 0] /\
  prim_rt PDateTimeTz (VNode 0 [ex_ndt; VB ex_budapest])
          ([232; 15; 2; 29; 12; 34; 56; 192; 222; 156; 248; 2] ++ 1 :: 30 :: ex_budapest) /\
  prim_rt PVarU32 (VN 5210) [218; 40] /\
  prim_rt PVarI32 (VZ (-64)) [127].
Proof. vm_compute. repeat split. Qed.

(* what chrono refuses is not a value, and its bytes are refused by the decoder *)
Example C01_chrono_rejects :
  wf_prim_val PNaiveDate (VNode 0 [VZ 2023; VN 2; VN 29]) = false /\
  dec_prim a_ops PNaiveDate (mkA [231; 15; 2; 29] [] []) = Err EDeserializationFailure /\
  (* nanoseconds >= 10^9 only in second 59 *)
  wf_prim_val PNaiveTime (VNode 0 [VN 23; VN 59; VN 58; VN 1000000000]) = false /\
  dec_prim a_ops PNaiveTime (mkA [23; 59; 58; 128; 148; 235; 220; 3] [] []) = Err EDeserializationFailure /\
  (* the local time -262143-01-01T00:00:00 at +00:00:01 is an instant before chrono's range *)
  wf_prim_val PDateTimeFixed (VNode 0 [ex_ndt_min; VZ 1]) = false /\
  dec_prim a_ops PDateTimeFixed (mkA [129; 128; 240; 255; 15; 1; 1; 0; 0; 0; 0; 0; 2] [] [])
    = Err EDeserializationFailure /\
  dec_prim a_ops PFixedOffset (mkA (0 :: write_var_i32 86400) [] []) = Err EDeserializationFailure /\
  dec_prim a_ops PWeekday (mkA [0] [] []) = Err EDeserializationFailure /\
  dec_prim a_ops PMonth (mkA [13] [] []) = Err EDeserializationFailure /\
  (* "Europe/Budapes" is not a zone *)
  dec_prim a_ops PTz (mkA (1 :: 28 :: removelast ex_budapest) [] []) = Err EDeserializationFailure.
Proof. vm_compute. repeat split. Qed.

(* BigDecimal = (unscaled integer, i64 scale), value unscaled * 10^(-scale).  The wire carries the decimal
   text of to_string(); parsing it back gives, for EVERY integer and EVERY i64 scale, the representative
   bd_norm of the value: the same pair, except that a scale in -15..-1 comes back as scale 0 with the
   zeros multiplied in (the text prints such integers in full).  bd_norm preserves the numeric value, which is
   what Rust's equality on BigDecimal compares; wf_prim_val PBigDecimal = "is its own representative", so
   C01_roundtrip covers BigDecimal at any nesting, and this is the statement for the remaining values. *)
Theorem C01_bigdecimal_text : forall i s,
  is_i64 s = true ->
  bd_parse (bd_render i s) = Some (bd_norm (i, s)) /\ bd_numeq (bd_norm (i, s)) (i, s) /\
  bd_normal (fst (bd_norm (i, s))) (snd (bd_norm (i, s))) = true.
Proof.
  intros i s H. split; [exact (bd_parse_render i s H)|]. split; [exact (bd_norm_numeq (i, s)) | exact (bd_norm_normal i s H)].
Qed.

(* 1.2345, 0.00000123 (plain), 1.23E-7 (more than five leading zeros), 1e+16 (more than 15 padded zeros),
   -50 from (-5, -1), both ends of the scale *)
Example C01_bigdecimal_values :
  prim_rt PBigDecimal (VNode 0 [VZ 12345; VZ 4]) [12; 49; 46; 50; 51; 52; 53] /\
  prim_rt PBigDecimal (VNode 0 [VZ 123; VZ 8]) [20; 48; 46; 48; 48; 48; 48; 48; 49; 50; 51] /\
  prim_rt PBigDecimal (VNode 0 [VZ 123; VZ 9]) [14; 49; 46; 50; 51; 69; 45; 55] /\
  prim_rt PBigDecimal (VNode 0 [VZ 1; VZ (-16)]) [10; 49; 101; 43; 49; 54] /\
  wf_prim_val PBigDecimal (VNode 0 [VZ (-5); VZ (-1)]) = false /\
  enc_prim PBigDecimal (VNode 0 [VZ (-5); VZ (-1)]) [] = Ok ([6; 45; 53; 48], []) /\
  dec_prim a_ops PBigDecimal (mkA [6; 45; 53; 48] [] []) = Ok (VNode 0 [VZ (-50); VZ 0], mkA [] [] []) /\
  wf_prim_val PBigDecimal (VNode 0 [VZ 1; VZ (- 2 ^ 63)]) = true /\
  wf_prim_val PBigDecimal (VNode 0 [VZ 999; VZ (2 ^ 63 - 1)]) = true /\
  wf_prim_val PBigDecimal (VNode 0 [VZ 1; VZ (2 ^ 63)]) = false /\
  (* what the parser refuses: "1e", "--1", "1_", is fine: "1_" = 1 *)
  dec_prim a_ops PBigDecimal (mkA [4; 49; 101] [] []) = Err EDeserializationFailure /\
  dec_prim a_ops PBigDecimal (mkA [6; 45; 45; 49] [] []) = Err EDeserializationFailure /\
  dec_prim a_ops PBigDecimal (mkA [4; 49; 95] [] []) = Ok (VNode 0 [VZ 1; VZ 0], mkA [] [] []).
Proof. vm_compute. repeat split. Qed.

(* the encoder is injective on the values of a declaration-free type: different values never share an encoding *)
Theorem C01_injective : forall f t v v' st b st1 st2,
  wf_ty [] t = true -> wf_val f [] t v = true -> wf_val f [] t v' = true ->
  enc f [] t v st = Ok (b, st1) -> enc f [] t v' st = Ok (b, st2) -> v = v'.
Proof. exact enc_injective_builtin. Qed.

Example calendar_range :
  ndt_secs min_year 1 1 0 0 0 = min_ts /\ ndt_secs max_year 12 31 23 59 59 = max_ts.
Proof. vm_compute. split; reflexivity. Qed.

Print Assumptions C01_roundtrip.
Print Assumptions C01_roundtrip_impl.
Print Assumptions C01_chrono_values.
Print Assumptions C01_bigdecimal_text.
Print Assumptions C01_bigdecimal_values.
Print Assumptions C01_injective.
