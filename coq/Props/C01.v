(* Props/C01.v — round-trip fidelity of every built-in codec, at any nesting.
   `t` ranges over ALL type expressions of the embedding without declarations (wf_ty [] t):
   every primitive modelled, Option, Result, tuples of arity 1..8, Vec / slice / LinkedList /
   HashSet / BTreeSet / [T; N] for every N, byte containers, maps, Box/Rc/Arc/&, PhantomData,
   nested to any depth.  `v` ranges over all values the Rust type can hold (wf_val).
   Not yet in the model (stated in MANIFEST): the chrono and BigDecimal codecs. *)
From Coq Require Import NArith ZArith List.
From Desert Require Import Outcome IO Types Codec CodecB CodecWf CodecRt2 PropLemmas.
Import ListNotations.
Open Scope N_scope.

(* decode(encode v ++ s) = v, leaving exactly s and the encoder's final string table; from any
   region stack k and any initial string table st; f is the fuel the encoder needed *)
Theorem C01_roundtrip : forall f t v st b st' s k,
  wf_ty [] t = true -> wf_val f [] t v = true ->
  enc f [] t v st = Ok (b, st') ->
  dec a_ops f [] t (mkA (b ++ s) k st) = Ok (v, mkA s k st').
Proof. exact roundtrip_builtin. Qed.

(* the same through the model of the Rust cursor machinery, at the public entry point *)
Theorem C01_roundtrip_impl : forall f f' E t v st b st' s,
  wf_env E = true -> wf_env_rt E = true -> wf_ty E t = true -> wf_val f E t v = true ->
  enc f E t v st = Ok (b, st') -> (f <= f')%nat -> nlen (b ++ s) < 2 ^ 64 ->
  decodeB f' E t (b ++ s) st = Ok (normv f E t v, nlen s, st').
Proof. exact roundtrip_decodeB. Qed.

Example C01_example_nested :
  let t := TSeq KVec (TOption (TTuple [TPrim PI128; TPrim PString])) in
  let v := VNode 0 [VSome (VNode 0 [VZ (-170141183460469231731687303715884105728); VB [226; 130; 172]]); VNone] in
  wf_ty [] t = true /\ wf_val 6 [] t v = true /\
  match enc 6 [] t v [] with
  | Ok (b, _) => decodeB 6 [] t (b ++ [255]) [] = Ok (v, 1, []) | _ => False end.
Proof. vm_compute. repeat split. Qed.

Example C01_example_one_tuple_and_byte_array :
  (match enc 3 [] (TTuple [TPrim PU8]) (VNode 0 [VN 5]) [] with
   | Ok (b, _) => b = [0; 5] /\ decodeB 3 [] (TTuple [TPrim PU8]) b [] = Ok (VNode 0 [VN 5], 0, [])
   | _ => False end) /\
  (match enc 3 [] (TSeq (KArray 4) (TPrim PU8)) (VB [1; 2; 3; 4]) [] with
   | Ok (b, _) => decodeB 3 [] (TSeq (KArray 4) (TPrim PU8)) b [] = Ok (VB [1; 2; 3; 4], 0, [])
   | _ => False end) /\
  (* f64 NaN with payload, compared by bits *)
  (match enc 2 [] (TPrim PF64) (VN 9221120237041090561) [] with
   | Ok (b, _) => decodeB 2 [] (TPrim PF64) b [] = Ok (VN 9221120237041090561, 0, [])
   | _ => False end).
Proof. vm_compute. repeat split. Qed.

Print Assumptions C01_roundtrip.
Print Assumptions C01_roundtrip_impl.
