(* Props/C16.v — compressed blocks round-trip and are correctly framed (PARTIAL: deflate/inflate
   are oracles; the one law assumed of them is an explicit premise of the round-trip theorems;
   the framing theorems assume nothing). *)
From Coq Require Import NArith ZArith List.
From Desert Require Import Outcome IO IOProofs Compress CompressProofs.
Import ListNotations.
Open Scope N_scope.

Theorem C16_frame : forall (deflate : N -> bytes -> bytes) l d,
  nlen d < 2^32 -> nlen (deflate l d) < 2^32 ->
  write_compressed deflate l d =
  write_var_u32 (nlen d) ++ write_var_u32 (nlen (deflate l d)) ++ deflate l d.
Proof. exact CompressProofs.C16_frame. Qed.

(* the writer itself (since the repair of F18 it converts both lengths with try_into): for EVERY block and level it
   either writes the frame with the true lengths or reports LengthTooLarge - exactly when a length does not fit 32
   bits - so a frame never records a wrong length.  On the pinned tree a block of 2^32 + 5 bytes was framed as 5. *)
Theorem C16_frame_true_lengths : forall (deflate : N -> bytes -> bytes) l d,
  match write_compressed_checked deflate l d with
  | Ok b => nlen d < 2^32 /\ nlen (deflate l d) < 2^32 /\
            b = write_var_u32 (nlen d) ++ write_var_u32 (nlen (deflate l d)) ++ deflate l d /\
            b = write_compressed deflate l d
  | Err e => e = ELengthTooLarge /\ (2^32 <= nlen d \/ 2^32 <= nlen (deflate l d))
  | Panic _ | Fuel => False
  end.
Proof. exact CompressProofs.C16_frame_checked. Qed.

(* every content, every level: read back identical through any source that refines the list
   reader (SliceInput, OwnedInput, DeserializationContext do: C15), whatever follows the frame *)
Theorem C16_roundtrip : forall (deflate : N -> bytes -> bytes) (inflate : bytes -> option bytes),
  (forall l d, inflate (deflate l d) = Some d) ->
  forall {S} (R : reader S) inv view, refines R inv view ->
  forall l d s0 rest, nlen d < 2^32 -> nlen (deflate l d) < 2^32 -> inv s0 ->
  view s0 = write_compressed deflate l d ++ rest ->
  exists s1, read_compressed inflate R s0 = Ok (d, s1, N.min (nlen d) 65536) /\ inv s1 /\ view s1 = rest.
Proof. exact CompressProofs.C16_roundtrip_src. Qed.

(* a truncated frame is an error, by framing alone (no assumption on inflate) *)
Theorem C16_truncated : forall (deflate : N -> bytes -> bytes) (inflate : bytes -> option bytes) l d j,
  nlen d < 2^32 -> nlen (deflate l d) < 2^32 -> j < nlen (write_compressed deflate l d) ->
  is_err (read_compressed inflate list_reader (ntake j (write_compressed deflate l d))) = true.
Proof. exact CompressProofs.C16_truncated. Qed.

(* for EVERY input, damaged or not, on every source: the capacity reserved before decompressing is
   at most 64 KiB and the framing code does not panic *)
Theorem C16_reserve : forall (inflate : bytes -> option bytes) {S} (R : reader S) inv view,
  refines R inv view -> forall s0, inv s0 ->
  match read_compressed inflate R s0 with
  | Ok (_, _, reserve) => reserve <= 65536
  | Err _ => True
  | Panic _ | Fuel => False
  end.
Proof. exact CompressProofs.C16_reserve. Qed.

Print Assumptions C16_frame.
Print Assumptions C16_frame_true_lengths.
Print Assumptions C16_roundtrip.
Print Assumptions C16_truncated.
Print Assumptions C16_reserve.
