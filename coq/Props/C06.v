(* Props/C06.v — the decoder never invents content: whatever the implementation-level decoder
   (layer B: cursor + region stack) accepts is exactly what the strict reference decoder
   (layer A, DESIGN section 4, with the leniencies of 4.5) assigns to those bytes. *)
From Coq Require Import NArith ZArith List.
From Desert Require Import Outcome IO IOProofs Types Codec CodecB CodecWf TotalProofs SimProofs
  TruncProofs CodecRt2 PropLemmas MiscProofs DenoteProofs.
Import ListNotations.
Open Scope N_scope.

Theorem C06_sound : forall f E t bs st v n st1,
  nlen bs < 2 ^ 64 -> decodeB f E t bs st = Ok (v, n, st1) ->
  exists rest, decodeA f E t bs st = Ok (v, rest, st1) /\ n = nlen rest.
Proof. exact decodeB_sound. Qed.

(* and conversely nothing the reference accepts is rejected, errors agree variant for variant *)
Theorem C06_complete : forall f E t bs st v rest st1,
  nlen bs < 2 ^ 64 -> decodeA f E t bs st = Ok (v, rest, st1) ->
  decodeB f E t bs st = Ok (v, nlen rest, st1).
Proof. exact decodeB_complete. Qed.

Theorem C06_errors_agree : forall f E t bs st e,
  nlen bs < 2 ^ 64 -> (decodeB f E t bs st = Err e <-> decodeA f E t bs st = Err e).
Proof. exact decodeB_err_iff. Qed.

(* chunk confinement: in the reference decoder a chunk IS the sub-list of its bytes, so a field
   cannot see anything else; the simulation relation states that the region machine of layer B
   (start/pos/end/delta, push_region, pop_region) denotes exactly those sub-lists at every step *)
Theorem C06_chunk_confinement : forall f E t sb sa, srel sb sa ->
  match dec b_ops f E t sb, dec a_ops f E t sa with
  | Ok (v, sb'), Ok (v', sa') => v = v' /\ srel sb' sa' /\ same_frame sb sb' /\ a_stack sa' = a_stack sa
  | Err e, Err e' => e = e'
  | Panic p, Panic p' => p = p'
  | Fuel, Fuel => True
  | _, _ => False
  end.
Proof. exact dec_sim. Qed.

(* the value is determined by the consumed prefix alone: bytes after it (the next sibling, the
   rest of the enclosing chunk) cannot influence it *)
Theorem C06_suffix_independent : forall f E t c r k st v st',
  wf_env E = true -> wf_ty E t = true ->
  dec a_ops f E t (mkA (c ++ r) k st) = Ok (v, mkA r k st') ->
  forall r2, dec a_ops f E t (mkA (c ++ r2) k st) = Ok (v, mkA r2 k st').
Proof. exact decA_suffix. Qed.

(* a fixed-size array is produced only from exactly that many decoded elements *)
Theorem C06_array_exact : forall n items v,
  collect (KArray n) items = Ok v -> v = VNode 0 items /\ nlen items = n.
Proof. exact collect_array_exact. Qed.

(* non-vacuity: the tampering of DESIGN section 2.3 (outer chunk size understated by one) is
   rejected, the untampered encoding is accepted *)
Example C06_example_tamper :
  let inner := mkD [73] (DRecord (mkR [mkField [97] (TPrim PU8) false None;
                                        mkField [98] (TPrim PU8) false None] [SRemoved [122]])) in
  let outer := mkD [79] (DRecord (mkR [mkField [105] (TNamed 0) false None;
                                        mkField [113] (TPrim PU8) false None] [SRemoved [122]])) in
  let E := [inner; outer] in
  let v := VNode 0 [VNode 0 [VN 1; VN 2]; VN 3] in
  match enc 10 E (TNamed 1) v [] with
  | Ok (b, _) =>
      is_ok (decodeB 20 E (TNamed 1) b []) = true /\
      (* rewrite the outer chunk size (second byte) to one less *)
      match b with
      | ver :: sz :: rest => is_err (decodeB 20 E (TNamed 1) (ver :: (sz - 2) :: rest) []) = true
      | _ => False
      end
  | _ => False
  end.
Proof. vm_compute. split; reflexivity. Qed.

(* WHAT THE ACCEPTED BYTES DENOTE.  Every value the reference decoder returns - from ANY input it
   accepts, lenient forms included - is a well-formed value of the type (integers in range,
   chars not surrogates, strings UTF-8, arrays of exactly N, sets and maps without duplicates,
   valid dates and zones, record and enum shapes) and is its own normal form (transient fields
   hold their declared defaults): the decoder never hands out a value the type could not hold.
   defaults_wf E says that the declared defaults are themselves values of their fields' types -
   in Rust they are typed expressions; the decoder passes them on unchecked. *)
Theorem C06_decoded_values_are_wellformed : forall f E t s v s',
  wf_env E = true -> wf_ty E t = true -> defaults_wf E ->
  bytes_ok (a_cur s) -> strs_ok (a_strs s) ->
  dec a_ops f E t s = Ok (v, s') ->
  (exists g0, forall g, (g0 <= g)%nat -> wf_val g E t v = true /\ normv g E t v = v) /\
  strs_ok (a_strs s') /\ bytes_ok (a_cur s') /\ a_stack s' = a_stack s.
Proof. exact decA_wf_all. Qed.

(* ... and that value is one the writer can write, its canonical encoding denoting the same
   value: for declarations without evolution steps (the inputs may still carry headers,
   unknown-length sequences, over-long var-ints, repeated set elements ...) *)
Theorem C06_denotes : forall f E t c r k st v st',
  wf_env E = true -> wf_env_rt E = true -> wf_ty E t = true ->
  defaults_wf E -> nosteps E ->
  bytes_ok (c ++ r) -> strs_ok st -> nlen (c ++ r) + nlen st + 64 < 2 ^ 31 ->
  dec a_ops f E t (mkA (c ++ r) k st) = Ok (v, mkA r k st') ->
  exists g b st2,
    enc g E t v st = Ok (b, st2) /\
    forall r2 k2, dec a_ops g E t (mkA (b ++ r2) k2 st) = Ok (v, mkA r2 k2 st2).
Proof. exact decA_denotes. Qed.

(* for declarations WITH evolution steps the canonical encoding is not bounded by the input (added
   defaults and headers cost no input bytes), so the size limits of the format cannot be excluded:
   the writer, from ANY string table, either produces bytes that decode to the same value, or
   stops on a size limit - never on the value itself (no ill-typed value, no unsupported
   character, no transient constructor, no fuel) *)
Theorem C06_denotes_evolved : forall f E t s v s',
  wf_env E = true -> wf_env_rt E = true -> wf_ty E t = true -> defaults_enc E ->
  Forall mo_ok_decl E ->
  bytes_ok (a_cur s) -> strs_ok (a_strs s) ->
  dec a_ops f E t s = Ok (v, s') ->
  exists g0, forall g, (g0 <= g)%nat -> forall st,
    match enc g E t v st with
    | Ok (b, st2) => forall r2 k2, dec a_ops g E t (mkA (b ++ r2) k2 st) = Ok (v, mkA r2 k2 st2)
    | Err e => e = ELengthTooLarge
    | Panic p => p = POverflow
    | Fuel => False
    end.
Proof. exact decA_reencode'. Qed.

(* non-vacuity: Vec<Option<bool>> from [129;0;1;1;7;1;0;0] - over-long marker -1, unknown-length
   form, bool byte 7 - denotes [Some true; None], whose canonical encoding is [4;1;1;0] *)
Example C06_example_lenient_input :
  dec a_ops 10 [] (TSeq KVec (TOption (TPrim PBool))) (mkA [129; 0; 1; 1; 7; 1; 0; 0] [] [])
    = Ok (VNode 0 [VSome (VN 1); VNone], mkA [] [] []) /\
  enc 10 [] (TSeq KVec (TOption (TPrim PBool))) (VNode 0 [VSome (VN 1); VNone]) [] = Ok ([4; 1; 1; 0], []).
Proof. vm_compute. split; reflexivity. Qed.

Print Assumptions C06_sound.
Print Assumptions C06_decoded_values_are_wellformed.
Print Assumptions C06_denotes.
Print Assumptions C06_denotes_evolved.
Print Assumptions C06_complete.
Print Assumptions C06_errors_agree.
Print Assumptions C06_chunk_confinement.
Print Assumptions C06_suffix_independent.
Print Assumptions C06_array_exact.
