(* Props/C14.v — transient fields and constructors never reach the wire. *)
From Coq Require Import NArith ZArith List.
From Desert Require Import Outcome IO Types Codec CodecWf CodecRt2 PropLemmas MiscProofs Inject.
Import ListNotations.
Open Scope N_scope.

(* two values that differ only in transient fields encode identically (same bytes, same table,
   same error) - v0 and evolved records alike *)
Theorem C14_no_bytes : forall encf m vs vs' st,
  agree_written (r_fields m) vs vs' -> enc_record encf m vs st = enc_record encf m vs' st.
Proof. exact MiscProofs.C14_no_bytes. Qed.

(* ... and ONLY transient fields are dropped: two well-formed values with the same bytes (from the same string
   table) have the same normal form, i.e. differ at most in transient fields *)
Theorem C14_only_transients_are_dropped : forall f E t v v' st b st1 st2,
  wf_env E = true -> wf_env_rt E = true -> wf_ty E t = true ->
  wf_val f E t v = true -> wf_val f E t v' = true ->
  enc f E t v st = Ok (b, st1) -> enc f E t v' st = Ok (b, st2) ->
  normv f E t v = normv f E t v' /\ st1 = st2.
Proof. exact enc_injective. Qed.

(* decoding sets every transient field to its declared default: normv is what comes back *)
Theorem C14_default : forall f E t v st b st' s k,
  wf_env E = true -> wf_env_rt E = true -> wf_ty E t = true -> wf_val f E t v = true ->
  enc f E t v st = Ok (b, st') ->
  dec a_ops f E t (mkA (b ++ s) k st) = Ok (normv f E t v, mkA s k st').
Proof. exact roundtrip. Qed.

(* a transient constructor is reported with the dedicated error naming type and constructor *)
Theorem C14_ctor : forall encf tyname m tag payload st idx var,
  case_index (cases_of m) tag 0 = Some (idx, var) -> v_transient var = true ->
  enc_enum encf tyname m (VNode tag payload) st = Err (ESerTransientCtor (v_name var) tyname).
Proof. exact MiscProofs.C13_transient_ser. Qed.

(* a record whose field was made optional and later made transient (or removed) remains
   encodable: whenever every FieldMadeOptional step names a written field or a field that some
   step removed / made transient, no encoding fails with UnknownFieldReferenceInEvolutionStep *)
Theorem C14_optional_then_transient : forall f E, Forall mo_ok_decl E ->
  forall t v st, noref (enc f E t v st).
Proof. exact MiscProofs.C14_enc_no_unknown_ref. Qed.

Theorem C14_header_only_length_errors : forall all steps pre ss i e,
  Forall2 (pre_ok all) steps pre ->
  (forall n, In (SMadeOptional n) steps -> assoc_name n (ss_idx ss) <> None \/ in_removed all n = true) ->
  header_entries steps pre ss i = Err e -> e = ELengthTooLarge.
Proof. exact MiscProofs.C14_header_ok. Qed.

Example C14_example :
  (* field c: FieldMadeOptional("c") then FieldMadeTransient("c") - failed on the pinned tree *)
  let d := mkD [82] (DRecord (mkR [mkField [97] (TPrim PU8) false None;
                                    mkField [99] (TOption (TPrim PU8)) true (Some VNone)]
                                   [SMadeOptional [99]; SMadeTransient [99]])) in
  match enc 4 [d] (TNamed 0) (VNode 0 [VN 5; VSome (VN 9)]) [],
        enc 4 [d] (TNamed 0) (VNode 0 [VN 5; VNone]) [] with
  | Ok (b1, _), Ok (b2, _) =>
      b1 = b2 /\ decodeA 5 [d] (TNamed 0) b1 [] = Ok (VNode 0 [VN 5; VNone], [], [[99]])
  | _, _ => False end.
Proof. vm_compute. repeat split. Qed.

Print Assumptions C14_no_bytes.
Print Assumptions C14_only_transients_are_dropped.
Print Assumptions C14_default.
Print Assumptions C14_ctor.
Print Assumptions C14_optional_then_transient.
Print Assumptions C14_header_only_length_errors.
