(* Props/C02.v — round-trip fidelity of derived struct and enum codecs: for every declaration
   environment E the macro accepts (wf_env: records, enums, unit/tuple/struct variants, optional
   and transient fields at any position, evolution steps on structs and on variants, sorted
   constructors, nesting and recursion through TNamed), and every value, decoding with the same
   definition yields the value with transient fields replaced by their declared defaults. *)
From Coq Require Import NArith ZArith List.
From Desert Require Import Outcome IO Types Codec CodecB CodecWf RecordRt RecordChunkedSpec RecordChunked
  CodecRt2 PropLemmas.
Import ListNotations.
Open Scope N_scope.

Theorem C02_roundtrip : forall f E t v st b st' s k,
  wf_env E = true -> wf_env_rt E = true -> wf_ty E t = true -> wf_val f E t v = true ->
  enc f E t v st = Ok (b, st') ->
  dec a_ops f E t (mkA (b ++ s) k st) = Ok (normv f E t v, mkA s k st').
Proof. exact roundtrip. Qed.

(* the two record lemmas the induction rests on: given round-tripping field codecs, the
   field-by-field procedure (fields in declaration order, each routed to the chunk of the step
   that added it, header rendered from the steps) is inverted by the reader *)
Theorem C02_record_v0 : forall E encf decf w nv, RecordRt.fields_ok E encf decf w nv ->
  forall m vs st b st' s k,
  r_steps m = [] -> wf_rmeta E m = true -> wf_fields w (r_fields m) vs = true ->
  enc_record encf m vs st = Ok (b, st') ->
  dec_record a_ops decf m (mkA (b ++ s) k st) = Ok (VNode 0 (norm_fields nv (r_fields m) vs), mkA s k st').
Proof. exact rt_record_v0. Qed.

Theorem C02_record_evolved : rt_record_chunked_stmt.
Proof. exact rt_record_chunked. Qed.

(* the suite's Point (derivation.rs): bytes pinned by the test, here produced by the model *)
Example C02_example_point :
  let point := mkD [80; 111; 105; 110; 116]
    (DRecord (mkR [mkField [120] (TPrim PI32) false None;
                   mkField [121] (TPrim PI32) false None;
                   mkField [95; 99] (TOption (TPrim PString)) true (Some VNone)]
                  [SAdded [120] (VZ 0); SRemoved [122]])) in
  let E := [point] in
  let v := VNode 0 [VZ 1; VZ (-10); VSome (VB [104; 105])] in   (* transient field not None *)
  wf_env E = true /\ wf_env_rt E = true /\ wf_val 5 E (TNamed 0) v = true /\
  enc 5 E (TNamed 0) v [] = Ok ([2; 8; 8; 3; 2; 122; 255; 255; 255; 246; 0; 0; 0; 1], [[122]]) /\
  decodeB 5 E (TNamed 0) [2; 8; 8; 3; 2; 122; 255; 255; 255; 246; 0; 0; 0; 1] []
    = Ok (VNode 0 [VZ 1; VZ (-10); VNone], 0, [[122]]).
Proof. vm_compute. repeat split. Qed.

Print Assumptions C02_roundtrip.
Print Assumptions C02_record_v0.
Print Assumptions C02_record_evolved.
