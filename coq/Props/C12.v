(* Props/C12.v — sequence encodings are container-independent and size-form-independent. *)
From Coq Require Import NArith ZArith List.
From Desert Require Import Outcome IO Types Codec CodecWf RecordRt CodecRt2 PropLemmas MiscProofs PropLemmas2.
Import ListNotations.
Open Scope N_scope.

(* the bytes depend only on the elements: Vec, slice, array, LinkedList, HashSet, BTreeSet of the
   same element type (other than the u8 byte layout) write the same bytes for the same elements *)
Theorem C12_encode_indep : forall f E k1 k2 e v st,
  byte_path k1 e = false -> byte_path k2 e = false ->
  enc f E (TSeq k1 e) v st = enc f E (TSeq k2 e) v st.
Proof. exact MiscProofs.C12_encode_indep. Qed.

(* what container k1 wrote, read as container k2: the same elements in order, collected into k2
   (list; de-duplicated list for sets; exactly-N check for arrays) *)
Theorem C12_cross_container : forall f E k1 k2 e vs st b st' s k,
  wf_env E = true -> wf_env_rt E = true -> wf_ty E e = true ->
  byte_path k1 e = false -> byte_path k2 e = false ->
  forallb (wf_val f E e) vs = true ->
  enc (S f) E (TSeq k1 e) (VNode 0 vs) st = Ok (b, st') ->
  dec a_ops (S f) E (TSeq k2 e) (mkA (b ++ s) k st) =
    (v <- collect k2 (map (normv f E e) vs) ;; Ok (v, mkA s k st')).
Proof. exact seq_cross_container. Qed.

(* the unknown-length form (-1, then (1 item)*, then 0), never emitted by this writer for std
   containers but emitted by serialize_iterator without an exact size hint and by Scala desert *)
Theorem C12_unknown_form : forall f E k2 e vs st b st' s k,
  wf_env E = true -> wf_env_rt E = true -> wf_ty E e = true ->
  byte_path k2 e = false ->
  forallb (wf_val f E e) vs = true ->
  enc_seq_unknown f (enc f E e) vs st = Ok (b, st') ->
  dec a_ops (S (S f)) E (TSeq k2 e) (mkA (b ++ s) k st) =
    (v <- collect k2 (map (normv f E e) vs) ;; Ok (v, mkA s k st')).
Proof. exact seq_unknown_form. Qed.

Theorem C12_forms_agree : forall e d w nv, rt_pair e d w nv ->
  forall fuel vs st b1 b2 st1 st2 s k, forallb w vs = true ->
  enc_seq fuel e vs st = Ok (b1, st1) -> enc_seq_unknown fuel e vs st = Ok (b2, st2) ->
  st1 = st2 /\
  dec_seq_items a_ops (S fuel) d (mkA (b1 ++ s) k st) = dec_seq_items a_ops (S fuel) d (mkA (b2 ++ s) k st).
Proof. exact MiscProofs.C12_forms_agree. Qed.

(* byte containers are interchangeable among themselves *)
Theorem C12_bytes_family : forall f E k1 k2 bs st,
  byte_path k1 (TPrim PU8) = true -> byte_path k2 (TPrim PU8) = true ->
  enc (S f) E (TSeq k1 (TPrim PU8)) (VB bs) st = enc (S f) E (TSeq k2 (TPrim PU8)) (VB bs) st /\
  enc (S f) E (TSeq k1 (TPrim PU8)) (VB bs) st = enc (S f) E (TPrim PBytes) (VB bs) st.
Proof. exact bytes_family_encode. Qed.

Example C12_example :
  (* a LinkedList<u16> with a repeated element, read back as Vec, as HashSet, as [u16; 3], as [u16; 2] *)
  match enc 5 [] (TSeq KLinkedList (TPrim PU16)) (VNode 0 [VN 7; VN 7; VN 9]) [] with
  | Ok (b, _) =>
      decodeA 5 [] (TSeq KVec (TPrim PU16)) b [] = Ok (VNode 0 [VN 7; VN 7; VN 9], [], []) /\
      decodeA 5 [] (TSeq KHashSet (TPrim PU16)) b [] = Ok (VNode 0 [VN 7; VN 9], [], []) /\
      decodeA 5 [] (TSeq (KArray 3) (TPrim PU16)) b [] = Ok (VNode 0 [VN 7; VN 7; VN 9], [], []) /\
      is_err (decodeA 5 [] (TSeq (KArray 2) (TPrim PU16)) b []) = true
  | _ => False end /\
  (* unknown-length form built by hand: -1, 1 item, 1 item, 0 *)
  decodeA 4 [] (TSeq KVec (TPrim PU8)) [1; 0] [] = Ok (VB [0], [], []) /\
  decodeA 4 [] (TSeq KLinkedList (TPrim PU8)) [1; 1; 5; 1; 6; 0] [] = Ok (VNode 0 [VN 5; VN 6], [], []).
Proof. vm_compute. repeat split. Qed.

Print Assumptions C12_encode_indep.
Print Assumptions C12_cross_container.
Print Assumptions C12_unknown_form.
Print Assumptions C12_forms_agree.
Print Assumptions C12_bytes_family.
