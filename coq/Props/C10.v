(* Props/C10.v — reference tracking preserves object-graph shape, sharing and cycles.
   The codec of Graph.v is the canonical client of store_ref_or_object / try_read_ref /
   store_ref; harness/src/graph.rs implements the same codec over Rc<Node> on the real library. *)
From Coq Require Import NArith ZArith List.
From Desert Require Import Outcome IO Graph GraphProofs.
Import ListNotations.
Open Scope N_scope.

Theorem C10_encode_terminates : forall g root, wf_graph g -> root < nlen g ->
  exists b tb, encode_graph (S (length g)) g root = Ok (b, tb).
Proof. exact GraphProofs.C10_encode_terminates. Qed.

Theorem C10_table : forall f g root b tb, wf_graph g -> root < nlen g ->
  encode_graph f g root = Ok (b, tb) ->
  NoDup tb /\ hd_error tb = Some root /\ (forall a, In a tb <-> reachable g root a).
Proof. exact GraphProofs.C10_table. Qed.

Theorem C10_roundtrip : forall f g root b tb s fd, wf_graph g -> root < nlen g ->
  encode_graph f g root = Ok (b, tb) -> (f + max_deg g <= fd)%nat ->
  decode_graph fd (b ++ s) = Ok (0, s, renumber g tb).
Proof. exact GraphProofs.C10_roundtrip_fuel. Qed.

Theorem C10_iso : forall g tb a, NoDup tb -> In a tb ->
  (forall a', In a' tb -> ref_pos tb a = ref_pos tb a' -> a = a') /\
  nth_error (renumber g tb) (N.to_nat (ref_pos tb a)) =
    Some (match get_node g a with Some (l, es) => (l, map (ref_pos tb) es) | None => (0, []) end).
Proof. exact GraphProofs.C10_iso. Qed.

Theorem C10_invalid_ref : forall fuel r inp h, 0 < r -> nlen h < r -> r < 2 ^ 32 ->
  dec_edge (S fuel) (write_var_u32 r ++ inp) h = Err (EInvalidRefId r).
Proof. exact GraphProofs.C10_invalid_ref. Qed.

Theorem C10_known_offer : forall fuel g a tb id, ref_id a tb = Some id ->
  enc_edge (S fuel) g a tb = Ok (write_var_u32 id, tb).
Proof. exact GraphProofs.C10_known_offer. Qed.

(* the suite's 3-cycle, a diamond with a self-loop, two distinct nodes with equal labels *)
Example C10_example :
  let cyc := [(1, [1]); (2, [2]); (3, [0])] in
  let dia := [(7, [1; 2; 0]); (8, [3]); (8, [3]); (9, [])] in
  (match encode_graph 4 cyc 0 with
   | Ok (b, tb) => tb = [0; 1; 2] /\ decode_graph 6 b = Ok (0, [], cyc) | _ => False end) /\
  (match encode_graph 5 dia 0 with
   | Ok (b, tb) => tb = [0; 1; 3; 2] /\
                   decode_graph 9 b = Ok (0, [], [(7, [1; 3; 0]); (8, [2]); (9, []); (8, [2])])
   | _ => False end).
Proof. vm_compute. repeat split. Qed.

Print Assumptions C10_encode_terminates.
Print Assumptions C10_table.
Print Assumptions C10_roundtrip.
Print Assumptions C10_iso.
Print Assumptions C10_invalid_ref.
Print Assumptions C10_known_offer.
