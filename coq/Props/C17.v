(* Props/C17.v — encoding never panics: unsupported values are reported as errors.
   The encoder model contains every way the Rust can leave the Result world while writing
   (u8 / i8 counter overflow, -(i8::MIN), buffer index, unwrap, the 255-step assertion, the i32
   string-id counter); for well-formed declarations none is reachable except the last, which
   needs a stream that already holds 2^31-1 distinct deduplicated strings. *)
From Coq Require Import NArith ZArith List.
From Desert Require Import Outcome IO Types Codec CodecWf MiscProofs.
Import ListNotations.
Open Scope N_scope.

(* for EVERY value, well-typed or not, in range or not: Ok, Err, (model) Fuel - or the string-id
   counter overflow *)
Theorem C17_total : forall f E t v st p,
  wf_env E = true -> wf_ty E t = true -> enc f E t v st = Panic p ->
  p = POverflow /\ exists bs x, enc_dedup bs (st ++ x) = Panic POverflow /\ 2^31 - 1 <= nlen st + nlen x.
Proof. exact MiscProofs.C17_enc_panic_origin. Qed.

Theorem C17_string_id_limit : forall bs st p, enc_dedup bs st = Panic p -> 2^31 - 1 <= nlen st.
Proof. exact MiscProofs.C17_dedup_overflow. Qed.

(* the string table only grows: ids once assigned are never reused or renumbered *)
Theorem C17_table_grows : forall f E t v st b st',
  wf_env E = true -> wf_ty E t = true -> enc f E t v st = Ok (b, st') -> exists x, st' = st ++ x.
Proof. exact MiscProofs.C17_enc_table_grows. Qed.

(* evolution metadata that references unknown fields is the only source of
   UnknownFieldReferenceInEvolutionStep, and legal declarations never produce it *)
Theorem C17_no_unknown_field_ref : forall f E, Forall mo_ok_decl E ->
  forall t v st, noref (enc f E t v st).
Proof. exact MiscProofs.C14_enc_no_unknown_ref. Qed.

(* the documented error variants, on concrete unsupported values *)
Example C17_example_errors :
  enc 2 [] (TPrim PChar) (VN 65536) [] = Err EUnsupportedCharacter /\
  enc 2 [] (TPrim PChar) (VN 1114111) [] = Err EUnsupportedCharacter /\
  enc 2 [] (TPrim PChar) (VN 65535) [] = Ok ([255; 255], []) /\
  (let e := mkD [69] (DEnum (mkE false [mkV [65] true (mkR [] [])])) in
   enc 3 [e] (TNamed 0) (VNode 0 []) [] = Err (ESerTransientCtor [65] [69])) /\
  (let d := mkD [82] (DRecord (mkR [mkField [97] (TPrim PU8) false None] [SMadeOptional [122]])) in
   enc 3 [d] (TNamed 0) (VNode 0 [VN 1]) [] = Err (EUnknownFieldRef [122])).
Proof. vm_compute. repeat split. Qed.

Print Assumptions C17_total.
Print Assumptions C17_string_id_limit.
Print Assumptions C17_table_grows.
Print Assumptions C17_no_unknown_field_ref.
