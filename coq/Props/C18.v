(* Props/C18.v — calls are isolated and deterministic, also across threads (PARTIAL: the model
   is the logic around std::sync::Once and per-call State; real schedules are sampled by the check).
   Isolation.v: one lazily initialised metadata cell per derived type; a call = first-use touches of
   the cells, then a body that reads the declarations THROUGH the cells (an uninitialised cell
   yields no declaration) and starts from an empty string table; threads = lists of such micro-steps;
   exec runs an ARBITRARY schedule. *)
From Coq Require Import NArith ZArith List.
From Desert Require Import Outcome Types Codec Isolation IsolationProofs.
Import ListNotations.

(* the cells only ever hold what their declaration says *)
Theorem C18_inv : forall E progs sched,
  proc_inv E (cf_proc (exec E sched (start E progs))).
Proof. exact IsolationProofs.C18_inv. Qed.

(* whenever a body is about to run, every cell it may read has been initialised *)
Theorem C18_ready_at_run : forall E progs sched i c rest n d,
  nth_error (cf_threads (exec E sched (start E progs))) i = Some (MRun c :: rest) ->
  nth_error E n = Some d ->
  nth_error (cf_proc (exec E sched (start E progs))) n = Some (Ready (decl_steps d)).
Proof. exact IsolationProofs.C18_ready_at_run. Qed.

(* for EVERY interleaving of EVERY finite set of threads, every result produced is the result of
   the same call alone in a fresh process: no dependence on earlier calls, on which types were
   used first, or on what other threads do *)
Theorem C18_isolated : forall E progs sched i r,
  In (i, r) (cf_out (exec E sched (start E progs))) ->
  exists c, In c (nth i progs []) /\ r = pure_result E c.
Proof. exact IsolationProofs.C18_isolated. Qed.

(* each thread's results come out in program order *)
Theorem C18_order : forall E progs sched i,
  exists k, map snd (filter (fun x => Nat.eqb (fst x) i) (cf_out (exec E sched (start E progs))))
            = map (pure_result E) (firstn k (nth i progs [])).
Proof. exact IsolationProofs.C18_order. Qed.

(* a thread that makes one call can only ever get that call's pure result *)
Theorem C18_single : forall E progs sched i c r,
  nth_error progs i = Some [c] ->
  In (i, r) (cf_out (exec E sched (start E progs))) ->
  r = pure_result E c.
Proof. exact IsolationProofs.C18_single. Qed.

(* string and reference numbering restart with each call: the body starts from the empty table *)
Theorem C18_numbering_restarts : forall E f t v,
  pure_result E (CEnc f t v) = REnc (omap fst (enc f E t v [])).
Proof. reflexivity. Qed.

Print Assumptions C18_inv.
Print Assumptions C18_ready_at_run.
Print Assumptions C18_isolated.
Print Assumptions C18_order.
Print Assumptions C18_single.
Print Assumptions C18_numbering_restarts.
