(* Props/C13.v — enum constructors keep their identity; unknown ones are errors. *)
From Coq Require Import NArith ZArith List Permutation Sorted.
From Desert Require Import Outcome IO Types Codec CodecWf MiscProofs.
Import ListNotations.
Open Scope N_scope.

(* layout: 00, var_u32(index), the constructor's own record *)
Theorem C13_layout : forall encf tyname m tag payload st b st',
  enc_enum encf tyname m (VNode tag payload) st = Ok (b, st') ->
  exists idx var b', case_index (cases_of m) tag 0 = Some (idx, var) /\ v_transient var = false /\
    idx < 2^32 /\ enc_record encf (v_rec var) payload st = Ok (b', st') /\ b = 0 :: write_var_u32 idx ++ b'.
Proof. exact MiscProofs.C13_layout. Qed.

(* the index is the position in declaration order ... *)
Theorem C13_index_declaration_order : forall m tag idx var,
  e_sorted m = false -> case_index (cases_of m) tag 0 = Some (idx, var) ->
  idx = tag /\ nth_error (e_variants m) (N.to_nat tag) = Some var.
Proof. exact MiscProofs.C13_index_declaration_order. Qed.

(* ... or in name order (byte-lexicographic, stable) under sorted_constructors *)
Theorem C13_sorted : forall m, e_sorted m = true ->
  Permutation (cases_of m) (number_from 0 (e_variants m)) /\
  StronglySorted (fun a b => bytes_leb (v_name (snd a)) (v_name (snd b)) = true) (cases_of m).
Proof. exact MiscProofs.C13_sorted. Qed.

(* constructors added after the existing ones (in index order) never change the meaning of
   previously written data *)
Theorem C13_extension : forall decf tyname m m' extra s0 r,
  cases_of m' = cases_of m ++ extra ->
  dec_enum a_ops decf tyname m s0 = Ok r -> dec_enum a_ops decf tyname m' s0 = Ok r.
Proof. exact MiscProofs.C13_extension. Qed.

(* an index the reading definition does not know is an error (for ALL indices and suffixes) *)
Theorem C13_out_of_range : forall decf tyname m i s k st,
  nlen (e_variants m) <= i -> i < 2^32 ->
  dec_enum a_ops decf tyname m (mkA (0 :: write_var_u32 i ++ s) k st) = Err (EInvalidConstructorId i tyname).
Proof. exact MiscProofs.C13_out_of_range'. Qed.

(* transient constructors: both directions report the dedicated error *)
Theorem C13_transient_ser : forall encf tyname m tag payload st idx var,
  case_index (cases_of m) tag 0 = Some (idx, var) -> v_transient var = true ->
  enc_enum encf tyname m (VNode tag payload) st = Err (ESerTransientCtor (v_name var) tyname).
Proof. exact MiscProofs.C13_transient_ser. Qed.

Theorem C13_transient_de : forall decf tyname m i d var s k st,
  nth_error (cases_of m) (N.to_nat i) = Some (d, var) -> v_transient var = true -> i < 2^32 ->
  dec_enum a_ops decf tyname m (mkA (0 :: write_var_u32 i ++ s) k st) = Err (EDeTransientCtor (v_name var) tyname).
Proof. exact MiscProofs.C13_transient_de. Qed.

Example C13_example :
  let unitv n := mkV n false (mkR [] []) in
  let e2 := mkD [69] (DEnum (mkE false [unitv [66]; unitv [65]])) in
  let e3 := mkD [69] (DEnum (mkE false [unitv [66]; unitv [65]; unitv [67]])) in
  let e2s := mkD [69] (DEnum (mkE true [unitv [66]; unitv [65]])) in
  (* declaration order vs sorted order *)
  enc 3 [e2] (TNamed 0) (VNode 0 []) [] = Ok ([0; 0; 0], []) /\
  enc 3 [e2s] (TNamed 0) (VNode 0 []) [] = Ok ([0; 1; 0], []) /\
  (* old data under the extended definition; new constructor under the old definition *)
  decodeA 4 [e3] (TNamed 0) [0; 1; 0] [] = Ok (VNode 1 [], [], []) /\
  decodeA 4 [e2] (TNamed 0) [0; 2; 0] [] = Err (EInvalidConstructorId 2 [69]) /\
  decodeA 4 [e2] (TNamed 0) [0; 7] [] = Err (EInvalidConstructorId 7 [69]).
Proof. vm_compute. repeat split. Qed.

Print Assumptions C13_layout.
Print Assumptions C13_index_declaration_order.
Print Assumptions C13_sorted.
Print Assumptions C13_extension.
Print Assumptions C13_out_of_range.
Print Assumptions C13_transient_ser.
Print Assumptions C13_transient_de.
