(* Props/C04.v — wire format conformance.  In this development the reference format of DESIGN
   section 4 (`ref_encode`) IS Codec.enc: a concatenative definition over byte lists, whose
   constants are pinned construct by construct below, independently of its recursion; the
   implementation's bytes are compared with it on every check run (correspondence).  The converse
   direction covers the encodings this writer never emits: Codec(Alt).enc_u writes every sequence
   and map in the unknown-length form. *)
From Coq Require Import NArith ZArith List.
From Desert Require Import Outcome IO Types BigDec Codec CodecB CodecWf MiscProofs CodecAlt C04Lemmas AltProofs
  CodecRt2 PropLemmas.
Import ListNotations.
Open Scope N_scope.

(* ---- layouts, for all values ---- *)
Theorem C04_u32_be : forall n st, enc 1 [] (TPrim PU32) (VN n) st = Ok (be_bytes 4 n, st).
Proof. exact layout_u32. Qed.
Theorem C04_be_is_big_endian : forall n,
  be_bytes 4 n = [(n / 16777216) mod 256; (n / 65536) mod 256; (n / 256) mod 256; n mod 256].
Proof. exact be_bytes_4. Qed.
Theorem C04_i64 : forall z st, enc 1 [] (TPrim PI64) (VZ z) st = Ok (be_bytes 8 (to_unsigned 64 z), st).
Proof. exact layout_i64. Qed.
Theorem C04_f64_bits : forall bits st, enc 1 [] (TPrim PF64) (VN bits) st = Ok (be_bytes 8 bits, st).
Proof. exact layout_f64. Qed.
Theorem C04_bool : forall n st, enc 1 [] (TPrim PBool) (VN n) st = Ok ([if n =? 0 then 0 else 1], st).
Proof. exact layout_bool. Qed.
Theorem C04_char_utf16_unit : forall c st, c < 65536 -> enc 1 [] (TPrim PChar) (VN c) st = Ok (be_bytes 2 c, st).
Proof. exact layout_char. Qed.
Theorem C04_string : forall u st, nlen u < 2 ^ 31 ->
  enc 1 [] (TPrim PString) (VB u) st = Ok (write_var_i32 (Z.of_N (nlen u)) ++ u, st).
Proof. exact layout_string. Qed.
Theorem C04_byte_array : forall E k u st, byte_path k (TPrim PU8) = true -> nlen u < 2 ^ 32 ->
  enc 1 E (TSeq k (TPrim PU8)) (VB u) st = Ok (write_var_u32 (nlen u) ++ u, st).
Proof. exact layout_bytes. Qed.
Theorem C04_duration : forall s n st,
  enc 1 [] (TPrim PDuration) (VNode 0 [VN s; VN n]) st = Ok (be_bytes 8 s ++ be_bytes 4 n, st).
Proof. exact layout_duration. Qed.
(* ---- the documented layouts of the uuid, big-number and time types (features/*.rs) ---- *)
Theorem C04_uuid : forall bs st, enc 1 [] (TPrim PUuid) (VB bs) st = Ok (bs, st).
Proof. reflexivity. Qed.
(* BigInt: the byte-array layout (unsigned length) of the minimal two's-complement big-endian form *)
Theorem C04_bigint : forall z st, nlen (bigint_to_be z) < 2 ^ 32 ->
  enc 1 [] (TPrim PBigInt) (VZ z) st = Ok (write_var_u32 (nlen (bigint_to_be z)) ++ bigint_to_be z, st).
Proof.
  intros z st H. cbn [enc enc_prim]. unfold enc_bytes.
  destruct (nlen (bigint_to_be z) <? 2 ^ 32) eqn:E; [reflexivity|].
  apply N.ltb_ge in E. exfalso. apply (N.lt_irrefl (2 ^ 32)). eapply N.le_lt_trans; eassumption.
Qed.
Example C04_bigint_bytes :
  bigint_to_be 0 = [0] /\ bigint_to_be 127 = [127] /\ bigint_to_be 128 = [0; 128] /\
  bigint_to_be (-128) = [128] /\ bigint_to_be (-129) = [255; 127] /\ bigint_to_be 65535 = [0; 255; 255].
Proof. vm_compute. repeat split. Qed.
(* BigDecimal: the String layout of its decimal text *)
Theorem C04_bigdecimal : forall i sc st, nlen (bd_render i sc) < 2 ^ 31 ->
  enc 1 [] (TPrim PBigDecimal) (VNode 0 [VZ i; VZ sc]) st =
  Ok (write_var_i32 (Z.of_N (nlen (bd_render i sc))) ++ bd_render i sc, st).
Proof. intros i sc st H. cbn [enc enc_prim]. apply (layout_string (bd_render i sc) st H). Qed.
Theorem C04_weekday_month : forall n st,
  enc 1 [] (TPrim PWeekday) (VN n) st = Ok ([n], st) /\ enc 1 [] (TPrim PMonth) (VN n) st = Ok ([n], st).
Proof. split; reflexivity. Qed.
Theorem C04_fixed_offset : forall z st, enc 1 [] (TPrim PFixedOffset) (VZ z) st = Ok (0 :: write_var_i32 z, st).
Proof. reflexivity. Qed.
Theorem C04_tz : forall nm st, nlen nm < 2 ^ 31 ->
  enc 1 [] (TPrim PTz) (VB nm) st = Ok (1 :: write_var_i32 (Z.of_N (nlen nm)) ++ nm, st).
Proof.
  intros nm st H. cbn [enc enc_prim]. unfold enc_string.
  destruct (nlen nm <? 2 ^ 31) eqn:E; [reflexivity|].
  apply N.ltb_ge in E. exfalso. apply (N.lt_irrefl (2 ^ 31)). eapply N.le_lt_trans; eassumption.
Qed.
Theorem C04_datetime_utc : forall secs nanos st,
  enc 1 [] (TPrim PDateTimeUtc) (VNode 0 [VZ secs; VN nanos]) st =
  Ok (be_bytes 8 (to_unsigned 64 secs) ++ be_bytes 4 nanos, st).
Proof. reflexivity. Qed.
Theorem C04_naive_date : forall y m d st,
  enc 1 [] (TPrim PNaiveDate) (VNode 0 [VZ y; VN m; VN d]) st = Ok (write_var_u32 (to_unsigned 32 y) ++ [m; d], st).
Proof. reflexivity. Qed.
Theorem C04_naive_time : forall h mi sec ns st,
  enc 1 [] (TPrim PNaiveTime) (VNode 0 [VN h; VN mi; VN sec; VN ns]) st = Ok ([h; mi; sec] ++ write_var_u32 ns, st).
Proof. reflexivity. Qed.
Theorem C04_naive_date_time : forall y m d h mi sec ns st,
  enc 1 [] (TPrim PNaiveDateTime) (VNode 0 [VNode 0 [VZ y; VN m; VN d]; VNode 0 [VN h; VN mi; VN sec; VN ns]]) st =
  Ok ((write_var_u32 (to_unsigned 32 y) ++ [m; d]) ++ [h; mi; sec] ++ write_var_u32 ns, st).
Proof. reflexivity. Qed.
(* DateTime<FixedOffset>: the LOCAL date and time, then the offset; DateTime<Tz>: the UTC date and time, then the zone *)
Theorem C04_datetime_fixed : forall dt b off st, enc_ndt dt = Some b ->
  enc 1 [] (TPrim PDateTimeFixed) (VNode 0 [dt; VZ off]) st = Ok (b ++ 0 :: write_var_i32 off, st).
Proof. intros dt b off st H. cbn [enc enc_prim]. rewrite H. reflexivity. Qed.
(* a map is the sequence of its (key, value) 2-tuples *)
Theorem C04_map : forall f E k kt vt vs st,
  enc (S f) E (TMap k kt vt) (VNode 0 vs) st = enc (S f) E (TSeq KVec (TTuple [kt; vt])) (VNode 0 vs) st.
Proof. reflexivity. Qed.
(* Box, Rc, Arc, & are transparent; PhantomData and () write nothing *)
Theorem C04_wrappers : forall f E w t v st, enc (S f) E (TWrap w t) v st = enc f E t v st.
Proof. reflexivity. Qed.
Theorem C04_empty : forall f E st,
  enc (S f) E TPhantom (VNode 0 []) st = Ok ([], st) /\ enc (S f) E (TPrim PUnit) (VNode 0 []) st = Ok ([], st).
Proof. split; reflexivity. Qed.

Theorem C04_option_none : forall f E t st, enc (S f) E (TOption t) VNone st = Ok ([0], st).
Proof. exact layout_none. Qed.
Theorem C04_option_some : forall f E t x st,
  enc (S f) E (TOption t) (VSome x) st = ('(b, st) <- enc f E t x st ;; Ok (1 :: b, st)).
Proof. exact layout_some. Qed.
Theorem C04_result_ok : forall f E r e x st,
  enc (S f) E (TResult r e) (VNode 1 [x]) st = ('(b, st) <- enc f E r x st ;; Ok (1 :: b, st)).
Proof. exact layout_result_ok. Qed.
Theorem C04_result_err : forall f E r e x st,
  enc (S f) E (TResult r e) (VNode 0 [x]) st = ('(b, st) <- enc f E e x st ;; Ok (0 :: b, st)).
Proof. exact layout_result_err. Qed.
Theorem C04_sequence : forall f E k e vs st, byte_path k e = false -> nlen vs < 2 ^ 31 ->
  enc (S f) E (TSeq k e) (VNode 0 vs) st =
    ('(b, st) <- enc_items f (enc f E e) vs st ;; Ok (write_var_i32 (Z.of_N (nlen vs)) ++ b, st)).
Proof. exact layout_seq. Qed.
Theorem C04_tuple : forall f E ts vs st,
  enc (S f) E (TTuple ts) (VNode 0 vs) st =
    ('(b, st) <- enc_fields_v0 (enc f E) (tuple_fields ts 0) vs st ;; Ok (0 :: b, st)).
Proof. exact layout_tuple. Qed.
Theorem C04_record_v0 : forall encf m vs st, r_steps m = [] ->
  enc_record encf m vs st = ('(b, st) <- enc_fields_v0 encf (r_fields m) vs st ;; Ok (0 :: b, st)).
Proof. exact layout_record_v0. Qed.
Theorem C04_record_evolved : forall encf m vs st, r_steps m <> [] ->
  enc_record encf m vs st =
    (let steps := r_steps m in
     let v := version_of steps in
     if 255 <=? v then Panic PAssert else
     '(pre, st) <- prerender_names steps steps st ;;
     let ss0 := mkSer (repeat [] (Datatypes.S (length steps))) [] [] in
     '(ss, st) <- enc_fields_chunked encf steps (r_fields m) vs ss0 st ;;
     e0 <- chunk_size_entry (ss_chunks ss) 0 ;;
     hdr <- header_entries steps pre ss 1 ;;
     Ok (v :: e0 ++ hdr ++ concat (ss_chunks ss), st)).
Proof. exact layout_record_evolved. Qed.
Theorem C04_header_size_entry : forall chunks i c, nth_error chunks i = Some c -> nlen c < 2 ^ 31 ->
  chunk_size_entry chunks i = Ok (write_var_i32 (Z.of_N (nlen c))).
Proof. exact layout_header_size. Qed.
Theorem C04_position_byte_chunk0 : forall pos, pos < 128 ->
  field_position_byte 0 pos = Ok (to_unsigned 8 (- Z.of_N pos)).
Proof. exact layout_position_chunk0. Qed.
Theorem C04_position_byte_chunk : forall c pos, c <> 0 -> field_position_byte c pos = Ok c.
Proof. exact layout_position_chunk. Qed.
Theorem C04_enum : forall encf tyname m tag payload st b st',
  enc_enum encf tyname m (VNode tag payload) st = Ok (b, st') ->
  exists idx var b', case_index (cases_of m) tag 0 = Some (idx, var) /\ v_transient var = false /\
    idx < 2^32 /\ enc_record encf (v_rec var) payload st = Ok (b', st') /\ b = 0 :: write_var_u32 idx ++ b'.
Proof. exact MiscProofs.C13_layout. Qed.

(* ---- converse: every well-formed encoding decodes to the value it denotes ---- *)
(* the form this writer emits *)
Theorem C04_converse_known : forall f E t v st b st' s k,
  wf_env E = true -> wf_env_rt E = true -> wf_ty E t = true -> wf_val f E t v = true ->
  enc f E t v st = Ok (b, st') ->
  dec a_ops f E t (mkA (b ++ s) k st) = Ok (normv f E t v, mkA s k st').
Proof. exact roundtrip. Qed.
(* the form it never emits for std containers: every sequence and map in the unknown-length form
   (-1, then (1 item)*, then 0), at every nesting level, inside records and enums too *)
Theorem C04_converse_unknown : forall f f' E t v st b st' s k,
  wf_env E = true -> wf_env_rt E = true -> wf_ty E t = true -> wf_val f E t v = true ->
  enc_u f E t v st = Ok (b, st') -> (f < f')%nat ->
  dec a_ops f' E t (mkA (b ++ s) k st) = Ok (normv f E t v, mkA s k st').
Proof. exact roundtrip_U_fuel. Qed.
(* ... and mixed choices level by level: C12_unknown_form / C12_forms_agree *)

Example C04_example_point_vector :
  (* the 14 bytes pinned by desert_macro/tests/derivation.rs *)
  let point := mkD [80; 111; 105; 110; 116]
    (DRecord (mkR [mkField [120] (TPrim PI32) false None; mkField [121] (TPrim PI32) false None;
                   mkField [95; 99] (TOption (TPrim PString)) true (Some VNone)]
                  [SAdded [120] (VZ 0); SRemoved [122]])) in
  enc 5 [point] (TNamed 0) (VNode 0 [VZ 1; VZ (-10); VNone]) [] =
    Ok ([2; 8; 8; 3; 2; 122; 255; 255; 255; 246; 0; 0; 0; 1], [[122]]).
Proof. vm_compute. reflexivity. Qed.

Print Assumptions C04_uuid.
Print Assumptions C04_weekday_month.
Print Assumptions C04_fixed_offset.
Print Assumptions C04_datetime_utc.
Print Assumptions C04_naive_date.
Print Assumptions C04_naive_time.
Print Assumptions C04_naive_date_time.
Print Assumptions C04_wrappers.
Print Assumptions C04_empty.
Print Assumptions C04_bigint_bytes.
Print Assumptions C04_bigint.
Print Assumptions C04_bigdecimal.
Print Assumptions C04_tz.
Print Assumptions C04_datetime_fixed.
Print Assumptions C04_map.
Print Assumptions C04_u32_be.
Print Assumptions C04_be_is_big_endian.
Print Assumptions C04_i64.
Print Assumptions C04_f64_bits.
Print Assumptions C04_bool.
Print Assumptions C04_char_utf16_unit.
Print Assumptions C04_string.
Print Assumptions C04_byte_array.
Print Assumptions C04_duration.
Print Assumptions C04_option_none.
Print Assumptions C04_option_some.
Print Assumptions C04_result_ok.
Print Assumptions C04_result_err.
Print Assumptions C04_sequence.
Print Assumptions C04_tuple.
Print Assumptions C04_record_v0.
Print Assumptions C04_record_evolved.
Print Assumptions C04_header_size_entry.
Print Assumptions C04_position_byte_chunk0.
Print Assumptions C04_position_byte_chunk.
Print Assumptions C04_enum.
Print Assumptions C04_converse_known.
Print Assumptions C04_converse_unknown.
