(* Props/C19.v — memory safety of the safe public API (PARTIAL).
   What a theorem can carry here: (1) every value produced by the decoding paths that the Rust
   implements with unsafe code is built only from data taken from the input - arrays from exactly
   N decoded elements, byte vectors from exactly the announced bytes (the model has no
   uninitialised or foreign memory to return; the correspondence run checks the implementation
   against it on every count/length mismatch); (2) the liveness discipline of the object table
   (Mem.v): it yields only live objects UNLESS an object is dropped while registered - and the
   safe API allows exactly that (known finding F15: store_ref erases the borrow). *)
From Coq Require Import NArith ZArith List.
From Desert Require Import Outcome IO Types Codec CodecWf TruncProofs PropLemmas Mem MemProofs.
Import ListNotations.
Open Scope N_scope.

Theorem C19_array_init : forall n items v,
  collect (KArray n) items = Ok v -> v = VNode 0 items /\ nlen items = n.
Proof. exact collect_array_exact. Qed.

(* anything a decoder returns was determined by the prefix of the input it consumed *)
Theorem C19_from_input_only : forall f E t c r k st v st',
  wf_env E = true -> wf_ty E t = true ->
  dec a_ops f E t (mkA (c ++ r) k st) = Ok (v, mkA r k st') ->
  forall r2, dec a_ops f E t (mkA (c ++ r2) k st) = Ok (v, mkA r2 k st').
Proof. exact decA_suffix. Qed.

Theorem C19_refs : forall p,
  client_ok p = true -> known_class_dangling p = false -> hands_out_dead p = false.
Proof. exact refs_sound_unless_dropped_while_registered. Qed.

(* the property as stated is FALSE of the faithful model: a client that only performs operations
   safe Rust allows (alloc, store_ref, drop, try_read_ref) is handed a dead object *)
Theorem C19_refs_refuted :
  exists p, client_ok p = true /\ known_class_dangling p = true /\ hands_out_dead p = true.
Proof. exact refs_refuted. Qed.

Print Assumptions C19_array_init.
Print Assumptions C19_from_input_only.
Print Assumptions C19_refs.
Print Assumptions C19_refs_refuted.
