(* Props/C11.v — property C11: variable-length integers are a total bijection with minimal
   length.  Statements only; each is closed by `exact <lemma>`.  No enumeration: all
   quantifiers range over N / Z. *)
From Coq Require Import NArith ZArith List.
From Desert Require Import Outcome IO IOProofs VarintProofs.
Import ListNotations.
Open Scope N_scope.

(* read(write(x) ++ s) = (x, s) through any source that refines the byte list ... *)
Theorem C11_u32_roundtrip :
  forall {S} (R : reader S) inv view, refines R inv view ->
  forall v s rest, v < 2^32 -> inv s -> view s = write_var_u32 v ++ rest ->
  exists s', read_var_u32 R s = Ok (v, s') /\ inv s' /\ view s' = rest.
Proof. exact @var_u32_roundtrip_src. Qed.

Theorem C11_i32_roundtrip :
  forall {S} (R : reader S) inv view, refines R inv view ->
  forall z s rest, (-2^31 <= z < 2^31)%Z -> inv s -> view s = write_var_i32 z ++ rest ->
  exists s', read_var_i32 R s = Ok (z, s') /\ inv s' /\ view s' = rest.
Proof. exact @var_i32_roundtrip_src. Qed.

(* ... and SliceInput, OwnedInput and DeserializationContext (with any region stack) do *)
Theorem C11_slice_input_refines : refines slice_reader si_inv si_view.
Proof. exact slice_refines. Qed.
Theorem C11_owned_input_refines : refines owned_reader oi_inv oi_view.
Proof. exact owned_refines. Qed.
Theorem C11_context_refines : refines ctx_reader rc_inv rc_view.
Proof. exact ctx_refines. Qed.

(* the reference formula *)
Theorem C11_u32_is_leb128 : forall v, v < 2^32 -> write_var_u32 v = leb128_u32 v.
Proof. exact write_var_u32_is_leb128. Qed.

(* minimal length: 1..5 bytes, exactly ceil(bits/7) *)
Theorem C11_length : forall v, nlen (write_var_u32 v) = var_len v.
Proof. exact write_var_u32_length. Qed.

Theorem C11_length_minimal : forall v, v < 2^32 ->
  1 <= var_len v <= 5 /\ v < 2 ^ (7 * var_len v) /\
  (1 < var_len v -> 2 ^ (7 * (var_len v - 1)) <= v).
Proof. exact var_len_minimal. Qed.

(* continuation bit on every byte but the last; all bytes are bytes *)
Theorem C11_continuation : forall v, v < 2^32 -> continuation_ok (write_var_u32 v) = true.
Proof. exact write_var_u32_continuation. Qed.

(* zig-zag: the Rust expression equals the closed form, so small magnitudes stay short *)
Theorem C11_zigzag : forall z, (-2^31 <= z < 2^31)%Z ->
  zigzag32 z = Z.to_N (if (0 <=? z)%Z then 2 * z else -2 * z - 1)%Z.
Proof. exact zigzag32_closed. Qed.

Theorem C11_i32_length : forall z, (-2^31 <= z < 2^31)%Z ->
  nlen (write_var_i32 z) = var_len (Z.to_N (if (0 <=? z)%Z then 2 * z else -2 * z - 1)%Z).
Proof. exact write_var_i32_length. Qed.

(* bijection: unzigzag is the two-sided inverse on the whole of u32 / i32 *)
Theorem C11_zigzag_bijection : forall r, r < 2^32 ->
  zigzag32 (unzigzag32 r) = r /\ (-2^31 <= unzigzag32 r < 2^31)%Z.
Proof. exact zigzag_unzigzag. Qed.

(* the three sinks produce the same bytes, the size calculator their number *)
Theorem C11_sinks : forall os,
  run_oops vec_sink os [] = flat_map oop_bytes os /\
  run_oops bytesmut_sink os [] = flat_map oop_bytes os /\
  run_oops size_sink os 0 = nlen (flat_map oop_bytes os).
Proof. exact sinks_agree. Qed.

(* non-vacuity: boundary values on a concrete context source with a pushed region *)
Example C11_example_boundaries :
  map write_var_u32 [0; 127; 128; 16383; 16384; 2097151; 2097152; 268435455; 268435456; 4294967295]
  = [[0]; [127]; [128; 1]; [255; 127]; [128; 128; 1]; [255; 255; 127]; [128; 128; 128; 1];
     [255; 255; 255; 127]; [128; 128; 128; 128; 1]; [255; 255; 255; 255; 15]]
  /\ map write_var_i32 [0; -1; 1; -64; 64; -2147483648; 2147483647]%Z
  = [[0]; [1]; [2]; [127]; [128; 1]; [255; 255; 255; 255; 15]; [254; 255; 255; 255; 15]].
Proof. vm_compute. split; reflexivity. Qed.

Example C11_example_context_source :
  let c := {| rc_input := [9; 9; 128; 128; 1; 7; 9];
              rc_cur := {| rg_start := 2; rg_pos := 0; rg_end := 6; rg_delta := 0 |};
              rc_stack := [] |} in
  rc_inv c /\ rc_view c = write_var_u32 16384 ++ [7] /\
  omap fst (read_var_u32 ctx_reader c) = Ok 16384.
Proof. vm_compute. repeat split; intros; discriminate. Qed.

Print Assumptions C11_u32_roundtrip.
Print Assumptions C11_i32_roundtrip.
Print Assumptions C11_slice_input_refines.
Print Assumptions C11_owned_input_refines.
Print Assumptions C11_context_refines.
Print Assumptions C11_u32_is_leb128.
Print Assumptions C11_length.
Print Assumptions C11_length_minimal.
Print Assumptions C11_continuation.
Print Assumptions C11_zigzag.
Print Assumptions C11_i32_length.
Print Assumptions C11_zigzag_bijection.
Print Assumptions C11_sinks.
