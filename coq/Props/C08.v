(* Props/C08.v — truncated data is always detected. *)
From Coq Require Import NArith ZArith List.
From Desert Require Import Outcome IO Types Codec CodecB CodecWf TruncProofs CodecRt2 PropLemmas.
From Desert Require Import History EvolutionSpec EvolutionTop C07Lemmas.
Import ListNotations.
Open Scope N_scope.

(* every strict prefix of every encoding is an error (not Ok, not Panic, not Fuel), from any
   region stack, read with the writing definition *)
Theorem C08_prefix : forall f E t v st b st' j k,
  wf_env E = true -> wf_env_rt E = true -> wf_ty E t = true -> wf_val f E t v = true ->
  enc f E t v st = Ok (b, st') -> j < nlen b ->
  is_err (dec a_ops f E t (mkA (ntake j b) k st)) = true.
Proof. exact truncated_encoding_rejected. Qed.

Theorem C08_prefix_impl : forall f E t v st b st' j,
  wf_env E = true -> wf_env_rt E = true -> wf_ty E t = true -> wf_val f E t v = true ->
  enc f E t v st = Ok (b, st') -> j < nlen b -> nlen b < 2 ^ 64 ->
  is_err (decodeB f E t (ntake j b) st) = true.
Proof. exact truncated_encoding_rejected_B. Qed.

(* the general fact it rests on, for ANY accepted input of ANY type (also data written by another
   version of a declaration, hostile input, ...): cutting inside what the decoder consumed
   turns the result into an error *)
Theorem C08_any_accepted_input : forall f E t c r k st v st',
  wf_env E = true -> wf_ty E t = true ->
  dec a_ops f E t (mkA (c ++ r) k st) = Ok (v, mkA r k st') ->
  forall j, j < nlen c -> is_err (dec a_ops f E t (mkA (ntake j c) k st)) = true.
Proof. exact decA_truncated. Qed.

(* under OTHER definitions: every strict prefix of a record written by version kw of a legal history
   is rejected by the reader of version kr - older (does not know the last chunks) or newer (has
   dropped fields) - whenever the pair is framed (stored version >= 1, or version 0 whose reader
   knows every written field); at the real codecs, for field types that leave the string table alone *)
Theorem C08_cross_version : forall f H kw kr nm vw st b st' k f' vs,
  legal H = true -> history_neutral H = true ->
  (kw <= length (h_steps H))%nat -> (kr <= length (h_steps H))%nat ->
  let Ew := [mkD nm (DRecord (decl_at H kw))] in
  let Er := [mkD nm (DRecord (decl_at H kr))] in
  wf_val (S f) Ew (TNamed 0) (VNode 0 vw) = true ->
  enc (S f) Ew (TNamed 0) (VNode 0 vw) st = Ok (b, st') ->
  (S f + opt_depth (decl_at H kr) <= f')%nat ->
  framed H kw kr = true -> expected H kw kr vw = Ok vs ->
  forall j, j < nlen b ->
    is_err (dec a_ops f' Er (TNamed 0) (mkA (ntake j b) k st)) = true.
Proof. exact c08_cross_version. Qed.

Print Assumptions C08_prefix.
Print Assumptions C08_cross_version.
Print Assumptions C08_prefix_impl.
Print Assumptions C08_any_accepted_input.
