(* Compress.v — C16: write_compressed / read_compressed (definitions only).
   src: desert_core/src/binary_output.rs:95-105, desert_core/src/binary_input.rs:102-112.
   Deflate itself is an oracle: a Section variable with its one assumed law. *)
From Coq Require Import NArith ZArith List Bool.
From Desert Require Import Outcome IO.
Import ListNotations.
Open Scope N_scope.

Section Compress.
  (* flate2 at a given level; raw deflate, no checksum *)
  Variable deflate : N -> bytes -> bytes.
  (* None: the decoder reports an error (DecompressionFailure) *)
  Variable inflate : bytes -> option bytes.

  (* `len as u32` *)
  Definition as_u32 (n : N) : N := n mod 2 ^ 32.

  Definition write_compressed (level : N) (d : bytes) : bytes :=
    let z := deflate level d in
    write_var_u32 (as_u32 (nlen d)) ++ write_var_u32 (as_u32 (nlen z)) ++ z.

  (* binary_output.rs write_compressed since the repair of F18: both lengths are converted with try_into() before
     anything is written, so a block or a deflate stream of 2^32 bytes or more is LengthTooLarge and the frame
     always records the true lengths (the pinned tree wrote `len as u32`, the function above) *)
  Definition write_compressed_checked (level : N) (d : bytes) : outcome bytes :=
    if nlen d <? 2 ^ 32 then
      let z := deflate level d in
      if nlen z <? 2 ^ 32 then Ok (write_var_u32 (nlen d) ++ write_var_u32 (nlen z) ++ z)
      else Err ELengthTooLarge
    else Err ELengthTooLarge.

  (* the result, the new source state, and the capacity reserved before decompressing *)
  Definition read_compressed {S} (R : reader S) (s : S) : outcome (bytes * S * N) :=
    '(ulen, s) <- read_var_u32 R s ;;
    '(clen, s) <- read_var_u32 R s ;;
    '(z, s) <- r_bytes R clen s ;;
    let reserve := N.min ulen 65536 in
    match inflate z with
    | Some d => Ok (d, s, reserve)
    | None => Err EDecompressionFailure
    end.
End Compress.
