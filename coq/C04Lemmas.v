(* C04Lemmas.v — the layouts of the desert wire format (DESIGN section 4), pinned one by one,
   independently of the recursive definition of the encoder: each is what `enc` produces for that
   construct, for ALL values. *)
From Coq Require Import NArith ZArith List Lia Bool.
From Coq Require Import ZifyBool ZifyN ZifyNat.
From Desert Require Import Bits Outcome IO IOProofs VarintProofs Types Codec CodecWf.
Import ListNotations.
Open Scope N_scope.

(* big-endian: the first byte is the most significant *)
Lemma be_bytes_4 n : be_bytes 4 n = [(n / 16777216) mod 256; (n / 65536) mod 256; (n / 256) mod 256; n mod 256].
Proof. cbn [be_bytes N.of_nat]. rewrite N.div_1_r. reflexivity. Qed.

Lemma be_value k n : of_be (be_bytes k n) = n mod 256 ^ N.of_nat k.
Proof. apply of_be_be_bytes. Qed.

Lemma layout_u32 n st : enc 1 [] (TPrim PU32) (VN n) st = Ok (be_bytes 4 n, st).
Proof. reflexivity. Qed.
Lemma layout_i64 z st : enc 1 [] (TPrim PI64) (VZ z) st = Ok (be_bytes 8 (to_unsigned 64 z), st).
Proof. reflexivity. Qed.
Lemma layout_f64 bits st : enc 1 [] (TPrim PF64) (VN bits) st = Ok (be_bytes 8 bits, st).
Proof. reflexivity. Qed.
Lemma layout_bool n st : enc 1 [] (TPrim PBool) (VN n) st = Ok ([if n =? 0 then 0 else 1], st).
Proof. reflexivity. Qed.
Lemma layout_unit st : enc 1 [] (TPrim PUnit) VUnit st = Ok ([], st).
Proof. reflexivity. Qed.
Lemma layout_char c st : c < 65536 -> enc 1 [] (TPrim PChar) (VN c) st = Ok (be_bytes 2 c, st).
Proof. intros H. cbn [enc enc_prim]. assert (c <? 65536 = true) as -> by lia. reflexivity. Qed.

(* String: zig-zag var-int byte length, then the UTF-8 bytes *)
Lemma layout_string u st : nlen u < 2 ^ 31 ->
  enc 1 [] (TPrim PString) (VB u) st = Ok (write_var_i32 (Z.of_N (nlen u)) ++ u, st).
Proof. intros H. cbn [enc enc_prim]. unfold enc_string. assert (nlen u <? 2 ^ 31 = true) as -> by lia. reflexivity. Qed.

(* byte arrays (Vec<u8>, [u8], [u8; N], Bytes): UNSIGNED var-int length, then the bytes *)
Lemma layout_bytes E k u st : byte_path k (TPrim PU8) = true -> nlen u < 2 ^ 32 ->
  enc 1 E (TSeq k (TPrim PU8)) (VB u) st = Ok (write_var_u32 (nlen u) ++ u, st).
Proof.
  intros Hb H. cbn [enc]. rewrite Hb. unfold enc_bytes. assert (nlen u <? 2 ^ 32 = true) as -> by lia. reflexivity.
Qed.

Lemma layout_duration s n st :
  enc 1 [] (TPrim PDuration) (VNode 0 [VN s; VN n]) st = Ok (be_bytes 8 s ++ be_bytes 4 n, st).
Proof. reflexivity. Qed.

(* Option: 00 / 01 ++ T ; Result: 01 ++ R for Ok, 00 ++ E for Err *)
Lemma layout_none f E t st : enc (S f) E (TOption t) VNone st = Ok ([0], st).
Proof. reflexivity. Qed.
Lemma layout_some f E t x st :
  enc (S f) E (TOption t) (VSome x) st = ('(b, st) <- enc f E t x st ;; Ok (1 :: b, st)).
Proof. reflexivity. Qed.
Lemma layout_result_ok f E r e x st :
  enc (S f) E (TResult r e) (VNode 1 [x]) st = ('(b, st) <- enc f E r x st ;; Ok (1 :: b, st)).
Proof. reflexivity. Qed.
Lemma layout_result_err f E r e x st :
  enc (S f) E (TResult r e) (VNode 0 [x]) st = ('(b, st) <- enc f E e x st ;; Ok (0 :: b, st)).
Proof. reflexivity. Qed.

(* sequences: zig-zag var-int count, then the items *)
Lemma layout_seq f E k e vs st : byte_path k e = false -> nlen vs < 2 ^ 31 ->
  enc (S f) E (TSeq k e) (VNode 0 vs) st =
    ('(b, st) <- enc_items f (enc f E e) vs st ;; Ok (write_var_i32 (Z.of_N (nlen vs)) ++ b, st)).
Proof.
  intros Hb H. cbn [enc]. rewrite Hb. unfold enc_seq. assert (nlen vs <? 2 ^ 31 = true) as -> by lia. reflexivity.
Qed.

(* tuples and version-0 records: a 0 version byte, then the (non-transient) fields in order *)
Lemma layout_tuple f E ts vs st :
  enc (S f) E (TTuple ts) (VNode 0 vs) st =
    ('(b, st) <- enc_fields_v0 (enc f E) (tuple_fields ts 0) vs st ;; Ok (0 :: b, st)).
Proof. reflexivity. Qed.

Lemma layout_record_v0 encf m vs st : r_steps m = [] ->
  enc_record encf m vs st = ('(b, st) <- enc_fields_v0 encf (r_fields m) vs st ;; Ok (0 :: b, st)).
Proof. intros H. unfold enc_record. rewrite H. reflexivity. Qed.

(* evolved records: version byte, header (size of chunk 0, then one entry per step), chunks in order *)
Lemma layout_record_evolved encf m vs st : r_steps m <> [] ->
  enc_record encf m vs st =
    (let steps := r_steps m in
     let v := version_of steps in
     if 255 <=? v then Panic PAssert else
     '(pre, st) <- prerender_names steps steps st ;;
     let ss0 := mkSer (repeat [] (Datatypes.S (length steps))) [] [] in
     '(ss, st) <- enc_fields_chunked encf steps (r_fields m) vs ss0 st ;;
     e0 <- chunk_size_entry (ss_chunks ss) 0 ;;
     hdr <- header_entries steps pre ss 1 ;;
     Ok (v :: e0 ++ hdr ++ concat (ss_chunks ss), st)).
Proof. intros H. unfold enc_record. destruct (r_steps m); [contradiction | reflexivity]. Qed.

(* header entries: chunk size | -1 + position byte | -2 + deduplicated name *)
Lemma layout_header_size chunks i c : nth_error chunks i = Some c -> nlen c < 2 ^ 31 ->
  chunk_size_entry chunks i = Ok (write_var_i32 (Z.of_N (nlen c))).
Proof.
  intros H L. unfold chunk_size_entry, bytes in *. rewrite H.
  assert (nlen c <? 2 ^ 31 = true) as -> by lia. reflexivity.
Qed.

Lemma layout_position_chunk0 pos : pos < 128 ->
  field_position_byte 0 pos = Ok (to_unsigned 8 (- Z.of_N pos)).
Proof.
  intros H. unfold field_position_byte. change (0 =? 0) with true. cbv iota.
  assert (E: to_signed 8 pos = Z.of_N pos).
  { unfold to_signed. change (2 ^ (8 - 1)) with 128. assert (pos <? 128 = true) as -> by lia. reflexivity. }
  rewrite E. assert ((Z.of_N pos =? -128)%Z = false) as -> by lia. reflexivity.
Qed.
Lemma layout_position_chunk c pos : c <> 0 -> field_position_byte c pos = Ok c.
Proof. intros H. unfold field_position_byte. assert (c =? 0 = false) as -> by lia. reflexivity. Qed.

(* the constants of the wire format, as bytes *)
Example format_constants :
  write_var_i32 0 = [0] /\ write_var_i32 (-1) = [1] /\ write_var_i32 (-2) = [3] /\
  write_var_i32 1 = [2] /\ write_var_i32 64 = [128; 1] /\ write_var_u32 300 = [172; 2] /\
  be_bytes 2 258 = [1; 2] /\ to_unsigned 8 (-1) = 255.
Proof. vm_compute. repeat split. Qed.
