(* CodecRt2.v — the fuel induction: round trip of every codec on layer A. *)
From Coq Require Import NArith ZArith List Lia Bool.
From Coq Require Import ZifyBool ZifyN ZifyNat.
From Desert Require Import Bits Outcome IO IOProofs VarintProofs Types Codec CodecWf CodecLemmas
  CodecRt RecordRt RecordChunkedSpec TotalProofs MonoProofs.
Import ListNotations.
Open Scope N_scope.

Ltac Zify.zify_post_hook ::= Z.div_mod_to_equations.

(* ---------- sets and maps: collect() of distinct elements is the identity ---------- *)
Lemma dedup_vals_nodup : forall l seen,
  vals_nodup l = true ->
  (forall x, In x l -> existsb (val_eqb x) seen = false) ->
  dedup_vals seen l = l.
Proof.
  induction l as [|x l IH]; intros seen Hnd Hs; [reflexivity|].
  cbn [vals_nodup] in Hnd. apply andb_true_iff in Hnd as [Hx Hnd]. apply negb_true_iff in Hx.
  cbn [dedup_vals]. rewrite (Hs x (or_introl eq_refl)). f_equal.
  apply IH; [exact Hnd|].
  intros y Hy. cbn [existsb]. rewrite (Hs y (or_intror Hy)), orb_false_r.
  destruct (val_eqb y x) eqn:E; [|reflexivity].
  apply val_eqb_eq in E. subst y.
  assert (existsb (val_eqb x) l = true) by (apply existsb_exists; exists x; split; [exact Hy | apply val_eqb_refl]).
  congruence.
Qed.

Lemma map_insert_fresh k v acc :
  existsb (fun kv => val_eqb (fst kv) k) acc = false -> map_insert k v acc = acc ++ [(k, v)].
Proof.
  induction acc as [|[k' v'] acc IH]; cbn [existsb map_insert app fst]; intros H; [reflexivity|].
  apply orb_false_iff in H as [H1 H2]. rewrite H1. f_equal. apply IH. exact H2.
Qed.

Lemma map_collect_nodup : forall items acc,
  (forall x, In x items -> exists k v, x = VNode 0 [k; v]) ->
  vals_nodup (map key_of items) = true ->
  (forall x, In x items -> existsb (fun kv => val_eqb (fst kv) (key_of x)) acc = false) ->
  map (fun kv => VNode 0 [fst kv; snd kv]) (map_collect items acc)
  = map (fun kv => VNode 0 [fst kv; snd kv]) acc ++ items.
Proof.
  induction items as [|x items IH]; intros acc Hp Hnd Hacc.
  - cbn. rewrite app_nil_r. reflexivity.
  - destruct (Hp x (or_introl eq_refl)) as (k & v & ->).
    cbn [map vals_nodup key_of] in Hnd. apply andb_true_iff in Hnd as [Hk Hnd]. apply negb_true_iff in Hk.
    cbn [map_collect pair_of].
    pose proof (Hacc _ (or_introl eq_refl)) as Hfresh. cbn [key_of] in Hfresh.
    rewrite (map_insert_fresh k v acc Hfresh).
    rewrite IH.
    + rewrite map_app. cbn [map fst snd]. rewrite <- app_assoc. reflexivity.
    + intros y Hy. apply Hp. right. exact Hy.
    + exact Hnd.
    + intros y Hy. rewrite existsb_app. rewrite (Hacc y (or_intror Hy)). cbn [existsb fst orb].
      rewrite orb_false_r.
      destruct (val_eqb k (key_of y)) eqn:E; [|reflexivity].
      apply val_eqb_eq in E.
      assert (existsb (val_eqb k) (map key_of items) = true).
      { apply existsb_exists. exists (key_of y). split; [apply in_map; exact Hy | rewrite E; apply val_eqb_refl]. }
      congruence.
Qed.

(* ---------- sequences ---------- *)
Lemma rt_items e d w nv :
  rt_pair e d w nv ->
  forall fuel vs st b st' s k,
    forallb w vs = true -> enc_items fuel e vs st = Ok (b, st') ->
    dec_known fuel d (nlen vs) (mkA (b ++ s) k st) = Ok (map nv vs, mkA s k st').
Proof.
  intros RT. induction fuel as [|fl IH]; intros vs st b st' s k Hw Henc.
  - destruct vs as [|v vs]; [|discriminate]. cbn in Henc. injection Henc as <- <-. reflexivity.
  - destruct vs as [|v vs].
    + cbn in Henc. injection Henc as <- <-. reflexivity.
    + cbn [forallb] in Hw. apply andb_true_iff in Hw as [Hv Hw].
      cbn [enc_items] in Henc.
      destruct (e v st) as [[b1 st1]| | |] eqn:E1; try discriminate. cbn [bind] in Henc.
      destruct (enc_items fl e vs st1) as [[b2 st2]| | |] eqn:E2; try discriminate.
      cbn [bind] in Henc. injection Henc as <- <-.
      cbn [dec_known nlen]. assert (N.succ (nlen vs) =? 0 = false) as -> by lia.
      rewrite <- app_assoc. rewrite (RT v st b1 st1 (b2 ++ s) k Hv E1). cbn [bind].
      replace (N.succ (nlen vs) - 1) with (nlen vs) by lia.
      rewrite (IH vs st1 b2 st2 s k Hw E2). reflexivity.
Qed.

Lemma rt_seq e d w nv :
  rt_pair e d w nv ->
  forall fuel vs st b st' s k,
    forallb w vs = true -> enc_seq fuel e vs st = Ok (b, st') ->
    dec_seq_items a_ops fuel d (mkA (b ++ s) k st) = Ok (map nv vs, mkA s k st').
Proof.
  intros RT fuel vs st b st' s k Hw Henc. unfold enc_seq in Henc.
  destruct (nlen vs <? 2 ^ 31) eqn:El; [|discriminate].
  destruct (enc_items fuel e vs st) as [[b1 st1]| | |] eqn:E1; try discriminate.
  cbn [bind] in Henc. injection Henc as <- <-.
  unfold dec_seq_items. change (d_rd a_ops) with a_reader. rewrite <- app_assoc.
  change (2 ^ 31) with 2147483648 in El.
  rewrite (a_read_var_i32 k st _ (Z.of_N (nlen vs)) (b1 ++ s))
    by (apply var_i32_roundtrip_list; change (2 ^ 31)%Z with 2147483648%Z; lia).
  assert ((Z.of_N (nlen vs) =? -1)%Z = false) as -> by lia.
  rewrite as_usize_of_N by (change (2 ^ 64) with 18446744073709551616; lia).
  apply (rt_items e d w nv RT); assumption.
Qed.

(* ---------- normv does not depend on the fuel once the value is well-formed at it ---------- *)
Lemma norm_fields_ext nv nv' w fs : forall vs,
  wf_fields w fs vs = true ->
  (forall t v, w t v = true -> nv t v = nv' t v) ->
  norm_fields nv fs vs = norm_fields nv' fs vs.
Proof.
  induction fs as [|f fs IH]; intros vs Hw Hext; [reflexivity|].
  destruct vs as [|x vs]; [reflexivity|].
  cbn [wf_fields] in Hw. apply andb_true_iff in Hw as [Hx Hw].
  cbn [norm_fields]. rewrite (IH vs Hw Hext). destruct (f_transient f); [reflexivity|].
  rewrite (Hext _ _ Hx). reflexivity.
Qed.

Lemma wf_fields_ext w w' fs : forall vs,
  wf_fields w fs vs = true -> (forall t v, w t v = true -> w' t v = true) -> wf_fields w' fs vs = true.
Proof.
  induction fs as [|f fs IH]; intros vs Hw Hext; destruct vs as [|x vs]; try discriminate; [reflexivity|].
  cbn [wf_fields] in *. apply andb_true_iff in Hw as [Hx Hw].
  rewrite (Hext _ _ Hx), (IH vs Hw Hext). reflexivity.
Qed.

Lemma map_ext_forallb {A B} (f g : A -> B) (p : A -> bool) l :
  forallb p l = true -> (forall x, p x = true -> f x = g x) -> map f l = map g l.
Proof.
  induction l as [|x l IH]; intros Hp He; [reflexivity|].
  cbn [forallb] in Hp. apply andb_true_iff in Hp as [Hx Hp].
  cbn [map]. rewrite (He x Hx), (IH Hp He). reflexivity.
Qed.

Lemma forallb_impl {A} (p q : A -> bool) l :
  forallb p l = true -> (forall x, p x = true -> q x = true) -> forallb q l = true.
Proof.
  induction l as [|x l IH]; intros Hp He; [reflexivity|].
  cbn [forallb] in *. apply andb_true_iff in Hp as [Hx Hp]. rewrite (He x Hx), (IH Hp He). reflexivity.
Qed.

