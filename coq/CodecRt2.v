(* CodecRt2.v — the fuel induction: round trip of every codec on layer A. *)
From Coq Require Import NArith ZArith List Lia Bool.
From Coq Require Import ZifyBool ZifyN ZifyNat.
From Desert Require Import Bits Outcome IO IOProofs VarintProofs Types Codec CodecWf CodecLemmas
  CodecRt RecordRt RecordChunkedSpec TotalProofs MonoProofs.
Import ListNotations.
Open Scope N_scope.

Ltac Zify.zify_post_hook ::= Z.div_mod_to_equations.

(* ---------- sets and maps: collect() of distinct elements is the identity ---------- *)
Lemma dedup_vals_nodup : forall l seen,
  vals_nodup l = true ->
  (forall x, In x l -> existsb (val_eqb x) seen = false) ->
  dedup_vals seen l = l.
Proof.
  induction l as [|x l IH]; intros seen Hnd Hs; [reflexivity|].
  cbn [vals_nodup] in Hnd. apply andb_true_iff in Hnd as [Hx Hnd]. apply negb_true_iff in Hx.
  cbn [dedup_vals]. rewrite (Hs x (or_introl eq_refl)). f_equal.
  apply IH; [exact Hnd|].
  intros y Hy. cbn [existsb]. rewrite (Hs y (or_intror Hy)), orb_false_r.
  destruct (val_eqb y x) eqn:E; [|reflexivity].
  apply val_eqb_eq in E. subst y.
  assert (existsb (val_eqb x) l = true) by (apply existsb_exists; exists x; split; [exact Hy | apply val_eqb_refl]).
  congruence.
Qed.

Lemma map_insert_fresh k v acc :
  existsb (fun kv => val_eqb (fst kv) k) acc = false -> map_insert k v acc = acc ++ [(k, v)].
Proof.
  induction acc as [|[k' v'] acc IH]; cbn [existsb map_insert app fst]; intros H; [reflexivity|].
  apply orb_false_iff in H as [H1 H2]. rewrite H1. f_equal. apply IH. exact H2.
Qed.

Lemma map_collect_nodup : forall items acc,
  (forall x, In x items -> exists k v, x = VNode 0 [k; v]) ->
  vals_nodup (map key_of items) = true ->
  (forall x, In x items -> existsb (fun kv => val_eqb (fst kv) (key_of x)) acc = false) ->
  map (fun kv => VNode 0 [fst kv; snd kv]) (map_collect items acc)
  = map (fun kv => VNode 0 [fst kv; snd kv]) acc ++ items.
Proof.
  induction items as [|x items IH]; intros acc Hp Hnd Hacc.
  - cbn. rewrite app_nil_r. reflexivity.
  - destruct (Hp x (or_introl eq_refl)) as (k & v & ->).
    cbn [map vals_nodup key_of] in Hnd. apply andb_true_iff in Hnd as [Hk Hnd]. apply negb_true_iff in Hk.
    cbn [map_collect pair_of].
    pose proof (Hacc _ (or_introl eq_refl)) as Hfresh. cbn [key_of] in Hfresh.
    rewrite (map_insert_fresh k v acc Hfresh).
    rewrite IH.
    + rewrite map_app. cbn [map fst snd]. rewrite <- app_assoc. reflexivity.
    + intros y Hy. apply Hp. right. exact Hy.
    + exact Hnd.
    + intros y Hy. rewrite existsb_app. rewrite (Hacc y (or_intror Hy)). cbn [existsb fst orb].
      rewrite orb_false_r.
      destruct (val_eqb k (key_of y)) eqn:E; [|reflexivity].
      apply val_eqb_eq in E.
      assert (existsb (val_eqb k) (map key_of items) = true).
      { apply existsb_exists. exists (key_of y). split; [apply in_map; exact Hy | rewrite E; apply val_eqb_refl]. }
      congruence.
Qed.

(* ---------- sequences ---------- *)
Lemma rt_items e d w nv :
  rt_pair e d w nv ->
  forall fuel vs st b st' s k,
    forallb w vs = true -> enc_items fuel e vs st = Ok (b, st') ->
    dec_known fuel d (nlen vs) (mkA (b ++ s) k st) = Ok (map nv vs, mkA s k st').
Proof.
  intros RT. induction fuel as [|fl IH]; intros vs st b st' s k Hw Henc.
  - destruct vs as [|v vs]; [|discriminate]. cbn in Henc. injection Henc as <- <-. reflexivity.
  - destruct vs as [|v vs].
    + cbn in Henc. injection Henc as <- <-. reflexivity.
    + cbn [forallb] in Hw. apply andb_true_iff in Hw as [Hv Hw].
      cbn [enc_items] in Henc.
      destruct (e v st) as [[b1 st1]| | |] eqn:E1; try discriminate. cbn [bind] in Henc.
      destruct (enc_items fl e vs st1) as [[b2 st2]| | |] eqn:E2; try discriminate.
      cbn [bind] in Henc. injection Henc as <- <-.
      cbn [dec_known nlen]. assert (N.succ (nlen vs) =? 0 = false) as -> by lia.
      rewrite <- app_assoc. rewrite (RT v st b1 st1 (b2 ++ s) k Hv E1). cbn [bind].
      replace (N.succ (nlen vs) - 1) with (nlen vs) by lia.
      rewrite (IH vs st1 b2 st2 s k Hw E2). reflexivity.
Qed.

Lemma rt_seq e d w nv :
  rt_pair e d w nv ->
  forall fuel vs st b st' s k,
    forallb w vs = true -> enc_seq fuel e vs st = Ok (b, st') ->
    dec_seq_items a_ops fuel d (mkA (b ++ s) k st) = Ok (map nv vs, mkA s k st').
Proof.
  intros RT fuel vs st b st' s k Hw Henc. unfold enc_seq in Henc.
  destruct (nlen vs <? 2 ^ 31) eqn:El; [|discriminate].
  destruct (enc_items fuel e vs st) as [[b1 st1]| | |] eqn:E1; try discriminate.
  cbn [bind] in Henc. injection Henc as <- <-.
  unfold dec_seq_items. change (d_rd a_ops) with a_reader. rewrite <- app_assoc.
  change (2 ^ 31) with 2147483648 in El.
  rewrite (a_read_var_i32 k st _ (Z.of_N (nlen vs)) (b1 ++ s))
    by (apply var_i32_roundtrip_list; change (2 ^ 31)%Z with 2147483648%Z; lia).
  assert ((Z.of_N (nlen vs) =? -1)%Z = false) as -> by lia.
  assert ((Z.of_N (nlen vs) <? 0)%Z = false) as -> by lia.
  rewrite as_usize_of_N by (change (2 ^ 64) with 18446744073709551616; lia).
  apply (rt_items e d w nv RT); assumption.
Qed.

(* ---------- normv does not depend on the fuel once the value is well-formed at it ---------- *)
Lemma norm_fields_ext nv nv' w fs : forall vs,
  wf_fields w fs vs = true ->
  (forall t v, w t v = true -> nv t v = nv' t v) ->
  norm_fields nv fs vs = norm_fields nv' fs vs.
Proof.
  induction fs as [|f fs IH]; intros vs Hw Hext; [reflexivity|].
  destruct vs as [|x vs]; [reflexivity|].
  cbn [wf_fields] in Hw. apply andb_true_iff in Hw as [Hx Hw].
  cbn [norm_fields]. rewrite (IH vs Hw Hext). destruct (f_transient f); [reflexivity|].
  rewrite (Hext _ _ Hx). reflexivity.
Qed.

Lemma wf_fields_ext w w' fs : forall vs,
  wf_fields w fs vs = true -> (forall t v, w t v = true -> w' t v = true) -> wf_fields w' fs vs = true.
Proof.
  induction fs as [|f fs IH]; intros vs Hw Hext; destruct vs as [|x vs]; try discriminate; [reflexivity|].
  cbn [wf_fields] in *. apply andb_true_iff in Hw as [Hx Hw].
  rewrite (Hext _ _ Hx), (IH vs Hw Hext). reflexivity.
Qed.

Lemma map_ext_forallb {A B} (f g : A -> B) (p : A -> bool) l :
  forallb p l = true -> (forall x, p x = true -> f x = g x) -> map f l = map g l.
Proof.
  induction l as [|x l IH]; intros Hp He; [reflexivity|].
  cbn [forallb] in Hp. apply andb_true_iff in Hp as [Hx Hp].
  cbn [map]. rewrite (He x Hx), (IH Hp He). reflexivity.
Qed.

Lemma forallb_impl {A} (p q : A -> bool) l :
  forallb p l = true -> (forall x, p x = true -> q x = true) -> forallb q l = true.
Proof.
  induction l as [|x l IH]; intros Hp He; [reflexivity|].
  cbn [forallb] in *. apply andb_true_iff in Hp as [Hx Hp]. rewrite (He x Hx), (IH Hp He). reflexivity.
Qed.


(* ================================================================== *)
(* the enum case list *)
Lemma case_index_ge cs tag : forall i idx var, case_index cs tag i = Some (idx, var) -> i <= idx.
Proof.
  induction cs as [|[d v] cs IH]; intros i idx var H; cbn [case_index] in H; [discriminate|].
  destruct (d =? tag).
  - injection H as <- _. lia.
  - apply IH in H. lia.
Qed.

Lemma case_index_In cs tag : forall i idx var, case_index cs tag i = Some (idx, var) -> In (tag, var) cs.
Proof.
  induction cs as [|[d v] cs IH]; intros i idx var H; cbn [case_index] in H; [discriminate|].
  destruct (d =? tag) eqn:Ed.
  - injection H as _ <-. apply N.eqb_eq in Ed. subst d. left. reflexivity.
  - right. eapply IH. exact H.
Qed.

Lemma number_from_nth {A} (l : list A) : forall i d x,
  In (d, x) (number_from i l) -> i <= d /\ nth_error l (N.to_nat (d - i)) = Some x.
Proof.
  induction l as [|y l IH]; intros i d x H; cbn [number_from] in H; [destruct H|].
  destruct H as [H|H].
  - injection H as <- <-. split; [lia|]. rewrite N.sub_diag. reflexivity.
  - apply IH in H as [H1 H2]. split; [lia|].
    replace (N.to_nat (d - i)) with (Datatypes.S (N.to_nat (d - (i + 1)))) by lia. exact H2.
Qed.

Lemma cases_of_nth m tag var :
  In (tag, var) (cases_of m) -> nth_error (e_variants m) (N.to_nat tag) = Some var.
Proof.
  unfold cases_of. intros H.
  assert (H': In (tag, var) (number_from 0 (e_variants m))).
  { destruct (e_sorted m); [apply sort_variants_In|]; exact H. }
  apply number_from_nth in H' as [_ H']. rewrite N.sub_0_r in H'. exact H'.
Qed.

Lemma case_index_nth m tag idx var :
  case_index (cases_of m) tag 0 = Some (idx, var) ->
  nth_error (e_variants m) (N.to_nat tag) = Some var.
Proof. intros H. apply cases_of_nth. eapply case_index_In. exact H. Qed.

(* ================================================================== *)
(* normv at the fuel at which the encoder succeeds is already the final normal form *)
Lemma enc_fields_v0_norm_ext encf nv nv' :
  (forall t v st r, encf t v st = Ok r -> nv t v = nv' t v) ->
  forall fs vs st r, enc_fields_v0 encf fs vs st = Ok r ->
    norm_fields nv fs vs = norm_fields nv' fs vs.
Proof.
  intros H. induction fs as [|f fs IH]; intros vs st r He; destruct vs as [|x vs]; try reflexivity.
  cbn [enc_fields_v0] in He. cbn [norm_fields].
  destruct (f_transient f).
  - f_equal. eapply IH; eassumption.
  - destruct (encf (f_ty f) x st) as [[b1 st1]| | |] eqn:E1; try discriminate. cbn [bind] in He.
    destruct (enc_fields_v0 encf fs vs st1) as [[b2 st2]| | |] eqn:E2; try discriminate.
    f_equal; [eapply H; eassumption | eapply IH; eassumption].
Qed.

Lemma enc_fields_chunked_norm_ext encf nv nv' steps :
  (forall t v st r, encf t v st = Ok r -> nv t v = nv' t v) ->
  forall fs vs ss st r, enc_fields_chunked encf steps fs vs ss st = Ok r ->
    norm_fields nv fs vs = norm_fields nv' fs vs.
Proof.
  intros H. induction fs as [|f fs IH]; intros vs ss st r He; destruct vs as [|x vs]; try reflexivity.
  cbn [enc_fields_chunked] in He. cbn [norm_fields].
  destruct (f_transient f).
  - f_equal. eapply IH; eassumption.
  - destruct (encf (f_ty f) x st) as [[b1 st1]| | |] eqn:E1; try discriminate. cbn [bind] in He.
    destruct (app_nth _ _ _) as [chunks|]; [|discriminate].
    destruct (ser_record_index _ _ _) as [ss1| | |]; try discriminate. cbn [bind] in He.
    f_equal; [eapply H; eassumption | eapply IH; eassumption].
Qed.

Lemma enc_record_norm_ext encf nv nv' :
  (forall t v st r, encf t v st = Ok r -> nv t v = nv' t v) ->
  forall m vs st r, enc_record encf m vs st = Ok r ->
    norm_fields nv (r_fields m) vs = norm_fields nv' (r_fields m) vs.
Proof.
  intros H m vs st r He. unfold enc_record in He. destruct (r_steps m) as [|s0 steps] eqn:Es.
  - destruct (enc_fields_v0 encf (r_fields m) vs st) as [[b1 st1]| | |] eqn:E1; try discriminate.
    eapply enc_fields_v0_norm_ext; eassumption.
  - destruct (255 <=? _); [discriminate|].
    destruct (prerender_names _ _ _) as [[pre st1]| | |]; try discriminate. cbn [bind] in He.
    destruct (enc_fields_chunked _ _ _ _ _ _) as [[ss st2]| | |] eqn:E2; try discriminate.
    eapply enc_fields_chunked_norm_ext; eassumption.
Qed.

Lemma enc_items_each (e : encoder) : forall fuel vs st r,
  enc_items fuel e vs st = Ok r -> forall x, In x vs -> exists st1 r1, e x st1 = Ok r1.
Proof.
  induction fuel as [|fl IH]; intros vs st r He x Hx; destruct vs as [|v vs]; try destruct Hx; try discriminate.
  - subst v. cbn [enc_items] in He. destruct (e x st) as [[b1 st1]| | |] eqn:E1; try discriminate. eauto.
  - cbn [enc_items] in He. destruct (e v st) as [[b1 st1]| | |] eqn:E1; try discriminate. cbn [bind] in He.
    destruct (enc_items fl e vs st1) as [[b2 st2]| | |] eqn:E2; try discriminate.
    eapply IH; eassumption.
Qed.

Lemma enc_seq_each (e : encoder) fuel vs st r :
  enc_seq fuel e vs st = Ok r -> forall x, In x vs -> exists st1 r1, e x st1 = Ok r1.
Proof.
  unfold enc_seq. destruct (nlen vs <? 2 ^ 31); [|discriminate].
  destruct (enc_items fuel e vs st) as [[b1 st1]| | |] eqn:E1; try discriminate.
  intros _. eapply enc_items_each. exact E1.
Qed.

Lemma map_ext_In' {A B} (f g : A -> B) l : (forall x, In x l -> f x = g x) -> map f l = map g l.
Proof. intros H. apply map_ext_in. exact H. Qed.

Lemma normv_named g E n tag vs :
  normv (S g) E (TNamed n) (VNode tag vs) =
  match lookup_decl E n with
  | None => VNode tag vs
  | Some d =>
      match d_body d with
      | DRecord m => VNode tag (norm_fields (normv g E) (r_fields m) vs)
      | DEnum m =>
          match nth_error (e_variants m) (N.to_nat tag) with
          | Some var => VNode tag (norm_fields (normv g E) (r_fields (v_rec var)) vs)
          | None => VNode tag vs
          end
      end
  end.
Proof. reflexivity. Qed.

Lemma normv_tuple g E ts vs :
  normv (S g) E (TTuple ts) (VNode 0 vs) = VNode 0 (norm_fields (normv g E) (r_fields (tuple_meta ts)) vs).
Proof. reflexivity. Qed.

Lemma normv_seq g E k e vs :
  normv (S g) E (TSeq k e) (VNode 0 vs) =
  if byte_path k e then VNode 0 vs else VNode 0 (map (normv g E e) vs).
Proof. reflexivity. Qed.

Lemma normv_map g E mk kt vt vs :
  normv (S g) E (TMap mk kt vt) (VNode 0 vs) = VNode 0 (map (normv g E (TTuple [kt; vt])) vs).
Proof. reflexivity. Qed.

Lemma normv_wrap g E wk t v : normv (S g) E (TWrap wk t) v = normv g E t v.
Proof. reflexivity. Qed.

Lemma norm_stable_S : forall g E t v st r,
  enc g E t v st = Ok r -> normv (S g) E t v = normv g E t v.
Proof.
  induction g as [|g IH]; intros E t v st r He; [cbn [enc] in He; discriminate|].
  assert (IH' : forall t v st r, enc g E t v st = Ok r -> normv (S g) E t v = normv g E t v)
    by (intros; eapply IH; eassumption).
  destruct t as [p|t'|tr te|ts|k e|mk kt vt|wk t'| |n].
  - destruct v; reflexivity.
  - destruct v as [| | |tag vs]; try reflexivity.
    destruct tag as [|[p|p|]]; try reflexivity.
    destruct vs as [|x [|y vs]]; try reflexivity.
    cbn [enc] in He. destruct (enc g E t' x st) as [[b1 st1]| | |] eqn:E1; try discriminate.
    change (normv (S (S g)) E (TOption t') (VNode 1 [x])) with (VNode 1 [normv (S g) E t' x]).
    change (normv (S g) E (TOption t') (VNode 1 [x])) with (VNode 1 [normv g E t' x]).
    erewrite IH' by eassumption. reflexivity.
  - destruct v as [| | |tag vs]; try reflexivity.
    destruct tag as [|[p|p|]]; try reflexivity;
    destruct vs as [|x [|y vs]]; try reflexivity; cbn [enc] in He.
    + destruct (enc g E te x st) as [[b1 st1]| | |] eqn:E1; try discriminate.
      change (normv (S (S g)) E (TResult tr te) (VNode 0 [x])) with (VNode 0 [normv (S g) E te x]).
      change (normv (S g) E (TResult tr te) (VNode 0 [x])) with (VNode 0 [normv g E te x]).
      erewrite IH' by eassumption. reflexivity.
    + destruct (enc g E tr x st) as [[b1 st1]| | |] eqn:E1; try discriminate.
      change (normv (S (S g)) E (TResult tr te) (VNode 1 [x])) with (VNode 1 [normv (S g) E tr x]).
      change (normv (S g) E (TResult tr te) (VNode 1 [x])) with (VNode 1 [normv g E tr x]).
      erewrite IH' by eassumption. reflexivity.
  - destruct v as [| | |tag vs]; try reflexivity.
    destruct tag as [|p]; [|reflexivity].
    cbn [enc] in He. rewrite !normv_tuple. f_equal.
    eapply enc_record_norm_ext; [|exact He]. intros; eapply IH'; eassumption.
  - destruct v as [| | |tag vs]; try reflexivity.
    destruct tag as [|p]; [|reflexivity].
    rewrite !normv_seq. cbn [enc] in He. destruct (byte_path k e); [reflexivity|].
    f_equal. apply map_ext_in. intros x Hx.
    destruct (enc_seq_each _ _ _ _ _ He x Hx) as (st1 & r1 & H1). eapply IH'; exact H1.
  - destruct v as [| | |tag vs]; try reflexivity.
    destruct tag as [|p]; [|reflexivity].
    rewrite !normv_map. cbn [enc] in He.
    f_equal. apply map_ext_in. intros x Hx.
    destruct (enc_seq_each _ _ _ _ _ He x Hx) as (st1 & r1 & H1). eapply IH'; exact H1.
  - rewrite !normv_wrap. cbn [enc] in He. eapply IH'; exact He.
  - destruct v; reflexivity.
  - destruct v as [| | |tag vs]; try reflexivity.
    rewrite !normv_named. cbn [enc] in He.
    destruct (lookup_decl E n) as [d|]; [|reflexivity].
    destruct (d_body d) as [m|m].
    + destruct tag as [|p]; [|discriminate]. f_equal.
      eapply enc_record_norm_ext; [|exact He]. intros; eapply IH'; eassumption.
    + unfold enc_enum in He.
      destruct (case_index (cases_of m) tag 0) as [[idx var]|] eqn:Eci; [|discriminate].
      destruct (v_transient var); [discriminate|].
      destruct (2 ^ 32 <=? idx); [discriminate|].
      destruct (enc_record (enc g E) (v_rec var) vs st) as [[b1 st1]| | |] eqn:Er; try discriminate.
      rewrite (case_index_nth _ _ _ _ Eci). f_equal.
      eapply enc_record_norm_ext; [|exact Er]. intros; eapply IH'; eassumption.
Qed.

Lemma norm_stable : forall g g' E t v st r,
  (g <= g')%nat -> enc g E t v st = Ok r -> normv g' E t v = normv g E t v.
Proof.
  intros g g' E t v st [b st'] Hle He. induction Hle as [|g' Hle IH]; [reflexivity|].
  rewrite <- IH. eapply norm_stable_S. eapply enc_mono_ok; [exact Hle | exact He].
Qed.

(* ================================================================== *)
(* tuples are records without evolution steps *)
Lemma tuple_names_fresh ts : forall i j, j < i ->
  existsb (bytes_eqb (tuple_field_name j)) (map f_name (tuple_fields ts i)) = false.
Proof.
  induction ts as [|t ts IH]; intros i j Hj; cbn [tuple_fields map existsb f_name]; [reflexivity|].
  rewrite (IH (i + 1) j) by lia. rewrite orb_false_r. apply bytes_eqb_neq.
  unfold tuple_field_name. intros H. assert (H2 : 48 + j = 48 + i) by congruence. lia.
Qed.

Lemma tuple_names_nodup ts : forall i, names_nodup (map f_name (tuple_fields ts i)) = true.
Proof.
  induction ts as [|t ts IH]; intros i; cbn [tuple_fields map names_nodup f_name]; [reflexivity|].
  rewrite tuple_names_fresh by lia. rewrite IH. reflexivity.
Qed.

Lemma tuple_fields_wf E ts : forall i,
  forallb (wf_ty E) ts = true -> forallb (wf_field E []) (tuple_fields ts i) = true.
Proof.
  induction ts as [|t ts IH]; intros i H; cbn [tuple_fields forallb] in *; [reflexivity|].
  apply andb_true_iff in H as [H1 H2]. rewrite IH by exact H2.
  unfold wf_field.
  cbn [f_ty f_opt f_transient f_name in_removed existsb made_optional_at last_index_where is_some negb orb andb].
  rewrite H1. reflexivity.
Qed.

Lemma tuple_meta_wf E ts : wf_ty E (TTuple ts) = true -> wf_rmeta E (tuple_meta ts) = true.
Proof.
  cbn [wf_ty]. intros H. apply andb_true_iff in H as [H H3]. apply andb_true_iff in H as [H1 H2].
  unfold wf_rmeta, tuple_meta. cbn [r_steps r_fields].
  rewrite tuple_names_nodup, tuple_fields_wf by exact H3. rewrite !andb_true_r.
  apply andb_true_iff; split; [reflexivity|].
  rewrite nlen_length, tuple_fields_length. rewrite nlen_length in H2. lia.
Qed.

Lemma nlen_map {A B} (f : A -> B) l : nlen (map f l) = nlen l.
Proof. rewrite !nlen_length, map_length. reflexivity. Qed.

(* ================================================================== *)
(* enums: the chain of read_constructor attempts finds the encoded case *)
Lemma read_cases_rt (decf : ty -> adecoder) tyname tag idx var k st rest vs' sfin :
  idx < 2 ^ 32 ->
  v_transient var = false ->
  dec_record a_ops decf (v_rec var) (mkA rest k st) = Ok (VNode 0 vs', sfin) ->
  forall cs i (ad : @adt_de bytes) s1,
    case_index cs tag i = Some (idx, var) ->
    ad_inputs ad = [] ->
    ((ad_ctor ad = None /\ s1 = mkA (write_var_u32 idx ++ rest) k st) \/
     (ad_ctor ad = Some idx /\ s1 = mkA rest k st)) ->
    read_cases a_ops decf tyname cs i ad s1 = Ok (VNode tag vs', sfin).
Proof.
  intros Hidx Htr Hdec. induction cs as [|[d v] cs IH]; intros i ad s1 Hci Hin Hst; [discriminate|].
  cbn [read_cases case_index] in *.
  assert (Hrc: exists ad', read_ctor_idx a_ops ad s1 = Ok (idx, ad', mkA rest k st)
                           /\ ad_inputs ad' = [] /\ ad_ctor ad' = Some idx).
  { unfold read_ctor_idx, in_chunk. destruct Hst as [[Hc ->]|[Hc ->]]; rewrite Hc.
    - rewrite Hin. cbn [a_ops d_rd].
      rewrite (a_read_var_u32 k st _ idx rest) by (apply var_u32_roundtrip_list; exact Hidx).
      cbn [bind]. eexists; split; [reflexivity|]. cbn [ad_inputs ad_ctor]. auto.
    - eexists; split; [reflexivity|auto]. }
  destruct Hrc as (ad' & -> & Hin' & Hc'). cbn [bind].
  destruct (d =? tag) eqn:Ed.
  - injection Hci as Hi Hv. subst i v. rewrite N.eqb_refl. rewrite Htr.
    unfold in_chunk. rewrite Hin'. rewrite Hdec. cbn [bind].
    apply N.eqb_eq in Ed. subst d. reflexivity.
  - pose proof (case_index_ge _ _ _ _ _ Hci) as Hge.
    assert (idx =? i = false) as -> by lia.
    apply IH; auto.
Qed.

(* ================================================================== *)
(* the fuel induction *)
Definition wf_env_rt (E : env) : bool :=
  forallb (fun d => match d_body d with
                    | DRecord m => wf_rmeta_rt m
                    | DEnum m => forallb (fun v => wf_rmeta_rt (v_rec v)) (e_variants m)
                    end) E.

Section RT.
  Hypothesis CH : rt_record_chunked_stmt.
  Variable E : env.
  Hypothesis HE : wf_env E = true.
  Hypothesis HErt : wf_env_rt E = true.

  (* the value may be well-formed at a larger fuel than the one the encoder is run with:
     wf_val's map clause checks the components of a pair at the fuel at which the encoder
     sees the pair itself *)
  Definition RT (g : nat) : Prop := forall f t v st b st' s k,
    (g <= f)%nat -> wf_ty E t = true -> wf_val f E t v = true ->
    enc g E t v st = Ok (b, st') ->
    dec a_ops g E t (mkA (b ++ s) k st) = Ok (normv g E t v, mkA s k st').

  Lemma FO g f : (g <= f)%nat -> (forall g0, (g0 <= g)%nat -> RT g0) ->
    RecordRt.fields_ok E (enc g E) (dec a_ops g E) (wf_val f E) (normv g E).
  Proof.
    intros Hle HRT. split.
    - intros t Ht v st b st' s k Hw He. eapply (HRT g (le_n _)); eassumption.
    - intros t' Ht' v st b st' s k Hw He.
      destruct g as [|g]; [cbn [enc] in He; discriminate|].
      destruct f as [|f]; [cbn [wf_val] in Hw; discriminate|].
      cbn [enc] in He. cbn [wf_val] in Hw.
      destruct v as [| | |tag vs]; try discriminate.
      destruct tag as [|[p|p|]]; try discriminate; destruct vs as [|x [|y vs]]; try discriminate.
      + left. apply ok_pair_inj in He as [<- <-]. split; [reflexivity|]. split; [reflexivity|].
        split; reflexivity.
      + right. destruct (enc g E t' x st) as [[b1 st1]| | |] eqn:E1; try discriminate. cbn [bind] in He.
        apply ok_pair_inj in He as [<- <-]. exists x, b1.
        assert (Hn: normv (S g) E t' x = normv g E t' x) by (eapply norm_stable_S; exact E1).
        split; [reflexivity|]. split; [reflexivity|]. split.
        * change (normv (S g) E (TOption t') (VNode 1 [x])) with (VSome (normv g E t' x)).
          rewrite Hn. reflexivity.
        * rewrite Hn. apply dec_mono_ok with (f := g); [lia|].
          eapply (HRT g); try eassumption; lia.
  Qed.

  Lemma decl_wf n d : lookup_decl E n = Some d ->
    wf_decl E d = true /\
    match d_body d with
    | DRecord m => wf_rmeta_rt m
    | DEnum m => forallb (fun v => wf_rmeta_rt (v_rec v)) (e_variants m)
    end = true.
  Proof.
    unfold lookup_decl. intros H. apply nth_error_In in H. split.
    - unfold wf_env in HE. rewrite forallb_forall in HE. apply HE. exact H.
    - unfold wf_env_rt in HErt. rewrite forallb_forall in HErt. apply (HErt d H).
  Qed.

  Lemma rt_record_any g f m vs st b st' s k :
    (g <= f)%nat -> (forall g0, (g0 <= g)%nat -> RT g0) ->
    wf_rmeta E m = true -> wf_rmeta_rt m = true ->
    wf_fields (wf_val f E) (r_fields m) vs = true ->
    enc_record (enc g E) m vs st = Ok (b, st') ->
    dec_record a_ops (dec a_ops g E) m (mkA (b ++ s) k st)
    = Ok (VNode 0 (norm_fields (normv g E) (r_fields m) vs), mkA s k st').
  Proof.
    intros Hle HRT Hm Hmrt Hw He. pose proof (FO g f Hle HRT) as HFO.
    destruct (r_steps m) as [|s0 ss] eqn:Es.
    - eapply rt_record_v0; [exact HFO | exact Es | exact Hm | exact Hw | exact He].
    - eapply CH; [exact HFO | rewrite Es; discriminate | exact Hm | exact Hmrt | exact Hw | exact He].
  Qed.

  Lemma RT_all : forall n g, (g <= n)%nat -> RT g.
  Proof.
    induction n as [|n IHn]; intros g Hg.
    - assert (g = 0%nat) as -> by lia. intros f t v st b st' s k _ _ _ He. cbn [enc] in He. discriminate.
    - destruct (Nat.eq_dec g (S n)) as [->|Hne]; [|apply IHn; lia].
      intros f t v st b st' s k Hle Hty Hwf He.
      destruct f as [|f]; [lia|]. assert (Hle' : (n <= f)%nat) by lia.
      pose proof (FO n f Hle' IHn) as HFO.
      assert (RTn : RT n) by (apply IHn; lia).
      destruct t as [p|t'|tr te|ts|sk e|mk kt vt|wk t'| |nn].
      + (* prim *)
        cbn [enc] in He. cbn [wf_val] in Hwf. cbn [dec].
        replace (normv (S n) E (TPrim p) v) with v by (destruct v; reflexivity).
        apply rt_prim; assumption.
      + (* option *)
        cbn [wf_ty] in Hty. cbn [enc] in He. cbn [wf_val] in Hwf.
        destruct v as [| | |tag vs]; try discriminate.
        destruct tag as [|[p|p|]]; try discriminate; destruct vs as [|x [|y vs]]; try discriminate.
        * apply ok_pair_inj in He as [<- <-]. cbn [dec app a_ops d_rd]. rewrite a_r_u8.
          cbn [bind N.eqb]. reflexivity.
        * destruct (enc n E t' x st) as [[b1 st1]| | |] eqn:E1; try discriminate. cbn [bind] in He.
          apply ok_pair_inj in He as [<- <-]. cbn [dec app a_ops d_rd]. rewrite a_r_u8.
          cbn [bind N.eqb Pos.eqb].
          rewrite (RTn f t' x st b1 st1 s k Hle' Hty Hwf E1). cbn [bind]. reflexivity.
      + (* result *)
        cbn [wf_ty] in Hty. apply andb_true_iff in Hty as [Htr Hte].
        cbn [enc] in He. cbn [wf_val] in Hwf.
        destruct v as [| | |tag vs]; try discriminate.
        destruct tag as [|[p|p|]]; try discriminate; destruct vs as [|x [|y vs]]; try discriminate.
        * destruct (enc n E te x st) as [[b1 st1]| | |] eqn:E1; try discriminate. cbn [bind] in He.
          apply ok_pair_inj in He as [<- <-]. cbn [dec app a_ops d_rd]. rewrite a_r_u8.
          cbn [bind N.eqb].
          rewrite (RTn f te x st b1 st1 s k Hle' Hte Hwf E1). cbn [bind]. reflexivity.
        * destruct (enc n E tr x st) as [[b1 st1]| | |] eqn:E1; try discriminate. cbn [bind] in He.
          apply ok_pair_inj in He as [<- <-]. cbn [dec app a_ops d_rd]. rewrite a_r_u8.
          cbn [bind N.eqb Pos.eqb].
          rewrite (RTn f tr x st b1 st1 s k Hle' Htr Hwf E1). cbn [bind]. reflexivity.
      + (* tuple *)
        cbn [enc] in He. cbn [wf_val] in Hwf.
        destruct v as [| | |tag vs]; try discriminate. destruct tag as [|p]; [|discriminate].
        cbn [dec]. rewrite normv_tuple.
        eapply rt_record_v0; [exact HFO | reflexivity | apply tuple_meta_wf; exact Hty | exact Hwf | exact He].
      + (* sequences *)
        cbn [wf_ty] in Hty. cbn [enc] in He. cbn [wf_val] in Hwf. cbn [dec].
        destruct (byte_path sk e) eqn:Ebp.
        * destruct v as [| |bs|]; try discriminate.
          rewrite (rt_bytes _ _ _ _ s k He). cbn [bind].
          change (normv (S n) E (TSeq sk e) (VB bs)) with (VB bs).
          destruct sk; try reflexivity. rewrite Hwf. reflexivity.
        * destruct v as [| | |tag vs]; try discriminate. destruct tag as [|p]; [|discriminate].
          apply andb_true_iff in Hwf as [Hall Hk]. rewrite normv_seq, Ebp.
          assert (Hrt : rt_pair (enc n E e) (dec a_ops n E e) (wf_val f E e) (normv n E e)).
          { intros v0 st0 b0 st0' s0 k0 Hw0 He0. eapply (RTn f); eassumption. }
          rewrite (rt_seq _ _ _ _ Hrt n vs st b st' s k Hall He). cbn [bind].
          assert (Hm: map (normv n E e) vs = map (normv f E e) vs).
          { apply map_ext_in. intros x Hx.
            destruct (enc_seq_each _ _ _ _ _ He x Hx) as (st1 & r1 & H1).
            symmetry. eapply norm_stable; [exact Hle' | exact H1]. }
          destruct sk; cbn [collect bind]; try reflexivity.
          -- rewrite dedup_vals_nodup; [reflexivity | rewrite Hm; exact Hk | intros; reflexivity].
          -- rewrite dedup_vals_nodup; [reflexivity | rewrite Hm; exact Hk | intros; reflexivity].
          -- rewrite nlen_map, Hk. reflexivity.
      + (* maps *)
        cbn [wf_ty] in Hty. cbn [enc] in He. cbn [wf_val] in Hwf. cbn [dec].
        destruct v as [| | |tag vs]; try discriminate. destruct tag as [|p]; [|discriminate].
        apply andb_true_iff in Hwf as [Hall Hk]. rewrite normv_map.
        assert (Htt : wf_ty E (TTuple [kt; vt]) = true).
        { apply andb_true_iff in Hty as [H1 H2]. cbn [wf_ty forallb]. rewrite H1, H2. reflexivity. }
        assert (Hrt : rt_pair (enc n E (TTuple [kt; vt])) (dec a_ops n E (TTuple [kt; vt]))
                              (wf_val (S f) E (TTuple [kt; vt])) (normv n E (TTuple [kt; vt]))).
        { intros v0 st0 b0 st0' s0 k0 Hw0 He0. eapply (RTn (S f)); try eassumption. lia. }
        assert (Hshape : forall kv, In kv vs -> exists k0 x0, kv = VNode 0 [k0; x0]).
        { rewrite forallb_forall in Hall. intros kv Hkv. specialize (Hall kv Hkv).
          destruct kv as [| | |tag l]; try discriminate. destruct tag as [|p]; [|discriminate].
          destruct l as [|k0 [|x0 [|z l]]]; try discriminate. eauto. }
        assert (Hall' : forallb (wf_val (S f) E (TTuple [kt; vt])) vs = true).
        { apply forallb_forall. intros kv Hkv. destruct (Hshape kv Hkv) as (k0 & x0 & ->).
          rewrite forallb_forall in Hall. specialize (Hall _ Hkv). cbv beta iota in Hall.
          apply andb_true_iff in Hall as [H1 H2].
          cbn [wf_val tuple_meta tuple_fields r_fields wf_fields f_ty]. rewrite H1, H2. reflexivity. }
        rewrite (rt_seq _ _ _ _ Hrt n vs st b st' s k Hall' He). cbn [bind].
        rewrite map_collect_nodup; [reflexivity | | | intros; reflexivity].
        * intros y Hy. apply in_map_iff in Hy as (kv & <- & Hkv).
          destruct (Hshape kv Hkv) as (k0 & x0 & ->).
          destruct n as [|n']; [cbn [normv]; eauto|].
          rewrite normv_tuple. cbn [tuple_meta tuple_fields r_fields norm_fields f_transient f_ty]. eauto.
        * rewrite map_map.
          rewrite (map_ext_in _ (fun kv => key_of (normv f E (TTuple [kt; vt]) kv))); [exact Hk|].
          intros kv Hkv. destruct (enc_seq_each _ _ _ _ _ He kv Hkv) as (st1 & r1 & H1).
          f_equal. symmetry. eapply norm_stable; [exact Hle' | exact H1].
      + (* wrappers *)
        cbn [wf_ty] in Hty. cbn [enc] in He. cbn [wf_val] in Hwf. cbn [dec]. rewrite normv_wrap.
        eapply (RTn f); eassumption.
      + (* PhantomData *)
        cbn [enc] in He. destruct v as [| | |tag vs]; try discriminate.
        destruct tag as [|p]; [|discriminate]. destruct vs; [|discriminate].
        apply ok_pair_inj in He as [<- <-]. reflexivity.
      + (* declared types *)
        cbn [enc] in He. cbn [wf_val] in Hwf. cbn [dec].
        destruct (lookup_decl E nn) as [d|] eqn:El; [|discriminate].
        destruct (decl_wf nn d El) as [Hd Hdrt]. unfold wf_decl in Hd.
        destruct (d_body d) as [m|m] eqn:Eb.
        * destruct v as [| | |tag vs]; try discriminate. destruct tag as [|p]; [|discriminate].
          rewrite normv_named, El, Eb.
          eapply rt_record_any; [exact Hle' | exact IHn | exact Hd | exact Hdrt | exact Hwf | exact He].
        * destruct v as [| | |tag vs]; try discriminate.
          unfold enc_enum in He.
          destruct (case_index (cases_of m) tag 0) as [[idx var]|] eqn:Eci; [|discriminate].
          destruct (v_transient var) eqn:Etr; [discriminate|].
          destruct (2 ^ 32 <=? idx) eqn:Eidx; [discriminate|].
          destruct (enc_record (enc n E) (v_rec var) vs st) as [[b1 st1]| | |] eqn:Er; try discriminate.
          cbn [bind] in He. apply ok_pair_inj in He as [<- <-].
          pose proof (case_index_nth _ _ _ _ Eci) as Hnth. rewrite Hnth in Hwf.
          pose proof (nth_error_In _ _ Hnth) as Hin.
          rewrite forallb_forall in Hd. specialize (Hd var Hin).
          rewrite forallb_forall in Hdrt. specialize (Hdrt var Hin).
          pose proof (rt_record_any n f (v_rec var) vs st b1 st1 s k Hle' IHn Hd Hdrt Hwf Er) as Hdr.
          unfold dec_enum, ad_open.
          change ((0 :: write_var_u32 idx ++ b1) ++ s) with (0 :: (write_var_u32 idx ++ b1) ++ s).
          cbn [a_ops d_rd]. rewrite a_r_u8. cbn [bind N.eqb]. rewrite <- app_assoc.
          erewrite read_cases_rt;
            [ | | exact Etr | exact Hdr | exact Eci | reflexivity | left; split; reflexivity ]; [|lia].
          rewrite normv_named, El, Eb, Hnth. reflexivity.
  Qed.
End RT.

Theorem roundtrip_A : rt_record_chunked_stmt ->
  forall f E t v st b st' s k,
    wf_env E = true -> wf_env_rt E = true -> wf_ty E t = true -> wf_val f E t v = true ->
    enc f E t v st = Ok (b, st') ->
    dec a_ops f E t (mkA (b ++ s) k st) = Ok (normv f E t v, mkA s k st').
Proof.
  intros CH f E t v st b st' s k HE HErt Hty Hwf He.
  eapply (RT_all CH E HE HErt f f (le_n _) f); try eassumption. lia.
Qed.

Print Assumptions roundtrip_A.
